package p07

import (
	"encoding/json"
	"fmt"
	"sort"
	"strings"

	"github.com/nyaruka/goflow/excellent/types"
	"github.com/nyaruka/goflow/flows"
	"github.com/nyaruka/goflow/utils"

	"verif/internal/drive"
	"verif/internal/fw"
	"verif/internal/gen"
)

// C18 — localized text is chosen by the documented language fallback.

type c18 struct{}

func init() { fw.Register(&c18{}) }

func (p *c18) ID() string { return "C18" }

var langUniverse = []string{"eng", "spa", "fra", "kin"}

// translation states of one (language, item, property)
const (
	stAbsent  = iota // no entry
	stEmpty          // []
	stBlank          // [""]
	stSame           // same length as the base
	stVariant        // lists: shorter; message text: ["", "pad"] (text-less); category names: identical to the base name
	stLonger         // longer than the base
	// multi-element / whitespace translations with empty elements: all of them are NON-empty translations by the statement
	// (only absent, [] and [""] are empty), so the language that has one wins; what evaluation then does with the empty
	// elements (empty quick replies and invalid attachments are dropped with an error event, an empty text is an empty
	// text, a translation of another length than the base arguments is ignored) is applied afterwards.
	stAllEmpty2  // ["", ""]
	stAllEmpty3  // ["", "", ""]
	stEmptyFirst // ["", x]
	stEmptyLast  // [x, ""]
	stSpace      // [" "]
	stSpaceMix   // ["", " "]
	numStates
)

// the first numOldStates states span the exhaustive grid; the others are covered by the second (smaller) grid and by random points
const numOldStates = stLonger + 1

var stateNames = []string{"absent", "empty-list", "blank", "same", "variant", "longer", "all-empty-2", "all-empty-3", "empty-first", "empty-last", "space", "empty-and-space"}

var c18NewStates = []int{stAllEmpty2, stAllEmpty3, stEmptyFirst, stEmptyLast, stSpace, stSpaceMix}

// states of the other two non-base languages in the second grid
var c18OtherPairs = [][2]int{{stAbsent, stAbsent}, {stAbsent, stSame}, {stSame, stAbsent}, {stSame, stSame}}

// items of the scenario that carry localizable properties
const (
	itM1Text = iota
	itM1Att
	itM1QR
	itM2Text
	itM2Att
	itM2QR
	itSetCategory
	itR1CatA
	itR1CatB
	itR1CatOther
	itR1Case1
	itR1Case2
	itR2CatA
	itR2CatOther
	itR2Case1
	numItems
)

var itemNames = []string{"m1.text", "m1.attachments", "m1.quick_replies", "m2.text", "m2.attachments", "m2.quick_replies", "set_run_result.category",
	"r1.cat_a.name", "r1.cat_b.name", "r1.cat_other.name", "r1.case1.arguments", "r1.case2.arguments", "r2.cat_a.name", "r2.cat_other.name", "r2.case1.arguments"}

var itemProps = [numItems]string{"text", "attachments", "quick_replies", "text", "attachments", "quick_replies", "category", "name", "name", "name", "arguments", "arguments", "name", "name", "arguments"}

// property class of an item (for counters and signatures)
func itemClass(it int) string {
	switch it {
	case itM1Text, itM2Text, itSayText:
		return "msg.text"
	case itSayAudio:
		return "ivr.audio_url"
	case itM1Att, itM2Att:
		return "msg.attachments"
	case itM1QR, itM2QR:
		return "msg.quick_replies"
	case itSetCategory:
		return "set_run_result.category"
	case itR1Case1, itR1Case2, itR2Case1:
		return "case.arguments"
	}
	return "category.name"
}

type c18Config struct {
	Base    string                   `json:"base_language"`
	Allowed []string                 `json:"allowed_languages"`
	Contact string                   `json:"contact_language"` // "" = unset
	States  [numItems]map[string]int `json:"-"`
	L0      string                   `json:"selector_language"`
	BaseAtt int                      `json:"base_attachments"`
	Country string                   `json:"default_country"`
	Grid    bool                     `json:"grid_point"`
	Grid2   bool                     `json:"second_grid_point,omitempty"`
	// outside the grids (random and directed points only):
	BaseSection bool              `json:"base_language_section,omitempty"` // the localization also has a section keyed by the flow's own base language
	Voice       bool              `json:"voice,omitempty"`                 // voice flow with a say_msg (text + audio_url)
	VStates     [2]map[string]int `json:"-"`                               // translation states of say.text and say.audio_url
	// two sprints: the flow waits before its second message and the resume brings an environment with another allowed list
	Phase2   bool     `json:"environment_refreshed_on_resume,omitempty"`
	Allowed2 []string `json:"allowed_languages_after_resume,omitempty"`
	// histories (c18_hist.go): a contact who does not speak Lang2 is made to and sent back to RevisitFrom (n1 or r1)
	Revisit     bool   `json:"language_changed_and_flow_revisited,omitempty"`
	Lang2       string `json:"contact_language_set_by_the_flow,omitempty"`
	RevisitFrom string `json:"revisited_from,omitempty"`
	// several destinations: send_msg with all_urns and a template translated for some of the contact's channels
	Tpl *c18Tpl `json:"template_and_all_urns,omitempty"`
}

// the two extra items of the voice variant (not part of the grids)
const (
	itSayText  = numItems
	itSayAudio = numItems + 1
)

// marker of the translations filed under the base language itself (they must never be used)
const baseSectionMarker = "zzz"

func (c *c18Config) stateTable() map[string]map[string]string {
	out := map[string]map[string]string{}
	for it := 0; it < numItems; it++ {
		m := map[string]string{}
		for l, s := range c.States[it] {
			m[l] = stateNames[s]
		}
		out[itemNames[it]] = m
	}
	return out
}

// ---------------------------------------------------------------------------------------------
// The grid: base language x ordered allowed list (0-3 of 4 languages) x contact language (unset or any of 4)
//           x translation state of each of the 3 non-base languages (6^3)
// Every item/property sees every (configuration, state triple) exactly once over the complete grid (per item the
// triple is permuted by a bijection, so that different properties of one scenario are in different states).
// ---------------------------------------------------------------------------------------------

var c18Bases = langUniverse

func allowedLists() [][]string {
	var out [][]string
	out = append(out, []string{})
	u := langUniverse
	for _, a := range u {
		out = append(out, []string{a})
	}
	for _, a := range u {
		for _, b := range u {
			if a != b {
				out = append(out, []string{a, b})
			}
		}
	}
	for _, a := range u {
		for _, b := range u {
			for _, c := range u {
				if a != b && a != c && b != c {
					out = append(out, []string{a, b, c})
				}
			}
		}
	}
	return out
}

var c18Allowed = allowedLists()
var c18Contacts = []string{"", "eng", "spa", "fra", "kin"}

const c18Triples = numOldStates * numOldStates * numOldStates

func c18Configs() int { return len(c18Bases) * len(c18Allowed) * len(c18Contacts) }

func c18GridSize() int { return c18Configs() * c18Triples }

// second grid: configuration x new state x which non-base language has it x states of the other two ({absent, same}^2)
func c18Grid2Size() int { return c18Configs() * len(c18NewStates) * 3 * len(c18OtherPairs) }

func nonBase(base string) []string {
	var out []string
	for _, l := range langUniverse {
		if l != base {
			out = append(out, l)
		}
	}
	return out
}

func c18GridPoint(i int, r *fw.Rand) *c18Config {
	cfg := &c18Config{Grid: true}
	t := i % c18Triples
	i /= c18Triples
	cfg.Contact = c18Contacts[i%len(c18Contacts)]
	i /= len(c18Contacts)
	cfg.Allowed = c18Allowed[i%len(c18Allowed)]
	i /= len(c18Allowed)
	cfg.Base = c18Bases[i%len(c18Bases)]
	triple := [3]int{t % numOldStates, (t / numOldStates) % numOldStates, t / (numOldStates * numOldStates)}
	nb := nonBase(cfg.Base)
	for it := 0; it < numItems; it++ {
		cfg.States[it] = map[string]int{}
		for j, l := range nb {
			cfg.States[it][l] = (triple[(j+it)%3] + it) % numOldStates
		}
	}
	cfg.finish(r)
	return cfg
}

// c18Grid2Point: one non-base language has a new state, the other two are absent or same-length. Per item the position, the
// new state and the pair are shifted by bijections, so every item/property meets every (configuration, position, new state,
// pair) exactly once over the complete second grid.
func c18Grid2Point(i int, r *fw.Rand) *c18Config {
	cfg := &c18Config{Grid: true, Grid2: true}
	o := i % len(c18OtherPairs)
	i /= len(c18OtherPairs)
	j := i % 3
	i /= 3
	ns := i % len(c18NewStates)
	i /= len(c18NewStates)
	cfg.Contact = c18Contacts[i%len(c18Contacts)]
	i /= len(c18Contacts)
	cfg.Allowed = c18Allowed[i%len(c18Allowed)]
	i /= len(c18Allowed)
	cfg.Base = c18Bases[i%len(c18Bases)]
	nb := nonBase(cfg.Base)
	for it := 0; it < numItems; it++ {
		cfg.States[it] = map[string]int{}
		pos := (j + it) % 3
		pair := c18OtherPairs[(o+it)%len(c18OtherPairs)]
		k := 0
		for q, l := range nb {
			if q == pos {
				cfg.States[it][l] = c18NewStates[(ns+it)%len(c18NewStates)]
			} else {
				cfg.States[it][l] = pair[k]
				k++
			}
		}
	}
	cfg.finish(r)
	return cfg
}

func c18RandomPoint(r *fw.Rand) *c18Config {
	cfg := &c18Config{}
	cfg.Base = fw.Pick(r, langUniverse)
	cfg.Allowed = fw.Pick(r, c18Allowed)
	cfg.Contact = fw.Pick(r, c18Contacts)
	// translations are mostly present in the languages that matter
	ws := []int{25, 8, 10, 30, 12, 15, 6, 4, 5, 5, 5, 5}
	for it := 0; it < numItems; it++ {
		cfg.States[it] = map[string]int{}
		for _, l := range nonBase(cfg.Base) {
			cfg.States[it][l] = r.Weighted(ws)
		}
	}
	cfg.finish(r)
	cfg.BaseSection = r.Chance(0.2)
	if r.Chance(0.15) {
		cfg.Phase2, cfg.Allowed2 = true, fw.Pick(r, c18Allowed)
	}
	if r.Chance(0.2) {
		cfg.Voice = true
		for k := range cfg.VStates {
			cfg.VStates[k] = map[string]int{}
			for _, l := range nonBase(cfg.Base) {
				cfg.VStates[k][l] = r.Weighted(ws)
			}
		}
	}
	c18RandomHistory(cfg, r)
	return cfg
}

func (c *c18Config) finish(r *fw.Rand) {
	c.L0 = fw.Pick(r, append(append([]string{}, langUniverse...), c.Base, "none"))
	c.BaseAtt = r.Range(1, 2)
	c.Country = fw.Pick(r, []string{"US", "RW", ""})
}

// ---------------------------------------------------------------------------------------------
// Scenario
// ---------------------------------------------------------------------------------------------

func attURL(lang string, k int) string {
	return fmt.Sprintf("image/jpeg:http://a.io/%s-%d.jpg", lang, k)
}

// translation builds the translated value of an item in a language for a state (nil = no entry).
func c18Translation(it int, lang string, state int, base []string) ([]string, bool) {
	n := len(base)
	mk := func(k int, f func(i int) string) []string {
		out := []string{}
		for i := 0; i < k; i++ {
			out = append(out, f(i))
		}
		return out
	}
	switch state {
	case stAbsent:
		return nil, false
	case stEmpty:
		return []string{}, true
	case stBlank:
		return []string{""}, true
	}
	// one marked ("full") element of the item's class in this language
	full := func(i int) string {
		switch itemClass(it) {
		case "msg.text":
			return "T" + fmt.Sprint(it) + "-" + lang
		case "msg.attachments":
			return attURL(lang, i)
		case "ivr.audio_url":
			return "http://a.io/" + lang + "-say.mp3"
		case "msg.quick_replies":
			return fmt.Sprintf("QR%d-%s", i, lang)
		case "set_run_result.category", "category.name":
			return strings.Replace(base[0], "-base", "", 1) + "-" + lang
		}
		if i == 0 {
			return "pick" + lang
		}
		return fmt.Sprintf("zz%d-%s", i, lang)
	}
	switch state {
	case stAllEmpty2:
		return []string{"", ""}, true
	case stAllEmpty3:
		return []string{"", "", ""}, true
	case stEmptyFirst:
		// case arguments: the language marker moves to the second argument (has_category looks at every argument)
		return []string{"", full(0)}, true
	case stEmptyLast:
		return []string{full(0), ""}, true
	case stSpace:
		return []string{" "}, true
	case stSpaceMix:
		return []string{"", " "}, true
	}
	switch itemClass(it) {
	case "msg.text", "ivr.audio_url":
		switch state {
		case stSame:
			return []string{full(0)}, true
		case stVariant:
			return []string{"", "pad-" + lang}, true
		default:
			return []string{full(0), "extra-" + lang}, true
		}
	case "msg.attachments":
		k := map[int]int{stSame: max(1, n), stVariant: max(1, n-1), stLonger: n + 1}[state]
		return mk(k, full), true
	case "msg.quick_replies":
		k := map[int]int{stSame: max(1, n), stVariant: max(1, n-1), stLonger: n + 1}[state]
		return mk(k, full), true
	case "set_run_result.category", "category.name":
		switch state {
		case stSame:
			return []string{full(0)}, true
		case stVariant:
			return []string{base[0]}, true // a translation identical to the base name
		default:
			return []string{full(0), "extra"}, true
		}
	default: // case.arguments: the first argument selects the language, the others are padding
		k := map[int]int{stSame: n, stVariant: n - 1, stLonger: n + 1}[state]
		return mk(k, full), true
	}
}

type c18Built struct {
	scen    *gen.Scenario
	bases   [numItems][]string
	uuids   [numItems]string
	sayUUID string
}

func buildC18(cfg *c18Config) *c18Built {
	d := dsl
	b := &c18Built{}
	baseAtt := []string{}
	for i := 0; i < cfg.BaseAtt; i++ {
		baseAtt = append(baseAtt, attURL(cfg.Base, i))
	}
	baseQR := []string{"QR0-" + cfg.Base, "QR1-" + cfg.Base}
	m1 := d.Action("m1", "send_msg", M{"text": "T0-" + cfg.Base, "attachments": baseAtt, "quick_replies": baseQR})
	m2 := d.Action("m2", "send_msg", M{"text": "T3-" + cfg.Base})
	set := d.Action("set", "set_run_result", M{"name": "Res", "value": "v", "category": "Cat-base"})
	sel := d.Action("sel", "set_run_result", M{"name": "Sel", "value": "pick" + cfg.L0, "category": "pick" + cfg.L0})

	r1a, r1b, r1o := d.Cat("R1A-base", "r1:a"), d.Cat("R1B-base", "r1:b"), d.Cat("R1Other-base", "r1:o")
	c1 := M{"uuid": gen.NamedUUID("case:r1:1"), "type": "has_only_text", "arguments": []string{"pick" + cfg.Base}, "category_uuid": r1a["uuid"]}
	c2 := M{"uuid": gen.NamedUUID("case:r1:2"), "type": "has_any_word", "arguments": []string{"pick" + cfg.Base}, "category_uuid": r1b["uuid"]}
	r1 := d.Switch("pick"+cfg.L0, []M{r1a, r1b, r1o}, r1o, []M{c1, c2}, nil, "R1")
	r2a, r2o := d.Cat("R2A-base", "r2:a"), d.Cat("R2Other-base", "r2:o")
	c3 := M{"uuid": gen.NamedUUID("case:r2:1"), "type": "has_category", "arguments": []string{"pick" + cfg.Base, "zz1-" + cfg.Base}, "category_uuid": r2a["uuid"]}
	r2 := d.Switch("@results.sel", []M{r2a, r2o}, r2o, []M{c3}, nil, "R2")

	ftype := "messaging"
	n1acts := []any{m1, set, sel}
	var say M
	if cfg.Voice {
		ftype = "voice"
		say = d.Action("say", "say_msg", M{"text": "S-base", "audio_url": "http://a.io/base-say.mp3"})
		n1acts = []any{m1, say, set, sel}
	}
	afterR2 := "n3"
	if cfg.Phase2 {
		afterR2 = "w"
	}
	r2dest := afterR2
	if cfg.Revisit {
		r2dest = "lr"
	}
	nodesL := []M{
		d.Node("n1", n1acts, nil, d.Exit("n1:x", "r1")),
		d.Node("r1", nil, r1, d.Exit("r1:a", "r2"), d.Exit("r1:b", "r2"), d.Exit("r1:o", "r2")),
		d.Node("r2", nil, r2, d.Exit("r2:a", r2dest), d.Exit("r2:o", r2dest)),
		d.Node("n3", []any{m2}, nil, d.Exit("n3:x", ""))}
	if cfg.Phase2 {
		nodesL = append(nodesL, d.WaitNode("w", "n3", nil))
	}
	if cfg.Revisit {
		// a contact who does not speak Lang2 yet is made to, and goes through (part of) the flow again
		ly, ln := d.Cat("Speaks", "lr:y"), d.Cat("Other", "lr:n")
		lc := M{"uuid": gen.NamedUUID("case:lr:1"), "type": "has_only_phrase", "arguments": []string{cfg.Lang2}, "category_uuid": ly["uuid"]}
		nodesL = append(nodesL,
			d.Node("lr", nil, d.Switch("@contact.language", []M{ly, ln}, ln, []M{lc}, nil, ""), d.Exit("lr:y", afterR2), d.Exit("lr:n", "sl")),
			d.Node("sl", []any{d.Action("sl", "set_contact_language", M{"language": cfg.Lang2})}, nil, d.Exit("sl:x", cfg.RevisitFrom)))
	}
	flow := d.Flow("L", ftype, nodesL...)
	flow["language"] = cfg.Base

	str := func(m M, k string) string { return m[k].(string) }
	b.uuids = [numItems]string{str(m1, "uuid"), str(m1, "uuid"), str(m1, "uuid"), str(m2, "uuid"), str(m2, "uuid"), str(m2, "uuid"), str(set, "uuid"),
		str(r1a, "uuid"), str(r1b, "uuid"), str(r1o, "uuid"), str(c1, "uuid"), str(c2, "uuid"), str(r2a, "uuid"), str(r2o, "uuid"), str(c3, "uuid")}
	b.bases = [numItems][]string{{"T0-" + cfg.Base}, baseAtt, baseQR, {"T3-" + cfg.Base}, {}, {}, {"Cat-base"},
		{"R1A-base"}, {"R1B-base"}, {"R1Other-base"}, {"pick" + cfg.Base}, {"pick" + cfg.Base}, {"R2A-base"}, {"R2Other-base"}, {"pick" + cfg.Base, "zz1-" + cfg.Base}}
	props := itemProps

	loc := M{}
	for it := 0; it < numItems; it++ {
		langs := make([]string, 0, 3)
		for l := range cfg.States[it] {
			langs = append(langs, l)
		}
		sort.Strings(langs)
		for _, l := range langs {
			if tr, ok := c18Translation(it, l, cfg.States[it][l], b.bases[it]); ok {
				setLoc(loc, l, b.uuids[it], props[it], tr)
			}
		}
	}
	if cfg.Voice {
		b.sayUUID = say["uuid"].(string)
		for k, prop := range []string{"text", "audio_url"} {
			base := [][]string{{"S-base"}, {"http://a.io/base-say.mp3"}}[k]
			for _, l := range nonBase(cfg.Base) {
				if tr, ok := c18Translation(itSayText+k, l, cfg.VStates[k][l], base); ok {
					setLoc(loc, l, b.sayUUID, prop, tr)
				}
			}
		}
	}
	if cfg.BaseSection {
		// translations filed under the flow's own base language (left over from a change of base language, say): the base
		// language is served by the definition itself, so none of these may ever show up
		for it := 0; it < numItems; it++ {
			if tr, ok := c18Translation(it, baseSectionMarker, stSame, b.bases[it]); ok {
				setLoc(loc, cfg.Base, b.uuids[it], props[it], tr)
			}
		}
		if cfg.Voice {
			setLoc(loc, cfg.Base, b.sayUUID, "text", []string{"T15-" + baseSectionMarker})
			setLoc(loc, cfg.Base, b.sayUUID, "audio_url", []string{"http://a.io/" + baseSectionMarker + "-say.mp3"})
		}
	}
	flow["localization"] = loc

	ct := d.Contact()
	if cfg.Contact == "" {
		delete(ct, "language")
	} else {
		ct["language"] = cfg.Contact
	}
	trig := d.Manual("L", ct)
	if cfg.Voice {
		trig["call"] = M{"uuid": gen.NamedUUID("call"), "channel": M{"uuid": gen.NamedUUID("chan:android"), "name": "Android"}, "urn": "tel:+12065551212"}
	}
	env := M{"date_format": "YYYY-MM-DD", "time_format": "tt:mm", "timezone": "UTC", "allowed_languages": cfg.Allowed}
	if cfg.Country != "" {
		env["default_country"] = cfg.Country
	}
	trig["environment"] = env
	assets := d.BaseAssets(flow)
	if cfg.Tpl != nil {
		cfg.Tpl.apply(assets, ct, m1, m2)
	}
	b.scen = &gen.Scenario{Assets: assets, Trigger: trig}
	if cfg.Phase2 {
		rs := d.MsgResume(0, "go on")
		env2 := M{}
		for k, v := range env {
			env2[k] = v
		}
		env2["allowed_languages"] = cfg.Allowed2
		rs["environment"] = env2
		b.scen.Resumes = []M{rs}
	}
	return b
}

// ---------------------------------------------------------------------------------------------
// Property plumbing
// ---------------------------------------------------------------------------------------------

func (p *c18) Rule() string {
	return fmt.Sprintf("case = one grid point: flow base language (4) x ordered allowed-language list (all %d lists of 0-3 out of 4 languages, with/without the base) x contact language (unset / each of 4: allowed, not allowed, = base) "+
		"x per (non-base language, item, property) a translation state {absent, [], [\"\"], same length, shorter|text-less [\"\",x]|identical-to-base, longer} or one of the multi-element / whitespace states "+
		"{[\"\",\"\"], [\"\",\"\",\"\"], [\"\",x], [x,\"\"], [\" \"], [\"\",\" \"]} which are all NON-empty translations by the statement (only absent, [] and [\"\"] are empty); the flow has two send_msg (text+attachments+quick replies; text only), "+
		"a set_run_result with category, and two switch routers with result names, translated category names and translated case arguments (has_only_text / has_any_word on a literal operand, has_category on a result) whose "+
		"first argument names its language, so the category chosen reveals the language the arguments came from. All texts are plain and marked with their language. Oracle = the reference chain of the statement applied to "+
		"our own parse of the generated JSON, followed for messages by the documented evaluation of the chosen translation (invalid attachments and empty quick replies dropped, each with an error event that is counted; "+
		"locale of a text-less message whose chosen attachments / quick replies were all dropped, and of a whitespace-only text: every reading accepted); a category translation with an empty first element shows the base category; for routers the C07 reference router (trusted base: evaluator and test functions) with arguments localized by the reference chain. "+
		"quick: seeded random grid points with independent states (all 12) per item; thorough: the complete grid over the first 6 states (%d points; every item/property meets every (configuration, state triple) once), "+
		"a second complete grid (%d points: configuration x new state x which non-base language has it x {absent, same}^2 for the other two; every item meets each once) plus random points over all 12 states (mixtures of new states are sampled, not enumerated). "+
		"Histories (25%% of the random points + directed): a guard on @contact.language sends a contact who does not speak a second language yet through set_contact_language and back to the start of the flow or to the first router, so items are evaluated again for another chain and results are saved again under the same name - every visit is judged for the chain of the contact language the reference follows along the path, a stored result for the chain of its LAST save. "+
		"Several destinations (20%% of the random points + directed): send_msg with all_urns and a template, a contact with 2-3 URNs on different channels, the template translated (1-2 locales, independent of the flow's languages) for some channels only - every message of every destination is judged on its own: flow-text messages by the chain, templated ones for locale = language of the translation shown. "+
		"Non-trivial = the preference chain has >= 2 distinct languages and at least one non-empty translation exists in a chain language; distinct = SHA of the scenario.", len(c18Allowed), c18GridSize(), c18Grid2Size())
}

var c18Directed = []string{"blank-translations", "argument-list-lengths", "contact-language-not-allowed", "base-is-default", "no-allowed-languages", "contact-is-base-default-translated",
	"text-less-attachments", "text-less-quick-replies", "text-less-empty", "text-less-dropped-attachment", "nothing-translated", "second-preference-wins", "independent-properties",
	"all-empty-pair-translations", "all-empty-triple-translations", "all-empty-before-base", "first-element-empty-translations", "last-element-empty-translations", "whitespace-translations",
	"empty-and-whitespace-translations", "text-less-all-empty-lists", "mixed-empty-shapes",
	"base-section-contact-is-base", "base-section-nothing-else-translated", "base-section-base-is-default",
	"voice-text-and-recording-in-different-languages", "voice-recording-only-translated", "voice-text-only-translated", "voice-whitespace-text",
	"environment-refresh-drops-contact-language", "environment-refresh-allows-contact-language", "environment-refresh-changes-default",
	"language-set-by-flow-then-everything-again", "language-set-by-flow-then-routers-again", "language-set-by-flow-to-one-not-allowed", "language-set-by-flow-before-environment-refresh", "language-set-by-flow-voice",
	"template-for-first-destination-only", "template-between-flow-texts", "template-before-text-less-message", "template-for-every-destination-but-the-last", "template-and-language-set-by-flow"}

func (p *c18) Directed() []string { return c18Directed }

const c18ThoroughRandom = 170000

func (p *c18) NumGenerated(tier string) int {
	if tier == "thorough" {
		return c18GridSize() + c18Grid2Size() + c18ThoroughRandom
	}
	return 12000
}
func (p *c18) BatchSize(tier string) int {
	if tier == "thorough" {
		return 4000
	}
	return 400
}
func (p *c18) CaseTimeoutS() int { return 120 }

func (p *c18) Floors(tier string) []string {
	fl := []string{"clause.msg.text", "clause.msg.attachments", "clause.msg.quick_replies", "clause.locale", "clause.locale.from_text", "clause.locale.from_attachments", "clause.locale.from_quick_replies",
		"clause.category_localized.set_run_result", "clause.category_localized.router", "clause.router_category", "clause.router_exit",
		"win.contact-language", "win.default-language", "win.base-language-first", "win.base-language-after-skips",
		"skipped.blank", "skipped.empty-list", "skipped.absent", "used.same", "used.variant", "used.longer",
		"config.contact.unset", "config.contact.allowed", "config.contact.not-allowed", "config.contact.base", "config.allowed.0", "config.allowed.1", "config.allowed.2", "config.allowed.3",
		"seen.text_and_attachments_differ_in_language", "seen.localized_args_decide", "silent.args_length_mismatch_ignored",
		"clause.msg.dropped_elements", "seen.invalid_attachments_of_chosen_translation_dropped", "seen.empty_quick_replies_of_chosen_translation_dropped", "seen.category_translation_with_empty_first_element",
		"silent.locale_when_attachments_dropped", "silent.locale_when_quick_replies_dropped", "silent.whitespace_text_locale",
		// histories and several destinations (guaranteed by the directed cases language-set-by-flow-* and template-*)
		"revisit.chain_changed_by_the_language", "revisit.send_msg_after_language_change", "clause.router_exit.after_language_change", "clause.category_localized.after_language_change",
		"revisit.result_saved_again_same_outcome_other_localization",
		"tpl.send_msg_with_several_destinations", "clause.locale.from_template", "clause.locale.untemplated_after_templated", "seen.flow_text_after_template_in_other_language"}
	for _, st := range c18NewStates {
		for _, cl := range []string{"msg.text", "msg.attachments", "msg.quick_replies", "set_run_result.category", "category.name", "case.arguments"} {
			fl = append(fl, "used."+cl+"."+stateNames[st])
		}
	}
	return fl
}

func (p *c18) ExtraEvidence(tier string, counters map[string]int64) map[string]any {
	if tier != "thorough" {
		return map[string]any{"exhaustive": false, "grid_size": c18GridSize(), "second_grid_size": c18Grid2Size()}
	}
	return map[string]any{
		"exhaustive":        counters["grid.points"] == int64(c18GridSize()) && counters["grid2.points"] == int64(c18Grid2Size()),
		"exhaustive_space":  "for every item/property of the scenario: {base language eng/spa/fra/kin} x {all 41 ordered lists of 0-3 allowed languages out of eng/spa/fra/kin} x {contact language unset/eng/spa/fra/kin} x {absent, [], [\"\"], same length, shorter|text-less|identical-to-base, longer}^3 non-base languages",
		"second_grid_space": "for every item/property: the same 820 configurations x {[\"\",\"\"], [\"\",\"\",\"\"], [\"\",x], [x,\"\"], [\" \"], [\"\",\" \"]} in one of the 3 non-base languages x {absent, same length}^2 for the other two; combinations of the new states with each other and with [], [\"\"], shorter, longer in other languages are NOT enumerated, only sampled by the random points (12 states, independent per item and language)",
		"grid_size":         c18GridSize(),
		"grid_points_run":   counters["grid.points"],
		"second_grid_size":  c18Grid2Size(),
		"second_grid_run":   counters["grid2.points"],
		"random_points_run": counters["random.points"],
	}
}

func (p *c18) config(c fw.Case) *c18Config {
	r := fw.NewRand(c.Seed, "C18", c.Index)
	if c.Directed != "" {
		return c18DirectedConfig(c.Directed)
	}
	if c.Tier == "thorough" && c.Gen < c18GridSize() {
		return c18GridPoint(c.Gen, r)
	}
	if c.Tier == "thorough" && c.Gen < c18GridSize()+c18Grid2Size() {
		return c18Grid2Point(c.Gen-c18GridSize(), r)
	}
	return c18RandomPoint(r)
}

// probeDroppedAttachment: a text-less message whose only (translated) attachment is invalid and therefore dropped, with quick
// replies coming from another language. The code decides the message language on the resolved lists before evaluation, so the
// locale names the language of the dropped attachment. Whether "its attachments" in the statement means the resolved or the
// sent ones is not said: observed and counted, never a violation.
func (p *c18) probeDroppedAttachment(c fw.Case) fw.Result {
	res := fw.Result{}
	cfg := c18Cfg("eng", []string{"fra", "spa"}, "spa", stAbsent).set(itM2Text, "spa", stVariant).set(itM2QR, "fra", stSame)
	b := buildC18(cfg)
	setLoc(b.scen.Flows()[0]["localization"].(M), "spa", b.uuids[itM2Att], "attachments", []string{"not an attachment"})
	res.Fingerprint = b.scen.Fingerprint()
	h, err := openHarness(b.scen, c.Seed, nil)
	if err != nil {
		res.Inconclusive = "scenario unloadable: " + err.Error()
		return res
	}
	h.run(func(rec *drive.CallRecord, pre plantState) {
		if rec.Panic != nil {
			panicViolation(&res, "C18", b.scen, rec)
			return
		}
		n := 0
		for _, e := range sprintEvents(rec) {
			if e.Type == "msg_created" && e.Msg != nil {
				if n++; n == 2 && e.Msg.Text == "" && len(e.Msg.Attachments) == 0 {
					res.Count("silent.locale_when_attachments_dropped", 1)
					res.Seen("locale_when_attachments_dropped", fmt.Sprintf("quick_replies=%v locale=%s", e.Msg.QuickReplies, e.Msg.Locale))
				}
			}
		}
	})
	return res
}

func (p *c18) Run(c fw.Case) fw.Result {
	if c.Directed == "text-less-dropped-attachment" {
		return p.probeDroppedAttachment(c)
	}
	res := fw.Result{}
	cfg := p.config(c)
	b := buildC18(cfg)
	scen := b.scen
	res.Fingerprint = scen.Fingerprint()
	h, err := openHarness(scen, c.Seed, nil)
	if err != nil {
		if c.Directed != "" || cfg.Grid {
			res.Inconclusive = "scenario unloadable: " + err.Error()
			return res
		}
		res.Discarded = "unloadable: " + errClass(err.Error())
		return res
	}
	if cfg.Grid2 {
		res.Count("grid2.points", 1)
	} else if cfg.Grid {
		res.Count("grid.points", 1)
	} else if c.Directed == "" {
		res.Count("random.points", 1)
	}
	h.run(func(rec *drive.CallRecord, pre plantState) {
		if rec.Kind == "unreadable" {
			res.Inconclusive = "unreadable trigger: " + rec.Err.Error()
			return
		}
		if cfg.Phase2 && rec.Index > 0 {
			p.checkPhase2(&res, h, cfg, b, rec)
			return
		}
		p.check(&res, h, cfg, b, rec)
	})
	chain := refChain(cfg.Contact, cfg.Allowed, cfg.Base)
	distinct := map[string]bool{}
	present := false
	for _, l := range chain {
		distinct[l] = true
		if l != cfg.Base {
			for it := 0; it < numItems; it++ {
				if cfg.States[it][l] >= stSame {
					present = true
				}
			}
		}
	}
	res.NonTrivial = len(distinct) >= 2 && present
	if res.NonTrivial {
		res.Sample = map[string]any{"config": cfg, "chain": chain, "states": cfg.stateTable()}
	}
	return res
}

// label names the role a language plays in the configuration (for counters and signatures).
func (c *c18Config) label(lang string) string { return c.labelAt(lang, c.Contact) }

// labelAt: the same for the language the contact has at some point of a history.
func (c *c18Config) labelAt(lang, contact string) string {
	allowed := contains(c.Allowed, lang)
	switch {
	case lang == "":
		return "none"
	case lang == c.Base:
		return "base-language"
	case lang == contact && allowed:
		return "contact-language"
	case len(c.Allowed) > 0 && lang == c.Allowed[0]:
		return "default-language"
	case lang == contact:
		return "contact-language-not-allowed"
	case allowed:
		return "other-allowed-language"
	}
	return "other-language"
}

// langOf finds the language marker in an observed text.
func langOf(cfg *c18Config, s string) string {
	if strings.Contains(s, "-base") {
		return cfg.Base
	}
	for _, l := range langUniverse {
		if strings.Contains(s, "-"+l) || strings.Contains(s, "/"+l+"-") {
			return l
		}
	}
	return ""
}

func (p *c18) check(res *fw.Result, h *harness, cfg *c18Config, b *c18Built, rec *drive.CallRecord) {
	scen := h.scen
	if rec.Panic != nil {
		panicViolation(res, "C18", scen, rec)
		return
	}
	if !rec.OK() || rec.Session == nil || len(rec.Session.Runs()) == 0 {
		res.Count("call.not_ok", 1)
		return
	}
	s := rec.Session
	run := s.Runs()[0]
	flow := h.flows[string(run.FlowReference().UUID)]
	if flow == nil {
		return
	}
	// the reference chain is computed from the definition we wrote (contact language of the trigger - followed along the path
	// through the flow's own set_contact_language in the histories family -, allowed languages of the trigger environment)
	trigLang, allowed := h.trigger.Contact.Language, h.trigger.Environment.AllowedLanguages
	chainOf := func(contact string) []string { return refChain(contact, allowed, flow.Language) }
	visits, finalLang := c18Walk(run, cfg, trigLang)
	if s.Contact() == nil || string(s.Contact().Language()) != finalLang {
		// the contact's language is not what the reference followed (not C18's business): no verdict
		res.Count("skip.contact_language_not_as_modelled", 1)
		return
	}
	// the closures below judge for the chain of the visit that is being looked at
	curContact := trigLang
	chain := chainOf(curContact)
	at := func(v c18Visit) { curContact, chain = v.Contact, chainOf(v.Contact) }
	lab := func(l string) string { return cfg.labelAt(l, curContact) }
	visitsOf := func(nodes ...string) []c18Visit {
		var out []c18Visit
		for _, v := range visits {
			if contains(nodes, v.Node) {
				out = append(out, v)
			}
		}
		return out
	}

	res.Count(fmt.Sprintf("chain.len_%d", len(chain)), 1)
	switch {
	case cfg.Contact == "":
		res.Count("config.contact.unset", 1)
	case cfg.Contact == cfg.Base:
		res.Count("config.contact.base", 1)
	case contains(cfg.Allowed, cfg.Contact):
		res.Count("config.contact.allowed", 1)
	default:
		res.Count("config.contact.not-allowed", 1)
	}
	res.Count(fmt.Sprintf("config.allowed.%d", len(cfg.Allowed)), 1)
	if contains(cfg.Allowed, cfg.Base) {
		res.Count("config.allowed.with_base", 1)
	} else {
		res.Count("config.allowed.without_base", 1)
	}
	if cfg.Revisit {
		res.Count("revisit.cases", 1)
		if finalLang != trigLang {
			res.Count("revisit.language_changed_and_revisited", 1)
			if strings.Join(chainOf(trigLang), ",") != strings.Join(chainOf(finalLang), ",") {
				res.Count("revisit.chain_changed_by_the_language", 1)
			}
		}
	}
	if cfg.Tpl != nil {
		res.Count("tpl.cases", 1)
	}

	viol := func(class, expLabel, obsLabel, what string, extra map[string]any) {
		extra["config"] = cfg
		extra["chain"] = chain
		extra["states"] = cfg.stateTable()
		if curContact != trigLang {
			class += "|after-language-change"
			extra["contact_language_at_this_visit"] = curContact
			what += fmt.Sprintf(" [the flow had set the contact's language to %q before this visit]", curContact)
		}
		res.Violate("C18|decision-mismatch|"+class+"|expected="+expLabel+"|observed="+obsLabel, what, witnessOf(scen, extra))
	}

	// resolve an item by the reference chain and record which preference won / what was skipped
	resolve := func(it int) ([]string, string) {
		val, lang := flow.resolve(chain, b.uuids[it], itemProps[it], b.bases[it])
		// bookkeeping
		for k, l := range chain {
			if l == flow.Language {
				if k == 0 {
					res.Count("win.base-language-first", 1)
				} else {
					res.Count("win.base-language-after-skips", 1)
				}
				break
			}
			st := cfg.States[it][l]
			if st >= stSame {
				res.Count("win."+lab(l), 1)
				res.Count("used."+stateNames[st], 1)
				res.Count("used."+itemClass(it)+"."+stateNames[st], 1)
				break
			}
			res.Count("skipped."+stateNames[st], 1)
			res.Count("skipped."+itemClass(it)+"."+stateNames[st], 1)
		}
		return val, lang
	}
	// what the result of an item would show for another contact language (no bookkeeping)
	effOf := func(contact string, it int, baseName string) string {
		v, _ := flow.resolve(chainOf(contact), b.uuids[it], itemProps[it], b.bases[it])
		if v[0] == "" {
			return baseName
		}
		return v[0]
	}

	// ---------------- messages
	// The reference chain decides WHICH translation is taken (statement); what is then sent follows the documented evaluation
	// of a message (flows/actions/base.go evaluateMessage): an attachment that is not a valid attachment after trimming and a
	// quick reply that is the empty string are dropped, each with an error event; the text is sent as it is.
	// Every evaluation of a send_msg (one per visit of its node) creates one message per destination; each is judged for the
	// chain of its visit. A message that carries a "templating" shows a template translation, not the flow's text.
	groups := c18MsgGroups(rec)
	sends := visitsOf("n1", "n3")
	matched := len(groups) == len(sends)
	for k := 0; matched && k < len(groups); k++ {
		matched = groups[k].Step == sends[k].Step
	}
	if !matched {
		res.Count("skip.unexpected_message_count", 1)
	} else {
		for k, g := range groups {
			at(sends[k])
			base, name := itM1Text, "m1"
			if sends[k].Node == "n3" {
				base, name = itM2Text, "m2"
			}
			if curContact != trigLang {
				res.Count("revisit.send_msg_after_language_change", 1)
			}
			txt, tl := resolve(base)
			att, al := resolve(base + 1)
			qrs, ql := resolve(base + 2)
			sentAtt, sentQRs := refSendableAttachments(att), refSendableQuickReplies(qrs)
			if len(sentAtt) != len(att) {
				res.Count("seen.invalid_attachments_of_chosen_translation_dropped", 1)
			}
			if len(sentQRs) != len(qrs) {
				res.Count("seen.empty_quick_replies_of_chosen_translation_dropped", 1)
			}
			// the error events of the evaluation tell how many elements of the chosen translation were dropped: a second view on
			// which translation was taken (an all-empty translation and a fall-through to an empty base list send the same nothing)
			res.Count("clause.msg.dropped_elements", 1)
			if wa, wq := len(att)-len(sentAtt), len(qrs)-len(sentQRs); g.AttErr != wa || g.QRsErr != wq {
				class, expL := "msg.attachments.dropped", lab(al)
				if g.AttErr == wa {
					class, expL = "msg.quick_replies.dropped", lab(ql)
				}
				viol(class, expL, "other-translation", fmt.Sprintf("%s was evaluated with %d invalid-attachment and %d empty-quick-reply error events; the reference chain %v takes attachments %q (%s) and quick replies %q (%s), of which %d and %d are dropped", name, g.AttErr, g.QRsErr, chain, att, al, qrs, ql, wa, wq),
					map[string]any{"message": name, "observed_attachment_errors": g.AttErr, "observed_quick_reply_errors": g.QRsErr, "chosen_attachments": att, "chosen_quick_replies": qrs, "attachments_language": al, "quick_replies_language": ql})
			}
			if tl != al && len(sentAtt) > 0 {
				res.Count("seen.text_and_attachments_differ_in_language", 1)
			}
			if len(g.Msgs) > 1 {
				res.Count("tpl.send_msg_with_several_destinations", 1)
			}

			var templatedBefore []string // languages of the template translations of the earlier messages of this evaluation
			for _, m := range g.Msgs {
				if m.templated() {
					// the text is a template translation: the locale names the language of that translation
					res.Count("tpl.messages_templated", 1)
					loc := ""
					if cfg.Tpl != nil {
						loc = cfg.Tpl.localeOfTemplateText(m.Text)
					}
					if loc == "" {
						res.Count("skip.template_text_not_recognised", 1)
						continue
					}
					want, obs := strings.SplitN(loc, "-", 2)[0], strings.SplitN(m.Locale, "-", 2)[0]
					templatedBefore = append(templatedBefore, want)
					res.Count("clause.locale.from_template", 1)
					if obs != want {
						viol("msg.locale.from_template", lab(want), lab(obs), fmt.Sprintf("%s to %s shows the template translation %q (locale %s) but its locale is %q", name, m.URN, m.Text, loc, m.Locale),
							map[string]any{"message": name, "urn": m.URN, "observed_locale": m.Locale, "template_translation_locale": loc})
					}
					continue
				}
				if cfg.Tpl != nil {
					res.Count("tpl.messages_flow_text", 1)
				}
				after := ""
				if len(templatedBefore) > 0 {
					after = "|after-templated-message"
				}

				res.Count("clause.msg.text", 1)
				if m.Text != txt[0] {
					viol("msg.text"+after, lab(tl), lab(langOf(cfg, m.Text)), fmt.Sprintf("%s text is %q, the reference chain %v gives %q (%s)", name, m.Text, chain, txt[0], tl),
						map[string]any{"message": name, "urn": m.URN, "observed": m.Text, "expected": txt[0], "expected_language": tl})
				}
				res.Count("clause.msg.attachments", 1)
				if !eqStrings(m.Attachments, sentAtt) {
					viol("msg.attachments"+after, lab(al), lab(langOf(cfg, strings.Join(m.Attachments, " "))), fmt.Sprintf("%s attachments are %v, the reference chain %v takes %q (%s) of which %v are sendable", name, m.Attachments, chain, att, al, sentAtt),
						map[string]any{"message": name, "urn": m.URN, "observed": m.Attachments, "chosen_translation": att, "expected": sentAtt, "expected_language": al})
				}
				res.Count("clause.msg.quick_replies", 1)
				if !eqStrings(m.QuickReplies, sentQRs) {
					viol("msg.quick_replies"+after, lab(ql), lab(langOf(cfg, strings.Join(m.QuickReplies, " "))), fmt.Sprintf("%s quick replies are %v, the reference chain %v takes %q (%s) of which %v are sendable", name, m.QuickReplies, chain, qrs, ql, sentQRs),
						map[string]any{"message": name, "urn": m.URN, "observed": m.QuickReplies, "chosen_translation": qrs, "expected": sentQRs, "expected_language": ql})
				}
				// locale: the language actually used for the text; text-less: attachments, then quick replies.
				// The statement does not say whether "its attachments / quick replies" are the chosen translation or what is left of it
				// after the dropping (the code looks at the chosen translation), nor whether a whitespace-only text is a text: in these
				// corners every reading is accepted (candidates), elsewhere there is one answer.
				// text-less reading: accepted languages (nil = the statement names none) and the clause it falls under
				textless := func() ([]string, string) {
					switch {
					case len(sentAtt) > 0:
						return []string{al}, "from_attachments"
					case len(att) > 0: // every attachment of the chosen translation was dropped
						res.Count("silent.locale_when_attachments_dropped", 1)
						if len(sentQRs) > 0 {
							return []string{al, ql}, "from_dropped_attachments_or_quick_replies"
						}
						return nil, ""
					case len(sentQRs) > 0:
						return []string{ql}, "from_quick_replies"
					case len(qrs) > 0:
						res.Count("silent.locale_when_quick_replies_dropped", 1)
					}
					return nil, ""
				}
				var cands []string
				from := ""
				switch {
				case strings.TrimSpace(txt[0]) != "":
					cands, from = []string{tl}, "from_text"
				case txt[0] != "":
					res.Count("silent.whitespace_text_locale", 1)
					if c2, _ := textless(); c2 != nil {
						cands, from = append([]string{tl}, c2...), "from_whitespace_text"
					}
				default:
					cands, from = textless()
				}
				obsLang := strings.SplitN(m.Locale, "-", 2)[0]
				if from == "" {
					// a message with nothing (left) in it: the statement names no language
					res.Count("silent.empty_message_locale", 1)
					res.Seen("empty_message_locales", m.Locale)
				} else {
					res.Count("clause.locale", 1)
					res.Count("clause.locale."+from, 1)
					if after != "" {
						// the flow's own text for a destination whose channel has no translation of the template, created after a templated one
						res.Count("clause.locale.untemplated_after_templated", 1)
						for _, tlang := range templatedBefore {
							if !contains(cands, tlang) {
								res.Count("seen.flow_text_after_template_in_other_language", 1)
								break
							}
						}
					}
					if !contains(cands, obsLang) {
						want := cands[0]
						viol("msg.locale."+from+after, lab(want), lab(obsLang), fmt.Sprintf("%s locale is %q but the language used for its %s is %q (text %q from %s, attachments %q from %s, quick replies %q from %s)", name, m.Locale, strings.TrimPrefix(from, "from_"), want, txt[0], tl, att, al, qrs, ql),
							map[string]any{"message": name, "urn": m.URN, "observed_locale": m.Locale, "expected_language": want, "accepted_languages": cands, "text_language": tl, "attachments_language": al, "quick_replies_language": ql,
								"languages_of_templated_messages_before": templatedBefore})
					}
				}
			}
		}
	}

	// ---------------- say_msg of the voice variant: text and recording are localized independently, the locale is the text's
	// (one evaluation per visit of n1, judged for the chain of that visit)
	if cfg.Voice {
		ivrOf := map[string][]*c18Msg{}
		for _, bj := range rec.EventsJSON {
			var e c18Event
			json.Unmarshal(bj, &e)
			if e.Type == "ivr_created" && e.Msg != nil {
				ivrOf[e.StepUUID] = append(ivrOf[e.StepUUID], e.Msg)
			}
		}
		for _, v := range visitsOf("n1") {
			at(v)
			ivr := ivrOf[v.Step]
			txt, tl := flow.resolve(chain, b.sayUUID, "text", []string{"S-base"})
			aud, al := flow.resolve(chain, b.sayUUID, "audio_url", []string{"http://a.io/base-say.mp3"})
			wantText, wantURL := strings.TrimSpace(txt[0]), aud[0]
			res.Count("clause.ivr", 1)
			switch {
			case wantText == "" && wantURL == "":
				res.Count("ivr.nothing_to_say", 1)
				if len(ivr) != 0 {
					viol("ivr.created", "none", lab(langOf(cfg, ivr[0].Text+" "+strings.Join(ivr[0].Attachments, " "))), "say_msg created a message although neither its text nor its recording resolve to anything", map[string]any{"observed": ivr[0]})
				}
			case len(ivr) != 1:
				res.Count("skip.unexpected_ivr_count", 1)
			default:
				m := ivr[0]
				res.Count("clause.ivr.text", 1)
				if m.Text != wantText {
					viol("ivr.text", lab(tl), lab(langOf(cfg, m.Text)), fmt.Sprintf("say_msg text is %q, the reference chain %v gives %q (%s)", m.Text, chain, wantText, tl), map[string]any{"observed": m.Text, "expected": wantText, "expected_language": tl})
				}
				wantAtt := []string{}
				if wantURL != "" {
					wantAtt = []string{"audio:" + wantURL}
				}
				res.Count("clause.ivr.audio_url", 1)
				if !eqStrings(m.Attachments, wantAtt) {
					viol("ivr.audio_url", lab(al), lab(langOf(cfg, strings.Join(m.Attachments, " "))), fmt.Sprintf("say_msg recording is %v, the reference chain %v gives %q (%s)", m.Attachments, chain, wantURL, al), map[string]any{"observed": m.Attachments, "expected": wantAtt, "expected_language": al})
				}
				if tl != al {
					res.Count("seen.ivr_text_and_recording_differ_in_language", 1)
				}
				// locale: the language used for the text; a message whose text is nothing but white space may also name the recording's
				cands := []string{tl}
				if wantText == "" {
					res.Count("silent.ivr_textless_locale", 1)
					cands = []string{tl, al}
				}
				res.Count("clause.ivr.locale", 1)
				if obs := strings.SplitN(m.Locale, "-", 2)[0]; !contains(cands, obs) {
					viol("ivr.locale", lab(tl), lab(obs), fmt.Sprintf("say_msg locale is %q but its text %q was taken from %s (recording from %s)", m.Locale, wantText, tl, al),
						map[string]any{"observed_locale": m.Locale, "text_language": tl, "recording_language": al})
				}
			}
		}
	}

	// ---------------- category_localized of set_run_result
	// A result shows the category localized for the chain at the time it was saved LAST (every save replaces the result).
	effective := func(r *flows.Result) string {
		if r.CategoryLocalized != "" {
			return r.CategoryLocalized
		}
		return r.Category
	}
	// a chosen translation whose first element is empty localizes the category to nothing: the result then shows its base
	// category (flows.Result: an empty category_localized means the category itself)
	effWant := func(want []string, baseName string) string {
		if want[0] == "" {
			res.Count("seen.category_translation_with_empty_first_element", 1)
			return baseName
		}
		return want[0]
	}
	// bookkeeping of the histories family: a result saved again after the contact's language was changed by the flow
	resaved := func(vs []c18Visit, it int, baseName string, sameOutcome bool) {
		if len(vs) < 2 || curContact == vs[0].Contact {
			return
		}
		res.Count("clause.category_localized.after_language_change", 1)
		if sameOutcome {
			res.Count("revisit.result_saved_again_with_same_value_and_category", 1)
			if effOf(vs[0].Contact, it, baseName) != effOf(curContact, it, baseName) {
				res.Count("revisit.result_saved_again_same_outcome_other_localization", 1)
			}
		}
	}
	if st := storedResult(run, "Res"); st != nil {
		vs := visitsOf("n1")
		if len(vs) > 0 {
			at(vs[len(vs)-1])
		}
		want, wl := resolve(itSetCategory)
		res.Count("clause.category_localized.set_run_result", 1)
		resaved(vs, itSetCategory, b.bases[itSetCategory][0], true)
		if ew := effWant(want, b.bases[itSetCategory][0]); effective(st) != ew {
			viol("set_run_result.category", lab(wl), lab(langOf(cfg, effective(st))), fmt.Sprintf("set_run_result stored localized category %q (category %q), the reference chain %v takes %q (%s), i.e. %q", st.CategoryLocalized, st.Category, chain, want, wl, ew),
				map[string]any{"stored": st, "chosen_translation": want, "expected": ew, "expected_language": wl})
		}
	} else {
		res.Count("skip.no_set_run_result_result", 1)
	}

	// ---------------- routers with localized arguments and category names
	env := s.MergedEnvironment()
	var ctx *types.XObject
	func() {
		defer func() { recover() }()
		ctx = types.NewXObject(run.RootContext(env))
	}()
	if ctx == nil {
		res.Count("skip.no_context", 1)
		return
	}
	for _, rr := range []struct {
		node, result string
		cats         map[string]int
		caseItems    []int
	}{
		{"r1", "R1", map[string]int{b.uuids[itR1CatA]: itR1CatA, b.uuids[itR1CatB]: itR1CatB, b.uuids[itR1CatOther]: itR1CatOther}, []int{itR1Case1, itR1Case2}},
		{"r2", "R2", map[string]int{b.uuids[itR2CatA]: itR2CatA, b.uuids[itR2CatOther]: itR2CatOther}, []int{itR2Case1}},
	} {
		node := flow.node(gen.NamedUUID("node:" + rr.node))
		if node == nil || node.Router == nil {
			continue
		}
		vs := visitsOf(rr.node)
		if len(vs) == 0 {
			res.Count("skip.router_not_visited", 1)
			continue
		}
		// every visit leaves by the exit the reference chooses with the arguments of the chain of THAT visit (the operands are a
		// literal and a result that every visit saves with the same value, so the context at the end of the sprint serves all);
		// the stored result is the one of the last visit
		var first *decision
		for vi, v := range vs {
			at(v)
			last := vi == len(vs)-1
			d := refSwitch(h.ev, env, ctx, flow, chain, node.Router, func(test, outcome string) { res.Count("test."+test+"."+outcome, 1) })
			if d.Skip != "" || d.Cat == nil {
				res.Count("skip.reference_undecided", 1)
				continue
			}
			if vi == 0 {
				dd := d
				first = &dd
			}
			if d.LenMismatch > 0 {
				// statement is silent: the code ignores a translation whose length differs from the base arguments; accepted and counted
				res.Count("silent.args_length_mismatch_ignored", int64(d.LenMismatch))
			}
			for _, l := range d.ArgLangs {
				if l != flow.Language {
					res.Count("seen.localized_args_decide", 1)
					break
				}
			}
			for k := range d.ArgLangs { // bookkeeping of the chain walk for the cases the reference evaluated
				if k < len(rr.caseItems) {
					resolve(rr.caseItems[k])
				}
			}
			res.Count("decision."+d.Kind, 1)
			expLabel := d.Kind
			if d.Kind == "case" {
				expLabel = "case-args-from-" + lab(d.WinnerLang)
			}
			res.Count("clause.router_exit", 1)
			if curContact != trigLang {
				res.Count("clause.router_exit.after_language_change", 1)
			}
			if v.Exit != d.Cat.ExitUUID {
				viol("case.arguments.exit", expLabel, classifyExit(node, node.Router, v.Exit), fmt.Sprintf("router %s with localized arguments left by exit %q, the reference (arguments by chain %v from %v) chooses category %q", rr.node, v.Exit, chain, d.ArgLangs, d.Cat.Name),
					map[string]any{"router": rr.node, "visit": vi + 1, "visits": len(vs), "observed_exit": v.Exit, "reference": refWitness(d, d.Cat)})
			}
			if !last {
				continue
			}
			st := storedResult(run, rr.result)
			if st == nil {
				res.Count("skip.no_router_result", 1)
				continue
			}
			res.Count("clause.router_category", 1)
			if st.Category != d.Cat.Name {
				viol("case.arguments.category", expLabel, "category-"+fmt.Sprint(strings.SplitN(st.Category, "-", 2)[0] != strings.SplitN(d.Cat.Name, "-", 2)[0]), fmt.Sprintf("router %s stored category %q, the reference (arguments by chain %v from %v) chooses %q", rr.node, st.Category, chain, d.ArgLangs, d.Cat.Name),
					map[string]any{"router": rr.node, "stored": st, "reference": refWitness(d, d.Cat)})
				continue
			}
			it := rr.cats[d.Cat.UUID]
			want, wl := resolve(it)
			res.Count("clause.category_localized.router", 1)
			resaved(vs, it, d.Cat.Name, first != nil && first.Cat.UUID == d.Cat.UUID && first.Value == d.Value)
			if ew := effWant(want, d.Cat.Name); effective(st) != ew {
				viol("category.name", lab(wl), lab(langOf(cfg, effective(st))), fmt.Sprintf("router %s stored localized category %q (category %q), the reference chain %v takes %q (%s), i.e. %q", rr.node, st.CategoryLocalized, st.Category, chain, want, wl, ew),
					map[string]any{"router": rr.node, "visits": len(vs), "stored": st, "chosen_translation": want, "expected": ew, "expected_language": wl})
			}
		}
	}
}

// refSendableAttachments: what evaluation leaves of a chosen attachment list (plain texts): trimmed, invalid ones dropped.
// utils.IsValidAttachment is part of the trusted base (the property is about which translation is taken, not about what a
// valid attachment is).
func refSendableAttachments(att []string) []string {
	out := []string{}
	for _, a := range att {
		a = strings.TrimSpace(a)
		if a == "" || !utils.IsValidAttachment(a) {
			continue
		}
		out = append(out, a)
	}
	return out
}

// refSendableQuickReplies: what evaluation leaves of a chosen quick reply list (plain texts): empty strings dropped.
func refSendableQuickReplies(qrs []string) []string {
	out := []string{}
	for _, q := range qrs {
		if q != "" {
			out = append(out, q)
		}
	}
	return out
}

// checkPhase2: the sprint after a resume that brought an environment with another list of allowed languages. The chain is
// the one the NEW environment gives; the only item evaluated in this sprint is the second message.
func (p *c18) checkPhase2(res *fw.Result, h *harness, cfg *c18Config, b *c18Built, rec *drive.CallRecord) {
	if rec.Panic != nil {
		panicViolation(res, "C18", h.scen, rec)
		return
	}
	if !rec.OK() || rec.Session == nil || len(rec.Session.Runs()) == 0 {
		res.Count("call.not_ok", 1)
		return
	}
	flow := h.flows[string(rec.Session.Runs()[0].FlowReference().UUID)]
	if flow == nil {
		return
	}
	// the contact's language is the trigger's unless the flow changed it in the first sprint (histories family)
	_, contactLang := c18Walk(rec.Session.Runs()[0], cfg, h.trigger.Contact.Language)
	if ct := rec.Session.Contact(); ct == nil || string(ct.Language()) != contactLang {
		res.Count("skip.contact_language_not_as_modelled", 1)
		return
	}
	chain := refChain(contactLang, cfg.Allowed2, flow.Language)
	groups := c18MsgGroups(rec)
	res.Count("clause.phase2", 1)
	if len(groups) != 1 {
		res.Count("skip.unexpected_message_count", 1)
		return
	}
	if strings.Join(refChain(contactLang, cfg.Allowed, flow.Language), ",") != strings.Join(chain, ",") {
		res.Count("phase2.chain_changed_by_the_resume", 1)
	}
	txt, tl := flow.resolve(chain, b.uuids[itM2Text], "text", b.bases[itM2Text])
	att, al := flow.resolve(chain, b.uuids[itM2Att], "attachments", b.bases[itM2Att])
	viol := func(class, expL, obsL, what string, extra map[string]any) {
		extra["config"], extra["chain_after_resume"], extra["states"] = cfg, chain, cfg.stateTable()
		res.Violate("C18|decision-mismatch|"+class+"|after-environment-refresh|expected="+expL+"|observed="+obsL, what, witnessOf(h.scen, extra))
	}
	lab := func(l string) string { return cfg.labelAt(l, contactLang) }
	// one message per destination; the templated ones (several-destinations family) do not show the flow's text
	for _, m := range groups[0].Msgs {
		if m.templated() {
			continue
		}
		if m.Text != txt[0] {
			viol("msg.text", lab(tl), lab(langOf(cfg, m.Text)), fmt.Sprintf("after a resume that changed the allowed languages to %v the message text is %q; the chain %v gives %q (%s)", cfg.Allowed2, m.Text, chain, txt[0], tl),
				map[string]any{"observed": m.Text, "expected": txt[0], "expected_language": tl})
		}
		if want := refSendableAttachments(att); !eqStrings(m.Attachments, want) {
			viol("msg.attachments", lab(al), lab(langOf(cfg, strings.Join(m.Attachments, " "))), fmt.Sprintf("after a resume that changed the allowed languages to %v the attachments are %v; the chain %v gives %v (%s)", cfg.Allowed2, m.Attachments, chain, want, al),
				map[string]any{"observed": m.Attachments, "expected": want, "expected_language": al})
		}
		if strings.TrimSpace(txt[0]) != "" {
			if obs := strings.SplitN(m.Locale, "-", 2)[0]; obs != tl {
				viol("msg.locale.from_text", lab(tl), lab(obs), fmt.Sprintf("after a resume that changed the allowed languages to %v the message locale is %q but its text was taken from %s", cfg.Allowed2, m.Locale, tl),
					map[string]any{"observed_locale": m.Locale, "text_language": tl})
			}
		}
	}
}
