package p07

import (
	"fmt"

	"verif/internal/gen"
)

type c07DirectedScen struct {
	scen   *gen.Scenario
	plants []int64
	intent *c07Intent
}

// matchTable: for every known test an (operand, contact text, arguments) triple that matches, and a filler test on the
// same operand that matches (after) / does not match (before).
type matchRow struct {
	operand string
	input   string
	args    []string
	yes     M // matching filler {type, arguments}
	no      M // non-matching filler
}

func matchTable() map[string]matchRow {
	txtYes := M{"type": "has_text"}
	txtNo := M{"type": "has_only_text", "arguments": []string{"zzz-no-match"}}
	row := func(input string, args ...string) matchRow {
		return matchRow{"@input.text", input, args, txtYes, txtNo}
	}
	testers := gen.NamedUUID("group:testers")
	return map[string]matchRow{
		"has_any_word":       row("the quick brown fox", "fox"),
		"has_all_words":      row("the quick brown fox", "quick fox"),
		"has_phrase":         row("the quick brown fox", "brown fox"),
		"has_only_phrase":    row("the quick brown fox", "the quick brown fox"),
		"has_only_text":      row("the quick brown fox", "the quick brown fox"),
		"has_beginning":      row("the quick brown fox", "the quick"),
		"has_text":           row("the quick brown fox"),
		"has_value":          row("the quick brown fox"),
		"has_pattern":        row("the quick brown fox", `(\w+) fox`),
		"has_number":         row("I am 23 years old"),
		"has_number_between": row("I am 23 years old", "18", "30"),
		"has_number_lt":      row("I am 23 years old", "30"),
		"has_number_lte":     row("I am 23 years old", "23"),
		"has_number_eq":      row("I am 23 years old", "23"),
		"has_number_gte":     row("I am 23 years old", "23"),
		"has_number_gt":      row("I am 23 years old", "18"),
		"has_date":           row("2020-01-01"),
		"has_date_lt":        row("2020-01-01", "2021-01-01"),
		"has_date_eq":        row("2020-01-01", "2020-01-01"),
		"has_date_gt":        row("2020-01-01", "2019-01-01"),
		"has_time":           row("10:30"),
		"has_phone":          row("+12065551212"),
		"has_email":          row("foo@bar.com"),
		"has_state":          row("Kigali"),
		"has_district":       row("Gasabo", "Kigali"),
		"has_ward":           row("Gisozi", "Kigali", "Gasabo"),
		"has_group": {"@contact.groups", "x", []string{testers}, M{"type": "has_group", "arguments": []string{testers, "Testers"}},
			M{"type": "has_group", "arguments": []string{gen.NamedUUID("group:nope")}}},
		"has_category": {"@results.prev", "x", []string{"Red"}, M{"type": "has_category", "arguments": []string{"Blue", "Red"}},
			M{"type": "has_category", "arguments": []string{"Nope"}}},
		"has_intent": {"@results.intent", "x", []string{"book_flight", "0.4"}, M{"type": "has_intent", "arguments": []string{"book_hotel", "0.2"}},
			M{"type": "has_intent", "arguments": []string{"nope", "0.1"}}},
		"has_top_intent": {"@results.intent", "x", []string{"book_flight", "0.4"}, M{"type": "has_intent", "arguments": []string{"book_flight", "0.1"}},
			M{"type": "has_top_intent", "arguments": []string{"book_hotel", "0.1"}}},
		"has_error": {"@(1/0)", "x", nil, M{"type": "has_error"}, M{"type": "has_text"}},
	}
}

func setupActions(prevVal, prevCat string) []any {
	d := dsl
	return []any{
		d.Action("setprev", "set_run_result", M{"name": "Prev", "value": prevVal, "category": prevCat}),
		d.Action("classify", "call_classifier", M{"classifier": M{"uuid": gen.NamedUUID("classifier:booking"), "name": "Booking"}, "input": "book a flight", "result_name": "Intent"}),
	}
}

// stdFlow: setup → w → r(router) → sinks (one per exit name).
func stdFlow(router M, exits []string, timeoutToR bool) M {
	d := dsl
	nodes := []M{d.Node("setup", setupActions("23", "Red"), nil, d.Exit("setup:x", "w"))}
	var to *string
	if timeoutToR {
		s := "r"
		to = &s
	}
	nodes = append(nodes, d.WaitNode("w", "r", to))
	var rx []M
	for _, e := range exits {
		rx = append(rx, d.Exit(e, "sink:"+e))
	}
	nodes = append(nodes, d.Node("r", nil, router, rx...))
	for _, e := range exits {
		nodes = append(nodes, d.Node("sink:"+e, []any{d.SendMsg("m:"+e, "left by "+e)}, nil, d.Exit("sink:"+e+":x", "w")))
	}
	return d.Flow("R", "messaging", nodes...)
}

func mkCase(i int, m M, cat M) M {
	c := M{"uuid": gen.NamedUUID(fmt.Sprintf("case:r:%d", i)), "type": m["type"], "category_uuid": cat["uuid"]}
	if a, ok := m["arguments"]; ok && a != nil {
		c["arguments"] = a
	}
	return c
}

func c07DirectedScens(name string) []c07DirectedScen {
	d := dsl
	var out []c07DirectedScen
	add := func(s *gen.Scenario, intent *c07Intent, plants ...int64) {
		out = append(out, c07DirectedScen{scen: s, intent: intent, plants: plants})
	}
	cA, cB, cC, cO := d.Cat("A", "ea"), d.Cat("B", "eb"), d.Cat("C", "ec"), d.Cat("Other", "eo")
	four := []M{cA, cB, cC, cO}
	fourExits := []string{"ea", "eb", "ec", "eo"}

	position := func(pos int) {
		tbl := matchTable()
		for _, t := range allTests() {
			row, ok := tbl[t]
			if !ok {
				continue
			}
			var cs []M
			for i := 0; i < 3; i++ {
				var m M
				switch {
				case i < pos:
					m = row.no
				case i == pos:
					m = M{"type": t}
					if row.args != nil {
						m["arguments"] = row.args
					}
				default:
					m = row.yes
				}
				cs = append(cs, mkCase(i, m, four[i]))
			}
			router := d.Switch(row.operand, four, cO, cs, nil, "Answer")
			add(&gen.Scenario{Assets: d.BaseAssets(stdFlow(router, fourExits, false)), Trigger: d.Manual("R", nil), Resumes: []M{d.MsgResume(0, row.input), d.MsgResume(1, row.input)}}, &c07Intent{winnerCase: pos})
		}
	}

	switch name {
	case "every-test-first-of-three":
		position(0)
	case "every-test-middle-of-three":
		position(1)
	case "every-test-last-of-three":
		position(2)
	case "erroring-first-case":
		for _, bad := range []M{
			{"type": "has_any_word", "arguments": []string{"@(1/0)"}},        // argument evaluates to an error
			{"type": "has_any_word", "arguments": []string{}},                // too few arguments
			{"type": "has_text", "arguments": []string{"extra"}},             // too many arguments
			{"type": "has_number_lt", "arguments": []string{"not a number"}}, // argument of the wrong type
			{"type": "has_pattern", "arguments": []string{"("}},              // invalid regex
			{"type": "has_date_lt", "arguments": []string{"@(fields.nope"}},  // broken template
		} {
			cs := []M{mkCase(0, bad, cA), mkCase(1, M{"type": "has_any_word", "arguments": []string{"yes"}}, cB), mkCase(2, M{"type": "has_text"}, cC)}
			router := d.Switch("@input.text", four, cO, cs, nil, "Answer")
			add(&gen.Scenario{Assets: d.BaseAssets(stdFlow(router, fourExits, false)), Trigger: d.Manual("R", nil), Resumes: []M{d.MsgResume(0, "yes 5"), d.MsgResume(1, "oh yes")}}, &c07Intent{winnerCase: 1})
		}
	case "no-default-no-match":
		cs := []M{mkCase(0, M{"type": "has_any_word", "arguments": []string{"yes"}}, cA), mkCase(1, M{"type": "has_number"}, cB)}
		add(&gen.Scenario{Assets: d.BaseAssets(stdFlow(d.Switch("@input.text", four, nil, cs, nil, "Answer"), fourExits, false)), Trigger: d.Manual("R", nil), Resumes: []M{d.MsgResume(0, "maybe")}}, &c07Intent{winnerCase: -1})
		// no cases at all and no default
		add(&gen.Scenario{Assets: d.BaseAssets(stdFlow(d.Switch("@input.text", four, nil, nil, nil, ""), fourExits, false)), Trigger: d.Manual("R", nil), Resumes: []M{d.MsgResume(0, "maybe")}}, &c07Intent{winnerCase: -1})
		// every case errors and there is no default
		cs2 := []M{mkCase(0, M{"type": "has_any_word", "arguments": []string{"@(1/0)"}}, cA), mkCase(1, M{"type": "has_text", "arguments": []string{"x"}}, cB)}
		add(&gen.Scenario{Assets: d.BaseAssets(stdFlow(d.Switch("@input.text", four, nil, cs2, nil, "Answer"), fourExits, false)), Trigger: d.Manual("R", nil), Resumes: []M{d.MsgResume(0, "yes")}}, &c07Intent{winnerCase: -1})
		// the router carries the wait itself
		wr := d.Switch("@input.text", four, nil, cs, M{"type": "msg"}, "Answer")
		fl := d.Flow("R", "messaging", d.Node("r", nil, wr, d.Exit("ea", "s"), d.Exit("eb", "s"), d.Exit("ec", "s"), d.Exit("eo", "s")), d.Node("s", []any{d.SendMsg("ms", "sink")}, nil, d.Exit("sx", "")))
		add(&gen.Scenario{Assets: d.BaseAssets(fl), Trigger: d.Manual("R", nil), Resumes: []M{d.MsgResume(0, "maybe")}}, &c07Intent{winnerCase: -1})
	case "duplicate-categories":
		// two categories called "Yes" with different exits, two categories sharing one exit
		y1, y2 := d.Cat("Yes", "ea"), M{"uuid": gen.NamedUUID("cat:yes2"), "name": "Yes", "exit_uuid": gen.NamedUUID("exit:eb")}
		n1, n2 := d.Cat("No", "ec"), M{"uuid": gen.NamedUUID("cat:nope"), "name": "Nope", "exit_uuid": gen.NamedUUID("exit:ec")}
		cats := []M{y1, y2, n1, n2, cO}
		cs := []M{mkCase(0, M{"type": "has_any_word", "arguments": []string{"yeah"}}, y2), mkCase(1, M{"type": "has_any_word", "arguments": []string{"yes yeah"}}, y1),
			mkCase(2, M{"type": "has_any_word", "arguments": []string{"nope"}}, n2), mkCase(3, M{"type": "has_any_word", "arguments": []string{"no nope"}}, n1)}
		router := d.Switch("@input.text", cats, cO, cs, nil, "Answer")
		add(&gen.Scenario{Assets: d.BaseAssets(stdFlow(router, fourExits, false)), Trigger: d.Manual("R", nil),
			Resumes: []M{d.MsgResume(0, "yeah"), d.MsgResume(1, "yes"), d.MsgResume(2, "yes"), d.MsgResume(3, "nope"), d.MsgResume(4, "no"), d.MsgResume(5, "what")}}, nil)
	case "timeout-vs-default":
		// router with its own wait: timeout category differs from the default category
		for _, withResult := range []string{"Answer", ""} {
			cs := []M{mkCase(0, M{"type": "has_any_word", "arguments": []string{"yes"}}, cA)}
			wr := d.Switch("@input.text", four, cO, cs, M{"type": "msg", "timeout": M{"seconds": 60, "category_uuid": cC["uuid"]}}, withResult)
			fl := d.Flow("R", "messaging", d.Node("r", nil, wr, d.Exit("ea", "sa"), d.Exit("eb", "sa"), d.Exit("ec", "sc"), d.Exit("eo", "so")),
				d.Node("sa", []any{d.SendMsg("msa", "A")}, nil, d.Exit("sax", "r")), d.Node("sc", []any{d.SendMsg("msc", "timeout")}, nil, d.Exit("scx", "r")), d.Node("so", []any{d.SendMsg("mso", "other")}, nil, d.Exit("sox", "r")))
			add(&gen.Scenario{Assets: d.BaseAssets(fl), Trigger: d.Manual("R", nil), Resumes: []M{d.Timeout(0), d.MsgResume(1, "what"), d.Timeout(2), d.Timeout(3), d.MsgResume(4, "yes")}}, nil)
		}
		// wait node with timeout leading into a router without wait
		cs := []M{mkCase(0, M{"type": "has_any_word", "arguments": []string{"yes"}}, cA)}
		add(&gen.Scenario{Assets: d.BaseAssets(stdFlow(d.Switch("@input.text", four, cO, cs, nil, "Answer"), fourExits, true)), Trigger: d.Manual("R", nil),
			Resumes: []M{d.Timeout(0), d.MsgResume(1, "yes"), d.Timeout(2)}}, nil)
	case "random-1", "random-2", "random-7":
		n := map[string]int{"random-1": 1, "random-2": 2, "random-7": 7}[name]
		var cats []M
		var exits []string
		for i := 0; i < n; i++ {
			e := fmt.Sprintf("e%d", i)
			cats = append(cats, d.Cat(fmt.Sprintf("Bucket %d", i), e))
			exits = append(exits, e)
		}
		var cj []any
		for _, c := range cats {
			cj = append(cj, c)
		}
		for _, rn := range []string{"Bucket", ""} {
			router := M{"type": "random", "categories": cj}
			if rn != "" {
				router["result_name"] = rn
			}
			var resumes []M
			var plants []int64
			for i := 0; i < 12; i++ {
				resumes = append(resumes, d.MsgResume(i, "go"))
			}
			// boundary draws: 0, just below 1, j/n and its neighbours
			plants = append(plants, plantFor(0, n, 0), plantFor(0, n, 1), plantFor(n, n, -1))
			for j := 1; j < n && len(plants) < 12; j++ {
				plants = append(plants, plantFor(j, n, -1), plantFor(j, n, 0), plantFor(j, n, 1))
			}
			add(&gen.Scenario{Assets: d.BaseAssets(stdFlow(router, exits, false)), Trigger: d.Manual("R", nil), Resumes: resumes}, nil, plants...)
		}
	case "localized-arguments":
		// spa translation makes another case win; fra translation has the wrong length and is ignored; kin is [""]
		for _, lang := range []string{"eng", "spa", "fra", "kin", ""} {
			cs := []M{mkCase(0, M{"type": "has_any_word", "arguments": []string{"yes"}}, cA), mkCase(1, M{"type": "has_any_word", "arguments": []string{"no"}}, cB),
				mkCase(2, M{"type": "has_number_between", "arguments": []string{"1", "10"}}, cC)}
			router := d.Switch("@input.text", four, cO, cs, nil, "Answer")
			fl := stdFlow(router, fourExits, false)
			loc := M{}
			setLoc(loc, "spa", cs[0]["uuid"].(string), "arguments", []string{"si"})
			setLoc(loc, "spa", cs[1]["uuid"].(string), "arguments", []string{"yes"})
			setLoc(loc, "spa", cs[2]["uuid"].(string), "arguments", []string{"20", "@(10 + 20)"})
			setLoc(loc, "fra", cs[0]["uuid"].(string), "arguments", []string{"oui", "yes"})
			setLoc(loc, "fra", cs[1]["uuid"].(string), "arguments", []string{})
			setLoc(loc, "fra", cs[2]["uuid"].(string), "arguments", []string{"20"})
			setLoc(loc, "kin", cs[0]["uuid"].(string), "arguments", []string{""})
			setLoc(loc, "kin", cs[1]["uuid"].(string), "arguments", []string{"yego"})
			setLoc(loc, "spa", cA["uuid"].(string), "name", []string{"A-spa"})
			fl["localization"] = loc
			ct := d.Contact()
			if lang == "" {
				delete(ct, "language")
			} else {
				ct["language"] = lang
			}
			tr := d.Manual("R", ct)
			tr["environment"].(M)["allowed_languages"] = []string{"eng", "spa", "fra", "kin"}
			add(&gen.Scenario{Assets: d.BaseAssets(fl), Trigger: tr, Resumes: []M{d.MsgResume(0, "yes"), d.MsgResume(1, "si"), d.MsgResume(2, "25"), d.MsgResume(3, "5"), d.MsgResume(4, "yego"), d.MsgResume(5, "oui")}}, nil)
		}
	case "no-router-first-exit":
		fl := d.Flow("R", "messaging",
			d.WaitNode("w", "p", nil),
			d.Node("p", []any{d.SendMsg("mp", "plain")}, nil, d.Exit("p0", "q"), d.Exit("p1", "w"), d.Exit("p2", "")),
			d.Node("q", nil, nil, d.Exit("q0", "z"), d.Exit("q1", "w")),
			d.Node("z", nil, nil, d.Exit("z0", "")))
		add(&gen.Scenario{Assets: d.BaseAssets(fl), Trigger: d.Manual("R", nil), Resumes: []M{d.MsgResume(0, "x")}}, nil)
	case "result-truncation":
		for _, max := range []int{0, 1, 5, 640} {
			cs := []M{mkCase(0, M{"type": "has_phrase", "arguments": []string{"quick brown"}}, cA)}
			router := d.Switch("@input.text", four, cO, cs, nil, "Answer")
			add(&gen.Scenario{Assets: d.BaseAssets(stdFlow(router, fourExits, false)), Trigger: d.Manual("R", nil),
				Resumes: []M{d.MsgResume(0, "the quick brown fox"), d.MsgResume(1, "the quick brown fox"), d.MsgResume(2, "😀😀 something else entirely"), d.MsgResume(3, gen.LongString(700, 639))},
				Options: gen.Options{Set: true, MaxSteps: 100, MaxResumes: 500, MaxTemplateChars: 10000, MaxFieldChars: 640, MaxResultChars: max}}, nil)
		}
	case "subflow-split":
		pc, pe, po := d.Cat("Complete", "e:c"), d.Cat("Expired", "e:e"), d.Cat("Other", "e:o")
		for _, operand := range []string{"@child.status", "@child.run.status", "@child.results.answer.category"} {
			ecs := []M{mkCase(0, M{"type": "has_only_text", "arguments": []string{"completed"}}, pc), mkCase(1, M{"type": "has_only_text", "arguments": []string{"expired"}}, pe),
				mkCase(2, M{"type": "has_any_word", "arguments": []string{"A B"}}, pc)}
			for i := range ecs {
				ecs[i]["uuid"] = gen.NamedUUID(fmt.Sprintf("case:e:%d", i))
			}
			er := d.Switch(operand, []M{pc, pe, po}, po, ecs, nil, "Sub")
			parent := d.Flow("P", "messaging", d.WaitNode("pw", "e", nil),
				d.Node("e", []any{d.Enter("enter", "R", false)}, er, d.Exit("e:c", "ps"), d.Exit("e:e", "ps"), d.Exit("e:o", "ps")),
				d.Node("ps", []any{d.SendMsg("mps", "back in parent")}, nil, d.Exit("ps:x", "pw")))
			cs := []M{mkCase(0, M{"type": "has_any_word", "arguments": []string{"yes"}}, cA), mkCase(1, M{"type": "has_any_word", "arguments": []string{"no"}}, cB)}
			child := d.Flow("R", "messaging", d.WaitNode("w", "r", nil),
				d.Node("r", nil, d.Switch("@input.text", four, cO, cs, nil, "Answer"), d.Exit("ea", "s"), d.Exit("eb", "s"), d.Exit("ec", "s"), d.Exit("eo", "s")),
				d.Node("s", []any{d.SendMsg("ms", "child done")}, nil, d.Exit("s:x", "")))
			add(&gen.Scenario{Assets: d.BaseAssets(parent, child), Trigger: d.Manual("P", nil),
				Resumes: []M{d.MsgResume(0, "go"), d.MsgResume(1, "yes"), d.MsgResume(2, "go"), d.Expiration(3), d.MsgResume(4, "go"), d.MsgResume(5, "no")}}, nil)
		}
		// a child without wait whose router picks no category: the child fails and the parent's router never decides
		bad := d.Flow("R", "messaging", d.Node("r", nil, d.Switch("@contact.name", four, nil, []M{mkCase(0, M{"type": "has_only_text", "arguments": []string{"nobody"}}, cA)}, nil, "Answer"),
			d.Exit("ea", ""), d.Exit("eb", ""), d.Exit("ec", ""), d.Exit("eo", "")))
		er := d.Switch("@child.status", []M{pc, po}, po, nil, nil, "Sub")
		parent := d.Flow("P", "messaging", d.Node("e", []any{d.Enter("enter", "R", false)}, er, d.Exit("e:c", ""), d.Exit("e:o", "")))
		add(&gen.Scenario{Assets: d.BaseAssets(parent, bad), Trigger: d.Manual("P", nil)}, &c07Intent{winnerCase: -1})
	case "pattern-case-twins":
		out = directedPatternTwins()
	case "environment-from-resume":
		out = directedEnvironments()
	case "expiration":
		cs := []M{mkCase(0, M{"type": "has_text"}, cA)}
		wr := d.Switch("@input.text", four, cO, cs, M{"type": "msg", "timeout": M{"seconds": 60, "category_uuid": cC["uuid"]}}, "Answer")
		fl := d.Flow("R", "messaging", d.Node("r", nil, wr, d.Exit("ea", "s"), d.Exit("eb", "s"), d.Exit("ec", "s"), d.Exit("eo", "s")), d.Node("s", []any{d.SendMsg("ms", "sink")}, nil, d.Exit("sx", "r")))
		add(&gen.Scenario{Assets: d.BaseAssets(fl), Trigger: d.Manual("R", nil), Resumes: []M{d.MsgResume(0, "x"), d.Expiration(1)}}, nil)
		add(&gen.Scenario{Assets: d.BaseAssets(stdFlow(d.Switch("@input.text", four, cO, cs, nil, "Answer"), fourExits, false)), Trigger: d.Manual("R", nil), Resumes: []M{d.Expiration(0)}}, nil)
	}
	return out
}
