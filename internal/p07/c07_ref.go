package p07

import (
	"encoding/json"
	"fmt"
	"regexp"
	"slices"
	"strings"
	"time"

	"github.com/nyaruka/gocommon/i18n"
	"github.com/nyaruka/goflow/envs"
	"github.com/nyaruka/goflow/excellent"
	"github.com/nyaruka/goflow/excellent/types"
	"github.com/nyaruka/goflow/flows"
	"github.com/nyaruka/goflow/flows/routers/cases"
)

// ---------------------------------------------------------------------------------------------
// The parts of the C07 reference that do NOT go through the session / the test registry.
//
//  1. The environment the routers of a sprint must have used. It is derived from OUR OWN record of the
//     history: the environment JSON of the trigger, replaced by the environment JSON of every accepted resume
//     that carried one. On top of it the contact's timezone / language / country are merged by refMergedEnv
//     (a restatement of the documented merge). session.MergedEnvironment() is never asked.
//     TRUSTED: envs.ReadEnvironment (reading the JSON we generated), flows.NewAssetsEnvironment (location
//     resolver over the assets), Contact.Timezone/Language/Country.
//
//  2. has_pattern. Whether a pattern matches is decided here with Go's regexp on the pattern text of the case
//     that is being judged: compiled anew on every evaluation, nothing is kept between evaluations.
//     TRUSTED: package regexp, types.ToXText. Every other test is still called through cases.XTESTS.
// ---------------------------------------------------------------------------------------------

// envTrack is our own record of the session's base environment.
type envTrack struct {
	cur     json.RawMessage // environment JSON in force (nil: the trigger had none)
	prev    json.RawMessage // the one in force before the last change
	changed bool            // the call being checked changed it
	changes int
}

func rawEnvOf(m map[string]any) json.RawMessage {
	e, ok := m["environment"]
	if !ok || e == nil {
		return nil
	}
	b, err := json.Marshal(e)
	if err != nil {
		return nil
	}
	return b
}

type envJSON struct {
	AllowedLanguages []string `json:"allowed_languages"`
}

func allowedOf(raw json.RawMessage, fallback []string) []string {
	if raw == nil {
		return fallback
	}
	var e envJSON
	if json.Unmarshal(raw, &e) != nil {
		return fallback
	}
	return e.AllowedLanguages
}

// refMergedEnv merges the contact's properties into a base environment: the contact's timezone if it has one, the
// contact's language if it is an allowed one, the country of the contact's preferred channel if there is one.
type refMergedEnv struct {
	envs.Environment
	contact func() *flows.Contact
}

func (e *refMergedEnv) Timezone() *time.Location {
	if c := e.contact(); c != nil && c.Timezone() != nil {
		return c.Timezone()
	}
	return e.Environment.Timezone()
}

func (e *refMergedEnv) DefaultLanguage() i18n.Language {
	if c := e.contact(); c != nil && c.Language() != i18n.NilLanguage && slices.Contains(e.AllowedLanguages(), c.Language()) {
		return c.Language()
	}
	return e.Environment.DefaultLanguage()
}

func (e *refMergedEnv) DefaultCountry() i18n.Country {
	if c := e.contact(); c != nil {
		if cc := c.Country(); cc != i18n.NilCountry {
			return cc
		}
	}
	return e.Environment.DefaultCountry()
}

func (e *refMergedEnv) DefaultLocale() i18n.Locale {
	return i18n.NewLocale(e.DefaultLanguage(), e.DefaultCountry())
}

// buildRefEnv: the merged environment over the base read from raw. ok=false when raw cannot be used (absent or
// unreadable); the caller then falls back on the session's plain base environment.
func buildRefEnv(s flows.Session, raw json.RawMessage) (env envs.Environment, base envs.Environment, ok bool) {
	defer func() {
		if r := recover(); r != nil {
			env, base, ok = nil, nil, false
		}
	}()
	if raw == nil {
		return nil, nil, false
	}
	b, err := envs.ReadEnvironment(raw)
	if err != nil {
		return nil, nil, false
	}
	return mergedOver(s, b), b, true
}

func mergedOver(s flows.Session, base envs.Environment) envs.Environment {
	return &refMergedEnv{Environment: flows.NewAssetsEnvironment(base, s.Assets().Locations()), contact: s.Contact}
}

// ---------------------------------------------------------------------------------------------
// has_pattern, restated
// ---------------------------------------------------------------------------------------------

// patternLog remembers, for one scenario, the patterns the reference has judged so far (evidence only: it tells
// whether a scenario contained two patterns that differ only in letter case and disagree on the text at hand).
type patternLog struct {
	seen []string
}

// ownHasPattern: both arguments as text; the pattern, trimmed, is matched case-insensitively in multi-line mode;
// the match is the text the whole pattern matched. An argument that is an error, a wrong number of arguments or a
// pattern that does not compile is an error.
func ownHasPattern(env envs.Environment, args []types.XValue) (matched, isErr bool, match string, pattern, text string) {
	if len(args) != 2 {
		return false, true, "", "", ""
	}
	t, xerr := types.ToXText(env, args[0])
	if xerr != nil {
		return false, true, "", "", ""
	}
	p, xerr := types.ToXText(env, args[1])
	if xerr != nil {
		return false, true, "", "", ""
	}
	pattern, text = strings.TrimSpace(p.Native()), t.Native()
	re, err := regexp.Compile("(?mi)" + pattern)
	if err != nil {
		return false, true, "", pattern, text
	}
	m := re.FindStringSubmatch(text)
	if m == nil {
		return false, false, "", pattern, text
	}
	return true, false, m[0], pattern, text
}

// note records pattern and tells whether an earlier pattern of this scenario differs from it only in letter case
// (twin) and whether such a twin gives another verdict on text (disagrees).
func (l *patternLog) note(pattern, text string, matched bool, match string) (twin, disagrees bool) {
	if l == nil {
		return
	}
	for _, q := range l.seen {
		if q == pattern || strings.ToLower(q) != strings.ToLower(pattern) {
			continue
		}
		twin = true
		if re, err := regexp.Compile("(?mi)" + q); err == nil {
			m := re.FindStringSubmatch(text)
			if (m != nil) != matched || (m != nil && m[0] != match) {
				disagrees = true
			}
		}
	}
	if !slices.Contains(l.seen, pattern) {
		l.seen = append(l.seen, pattern)
	}
	return
}

// ---------------------------------------------------------------------------------------------
// Reference switch router of C07
// ---------------------------------------------------------------------------------------------

type refObs struct {
	test    func(test, outcome string)
	pattern func(twin, disagrees bool)
}

// refSwitch07 is the selection logic of the statement: operand and localized arguments are evaluated with the real
// evaluator on ctx in env, tests are judged in definition order (has_pattern by ownHasPattern, the others through
// cases.XTESTS), the first truthy non-error result wins, an error result means "no match, continue"; otherwise the
// default category; otherwise no category.
func refSwitch07(ev *excellent.Evaluator, env envs.Environment, ctx *types.XObject, f *defFlow, chain []string, rt *defRouter, plog *patternLog, obs refObs) (d decision) {
	d.CaseIdx = -1
	defer func() {
		if rec := recover(); rec != nil {
			d.Skip = fmt.Sprintf("reference panicked: %v", rec)
		}
	}()
	operand, _, _ := ev.TemplateValue(env, ctx, rt.Operand)
	if t, _ := types.ToXText(env, operand); t != nil {
		d.Operand = t.Native()
	}

	evalCase := func(c *defCase, stats bool) (matched bool, isErr bool, matchText string, lang string, skip string) {
		fn := cases.XTESTS[c.Type]
		if fn == nil {
			return false, false, "", "", "test not registered: " + c.Type
		}
		largs, lang := f.resolve(chain, c.UUID, "arguments", c.Arguments)
		if len(largs) != len(c.Arguments) {
			largs, lang = c.Arguments, f.Language
			if !stats {
				d.LenMismatch++
			}
		}
		args := []types.XValue{operand}
		for _, a := range largs {
			v, _, _ := ev.TemplateValue(env, ctx, a)
			args = append(args, v)
		}
		if c.Type == "has_pattern" {
			m, e, mt, pat, text := ownHasPattern(env, args)
			if !e && !stats {
				tw, dis := plog.note(pat, text, m, mt)
				if obs.pattern != nil {
					obs.pattern(tw, dis)
				}
			}
			return m, e, mt, lang, ""
		}
		switch typed := fn.Call(env, args).(type) {
		case *types.XError:
			return false, true, "", lang, ""
		case *types.XObject:
			if !typed.Truthy() {
				return false, false, "", lang, ""
			}
			m, _ := typed.Get("match")
			mt, xerr := types.ToXText(env, m)
			if xerr != nil {
				return true, false, "", lang, "match is not convertible to text"
			}
			return true, false, mt.Native(), lang, ""
		default:
			return false, false, "", lang, "test returned neither error nor object"
		}
	}

	observe := obs.test
	if observe == nil {
		observe = func(string, string) {}
	}
	for i := range rt.Cases {
		c := &rt.Cases[i]
		matched, isErr, mt, lang, skip := evalCase(c, false)
		d.ArgLangs = append(d.ArgLangs, lang)
		if skip != "" {
			d.Skip = skip
			return d
		}
		switch {
		case isErr:
			observe(c.Type, "error")
			d.ErrBefore = append(d.ErrBefore, i)
		case matched:
			observe(c.Type, "match")
			d.Kind, d.CaseIdx, d.Value, d.WinnerLang = "case", i, mt, lang
			d.Cat = rt.cat(c.CategoryUUID)
			d.Matching = append(d.Matching, i)
		default:
			observe(c.Type, "false")
		}
		if d.Kind == "case" {
			break
		}
	}
	if d.Kind == "case" {
		if d.Cat == nil {
			d.Skip = "case category not among the categories"
			return d
		}
		// statistics only: which later cases would also have matched
		func() {
			defer func() { recover() }()
			for i := d.CaseIdx + 1; i < len(rt.Cases); i++ {
				if matched, _, _, _, skip := evalCase(&rt.Cases[i], true); matched && skip == "" {
					d.Matching = append(d.Matching, i)
				}
			}
		}()
		return d
	}
	if rt.DefaultCategoryUUID != "" {
		d.Kind, d.Value = "default", d.Operand
		d.Cat = rt.cat(rt.DefaultCategoryUUID)
		if d.Cat == nil {
			d.Skip = "default category not among the categories"
		}
		return d
	}
	d.Kind = "none"
	return d
}

// sameDecision: two reference decisions prescribe the same thing (exit, category, value, input).
func sameDecision(a, b decision) bool {
	if a.Skip != "" || b.Skip != "" {
		return true
	}
	if a.Kind != b.Kind || a.Value != b.Value || a.Operand != b.Operand {
		return false
	}
	if (a.Cat == nil) != (b.Cat == nil) {
		return false
	}
	return a.Cat == nil || a.Cat.UUID == b.Cat.UUID
}
