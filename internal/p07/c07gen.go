package p07

import (
	"fmt"
	"math"
	"sort"
	"strings"

	"github.com/nyaruka/goflow/flows/routers/cases"

	"verif/internal/fw"
	"verif/internal/gen"
)

// ---------------------------------------------------------------------------------------------
// Scenario shape for C07:   [setup] → wait node W → [plain node P] → router under test R → one sink per exit
//                      or   [setup] → R (router with its own wait) → sinks
//                      or   msg trigger → R as first node (its wait is skipped) → sinks
// Sinks are plain nodes with one send_msg; optionally their exit loops back to the waiting node, so that several
// resumes route again. Operands and arguments only reference context that no later step of the same sprint
// changes (never run.*, node.*, the router's own result, bare @results, @legacy_extra, rand()).
// ---------------------------------------------------------------------------------------------

var inputTexts = []string{
	"the quick brown fox", "I am 23 years old", "yes", "YES please", "no", "red", "blue red", "hi there", "23", "17", "-5", "1,000.50",
	"2020-01-01", "my birthday is 01-02-2020 ok", "31-12-99", "tomorrow at 10:30", "10:30", "12:00 am", "call +12065551212 now", "0788383383",
	"foo@bar.com", "mail me at bob@nyaruka.com", "Kigali", "kigali city", "Gasabo", "Gisozi", "book a flight", "", "  yes  ", "日本語 yes", "😀", "@(1/0)",
	"@contact.name", "a\"b", `back\slash`, "yes.", "Yes!", "@", "@contact.name is me", " red", "one two three four five six seven eight nine ten eleven twelve",
}

var operandPool = []struct {
	tpl  string
	kind string
	w    int
}{
	{"@input.text", "input.text", 40}, {"@input", "input", 4}, {"@(upper(input.text))", "expr", 3}, {"@(input.text & \" \" & fields.age)", "expr", 2},
	{"hello @input.text", "template", 3}, {"plain yes text", "literal", 2}, {"  yes  ", "literal", 2}, {"bob@@nyaruka.com", "literal", 1}, {"@@contact.name", "literal", 1}, {" @input.text ", "input.text", 2}, {"@(word(input.text, 0))", "expr-may-error", 2},
	{"@fields.age", "field", 4}, {"@fields.gender", "field", 3}, {"@contact.fields.state", "field", 2}, {"@fields.nick", "field-unset", 2}, {"@fields.joined", "field", 2},
	{"@contact.name", "contact", 3}, {"@contact.language", "contact", 1}, {"@contact", "contact", 1}, {"@contact.groups", "groups", 4}, {"@urns.tel", "urns", 2},
	{"@results.prev", "result", 4}, {"@results.prev.value", "result", 3}, {"@results.prev.category", "result", 2}, {"@results.intent", "result", 4},
	{"@results.nope", "error", 2}, {"@(1/0)", "error", 3}, {"@(fields.age + 1)", "expr", 2}, {"@(default(fields.nick, input.text))", "expr", 2},
	{"@globals.org_name", "global", 1}, {"@results.response_w.value", "result-of-wait", 3}, {"@(input.text", "broken-template", 1}, {"@trigger.params.word", "trigger", 1},
}

var catNames = []string{"Yes", "No", "Other", "Red", "Blue", "Yes", "Other", "Success", "Under 18", "Über", ""}
var resultNames = []string{"Color", "Age Result", "2Factor", "q1", "Answer"}

// allTests: the registry of the code under test, sorted.
func allTests() []string {
	var ns []string
	for n := range cases.XTESTS {
		ns = append(ns, n)
	}
	sort.Strings(ns)
	return ns
}

func words(s string) []string { return strings.Fields(s) }

// argsFor builds plausible arguments for a test; hint is the text the contact is going to send.
func argsFor(r *fw.Rand, test, hint string) []string {
	hw := words(hint)
	fromHint := func(alt ...string) string {
		if len(hw) > 0 && r.Chance(0.55) {
			switch r.Intn(4) {
			case 0:
				return fw.Pick(r, hw)
			case 1:
				return hint
			case 2:
				i := r.Intn(len(hw))
				j := i + 1 + r.Intn(len(hw)-i)
				return strings.Join(hw[i:j], " ")
			default:
				return strings.ToUpper(fw.Pick(r, hw))
			}
		}
		return fw.Pick(r, alt)
	}
	textAlt := []string{"yes", "yes yeah", "red blue", "no", "hi there", "RED", "", "fox", "@fields.gender", "@(lower(\"YES\"))", "@globals.org_name", "@contact.name", "@results.prev.value", "male 23",
		// arguments without any expression are templates too: '@@' is an '@', white space around them does not count
		"@@contact.name", "bob@@nyaruka.com", "  yes  ", " red", "yes ", "foo@@bar.com", "@@", "\tno\n"}
	numAlt := []string{"18", "23", "0", "100", "24", "-10", "x", "@globals.limit", "@fields.age", "@results.prev.value", "1e2", ""}
	dateAlt := []string{"2020-01-01", "@(today())", "@(now())", "@fields.joined", "2030-12-31", "1999-12-31", "x", "@(datetime(\"2019-06-01T00:00:00Z\"))", "01-02-2020"}
	switch test {
	case "has_any_word", "has_all_words", "has_phrase", "has_only_phrase", "has_only_text":
		return []string{fromHint(textAlt...)}
	case "has_beginning":
		if len(hint) > 2 && r.Chance(0.5) {
			rs := []rune(hint)
			return []string{string(rs[:1+r.Intn(len(rs)-1)])}
		}
		return []string{fw.Pick(r, textAlt)}
	case "has_pattern":
		return []string{fw.Pick(r, []string{`\d+`, `^y`, `(?i)red`, `(`, `.*`, `(\w+) (\w+)`, `^$`, `@fields.gender`, `[a-z]+@[a-z]+\.com`, `\w+@@\w+\.com`, ` ^yes$ `, `^@@`})}
	case "has_text", "has_value", "has_number", "has_date", "has_time", "has_email", "has_state", "has_error":
		return nil
	case "has_number_between":
		return []string{fw.Pick(r, []string{"1", "10", "0", "18", "-5", "x", "@fields.age"}), fw.Pick(r, []string{"20", "100", "23", "5", "@globals.limit", ""})}
	case "has_number_lt", "has_number_lte", "has_number_eq", "has_number_gte", "has_number_gt":
		return []string{fw.Pick(r, numAlt)}
	case "has_date_lt", "has_date_eq", "has_date_gt":
		return []string{fw.Pick(r, dateAlt)}
	case "has_phone":
		return [][]string{nil, {"US"}, {"RW"}, {""}, {"@contact.language"}}[r.Intn(5)]
	case "has_group":
		g := fw.Pick(r, []string{"group:testers", "group:customers", "group:adults", "group:nope"})
		a := []string{gen.NamedUUID(g)}
		if r.Bool() {
			a = append(a, fw.Pick(r, []string{"Testers", "Whatever"}))
		}
		return a
	case "has_category":
		n := r.Range(1, 3)
		var a []string
		for i := 0; i < n; i++ {
			a = append(a, fw.Pick(r, []string{"Yes", "Red", "No", "Success", "Other", "yes"}))
		}
		return a
	case "has_intent", "has_top_intent":
		return []string{fw.Pick(r, []string{"book_flight", "book_hotel", "x", "BOOK_FLIGHT"}), fw.Pick(r, []string{"0.4", "0.9", "0.1", "x", "0"})}
	case "has_district":
		return [][]string{nil, {"Kigali City"}, {"Kigali"}, {"Nowhere"}, {"@contact.fields.state"}}[r.Intn(5)]
	case "has_ward":
		return [][]string{nil, {"Kigali City", "Gasabo"}, {"Kigali", "Gasabo"}, {"Kigali City", "Nowhere"}, {"Kigali City"}}[r.Intn(5)]
	}
	// a test this generator does not know (registered later): generic text arguments
	n := r.Intn(3)
	var a []string
	for i := 0; i < n; i++ {
		a = append(a, fw.Pick(r, textAlt))
	}
	return a
}

// operandFor picks an operand that suits the test (so that matches are frequent), or any operand.
func operandFor(r *fw.Rand, tests []string) (string, string) {
	if len(tests) > 0 && r.Chance(0.65) {
		switch fw.Pick(r, tests) {
		case "has_group":
			return "@contact.groups", "groups"
		case "has_category":
			return "@results.prev", "result"
		case "has_intent", "has_top_intent":
			return "@results.intent", "result"
		case "has_error":
			return fw.Pick(r, []string{"@(1/0)", "@results.nope", "@input.text"}), "error"
		default:
			return "@input.text", "input.text"
		}
	}
	ws := make([]int, len(operandPool))
	for i, o := range operandPool {
		ws[i] = o.w
	}
	o := operandPool[r.Weighted(ws)]
	return o.tpl, o.kind
}

type c07Meta struct {
	Shape       string
	Kind        string // switch | random
	OperandKind string
	Tests       []string
	Injected    []string // error injections
	HasPlain    bool
	Loop        bool
	Plants      []int64
	Parent      bool
}

// translateArgs adds a translation of a case's arguments in lang with one of the grid states.
func translateArgs(r *fw.Rand, loc M, lang, uuid string, base []string, mk func() string) string {
	state := []string{"absent", "same", "empty-list", "blank", "shorter", "longer", "all-empty", "first-empty"}[r.Weighted([]int{40, 33, 5, 5, 7, 8, 5, 3})]
	var tr []string
	switch state {
	case "absent":
		return state
	case "same":
		for range base {
			tr = append(tr, mk())
		}
		if tr == nil {
			tr = []string{}
		}
	case "empty-list":
		tr = []string{}
	case "blank":
		tr = []string{""}
	case "shorter":
		for i := 0; i+1 < len(base); i++ {
			tr = append(tr, mk())
		}
		if tr == nil {
			tr = []string{}
		}
	case "longer":
		for range base {
			tr = append(tr, mk())
		}
		tr = append(tr, mk())
	case "all-empty":
		// as many elements as the base, every one of them empty: a translation like any other unless it is [] or [""]
		for range base {
			tr = append(tr, "")
		}
		if len(tr) < 2 {
			tr = []string{"", ""}
		}
	case "first-empty":
		for i := range base {
			if i == 0 {
				tr = append(tr, "")
			} else {
				tr = append(tr, mk())
			}
		}
		if len(tr) < 2 {
			tr = append(tr, mk(), mk())[:2]
			tr[0] = ""
		}
	}
	setLoc(loc, lang, uuid, "arguments", tr)
	return state
}

func setLoc(loc M, lang, uuid, prop string, tr []string) {
	lm, ok := loc[lang].(M)
	if !ok {
		lm = M{}
		loc[lang] = lm
	}
	im, ok := lm[uuid].(M)
	if !ok {
		im = M{}
		lm[uuid] = im
	}
	im[prop] = tr
}

// routerSpec builds the router under test and its exits; returns router JSON, exits, sink destinations.
func genC07(r *fw.Rand) (*gen.Scenario, *c07Meta) {
	d := dsl
	meta := &c07Meta{}
	tests := allTests()

	base := "eng"
	if r.Chance(0.15) {
		base = "spa"
	}
	var locLangs []string
	for _, l := range []string{"eng", "spa", "fra", "kin"} {
		if l != base && r.Chance(0.6) {
			locLangs = append(locLangs, l)
		}
	}
	loc := M{}

	// the resume history and the text the contact will send first
	nRes := r.Range(1, 4)
	shape := []string{"wait-then-router", "router-with-wait", "msg-trigger-first-node", "router-no-wait"}[r.Weighted([]int{42, 36, 14, 8})]
	meta.Shape = shape
	hint := fw.Pick(r, inputTexts)
	hasTimeout := r.Chance(0.5)

	// --- router under test
	meta.Kind = "switch"
	if r.Chance(0.13) {
		meta.Kind = "random"
	}
	nCats := r.Range(1, 5)
	if meta.Kind == "random" {
		nCats = fw.Pick(r, []int{1, 2, 2, 3, 4, 5, 7, 8})
	}
	nExits := nCats
	if nCats > 1 && r.Chance(0.3) {
		nExits = r.Range(1, nCats-1) // categories sharing exits
	}
	var cats []M
	for i := 0; i < nCats; i++ {
		e := i
		if i >= nExits {
			e = r.Intn(nExits)
		}
		name := fw.Pick(r, catNames)
		c := M{"uuid": gen.NamedUUID(fmt.Sprintf("cat:r:%d", i)), "name": name, "exit_uuid": gen.NamedUUID(fmt.Sprintf("exit:r:%d", e))}
		cats = append(cats, c)
		for _, l := range locLangs {
			if r.Chance(0.25) {
				setLoc(loc, l, c["uuid"].(string), "name", []string{name + "-" + l})
			}
		}
	}
	loop := r.Chance(0.6) && shape != "router-no-wait"
	meta.Loop = loop
	loopTarget := "w"
	if shape != "wait-then-router" {
		loopTarget = "r"
	}
	var rExits []M
	var sinks []M
	for e := 0; e < nExits; e++ {
		sink := fmt.Sprintf("sink%d", e)
		rExits = append(rExits, d.Exit(fmt.Sprintf("r:%d", e), sink))
		dest := ""
		if loop && r.Chance(0.8) {
			dest = loopTarget
		}
		var acts []any
		if r.Chance(0.8) {
			acts = []any{d.SendMsg("m:"+sink, fmt.Sprintf("left by exit %d", e))}
		}
		sinks = append(sinks, d.Node(sink, acts, nil, d.Exit(sink+":x", dest)))
	}

	var router M
	resultName := ""
	if r.Chance(0.75) {
		resultName = fw.Pick(r, resultNames)
	}
	var wait M
	if shape == "router-with-wait" || shape == "msg-trigger-first-node" {
		wait = M{"type": "msg"}
		if hasTimeout {
			wait["timeout"] = M{"seconds": 60, "category_uuid": fw.Pick(r, cats)["uuid"]}
		}
	}
	if meta.Kind == "random" {
		router = M{"type": "random", "categories": anyList(cats)}
		if wait != nil {
			router["wait"] = wait
		}
		if resultName != "" {
			router["result_name"] = resultName
		}
		// plant draws on category boundaries now and then
		if r.Chance(0.4) {
			for i := 0; i < nRes+1; i++ {
				j := r.Intn(nCats + 1)
				k := plantFor(j, nCats, r.Range(-1, 1))
				meta.Plants = append(meta.Plants, k)
			}
		}
	} else {
		nCases := []int{0, 1, 2, 3, 4, 5, 6}[r.Weighted([]int{6, 12, 22, 22, 16, 12, 10})]
		var chosen []string
		// a few routers use one test many times, most mix tests
		family := ""
		if r.Chance(0.3) {
			family = fw.Pick(r, tests)
		}
		for i := 0; i < nCases; i++ {
			if family != "" && r.Chance(0.8) {
				chosen = append(chosen, family)
			} else {
				chosen = append(chosen, fw.Pick(r, tests))
			}
		}
		meta.Tests = chosen
		operand, okind := operandFor(r, chosen)
		meta.OperandKind = okind
		var cs []M
		for i, t := range chosen {
			args := argsFor(r, t, hint)
			if r.Chance(0.15) {
				switch r.Intn(4) {
				case 0:
					if len(args) > 0 {
						args = args[:len(args)-1]
						meta.Injected = append(meta.Injected, "arity-")
					}
				case 1:
					args = append(append([]string{}, args...), "zzz")
					meta.Injected = append(meta.Injected, "arity+")
				case 2:
					if len(args) > 0 {
						args = append([]string{}, args...)
						args[r.Intn(len(args))] = "@(1/0)"
						meta.Injected = append(meta.Injected, "error-arg")
					}
				default:
					if len(args) > 0 {
						args = append([]string{}, args...)
						args[r.Intn(len(args))] = "@(fields.nope"
						meta.Injected = append(meta.Injected, "broken-arg")
					}
				}
			}
			c := M{"uuid": gen.NamedUUID(fmt.Sprintf("case:r:%d", i)), "type": t, "category_uuid": fw.Pick(r, cats)["uuid"]}
			if args != nil || r.Chance(0.3) {
				if args == nil {
					args = []string{}
				}
				c["arguments"] = args
			}
			for _, l := range locLangs {
				tt := t
				translateArgs(r, loc, l, c["uuid"].(string), args, func() string {
					a := argsFor(r, tt, hint)
					if len(a) == 0 {
						return fw.Pick(r, []string{"si", "oui", "rouge", "18", "2020-01-01"})
					}
					return fw.Pick(r, a)
				})
			}
			cs = append(cs, c)
		}
		router = M{"type": "switch", "operand": operand, "categories": anyList(cats), "cases": anyList(cs)}
		if r.Chance(0.8) {
			router["default_category_uuid"] = fw.Pick(r, cats)["uuid"]
		}
		if wait != nil {
			router["wait"] = wait
		}
		if resultName != "" {
			router["result_name"] = resultName
		}
	}

	// --- setup actions (results the operands may refer to)
	prevVal := fw.Pick(r, []string{"23", "yes", "red", "2020-01-01", "Kigali"})
	prevCat := fw.Pick(r, []string{"Yes", "Red", "Success", "Other"})
	setup := []any{
		d.Action("setprev", "set_run_result", M{"name": "Prev", "value": prevVal, "category": prevCat}),
		d.Action("classify", "call_classifier", M{"classifier": M{"uuid": gen.NamedUUID("classifier:booking"), "name": "Booking"}, "input": "book a flight", "result_name": "Intent"}),
	}
	if r.Chance(0.15) {
		setup = setup[:1]
	}

	var nodes []M
	switch shape {
	case "wait-then-router":
		nodes = append(nodes, d.Node("setup", setup, nil, d.Exit("setup:x", "w")))
		next := "r"
		if r.Chance(0.3) {
			next = "p"
			meta.HasPlain = true
		}
		var to *string
		if hasTimeout {
			t := next
			if r.Chance(0.3) {
				t = "sink0"
			}
			to = &t
		}
		nodes = append(nodes, d.WaitNode("w", next, to))
		if meta.HasPlain {
			np := r.Range(1, 3)
			var pe []M
			for i := 0; i < np; i++ {
				// the first exit is the one that counts, whether or not it leads anywhere (and whether or not a later one does)
				dst := fw.Pick(r, []string{"r", "r", "r", "", "sink0"})
				if i > 0 {
					dst = fw.Pick(r, []string{"r", "sink0", ""})
				}
				pe = append(pe, d.Exit(fmt.Sprintf("p:%d", i), dst))
			}
			nodes = append(nodes, d.Node("p", []any{d.SendMsg("m:p", "plain")}, nil, pe...))
		}
		nodes = append(nodes, d.Node("r", nil, router, rExits...))
	case "router-with-wait", "router-no-wait":
		nodes = append(nodes, d.Node("setup", setup, nil, d.Exit("setup:x", "r")))
		nodes = append(nodes, d.Node("r", nil, router, rExits...))
	default:
		nodes = append(nodes, d.Node("r", setup, router, rExits...))
	}
	nodes = append(nodes, sinks...)
	flow := d.Flow("R", "messaging", nodes...)
	flow["language"] = base
	flow["localization"] = loc

	// --- contact, environment, trigger
	ct := d.Contact()
	switch r.Intn(7) {
	case 0:
		delete(ct, "language")
	case 1, 2:
		ct["language"] = "spa"
	case 3:
		ct["language"] = "fra"
	case 4:
		ct["language"] = "kin"
	}
	fields := M{}
	if r.Chance(0.8) {
		a := fw.Pick(r, []string{"23", "17", "18", "100"})
		fields["age"] = M{"text": a, "number": jsonNumber(a)}
	}
	if r.Chance(0.7) {
		fields["gender"] = M{"text": fw.Pick(r, []string{"male", "female", "yes"})}
	}
	if r.Chance(0.4) {
		fields["state"] = M{"text": "Kigali City", "state": "Rwanda > Kigali City"}
	}
	if r.Chance(0.4) {
		fields["joined"] = M{"text": "2019-05-01", "datetime": "2019-05-01T12:00:00.000000Z"}
	}
	ct["fields"] = fields
	ct["name"] = fw.Pick(r, []string{"Bob Smith", "yes", "Ann 23", ""})
	if ct["name"] == "" {
		delete(ct, "name")
	}
	if r.Chance(0.3) {
		ct["groups"] = []M{{"uuid": gen.NamedUUID("group:testers"), "name": "Testers"}, {"uuid": gen.NamedUUID("group:customers"), "name": "Customers"}}
	} else if r.Chance(0.15) {
		ct["groups"] = []M{}
	}
	if r.Chance(0.2) {
		ct["timezone"] = "America/Guayaquil"
	}
	env := M{
		"date_format": fw.Pick(r, []string{"YYYY-MM-DD", "DD-MM-YYYY", "MM-DD-YYYY"}), "time_format": "tt:mm",
		"timezone":          fw.Pick(r, []string{"UTC", "Africa/Kigali", "America/Guayaquil"}),
		"allowed_languages": [][]string{{"eng", "spa"}, {"spa", "eng"}, {"spa"}, {}, {"fra", "spa", "eng"}, {"eng"}, {"kin", "fra"}, {"spa", "fra", "kin"}}[r.Intn(8)],
	}
	if r.Chance(0.8) {
		env["default_country"] = fw.Pick(r, []string{"US", "RW"})
	}
	// --- optionally the flow is entered from a parent flow whose router splits on the child (findResumeExit path)
	flowsOut := []M{flow}
	startFlow := "R"
	if shape != "msg-trigger-first-node" && r.Chance(0.2) {
		meta.Parent = true
		flowsOut = []M{genParent(r, resultName, hint), flow}
		startFlow = "P"
		nRes = r.Range(2, 6)
	}
	var trig M
	if shape == "msg-trigger-first-node" {
		trig = d.MsgTrigger("R", ct, hint)
	} else {
		trig = d.Manual(startFlow, ct)
		if r.Chance(0.3) {
			trig["params"] = M{"word": fw.Pick(r, []string{"yes", "fox", "23"})}
		}
	}
	trig["environment"] = env

	// --- resumes
	var resumes []M
	for i := 0; i < nRes; i++ {
		text := hint
		if i > 0 || shape == "msg-trigger-first-node" || r.Chance(0.15) {
			text = fw.Pick(r, inputTexts)
		}
		switch r.Weighted([]int{72, 18, 10}) {
		case 0:
			m := d.MsgResume(i, text)
			if r.Chance(0.1) {
				m["msg"].(M)["attachments"] = []string{"image/jpeg:http://s3.io/yes.jpg"}
			}
			resumes = append(resumes, m)
		case 1:
			resumes = append(resumes, d.Timeout(i))
		default:
			resumes = append(resumes, d.Expiration(i))
		}
	}

	scen := &gen.Scenario{Assets: d.BaseAssets(flowsOut...), Trigger: trig, Resumes: resumes}
	if r.Chance(0.25) {
		scen.Options = gen.Options{Set: true, MaxSteps: 100, MaxResumes: 500, MaxTemplateChars: 10000, MaxFieldChars: 640, MaxResultChars: fw.Pick(r, []int{0, 1, 3, 8, 20, 640})}
	}
	return scen, meta
}

// plantFor returns the Int63 value that makes rand.Float64 (= Int63/2^63) return the float64 nearest to j/n
// (side = 0), or its neighbour below (-1) / above (+1).
func plantFor(j, n, side int) int64 {
	x := float64(j) / float64(n)
	switch {
	case side < 0:
		x = math.Nextafter(x, 0)
	case side > 0:
		x = math.Nextafter(x, 1)
	}
	if x >= 1 {
		x = math.Nextafter(1, 0)
	}
	if x < 0 {
		x = 0
	}
	k := int64(x * (1 << 63))
	if x > 0 && k == 0 {
		k = 1
	}
	return k
}

// genParent builds flow P: wait node pw → node e (enter_flow R + switch router splitting on the child) → sinks.
// The sinks lead back to pw or end the run, so e is routed at most once per sprint (the child it refers to is the
// latest child, which does not change afterwards within the sprint).
func genParent(r *fw.Rand, childResult, hint string) M {
	d := dsl
	key := strings.ReplaceAll(strings.ToLower(childResult), " ", "_")
	if key == "" {
		key = "prev"
	}
	operand := fw.Pick(r, []string{"@child.status", "@child.status", "@child.status", "@child.run.status", "@child.results." + key + ".category", "@child.results." + key,
		"@child.results.prev.value", "@child", "@input.text", "@(child.status & \" \" & input.text)", "@child.results.nope", "@child.results.intent"})
	nCats := r.Range(2, 4)
	var cats []M
	var exits, sinks []M
	for i := 0; i < nCats; i++ {
		cats = append(cats, M{"uuid": gen.NamedUUID(fmt.Sprintf("cat:e:%d", i)), "name": fw.Pick(r, []string{"Complete", "Expired", "Other", "Failed", "Yes"}), "exit_uuid": gen.NamedUUID(fmt.Sprintf("exit:e:%d", i))})
		sink := fmt.Sprintf("psink%d", i)
		exits = append(exits, d.Exit(fmt.Sprintf("e:%d", i), sink))
		dest := ""
		if r.Chance(0.7) {
			dest = "pw"
		}
		sinks = append(sinks, d.Node(sink, []any{d.SendMsg("m:"+sink, fmt.Sprintf("parent left by exit %d", i))}, nil, d.Exit(sink+":x", dest)))
	}
	nCases := r.Range(0, 4)
	var cs []M
	for i := 0; i < nCases; i++ {
		var t string
		var args []string
		if r.Chance(0.6) {
			switch r.Intn(4) {
			case 0, 1:
				t, args = "has_only_text", []string{fw.Pick(r, []string{"completed", "expired", "failed", "waiting", "Completed"})}
			case 2:
				t, args = "has_any_word", []string{fw.Pick(r, []string{"completed expired", "expired failed", "completed"})}
			default:
				t, args = "has_category", []string{fw.Pick(r, catNames[:8]), fw.Pick(r, catNames[:8])}
			}
		} else {
			t = fw.Pick(r, allTests())
			args = argsFor(r, t, hint)
		}
		c := M{"uuid": gen.NamedUUID(fmt.Sprintf("case:e:%d", i)), "type": t, "category_uuid": fw.Pick(r, cats)["uuid"]}
		if args != nil {
			c["arguments"] = args
		}
		cs = append(cs, c)
	}
	router := M{"type": "switch", "operand": operand, "categories": anyList(cats), "cases": anyList(cs)}
	if r.Chance(0.85) {
		router["default_category_uuid"] = fw.Pick(r, cats)["uuid"]
	}
	if r.Chance(0.6) {
		router["result_name"] = "Sub"
	}
	var to *string
	if r.Chance(0.4) {
		t := "e"
		to = &t
	}
	nodes := []M{d.WaitNode("pw", "e", to), d.Node("e", []any{d.Enter("enter", "R", false)}, router, exits...)}
	nodes = append(nodes, sinks...)
	return d.Flow("P", "messaging", nodes...)
}

func anyList(ms []M) []any {
	out := make([]any, 0, len(ms))
	for _, m := range ms {
		out = append(out, m)
	}
	return out
}

func jsonNumber(s string) any {
	var n int
	fmt.Sscanf(s, "%d", &n)
	return n
}
