package p16

import (
	"bytes"
	"encoding/json"
	"fmt"
	"os"
	"path/filepath"
	"sort"
	"strings"
	"sync"

	"verif/internal/fw"
)

// A seedDef is one flow definition found in goflow's own test data (read at run time from /repo).
type seedDef struct {
	Name   string // file (relative to the repo) + position inside the file
	Data   []byte // compact JSON with sorted keys
	Legacy bool   // has action_sets / rule_sets
}

func repoRoot() string {
	if v := os.Getenv("VERIF_REPO"); v != "" {
		return v
	}
	return "/repo"
}

var seedDirs = []string{
	"test/testdata",
	"flows/definition/migrations/testdata",
	"flows/definition/legacy/testdata",
	"flows/definition/testdata",
	"cmd",
}

var (
	corpusOnce sync.Once
	corpusList []seedDef
	corpusErr  string
)

func decodeGeneric(data []byte) (any, error) {
	dec := json.NewDecoder(bytes.NewReader(data))
	dec.UseNumber()
	var v any
	if err := dec.Decode(&v); err != nil {
		return nil, err
	}
	return v, nil
}

func isFlowObject(m map[string]any) (isFlow, legacy bool) {
	if _, ok := m["action_sets"]; ok {
		return true, true
	}
	if _, ok := m["rule_sets"]; ok {
		return true, true
	}
	if _, ok := m["nodes"].([]any); ok {
		if _, ok := m["uuid"].(string); ok {
			return true, false
		}
	}
	return false, false
}

func findFlows(v any, path string, out func(path string, m map[string]any, legacy bool)) {
	switch t := v.(type) {
	case map[string]any:
		if ok, legacy := isFlowObject(t); ok {
			out(path, t, legacy)
			return
		}
		keys := make([]string, 0, len(t))
		for k := range t {
			keys = append(keys, k)
		}
		sort.Strings(keys)
		for _, k := range keys {
			findFlows(t[k], path+"."+k, out)
		}
	case []any:
		for i, e := range t {
			findFlows(e, fmt.Sprintf("%s[%d]", path, i), out)
		}
	}
}

// holders used by goflow's own legacy tests to turn one action / test / ruleset into a flow
const legacyActionHolder = `{"base_language":"eng","entry":"10e483a8-5ffb-4c4f-917b-d43ce86c1d65","flow_type":"%s","action_sets":[{"uuid":"10e483a8-5ffb-4c4f-917b-d43ce86c1d65","y":100,"x":100,"destination":null,"exit_uuid":"cfcf5cef-49f9-41a6-886b-f466575a3045","actions":[%s]}],"metadata":{"uuid":"50c3706e-fedb-42c0-8eab-dda3335714b7","name":"TestFlow"}}`
const legacyTestHolder = `{"base_language":"eng","entry":"10e483a8-5ffb-4c4f-917b-d43ce86c1d65","flow_type":"F","rule_sets":[{"uuid":"10e483a8-5ffb-4c4f-917b-d43ce86c1d65","rules":[{"test":%s,"category":{"eng":"All Responses"},"destination":null,"uuid":"c072ecb5-0686-40ea-8ed3-898dc1349783","destination_type":null}],"ruleset_type":"wait_message","label":"Name","operand":"@step.value","finished_key":null,"response_type":"","y":0,"x":100,"config":{}}],"metadata":{"uuid":"50c3706e-fedb-42c0-8eab-dda3335714b7","name":"TestFlow"}}`
const legacyRuleSetHolder = `{"base_language":"eng","entry":"10e483a8-5ffb-4c4f-917b-d43ce86c1d65","flow_type":"F","rule_sets":[%s],"action_sets":[{"uuid":"5b977652-91e3-48be-8e86-7c8094b4aa8f","x":0,"y":2200,"destination":null,"exit_uuid":"cfcf5cef-49f9-41a6-886b-f466575a3045","actions":[]},{"uuid":"833fc698-d590-42dc-93e1-39e701b7e8e4","x":0,"y":2400,"destination":null,"exit_uuid":"da3e7eaf-c087-4e80-97b5-0b2e217fcc93","actions":[]},{"uuid":"42ff72d3-5f4d-4dbf-89c9-8a97864dabcd","x":0,"y":2600,"destination":null,"exit_uuid":"6a8cb81b-1b59-4cfb-b00e-575ccbafd3ba","actions":[]}],"metadata":{"uuid":"50c3706e-fedb-42c0-8eab-dda3335714b7","name":"TestFlow"}}`

// legacy library: the action / test / ruleset objects of legacy/testdata (used by the legacy assembler too)
type legacyLib struct {
	Actions  []libAction
	Tests    []json.RawMessage
	RuleSets []json.RawMessage
}

type libAction struct {
	JSON     json.RawMessage
	FlowType string // "" = any, "V" = voice only
}

var (
	libOnce sync.Once
	lib     legacyLib
)

func legacyLibrary() *legacyLib {
	libOnce.Do(func() {
		dir := filepath.Join(repoRoot(), "flows/definition/legacy/testdata")
		var acts []struct {
			LegacyAction   json.RawMessage `json:"legacy_action"`
			LegacyFlowType string          `json:"legacy_flow_type"`
		}
		if b, err := os.ReadFile(filepath.Join(dir, "actions.json")); err == nil {
			json.Unmarshal(b, &acts)
		}
		for _, a := range acts {
			lib.Actions = append(lib.Actions, libAction{JSON: compact(a.LegacyAction), FlowType: a.LegacyFlowType})
		}
		var tests []struct {
			LegacyTest json.RawMessage `json:"legacy_test"`
		}
		if b, err := os.ReadFile(filepath.Join(dir, "tests.json")); err == nil {
			json.Unmarshal(b, &tests)
		}
		for _, t := range tests {
			lib.Tests = append(lib.Tests, compact(t.LegacyTest))
		}
		var rss []struct {
			LegacyRuleSet json.RawMessage `json:"legacy_ruleset"`
		}
		if b, err := os.ReadFile(filepath.Join(dir, "rulesets.json")); err == nil {
			json.Unmarshal(b, &rss)
		}
		for _, r := range rss {
			lib.RuleSets = append(lib.RuleSets, compact(r.LegacyRuleSet))
		}
	})
	return &lib
}

func compact(b []byte) []byte {
	var buf bytes.Buffer
	if err := json.Compact(&buf, b); err != nil {
		return b
	}
	return buf.Bytes()
}

// corpus returns every flow definition found under the seed directories, in a deterministic order.
func corpus() []seedDef {
	corpusOnce.Do(func() {
		root := repoRoot()
		var files []string
		for _, d := range seedDirs {
			filepath.Walk(filepath.Join(root, d), func(p string, info os.FileInfo, err error) error {
				if err != nil || info.IsDir() {
					return nil
				}
				if !strings.HasSuffix(p, ".json") {
					return nil
				}
				if strings.HasPrefix(d, "cmd") && !strings.Contains(p, "/testdata/") {
					return nil
				}
				files = append(files, p)
				return nil
			})
		}
		sort.Strings(files)
		seen := map[uint64]bool{}
		add := func(name string, data []byte, legacy bool) {
			h := fw.Hash64(string(data))
			if seen[h] {
				return
			}
			seen[h] = true
			corpusList = append(corpusList, seedDef{Name: name, Data: data, Legacy: legacy})
		}
		for _, f := range files {
			b, err := os.ReadFile(f)
			if err != nil {
				continue
			}
			v, err := decodeGeneric(b)
			if err != nil {
				continue
			}
			rel := strings.TrimPrefix(f, root+"/")
			findFlows(v, "", func(path string, m map[string]any, legacy bool) {
				data, err := json.Marshal(m)
				if err != nil {
					return
				}
				add(rel+"#"+path, data, legacy)
			})
		}
		l := legacyLibrary()
		for i, a := range l.Actions {
			ft := a.FlowType
			if ft == "" {
				ft = "F"
			}
			add(fmt.Sprintf("flows/definition/legacy/testdata/actions.json#[%d](holder)", i), []byte(fmt.Sprintf(legacyActionHolder, ft, a.JSON)), true)
		}
		for i, t := range l.Tests {
			add(fmt.Sprintf("flows/definition/legacy/testdata/tests.json#[%d](holder)", i), []byte(fmt.Sprintf(legacyTestHolder, t)), true)
		}
		for i, r := range l.RuleSets {
			add(fmt.Sprintf("flows/definition/legacy/testdata/rulesets.json#[%d](holder)", i), []byte(fmt.Sprintf(legacyRuleSetHolder, r)), true)
		}
		if len(corpusList) == 0 {
			corpusErr = "no seed definitions found under " + root
		}
	})
	return corpusList
}
