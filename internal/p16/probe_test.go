package p16

import (
	"fmt"
	"testing"

	"github.com/nyaruka/goflow/flows/definition"
	"github.com/nyaruka/goflow/flows/definition/migrations"
)

func countPaths(v any) int {
	n := 1
	switch t := v.(type) {
	case map[string]any:
		for _, e := range t {
			n += countPaths(e)
		}
	case []any:
		for _, e := range t {
			n += countPaths(e)
		}
	}
	return n
}

func TestProbeCorpus(t *testing.T) {
	c := corpus()
	tot, totBytes := 0, 0
	ok := 0
	for _, s := range c {
		v, _ := decodeGeneric(s.Data)
		np := countPaths(v)
		tot += np
		totBytes += len(s.Data)
		var st string
		func() {
			defer func() {
				if r := recover(); r != nil {
					st = fmt.Sprint("PANIC ", r)
				}
			}()
			out, err := migrations.MigrateToLatest(s.Data, migrations.DefaultConfig)
			if err != nil {
				st = "migrate: " + err.Error()
				return
			}
			_, err = definition.ReadFlow(out, nil)
			if err != nil {
				st = "read: " + err.Error()
				return
			}
			st = "ok"
			ok++
		}()
		if len(st) > 150 {
			st = st[:150]
		}
		fmt.Printf("%-90s legacy=%v bytes=%d paths=%d %s\n", s.Name, s.Legacy, len(s.Data), np, st)
	}
	fmt.Println("seeds", len(c), "ok", ok, "paths", tot, "bytes", totBytes)
}
