package p16

import (
	"fmt"
	"testing"

	"verif/internal/fw"
)

func TestProbeDial(t *testing.T) {
	n := 0
	for i := 0; i < 3000; i++ {
		r := fw.NewRand(1, "C16", i)
		m := genFlow(r, false)
		for _, nd := range m.Nodes {
			if nd.Router == nil {
				continue
			}
			if w, ok := nd.Router["wait"].(map[string]any); ok && w["type"] == "dial" {
				ph := w["phone"].(tpl)
				if ph.Webhook {
					n++
					if n < 5 {
						fmt.Println(i, ph.Old, "=>", ph.New)
					}
				}
			}
		}
	}
	fmt.Println("dial+webhook", n)
}
