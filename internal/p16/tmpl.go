package p16

import (
	"strings"

	"github.com/nyaruka/goflow/envs"
	"github.com/nyaruka/goflow/excellent"
	"github.com/nyaruka/goflow/excellent/types"

	"verif/internal/fw"
)

// tpl is a template leaf of the flow model: Old is its text in spec versions <= 13.2 (where @webhook is the
// parsed response body), New its text from 13.3 on (where the body lives under @webhook.json).
type tpl struct {
	Old, New string
	Webhook  bool   // contains a reference to webhook
	Shape    string // coarse shape of the expression (for the evidence)
}

func (t tpl) at(minor int) string {
	if minor <= 2 {
		return t.Old
	}
	return t.New
}

// The marker stands for the context root `webhook`; it is replaced by an old-style / new-style spelling.
const rootMark = "\x01"

var oldRootSpellings = []string{"webhook", "webhook", "webhook", "Webhook", "WEBHOOK", "webHook"}

// webhookBodyJSON is X: the parsed response body that @webhook used to be and @webhook.json now is.
// No two keys differ only by case (XObject lookups are case-insensitive, C08 covers that).
const webhookBodyJSON = `{"name":"Bob Smith","age":42,"ok":true,"off":false,"n":3.5,"text":"hello big world","empty":"","nul":null,
"items":[{"id":1,"tag":"alpha"},{"id":2,"tag":"beta"},{"id":3,"tag":"gamma"}],"list":[1,2,3,5,8],"words":["b","a","c"],
"nested":{"a":{"b":"deep","c":[10,20]}},"json":"inner json","status":"fine","headers":{"x":"y"},"date":"2020-02-03T10:30:00Z",
"results":[{"value":"7"}],"0":"zero","count":"12","url":"http://example.com/a.jpg"}`

type evalCtx struct {
	env      envs.Environment
	old, new *types.XObject
	eval     *excellent.Evaluator
}

func newEvalCtx() *evalCtx {
	x := types.JSONToXValue([]byte(webhookBodyJSON))
	common := func() map[string]types.XValue {
		return map[string]types.XValue{
			"contact": types.NewXObject(map[string]types.XValue{
				"__default__": types.NewXText("Ann"),
				"name":        types.NewXText("Ann"),
				"language":    types.NewXText("eng"),
				"fields": types.NewXObject(map[string]types.XValue{
					"age":   types.NewXNumberFromInt(33),
					"state": types.NewXText("Azuay"),
				}),
			}),
			"fields": types.NewXObject(map[string]types.XValue{
				"age":   types.NewXNumberFromInt(33),
				"state": types.NewXText("Azuay"),
			}),
			"results": types.NewXObject(map[string]types.XValue{
				"color": types.NewXObject(map[string]types.XValue{
					"__default__": types.NewXText("red"),
					"value":       types.NewXText("red"),
					"category":    types.NewXText("Red"),
				}),
			}),
			"input": types.NewXObject(map[string]types.XValue{
				"__default__": types.NewXText("hi there"),
				"text":        types.NewXText("hi there"),
			}),
			"urns":   types.NewXObject(map[string]types.XValue{"tel": types.NewXText("tel:+12065551212")}),
			"parent": types.NewXObject(map[string]types.XValue{"uuid": types.NewXText("p")}),
			"child":  types.NewXObject(map[string]types.XValue{"status": types.NewXText("completed")}),
		}
	}
	o := common()
	o["webhook"] = x
	n := common()
	n["webhook"] = types.NewXObject(map[string]types.XValue{
		"__default__": types.NewXText("GET http://example.com/"),
		"status":      types.NewXNumberFromInt(200),
		"headers":     types.NewXObject(map[string]types.XValue{"content-type": types.NewXText("application/json")}),
		"json":        x,
	})
	return &evalCtx{
		env:  envs.NewBuilder().Build(),
		old:  types.NewXObject(o),
		new:  types.NewXObject(n),
		eval: excellent.NewEvaluator(),
	}
}

// value of a template: rendered text + whether evaluation reported an error (messages quote the expression
// text, which legitimately differs, so only the fact is compared)
func (c *evalCtx) value(ctx *types.XObject, template string) (string, bool) {
	s, _, err := c.eval.Template(c.env, ctx, template, nil)
	return s, err != nil
}

// ---------------------------------------------------------------------------------------------------------

type tplGen struct {
	r       *fw.Rand
	allowWh bool // may the expression being generated refer to webhook?
}

var plainBodies = []string{"Hi ", "Hello ", "a@b.com ", "@@twitter ", "(", ") ", "100% ", "é ", "ok: ", "", "", "\n", "  "}
var plainTails = []string{"", "", "", " bye", ".", "!", " @", ")", " @@", "?"}

var webhookPaths = []string{
	"", ".name", ".age", ".ok", ".n", ".text", ".empty", ".nul", ".items", ".list", ".words", ".nested", ".nested.a", ".nested.a.b", ".nested.a.c",
	".json", ".status", ".headers", ".headers.x", ".date", ".missing", ".missing.deeper", ".name.first", ".count", ".url", ".0", ".results",
	".NAME", ".Nested.A.B",
}

// paths usable after @ in identifier form (dots only)
func (g *tplGen) idPath() string { return fw.Pick(g.r, webhookPaths) }

// a reference to something under the webhook root, expression form
func (g *tplGen) whRef() string {
	switch g.r.Intn(10) {
	case 0, 1, 2, 3:
		return rootMark + g.idPath()
	case 4:
		return rootMark + `["` + fw.Pick(g.r, []string{"name", "age", "json", "status", "nested", "missing", "Name"}) + `"]`
	case 5:
		return rootMark + ".items[" + fw.Pick(g.r, []string{"0", "1", "2", "-1", "5"}) + "]." + fw.Pick(g.r, []string{"tag", "id", "nope"})
	case 6:
		return rootMark + ".list[" + fw.Pick(g.r, []string{"0", "1", "4", "-1", rootMark + ".age - 41", "count(" + rootMark + ".words)"}) + "]"
	case 7:
		return rootMark + ".nested.a.c[" + fw.Pick(g.r, []string{"0", "1"}) + "]"
	case 8:
		return rootMark + ".items." + fw.Pick(g.r, []string{"0", "1"}) + ".tag"
	default:
		return "(" + rootMark + ")." + fw.Pick(g.r, []string{"name", "age", "json"})
	}
}

var otherRefs = []string{"contact.name", "contact", "fields.age", "contact.fields.state", "results.color", "results.color.category", "input.text", "input", "urns.tel", "contact.language", "child.status", "CONTACT.Name"}

var strLits = []string{`""`, `"a"`, `"hello world"`, `" "`, `"1"`, `"é"`, `"日本"`, `"😀"`, `"x y z"`, `"a,b"`, `"it's"`, `"say \"hi\""`, `"tab\tsep"`, `"line\nbreak"`, `"back\\slash!"`, `"@webhook.name"`, `"webhook"`, `"(paren)"`}
var numLits = []string{"0", "1", "2", "3", "10", "0.5", "1.50", "007", "100", "42", "2.0", "12345678901234567890"}

func (g *tplGen) leaf(wh *bool) string {
	k := g.r.Intn(10)
	if !g.allowWh && k < 4 {
		k = 4
	}
	switch k {
	case 0, 1, 2, 3:
		*wh = true
		return g.whRef()
	case 4, 5:
		return fw.Pick(g.r, otherRefs)
	case 6, 7:
		return fw.Pick(g.r, numLits)
	case 8:
		return fw.Pick(g.r, strLits)
	default:
		return fw.Pick(g.r, []string{"true", "false", "null", "TRUE", "Null"})
	}
}

func (g *tplGen) ws() string {
	return fw.Pick(g.r, []string{"", " ", " ", " ", "  "})
}

type fnSpec struct {
	name string
	args int
}

var safeFns = []fnSpec{
	{"upper", 1}, {"lower", 1}, {"title", 1}, {"text", 1}, {"number", 1}, {"boolean", 1}, {"text_length", 1}, {"count", 1}, {"default", 2}, {"if", 3},
	{"and", 2}, {"or", 2}, {"abs", 1}, {"max", 2}, {"min", 2}, {"round", 1}, {"left", 2}, {"right", 2}, {"word", 2}, {"word_count", 1}, {"json", 1},
	{"join", 2}, {"reverse", 1}, {"sort", 1}, {"sum", 1}, {"contains", 2}, {"array", 2}, {"object", 2}, {"is_error", 1}, {"url_encode", 1},
	{"clean", 1}, {"trim", 1}, {"replace", 3}, {"split", 2}, {"extract", 2}, {"format_number", 2}, {"datetime", 1}, {"format_date", 1}, {"parse_json", 1},
	{"has_text", 1}, {"has_number", 1}, {"has_any_word", 2}, {"has_number_gt", 2}, {"has_phrase", 2}, {"percent", 1}, {"char", 1}, {"code", 1},
	{"UPPER", 1}, {"Title", 1}, {"IF", 3}, {"legacy_add", 2}, {"mean", 2}, {"unique", 1}, {"concat", 2}, {"keys", 1}, {"foreach", 2}, {"filter", 2},
}

var lambdas = []string{"(x) => x", "(x) => x & \"!\"", "(x) => x * 2", "(x) => x.tag", "(x, y) => x", "upper", "text", "(item) => item = " + rootMark + ".age", "(x) => -x"}

func (g *tplGen) expr(d int, wh *bool) string {
	if d <= 0 {
		return g.leaf(wh)
	}
	w := g.ws
	switch g.r.Weighted([]int{20, 6, 5, 8, 10, 6, 6, 8, 26, 8, 5}) {
	case 0:
		return g.leaf(wh)
	case 1:
		return "-" + g.expr(d-1, wh)
	case 2:
		return g.expr(d-1, wh) + w() + "^" + w() + fw.Pick(g.r, []string{"0", "1", "2", "3", "-1", "0.5", "(1+1)", "-2"})
	case 3:
		return g.expr(d-1, wh) + w() + fw.Pick(g.r, []string{"*", "/"}) + w() + g.expr(d-1, wh)
	case 4:
		return g.expr(d-1, wh) + w() + fw.Pick(g.r, []string{"+", "-"}) + w() + g.expr(d-1, wh)
	case 5:
		return g.expr(d-1, wh) + w() + fw.Pick(g.r, []string{"<=", "<", ">=", ">"}) + w() + g.expr(d-1, wh)
	case 6:
		return g.expr(d-1, wh) + w() + fw.Pick(g.r, []string{"=", "!="}) + w() + g.expr(d-1, wh)
	case 7:
		return g.expr(d-1, wh) + w() + "&" + w() + g.expr(d-1, wh)
	case 8:
		f := fw.Pick(g.r, safeFns)
		args := make([]string, f.args)
		for i := range args {
			args[i] = g.expr(d-1, wh)
		}
		if (f.name == "foreach" || f.name == "filter") && len(args) == 2 {
			if g.allowWh {
				args[0] = fw.Pick(g.r, []string{rootMark + ".list", rootMark + ".items", rootMark + ".words"})
				*wh = true
				args[1] = fw.Pick(g.r, lambdas)
			} else {
				args[0] = "array(1, 2)"
				args[1] = fw.Pick(g.r, lambdas[:7])
			}
		}
		if f.name == "round" || f.name == "char" {
			args[0] = fw.Pick(g.r, []string{"65", "2.5", "fields.age"})
		}
		if f.name == "format_number" {
			args[1] = fw.Pick(g.r, []string{"0", "1", "2", "3"})
		}
		sep := "," + w()
		return f.name + "(" + strings.Join(args, sep) + ")"
	case 9:
		return "(" + w() + g.expr(d-1, wh) + w() + ")"
	default:
		base := "(" + g.expr(d-1, wh) + ")"
		switch g.r.Intn(3) {
		case 0:
			return base + "." + fw.Pick(g.r, []string{"name", "0", "a", "tag", "json", "value"})
		case 1:
			return base + "[" + fw.Pick(g.r, []string{"0", "1", "-1", `"name"`, `"json"`}) + "]"
		default:
			return base + "[" + g.expr(d-1, wh) + "]"
		}
	}
}

// piece returns one expression/identifier embedded in a template
func (g *tplGen) piece(wantWebhook bool, wh *bool, shape *[]string) string {
	switch {
	case wantWebhook && g.r.Chance(0.35):
		*wh = true
		*shape = append(*shape, "id")
		return "@" + rootMark + g.idPath()
	case !wantWebhook && g.r.Chance(0.5):
		*shape = append(*shape, "id-other")
		return "@" + fw.Pick(g.r, otherRefs)
	}
	g.allowWh = wantWebhook
	used := false
	e := g.expr(g.r.Range(0, 3), &used)
	if wantWebhook && !used {
		e = fw.Pick(g.r, []string{"upper(" + g.whRef() + ") & ", g.whRef() + " = ", "default(" + g.whRef() + ", 1) + "}) + e
		used = true
	}
	if used {
		*wh = true
	}
	*shape = append(*shape, "expr")
	if g.r.Chance(0.04) {
		*shape = append(*shape, "broken")
		return "@(" + e + " + )" // a syntax error: must stay as it is
	}
	return "@(" + g.ws() + e + g.ws() + ")"
}

// template builds one template leaf. pWebhook is the probability that it refers to webhook.
func (g *tplGen) template(pWebhook float64) tpl {
	want := g.r.Chance(pWebhook)
	var b strings.Builder
	var wh bool
	var shape []string
	n := g.r.Weighted([]int{0, 6, 3, 1})
	whAt := g.r.Intn(n)
	for i := 0; i < n; i++ {
		b.WriteString(fw.Pick(g.r, plainBodies))
		b.WriteString(g.piece(want && i == whAt || want && g.r.Chance(0.3), &wh, &shape))
		b.WriteString(fw.Pick(g.r, plainTails))
	}
	return g.finish(b.String(), wh, strings.Join(shape, "+"))
}

func (g *tplGen) finish(marked string, wh bool, shape string) tpl {
	old := marked
	// every occurrence gets its own spelling in the old text
	for strings.Contains(old, rootMark) {
		old = strings.Replace(old, rootMark, fw.Pick(g.r, oldRootSpellings), 1)
	}
	nw := strings.ReplaceAll(marked, rootMark, "webhook.json")
	return tpl{Old: old, New: nw, Webhook: wh, Shape: shape}
}

// plain returns a template without any webhook reference (same text in all versions)
func (g *tplGen) plain() tpl { return g.template(0) }

// fixed wraps literal text (no expressions) as a template leaf
func fixed(s string) tpl { return tpl{Old: s, New: s} }
