package p16

import (
	"bytes"
	"encoding/json"
	"fmt"
	"sort"
	"strings"

	"github.com/nyaruka/goflow/flows/definition/legacy"
	"github.com/nyaruka/goflow/flows/definition/migrations"

	"verif/internal/fw"
)

// ---------------------------------------------------------------------------------------------------------
// Fault enumeration over a seed definition: every JSON path x mutation kind, byte truncations, raw bytes.
// ---------------------------------------------------------------------------------------------------------

// jnode describes one node of the seed's JSON tree in pre-order (keys sorted)
type jnode struct {
	Path      []any
	Type      string // object array string number bool null
	InArray   bool
	Neighbour []byte // a sibling value of another JSON type (or a typed conversion of the value itself)
	OtherUUID string // for uuid strings: another uuid of the document
}

func jsonType(v any) string {
	switch v.(type) {
	case map[string]any:
		return "object"
	case []any:
		return "array"
	case string:
		return "string"
	case json.Number, float64:
		return "number"
	case bool:
		return "bool"
	}
	return "null"
}

func sortedKeys(m map[string]any) []string {
	ks := make([]string, 0, len(m))
	for k := range m {
		ks = append(ks, k)
	}
	sort.Strings(ks)
	return ks
}

type seedTree struct {
	Root  any
	Nodes []jnode
	Bytes []byte // canonical serialisation (what truncation works on)
	UUIDs []string
	// node / action / exit UUID positions (uuidreuse.go)
	Sites  []uuidSite
	SiteAt map[int]int // pre-order index -> index into Sites
}

func buildSeedTree(data []byte) *seedTree {
	root, err := decodeGeneric(data)
	if err != nil {
		return nil
	}
	st := &seedTree{Root: root}
	seen := map[string]bool{}
	var collect func(v any)
	collect = func(v any) {
		switch t := v.(type) {
		case map[string]any:
			for _, k := range sortedKeys(t) {
				collect(t[k])
			}
		case []any:
			for _, e := range t {
				collect(e)
			}
		case string:
			if len(t) == 36 && uuidRe.MatchString(t) && !seen[t] {
				seen[t] = true
				st.UUIDs = append(st.UUIDs, t)
			}
		}
	}
	collect(root)
	sort.Strings(st.UUIDs)

	var walk func(v any, path []any, siblings []any, self int, inArray bool)
	walk = func(v any, path []any, siblings []any, self int, inArray bool) {
		n := jnode{Path: path, Type: jsonType(v), InArray: inArray}
		// wrong-typed neighbour
		for k := 1; k < len(siblings); k++ {
			s := siblings[(self+k)%len(siblings)]
			if jsonType(s) != n.Type {
				n.Neighbour = mustJSON(s)
				break
			}
		}
		if n.Neighbour == nil {
			switch t := v.(type) {
			case string:
				n.Neighbour = mustJSON(map[string]any{"uuid": t, "name": t})
			case map[string]any:
				n.Neighbour = []byte(`"an object was here"`)
				for _, k := range sortedKeys(t) {
					if s, ok := t[k].(string); ok {
						n.Neighbour = mustJSON(s)
						break
					}
				}
			case []any:
				if len(t) > 0 {
					n.Neighbour = mustJSON(t[0])
				} else {
					n.Neighbour = []byte(`"x"`)
				}
			case json.Number:
				n.Neighbour = mustJSON(t.String())
			case bool:
				n.Neighbour = []byte(`"true"`)
			default:
				n.Neighbour = []byte(`"null"`)
			}
		}
		if s, ok := v.(string); ok && len(s) == 36 && uuidRe.MatchString(s) && len(st.UUIDs) > 1 {
			i := sort.SearchStrings(st.UUIDs, s)
			n.OtherUUID = st.UUIDs[(i+1)%len(st.UUIDs)]
		}
		st.Nodes = append(st.Nodes, n)
		switch t := v.(type) {
		case map[string]any:
			ks := sortedKeys(t)
			sib := make([]any, len(ks))
			for i, k := range ks {
				sib[i] = t[k]
			}
			for i, k := range ks {
				walk(t[k], appendPath(path, k), sib, i, false)
			}
		case []any:
			for i, e := range t {
				walk(e, appendPath(path, i), t, i, true)
			}
		}
	}
	walk(root, []any{}, nil, 0, false)
	st.findSites()
	w := &jwriter{target: -1}
	w.write(root)
	st.Bytes = append([]byte{}, w.buf.Bytes()...)
	return st
}

// jwriter serialises the tree; the node with pre-order index target is replaced / deleted / duplicated
type jwriter struct {
	buf    bytes.Buffer
	n      int
	target int
	mode   int // 0 replace, 1 delete, 2 duplicate
	repl   []byte
}

const (
	modeReplace = iota
	modeDelete
	modeDup
)

func (w *jwriter) skip(v any) {
	w.n++
	switch t := v.(type) {
	case map[string]any:
		for _, e := range t {
			w.skip(e)
		}
	case []any:
		for _, e := range t {
			w.skip(e)
		}
	}
}

func (w *jwriter) plain(v any) {
	sub := &jwriter{target: -1}
	sub.write(v)
	w.buf.Write(sub.buf.Bytes())
}

func (w *jwriter) write(v any) {
	if w.n == w.target && w.mode == modeReplace {
		w.buf.Write(w.repl)
		w.skip(v)
		return
	}
	w.n++
	switch t := v.(type) {
	case map[string]any:
		w.buf.WriteByte('{')
		first := true
		for _, k := range sortedKeys(t) {
			if w.n == w.target && w.mode == modeDelete {
				w.skip(t[k])
				continue
			}
			if !first {
				w.buf.WriteByte(',')
			}
			first = false
			kb, _ := json.Marshal(k)
			w.buf.Write(kb)
			w.buf.WriteByte(':')
			w.write(t[k])
		}
		w.buf.WriteByte('}')
	case []any:
		w.buf.WriteByte('[')
		first := true
		for _, e := range t {
			if w.n == w.target && w.mode == modeDelete {
				w.skip(e)
				continue
			}
			if !first {
				w.buf.WriteByte(',')
			}
			first = false
			if w.n == w.target && w.mode == modeDup {
				w.plain(e)
				w.buf.WriteByte(',')
			}
			w.write(e)
		}
		w.buf.WriteByte(']')
	default:
		b, err := json.Marshal(v)
		if err != nil {
			b = []byte("null")
		}
		w.buf.Write(b)
	}
}

func (st *seedTree) mutate(idx int, mode int, repl []byte) []byte {
	w := &jwriter{target: idx, mode: mode, repl: repl}
	w.write(st.Root)
	return append([]byte{}, w.buf.Bytes()...)
}

type mutKind struct {
	Name string
	Repl []byte
}

var longString = mustJSON(strings.Repeat("long @(", 300))

// value replacements tried at every path
var valueKinds = []mutKind{
	{"null", []byte("null")},
	{"empty-string", []byte(`""`)},
	{"zero", []byte("0")},
	{"true", []byte("true")},
	{"empty-array", []byte("[]")},
	{"empty-object", []byte("{}")},
	{"minus-one", []byte("-1")},
	{"float", []byte("1.5e3")},
	{"array-of-null", []byte("[null]")},
	{"object-of-nulls", []byte(`{"uuid":null,"type":null,"name":null,"test":null}`)},
	{"nested", []byte(`[[{"uuid":[]}]]`)},
	{"expression-string", []byte(`"@(webhook.x & \""`)},
	{"long-string", longString},
}

const truncBlock = 32

// units of a seed: one per JSON path (all kinds), then one per block of truncation offsets
func (st *seedTree) numUnits() int {
	return len(st.Nodes) + (len(st.Bytes)+truncBlock-1)/truncBlock
}

type faultRunner struct {
	res   *fw.Result
	ck    *checker
	label string
	plaus int
}

// try feeds one hostile input to every entry point
func (fr *faultRunner) try(kind, where string, data []byte) {
	res := fr.res
	res.Count("fault.mutants", 1)
	res.Count("fault.kind."+kind, 1)
	reuse := strings.HasPrefix(kind, "uuid-reuse.")
	if reuse {
		res.Count("uuid_reuse.mutants", 1)
		if a, b, _ := strings.Cut(strings.TrimPrefix(kind, "uuid-reuse."), "="); a != b {
			res.Count("uuid_reuse.cross_kind", 1)
		}
	}
	rejected := func() {
		if reuse {
			res.Count("uuid_reuse.rejected", 1)
		}
	}
	report := func(pi *panicInfo) {
		res.Count("fault.panics", 1)
		res.Count("panics", 1)
		d := string(data)
		fr.ck.violate(pi.signature(), fmt.Sprintf("%s panicked on a corrupted definition (%s at %s): %v", pi.Call, kind, where, clip(fmt.Sprint(pi.Rec), 200)),
			map[string]any{"seed": fr.label, "mutation": kind, "path": where, "input": clip(d, 20000), "call": pi.Call, "panic": fmt.Sprint(pi.Rec), "stack": fw.TrimStack(pi.Stack)})
	}
	fw.SetDetail("fault " + fr.label + " " + kind + " " + where)

	var possible bool
	if pi := guard("migrate", "legacy.IsPossibleDefinition", func() { possible = legacy.IsPossibleDefinition(data) }); pi != nil {
		report(pi)
	}
	out, err, pi := migrateLatest(data)
	if pi != nil {
		report(pi)
		return
	}
	if possible {
		res.Count("fault.legacy_path", 1)
		// MigrateToLatest only reaches the legacy migration when the 13.x header is unreadable
		hdr := &migrations.Header13{}
		if json.Unmarshal(data, hdr) == nil && hdr.SpecVersion != nil && hdr.UUID != "" {
			res.Count("fault.legacy_direct", 1)
			if _, _, pi := legacyMigrate(data); pi != nil {
				report(pi)
			}
		}
	}
	if err != nil {
		res.Count("fault.returned_error", 1)
		res.Count("fault.rejected_by.migrate", 1)
		rejected()
		return
	}
	flow, err, pi := readFlow(out)
	if pi != nil {
		report(pi)
		return
	}
	if err != nil {
		res.Count("fault.returned_error", 1)
		res.Count("fault.rejected_by.readflow", 1)
		rejected()
		fr.plaus++
		return
	}
	// the corrupted definition is acceptable: then it is a current-version definition and must round-trip
	res.Count("fault.accepted", 1)
	fr.plaus++
	if reuse {
		res.Count("uuid_reuse.accepted", 1)
	}
	// ... and what was accepted must not contain two things with one UUID
	fr.ck.checkUniqueUUIDs(fr.label, kind, where, data, flow)
	fr.ck.checkRoundTrip(fr.label+" "+kind+" "+where, out, flow, false)
}

// runUnit runs every mutant of one unit
func (fr *faultRunner) runUnit(st *seedTree, u int) {
	res := fr.res
	if u < len(st.Nodes) {
		n := st.Nodes[u]
		where := pathString(n.Path)
		if where == "" {
			where = "$"
		}
		res.Count("fault.paths", 1)
		if len(n.Path) > 0 {
			fr.try("delete", where, st.mutate(u, modeDelete, nil))
		}
		for _, k := range valueKinds {
			fr.try(k.Name, where, st.mutate(u, modeReplace, k.Repl))
		}
		fr.try("neighbour", where, st.mutate(u, modeReplace, n.Neighbour))
		if n.OtherUUID != "" {
			fr.try("other-uuid", where, st.mutate(u, modeReplace, mustJSON(n.OtherUUID)))
			fr.try("not-a-uuid", where, st.mutate(u, modeReplace, []byte(`"not-a-uuid"`)))
		}
		if n.InArray {
			fr.try("duplicate-element", where, st.mutate(u, modeDup, nil))
		}
		if k, ok := st.SiteAt[u]; ok {
			fr.reuseAt(st, k)
		}
		return
	}
	b := u - len(st.Nodes)
	for k := b * truncBlock; k < (b+1)*truncBlock && k < len(st.Bytes); k++ {
		fr.try("truncate", fmt.Sprintf("byte %d", k), st.Bytes[:k])
	}
}

// ---------------------------------------------------------------------------------------------------------
// random faults: several mutations at once, raw bytes, token soup
// ---------------------------------------------------------------------------------------------------------

var soupTokens = []string{
	`{`, `}`, `[`, `]`, `,`, `:`, `"`, `null`, `true`, `0`, `-1`, `1e5`, `"uuid"`, `"nodes"`, `"action_sets"`, `"rule_sets"`, `"flow_type"`, `"spec_version"`,
	`"13.0.0"`, `"13.6.0"`, `"11.12"`, `"metadata"`, `"rules"`, `"test"`, `"type"`, `"config"`, `"exits"`, `"router"`, `"cases"`, `"categories"`, `"actions"`,
	`"localization"`, `"entry"`, `"base_language"`, `"eng"`, `"F"`, `"subflow"`, `"webhook"`, `"8ca44c09-791d-453a-9799-a70dd3303306"`, `\`, `\u00`, "\x00", "\xff", ` `, "\n",
	`"send_msg"`, `"templating"`, `"switch"`, `"wait"`, `"msg"`, `"true"`, `"airtime"`, `"form_field"`, `"operand"`, `""`,
}

func (fr *faultRunner) randomFaults(r *fw.Rand, st *seedTree, n int) {
	for i := 0; i < n; i++ {
		switch r.Weighted([]int{50, 15, 20, 15}) {
		case 0: // 2-4 mutations at once
			data := st.Bytes
			k := r.Range(2, 4)
			var names []string
			for j := 0; j < k; j++ {
				t := buildSeedTree(data)
				if t == nil || len(t.Nodes) < 2 {
					break
				}
				u := r.Range(1, len(t.Nodes)-1)
				switch r.Intn(4) {
				case 0:
					data = t.mutate(u, modeDelete, nil)
					names = append(names, "delete")
				case 1:
					data = t.mutate(u, modeReplace, t.Nodes[u].Neighbour)
					names = append(names, "neighbour")
				default:
					mk := fw.Pick(r, valueKinds)
					data = t.mutate(u, modeReplace, mk.Repl)
					names = append(names, mk.Name)
				}
			}
			fr.try("multi", strings.Join(names, "+"), data)
		case 1: // raw random bytes
			b := make([]byte, r.Range(0, 200))
			for j := range b {
				b[j] = byte(r.U64())
			}
			fr.try("raw-bytes", fmt.Sprintf("%d bytes", len(b)), b)
		case 2: // token soup
			var sb strings.Builder
			for j := r.Range(1, 40); j > 0; j-- {
				sb.WriteString(fw.Pick(r, soupTokens))
			}
			fr.try("token-soup", "", []byte(sb.String()))
		default: // splice: a window of the seed overwritten by a window from elsewhere / flipped bytes
			data := append([]byte{}, st.Bytes...)
			if len(data) > 8 {
				for j := r.Range(1, 3); j > 0; j-- {
					a, b := r.Intn(len(data)), r.Intn(len(data))
					l := r.Range(1, 12)
					for x := 0; x < l && a+x < len(data) && b+x < len(data); x++ {
						data[a+x] = data[b+x]
					}
				}
			}
			fr.try("splice", "", data)
		}
	}
}
