// Package p16 is the runtime-monitoring check for property C16:
// "Definition migration yields valid, equivalent, stable flows".
package p16

import (
	"bytes"
	"encoding/json"
	"fmt"
	"strings"
	"sync"

	"github.com/nyaruka/goflow/flows/definition"
	"github.com/nyaruka/goflow/flows/definition/migrations"

	"verif/internal/fw"
)

type c16 struct {
	mu    sync.Mutex
	plans map[string]*plan
	trees map[int]*seedTree
	ec    *evalCtx
	steps []versionStep
}

func init() { fw.Register(&c16{plans: map[string]*plan{}, trees: map[int]*seedTree{}}) }

func (p *c16) ID() string { return "C16" }

func (p *c16) Rule() string {
	return "cases: (gen) a seeded current-version flow model (1-7 nodes, 24 action types, switch/random routers with msg/dial waits, several languages, templating) rendered at 13.0 .. 13.6 by the inverse of every registered migration, all clauses on every rendering; " +
		"(legacy) a legacy flow assembled from the action/ruleset/test library in legacy/testdata with rewired destinations (rules of one category share a destination); " +
		"(seed) every definition found in goflow's own testdata; (tmpl) template-heavy flows for the 13.3 @webhook rewrite; " +
		"(fault) one seed definition x a slice of its JSON paths x {delete,null,\"\",0,true,[],{},-1,float,[null],{nulls},nested,expression,long string,wrong-typed neighbour,other uuid,not-a-uuid,duplicate element; at node/action/exit UUIDs also: the UUID of a near and of a far node, action and exit} plus byte truncation at every offset; (rand) multi-faults, raw bytes, token soup, splices, UUID reuse. " +
		"Every gen / legacy case also feeds UUID-reuse mutants of its own (valid) definition: one node, action or exit given the UUID of another thing of any kind; every accepted flow must have pairwise distinct node/action/exit UUIDs. " +
		"Non-trivial: valid input = at least one node and migration changed at least one byte; fault case = at least one mutant got past the header/legacy sniffing (structurally plausible). Distinct = distinct definition text / (seed, slice)."
}

func (p *c16) CaseTimeoutS() int { return 60 }

func (p *c16) BatchSize(tier string) int {
	if tier == "thorough" {
		return 40
	}
	return 12
}

// ---------------------------------------------------------------------------------------------------------
// plan: which generated index is which kind of case
// ---------------------------------------------------------------------------------------------------------

type segment struct {
	Kind  string
	Count int
}

type faultSlice struct{ Seed, From, To, Stride int }

type plan struct {
	Segs   []segment
	Total  int
	Faults []faultSlice // thorough: seed x slice of units
}

const unitsPerCase = 24
const quickFaultSlots = 16
const quickFaultChunks = 12

func (p *c16) tree(i int) *seedTree {
	p.mu.Lock()
	defer p.mu.Unlock()
	if t, ok := p.trees[i]; ok {
		return t
	}
	t := buildSeedTree(corpus()[i].Data)
	p.trees[i] = t
	return t
}

func (p *c16) plan(tier string) *plan {
	p.mu.Lock()
	if pl, ok := p.plans[tier]; ok {
		p.mu.Unlock()
		return pl
	}
	p.mu.Unlock()
	c := corpus()
	pl := &plan{}
	if tier == "thorough" {
		for i := range c {
			t := p.tree(i)
			if t == nil {
				continue
			}
			n := t.numUnits()
			for from := 0; from < n; from += unitsPerCase {
				to := from + unitsPerCase
				if to > n {
					to = n
				}
				pl.Faults = append(pl.Faults, faultSlice{Seed: i, From: from, To: to, Stride: 1})
			}
		}
		pl.Segs = []segment{{"gen", 20000}, {"legacy", 8000}, {"seed", len(c)}, {"tmpl", 2500}, {"fault", len(pl.Faults)}, {"rand", 2500}}
	} else {
		pl.Segs = []segment{{"gen", 300}, {"legacy", 300}, {"seed", len(c)}, {"tmpl", 100}, {"fault", quickFaultSlots * quickFaultChunks}, {"rand", 60}}
	}
	for _, s := range pl.Segs {
		pl.Total += s.Count
	}
	p.mu.Lock()
	p.plans[tier] = pl
	p.mu.Unlock()
	return pl
}

func (p *c16) NumGenerated(tier string) int { return p.plan(tier).Total }

func (pl *plan) locate(gen int) (string, int) {
	for _, s := range pl.Segs {
		if gen < s.Count {
			return s.Kind, gen
		}
		gen -= s.Count
	}
	return "", 0
}

func (p *c16) Directed() []string {
	return []string{
		"known:legacy-subflow-config-empty", "known:router-cases-null", "legacy-form-field-operand", "number-literal-scale", "current-untouched", "webhook-templates", "dial-wait-phone",
		"legacy-shared-category", "long-names", "und-language", "templating-shapes", "hostile-bytes", "own-testdata-pairs",
		"uuid-reuse-13x", "uuid-reuse-legacy",
	}
}

func (p *c16) Floors(tier string) []string {
	return []string{
		"clause.migrates.checked", "clause.loads.checked", "clause.flow_uuid.checked", "clause.node_order.checked", "clause.exits.checked",
		"clause.idempotent.checked", "clause.current_untouched.checked", "clause.stepwise.multi_step", "clause.template_equiv.webhook_rewrites",
		"clause.roundtrip.checked", "clause.legacy.entry_first.checked", "clause.legacy.exits.checked", "clause.legacy.edges_kept.checked",
		"clause.templating.checked", "clause.templating.translations", "clause.localization.checked", "clause.spec_version.checked",
		"clause.migrates.13.0", "clause.migrates.13.1", "clause.migrates.13.2", "clause.migrates.13.3", "clause.migrates.13.4", "clause.migrates.13.5", "clause.migrates.legacy",
		"fault.mutants", "fault.returned_error", "fault.accepted", "fault.paths", "fault.kind.delete", "fault.kind.null", "fault.kind.truncate", "fault.kind.neighbour", "fault.kind.raw-bytes",
		"long_names.truncated", "language.replaced_by_und",
		"clause.uuid_unique.checked", "uuid_reuse.mutants", "uuid_reuse.cross_kind", "uuid_reuse.rejected",
		"fault.kind.uuid-reuse.exit=node", "fault.kind.uuid-reuse.action=node", "fault.kind.uuid-reuse.node=exit", "fault.kind.uuid-reuse.node=action",
		"fault.kind.uuid-reuse.node=node", "fault.kind.uuid-reuse.action=action", "fault.kind.uuid-reuse.exit=exit", "fault.kind.uuid-reuse.action=exit", "fault.kind.uuid-reuse.exit=action",
	}
}

func (p *c16) ExtraEvidence(tier string, counters map[string]int64) map[string]any {
	c := corpus()
	nl := 0
	paths := 0
	for i, s := range c {
		if s.Legacy {
			nl++
		}
		if t := p.tree(i); t != nil {
			paths += len(t.Nodes)
		}
	}
	m := map[string]any{
		"seed_definitions":        len(c),
		"seed_definitions_legacy": nl,
		"seed_json_paths":         paths,
		"fault_sweep":             "thorough: every seed x every JSON path x every mutation kind + truncation at every byte offset (exhaustive over that finite set); quick: 10 seeds chosen by VERIF_SEED",
		"migrations_registered":   len(migrations.Registered()),
		"current_spec_version":    definition.CurrentSpecVersion.String(),
	}
	if corpusErr != "" {
		m["corpus_error"] = corpusErr
	}
	return m
}

// CrashSignature: a child that died (fatal error outside recover, e.g. stack exhaustion) while running a case
func (p *c16) CrashSignature(c fw.Case, stderr string) (string, string, any) {
	first := ""
	for _, l := range strings.Split(stderr, "\n") {
		if strings.TrimSpace(l) != "" {
			first = clip(strings.TrimSpace(l), 200)
			break
		}
	}
	return "fatal|migrate-or-read|" + fw.InnermostFrame(stderr) + "|" + fw.PanicKind(first), "child process died with a runtime fatal error while handling a definition: " + first,
		map[string]any{"case": c.ID(), "stderr": clip(stderr, 3000)}
}

func (p *c16) WorkerInit(tier string, seed int64) {
	p.ec = newEvalCtx()
	p.steps = versionSteps()
	corpus()
}

// ---------------------------------------------------------------------------------------------------------
// Run
// ---------------------------------------------------------------------------------------------------------

func (p *c16) Run(c fw.Case) fw.Result {
	res := fw.Result{}
	if p.ec == nil {
		p.WorkerInit(c.Tier, c.Seed)
	}
	ck := &checker{res: &res, ec: p.ec, steps: p.steps}
	if c.Directed != "" {
		p.runDirected(c, ck)
		if res.Fingerprint == "" {
			res.Fingerprint = "d:" + c.Directed
		}
		res.NonTrivial = true
		return res
	}
	pl := p.plan(c.Tier)
	kind, i := pl.locate(c.Gen)
	// the stream of generated case g is that of list index g + 13: the 13 directed cases the list began with when
	// the generators were written; directed cases added later do not change what a generated index produces
	r := fw.NewRand(c.Seed, "C16", c.Gen+directedAtGenesis)
	res.Count("cases."+kind, 1)
	switch kind {
	case "gen", "tmpl":
		p.runGen(c, ck, r, kind == "tmpl")
	case "legacy":
		p.runLegacy(c, ck, r)
	case "seed":
		p.runSeed(c, ck, i)
	case "fault":
		p.runFault(c, ck, pl, i)
	case "rand":
		p.runRand(c, ck, r)
	default:
		res.Discarded = "no such case"
	}
	return res
}

const directedAtGenesis = 13

// UUID-reuse mutants per source version of a gen case / per legacy case / per rand case
const genReuseMutants = 4
const legacyReuseMutants = 6
const randReuseMutants = 24

func minorName(m int) string { return fmt.Sprintf("13.%d", m) }

func (p *c16) runGen(c fw.Case, ck *checker, r *fw.Rand, heavy bool) {
	res := ck.res
	model := genFlow(r, heavy)
	uuidSeed := int64(r.U64() >> 1)
	cur := model.render(6)
	res.Fingerprint = string(cur.JSON)

	// the model itself must be a valid current-version flow, else the generator is wrong (not goflow)
	if _, err, pi := readFlow(cur.JSON); err != nil || pi != nil {
		res.Inconclusive = fmt.Sprintf("generator produced a definition the current version rejects: %v %v\n%s", err, pi, clip(string(cur.JSON), 3000))
		res.Count("generator.invalid_current", 1)
		return
	}
	res.Count("generator.valid_current", 1)
	p.observeModel(res, model)

	changed := false
	for minor := 0; minor <= 6; minor++ {
		rd := cur
		if minor != 6 {
			rd = model.render(minor)
		}
		in := &validInput{Label: fmt.Sprintf("%s gen@%s", c.ID(), minorName(minor)), Version: minorName(minor), Data: rd.JSON, Known: true, R: rd, Model: model, UUIDSeed: uuidSeed}
		if minor == 6 {
			// a current-version definition is returned untouched
			ck.checkUntouched(in.Label, rd.JSON)
			pretty := prettyJSON(rd.JSON)
			ck.checkUntouched(in.Label+" (indented)", pretty)
		}
		out := ck.checkValid(in)
		if out != nil && !bytes.Equal(out, rd.JSON) {
			changed = true
		}
		if out != nil && minor <= 5 {
			p.observeMigration(res, model, rd, out)
		}
	}
	// UUID reuse on this (valid) definition at two source versions: every mutant names one thing twice
	fr := &faultRunner{res: res, ck: ck, label: c.ID() + " gen"}
	for _, minor := range []int{r.Intn(6), 6} {
		fr.label = fmt.Sprintf("%s gen@%s", c.ID(), minorName(minor))
		fr.reuseRandom(r, buildSeedTree(model.render(minor).JSON), genReuseMutants)
	}
	res.NonTrivial = len(model.Nodes) > 0 && changed
	if c.Gen < 3 {
		res.Sample = map[string]any{"kind": "gen", "nodes": len(model.Nodes), "type": model.Type, "language": model.Lang, "old_language": model.OldLang, "translations": len(model.Trans), "definition_13_0": clip(string(model.render(0).JSON), 1500)}
	}
}

func prettyJSON(b []byte) []byte {
	var buf bytes.Buffer
	if json.Indent(&buf, b, "", "    ") != nil {
		return b
	}
	buf.WriteString("\n")
	return buf.Bytes()
}

func (ck *checker) checkUntouched(label string, data []byte) {
	out, err, pi := migrateLatest(data)
	ck.res.Count("clause.current_untouched.checked", 1)
	switch {
	case pi != nil:
		ck.res.Count("panics", 1)
		ck.violate(pi.signature(), "MigrateToLatest panicked on a current-version definition", map[string]any{"input": label, "definition": string(data), "stack": fw.TrimStack(pi.Stack)})
	case err != nil:
		ck.violate("valid|current-rejected|"+errClass(err), "MigrateToLatest fails on a current-version definition: "+clip(err.Error(), 200), map[string]any{"input": label, "definition": string(data)})
	case !bytes.Equal(out, data):
		ck.violate("valid|current-not-untouched", "a definition already at the current version is not returned byte-identical", map[string]any{"input": label, "definition": string(data), "returned": string(out)})
	}
}

// observeModel records what the generated flow contains (evidence only)
func (p *c16) observeModel(res *fw.Result, m *mFlow) {
	res.Seen("flow_types", m.Type)
	res.Count("model.nodes", int64(len(m.Nodes)))
	res.Count("model.translations", int64(len(m.Trans)))
	res.Seen("languages_count", fmt.Sprint(len(m.Langs)))
	for _, n := range m.Nodes {
		for _, a := range n.Actions {
			res.Seen("action_types", str(a["type"]))
			res.Count("model.actions", 1)
			if _, ok := a[templatingKey]; ok {
				res.Count("model.templating_objects", 1)
			}
		}
		if n.Router != nil {
			res.Seen("router_types", str(n.Router["type"]))
			if w, ok := n.Router["wait"].(map[string]any); ok {
				res.Seen("wait_types", str(w["type"]))
			}
		}
	}
}

// observeMigration counts the inverse migrations that were actually exercised on this rendering
func (p *c16) observeMigration(res *fw.Result, m *mFlow, rd *rendered, out []byte) {
	if rd.Minor <= 1 && m.Lang == "und" {
		res.Count("language.replaced_by_und", 1)
		res.Seen("old_languages", m.OldLang)
	}
	if rd.Minor <= 5 {
		long := 0
		var visit func(v any)
		visit = func(v any) {
			switch t := v.(type) {
			case lname:
				if t.Long != t.Short {
					long++
				}
			case map[string]any:
				for _, e := range t {
					visit(e)
				}
			case []any:
				for _, e := range t {
					visit(e)
				}
			}
		}
		for _, n := range m.Nodes {
			for _, a := range n.Actions {
				visit(a)
			}
			if n.Router != nil {
				visit(n.Router)
			}
		}
		if long > 0 {
			res.Count("long_names.truncated", int64(long))
		}
	}
}

func (p *c16) runLegacy(c fw.Case, ck *checker, r *fw.Rand) {
	res := ck.res
	lib := legacyLibrary()
	if len(lib.Actions) == 0 || len(lib.RuleSets) == 0 || len(lib.Tests) == 0 {
		res.Discarded = "legacy library not found under " + repoRoot()
		return
	}
	data, ft := genLegacy(r, lib)
	res.Fingerprint = string(data)
	res.Seen("legacy_flow_types", ft)
	doc := decodeObject(data)
	ex := legacyExpectOf(doc, true)
	rsl, _ := doc["rule_sets"].([]any)
	for _, rs := range rsl {
		rsm, _ := rs.(map[string]any)
		res.Seen("legacy_ruleset_types", str(rsm["ruleset_type"]))
		rules, _ := rsm["rules"].([]any)
		for _, rl := range rules {
			rlm, _ := rl.(map[string]any)
			if t, ok := rlm["test"].(map[string]any); ok {
				res.Seen("legacy_test_types", str(t["type"]))
			}
		}
	}
	asl, _ := doc["action_sets"].([]any)
	for _, as := range asl {
		asm, _ := as.(map[string]any)
		acts, _ := asm["actions"].([]any)
		for _, a := range acts {
			am, _ := a.(map[string]any)
			res.Seen("legacy_action_types", str(am["type"]))
		}
	}
	in := &validInput{Label: c.ID() + " legacy-gen", Version: "legacy", Data: data, Legacy: true, Known: true, LegacyEx: ex, UUIDSeed: int64(r.U64() >> 1)}
	out := ck.checkValid(in)
	if out != nil {
		fr := &faultRunner{res: res, ck: ck, label: c.ID() + " legacy-gen"}
		fr.reuseRandom(r, buildSeedTree(data), legacyReuseMutants)
	}
	res.NonTrivial = out != nil && len(ex.Nodes) > 0
	if c.Gen < 302 && out != nil {
		res.Sample = map[string]any{"kind": "legacy", "nodes": len(ex.Nodes), "definition": clip(string(data), 1500)}
	}
}

func seedVersion(s seedDef) string {
	if s.Legacy {
		return "legacy"
	}
	m := decodeObject(s.Data)
	v := str(m["spec_version"])
	parts := strings.Split(v, ".")
	if len(parts) >= 2 {
		return parts[0] + "." + parts[1]
	}
	return "seed"
}

func (p *c16) runSeed(c fw.Case, ck *checker, i int) {
	res := ck.res
	cs := corpus()
	if i >= len(cs) {
		res.Discarded = "no such seed"
		return
	}
	s := cs[i]
	res.Fingerprint = "seed:" + s.Name
	in := &validInput{Label: "seed:" + s.Name, Version: seedVersion(s), Data: s.Data, Legacy: s.Legacy, Known: false, UUIDSeed: int64(i) + 1}
	if s.Legacy {
		in.LegacyEx = legacyExpectOf(decodeObject(s.Data), false)
	}
	res.Count("seeds.tried", 1)
	out := ck.checkValid(in)
	if out != nil {
		res.Count("seeds.valid", 1)
		res.NonTrivial = !bytes.Equal(out, s.Data)
	}
}

func (p *c16) runFault(c fw.Case, ck *checker, pl *plan, i int) {
	res := ck.res
	cs := corpus()
	var fs faultSlice
	if c.Tier == "thorough" {
		if i >= len(pl.Faults) {
			res.Discarded = "no such slice"
			return
		}
		fs = pl.Faults[i]
	} else {
		// quick: slot -> a seed chosen by VERIF_SEED (half of the slots legacy), chunk -> every 12th unit
		slot, chunk := i/quickFaultChunks, i%quickFaultChunks
		rs := fw.NewRand(c.Seed, "C16-slot", slot)
		var pool []int
		for j, s := range cs {
			if s.Legacy == (slot%2 == 0) && len(s.Data) < 4000 {
				pool = append(pool, j)
			}
		}
		if len(pool) == 0 {
			res.Discarded = "no seed for slot"
			return
		}
		fs = faultSlice{Seed: fw.Pick(rs, pool), From: chunk, Stride: quickFaultChunks}
		fs.To = 1 << 30
	}
	st := p.tree(fs.Seed)
	if st == nil {
		res.Discarded = "seed does not parse"
		return
	}
	s := cs[fs.Seed]
	fr := &faultRunner{res: res, ck: ck, label: s.Name}
	res.Seen("fault_seeds", s.Name)
	n := st.numUnits()
	done := 0
	for u := fs.From; u < fs.To && u < n; u += fs.Stride {
		if c.Tier != "thorough" && done >= 40 {
			break
		}
		fr.runUnit(st, u)
		done++
	}
	res.Fingerprint = fmt.Sprintf("fault:%s:%d:%d:%d", s.Name, fs.From, fs.To, fs.Stride)
	res.NonTrivial = fr.plaus > 0
	if done == 0 {
		res.Discarded = "empty slice"
	}
}

func (p *c16) runRand(c fw.Case, ck *checker, r *fw.Rand) {
	res := ck.res
	var data []byte
	label := ""
	switch r.Intn(3) {
	case 0:
		m := genFlow(r, false)
		minor := r.Intn(7)
		data = m.render(minor).JSON
		label = "gen@" + minorName(minor)
	case 1:
		lib := legacyLibrary()
		if len(lib.Actions) > 0 {
			data, _ = genLegacy(r, lib)
			label = "legacy-gen"
			break
		}
		fallthrough
	default:
		cs := corpus()
		if len(cs) == 0 {
			res.Discarded = "no corpus"
			return
		}
		s := fw.Pick(r, cs)
		data, label = s.Data, s.Name
	}
	st := buildSeedTree(data)
	if st == nil {
		res.Discarded = "base does not parse"
		return
	}
	fr := &faultRunner{res: res, ck: ck, label: c.ID() + " " + label}
	n := 250
	fr.randomFaults(r, st, n)
	fr.reuseRandom(r, st, randReuseMutants)
	res.Fingerprint = fmt.Sprintf("rand:%s:%x", label, fw.Hash64(string(data)))
	res.NonTrivial = fr.plaus > 0
}
