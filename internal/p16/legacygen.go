package p16

import (
	"encoding/json"
	"fmt"
	"sort"

	"verif/internal/fw"
)

// ---------------------------------------------------------------------------------------------------------
// What a legacy definition promises about its migrated form (read off the legacy JSON itself)
// ---------------------------------------------------------------------------------------------------------

type legacyRuleX struct{ UUID, Dest string }

type legacyExpect struct {
	FlowUUID string
	Entry    string
	Nodes    []string                 // action_sets, then rule_sets, in document order
	IsRS     map[string]bool          // node is a ruleset
	Exits    map[string][]legacyRuleX // per node: the action set's exit, or one entry per rule
	Sharing  bool                     // rules of one category share a destination (by construction)
}

func legacyExpectOf(doc map[string]any, sharing bool) *legacyExpect {
	e := &legacyExpect{IsRS: map[string]bool{}, Exits: map[string][]legacyRuleX{}, Sharing: sharing}
	if md, _ := doc["metadata"].(map[string]any); md != nil {
		e.FlowUUID = str(md["uuid"])
	}
	if e.FlowUUID == "" {
		e.FlowUUID = str(doc["uuid"])
	}
	e.Entry = str(doc["entry"])
	ass, _ := doc["action_sets"].([]any)
	rss, _ := doc["rule_sets"].([]any)
	for _, a := range ass {
		am, _ := a.(map[string]any)
		u := str(am["uuid"])
		e.Nodes = append(e.Nodes, u)
		e.Exits[u] = []legacyRuleX{{UUID: str(am["exit_uuid"]), Dest: str(am["destination"])}}
	}
	for _, r := range rss {
		rm, _ := r.(map[string]any)
		u := str(rm["uuid"])
		e.Nodes = append(e.Nodes, u)
		e.IsRS[u] = true
		rules, _ := rm["rules"].([]any)
		var xs []legacyRuleX
		for _, rl := range rules {
			rlm, _ := rl.(map[string]any)
			xs = append(xs, legacyRuleX{UUID: str(rlm["uuid"]), Dest: str(rlm["destination"])})
		}
		e.Exits[u] = xs
	}
	return e
}

func (ck *checker) checkLegacyGraph(in *validInput, got graph, wit func(map[string]any) map[string]any) {
	res := ck.res
	e := in.LegacyEx
	if e == nil {
		return
	}
	valid := map[string]bool{}
	for _, n := range e.Nodes {
		valid[n] = true
	}
	if e.FlowUUID != "" {
		res.Count("clause.flow_uuid.checked", 1)
		if got.FlowUUID != e.FlowUUID {
			ck.violate("valid|flow-uuid-changed|legacy", "flow UUID changed by legacy migration", wit(map[string]any{"expected": e.FlowUUID, "observed": got.FlowUUID}))
		}
	}
	// node set
	res.Count("clause.legacy.nodes.checked", 1)
	res.Count("nodes_compared", int64(len(e.Nodes)))
	a := append([]string{}, e.Nodes...)
	b := got.nodeUUIDs()
	sort.Strings(a)
	sb := append([]string{}, b...)
	sort.Strings(sb)
	if fmt.Sprint(a) != fmt.Sprint(sb) {
		ck.violate("valid|nodes-changed|legacy", "the migrated flow does not have exactly the legacy flow's action sets and rule sets as nodes", wit(map[string]any{"expected": e.Nodes, "observed": b}))
		return
	}
	// entry first
	if e.Entry != "" && valid[e.Entry] {
		res.Count("clause.legacy.entry_first.checked", 1)
		if len(b) == 0 || b[0] != e.Entry {
			ck.violate("valid|entry-not-first|legacy", "the legacy entry node is not the first node after migration", wit(map[string]any{"entry": e.Entry, "observed": b}))
		}
		if len(b) > 1 && e.Nodes[0] != e.Entry {
			res.Count("clause.legacy.entry_first.moved", 1)
		}
	}
	// connections
	for _, gn := range got.Nodes {
		rules := e.Exits[gn.UUID]
		res.Count("clause.legacy.exits.checked", 1)
		byUUID := map[string]legacyRuleX{}
		for _, r := range rules {
			if _, dup := byUUID[r.UUID]; !dup {
				byUUID[r.UUID] = r
			}
		}
		if !e.IsRS[gn.UUID] {
			want := rules[0]
			if !valid[want.Dest] {
				want.Dest = ""
			}
			res.Count("exits_compared", 1)
			if len(gn.Exits) != 1 || gn.Exits[0].UUID != want.UUID || gn.Exits[0].Dest != want.Dest {
				ck.violate("valid|exits-changed|legacy-actionset", "an action set's exit / destination changed by legacy migration", wit(map[string]any{"node": gn.UUID, "expected": want, "observed": gn.Exits}))
			}
			continue
		}
		dests := map[string]bool{}
		for _, x := range gn.Exits {
			res.Count("exits_compared", 1)
			dests[x.Dest] = true
			r, ok := byUUID[x.UUID]
			if !ok {
				ck.violate("valid|exits-changed|legacy-exit-not-a-rule", "a rule set's node has an exit whose UUID is not one of its rules' UUIDs", wit(map[string]any{"node": gn.UUID, "exit": x, "rules": rules}))
				continue
			}
			wd := r.Dest
			if !valid[wd] {
				wd = ""
			}
			if x.Dest != wd {
				ck.violate("valid|exits-changed|legacy-rule-destination", "the exit made from a rule does not lead where the rule led", wit(map[string]any{"node": gn.UUID, "exit": x, "rule": r}))
			}
		}
		if e.Sharing {
			res.Count("clause.legacy.edges_kept.checked", 1)
			for _, r := range rules {
				if valid[r.Dest] && !dests[r.Dest] {
					ck.violate("valid|exits-changed|legacy-edge-lost", "a destination reachable from a rule set is not reachable from its node", wit(map[string]any{"node": gn.UUID, "rule": r, "observed": gn.Exits}))
					break
				}
			}
		}
	}
}

// ---------------------------------------------------------------------------------------------------------
// Legacy assembler: action sets / rule sets from the library in legacy/testdata, rewired
// ---------------------------------------------------------------------------------------------------------

func decodeMap(b []byte) map[string]any {
	m := decodeObject(b)
	if m == nil {
		return map[string]any{}
	}
	return m
}

// action types that need an online / voice flow
var legacyOnlineActions = map[string]bool{"email": true, "send": true, "trigger-flow": true, "channel": true}

// rule set types that accept arbitrary extra tests
var openRuleSets = map[string]bool{"wait_message": true, "expression": true, "contact_field": true, "flow_field": true, "form_field": true, "wait_digits": true, "wait_digit": true, "": true}
var onlineRuleSets = map[string]bool{"webhook": true, "resthook": true, "airtime": true}
var closedTests = map[string]bool{"subflow": true, "webhook_status": true, "airtime_status": true, "true": true, "timeout": true}

func genLegacy(r *fw.Rand, lib *legacyLib) ([]byte, string) {
	flowType := []string{"F", "M", "V", "S", ""}[r.Weighted([]int{50, 10, 15, 15, 10})]
	offline := flowType == "S"
	voice := flowType == "V"

	var actPool []libAction
	for _, a := range lib.Actions {
		m := decodeMap(a.JSON)
		t := str(m["type"])
		if a.FlowType == "V" && !voice {
			continue
		}
		if offline && legacyOnlineActions[t] {
			continue
		}
		actPool = append(actPool, a)
	}
	var rsPool [][]byte
	for _, rs := range lib.RuleSets {
		m := decodeMap(rs)
		if offline && onlineRuleSets[str(m["ruleset_type"])] {
			continue
		}
		rsPool = append(rsPool, rs)
	}
	var testPool [][]byte
	for _, t := range lib.Tests {
		if !closedTests[str(decodeMap(t)["type"])] {
			testPool = append(testPool, t)
		}
	}

	na := r.Range(1, 4)
	nr := r.Weighted([]int{2, 4, 3, 2, 1})
	type nodeRef struct {
		uuid string
		rs   bool
	}
	var nodes []nodeRef
	for i := 0; i < na; i++ {
		nodes = append(nodes, nodeRef{randUUID(r), false})
	}
	for i := 0; i < nr; i++ {
		nodes = append(nodes, nodeRef{randUUID(r), true})
	}
	pickDest := func() (any, any) {
		if r.Chance(0.25) {
			return nil, nil
		}
		if r.Chance(0.04) {
			return randUUID(r), "A" // dangling destination: dropped by the migration
		}
		n := fw.Pick(r, nodes)
		if n.rs {
			return n.uuid, "R"
		}
		return n.uuid, "A"
	}

	ass, rss := []any{}, []any{}
	for i := 0; i < na; i++ {
		d, _ := pickDest()
		nact := r.Range(0, 4)
		acts := make([]any, 0, nact)
		for j := 0; j < nact; j++ {
			am := decodeMap(fw.Pick(r, actPool).JSON)
			am["uuid"] = randUUID(r)
			acts = append(acts, am)
		}
		ass = append(ass, map[string]any{
			"uuid": nodes[i].uuid, "x": r.Intn(800), "y": fw.Pick(r, []int{0, 100, 100, 250, r.Intn(2000)}),
			"destination": d, "exit_uuid": randUUID(r), "actions": acts,
		})
	}
	for i := 0; i < nr; i++ {
		rm := decodeMap(fw.Pick(r, rsPool))
		rm["uuid"] = nodes[na+i].uuid
		rm["x"] = r.Intn(800)
		rm["y"] = fw.Pick(r, []int{0, 100, 300, r.Intn(2000)})
		// every kind of waiting rule set (the library's definitions only have three of them): the kind decides the wait's hint
		if t := str(rm["ruleset_type"]); (t == "wait_message" || t == "wait_photo" || t == "wait_digits") && r.Chance(0.3) {
			nt := fw.Pick(r, []string{"wait_audio", "wait_video", "wait_photo", "wait_gps", "wait_recording", "wait_digit", "wait_digits", "wait_message"})
			rm["ruleset_type"] = nt
			if nt == "wait_digits" {
				rm["finished_key"] = fw.Pick(r, []any{"#", "*", "", nil})
			}
		}
		rules, _ := rm["rules"].([]any)
		// extra rules from the test library, before the trailing rules (Other / timeout)
		if openRuleSets[str(rm["ruleset_type"])] && r.Chance(0.6) {
			cut := len(rules)
			for cut > 0 {
				t := str(decodeMap(mustJSON(rules[cut-1].(map[string]any)["test"]))["type"])
				if t == "true" || t == "timeout" {
					cut--
				} else {
					break
				}
			}
			var extra []any
			for k := r.Range(1, 4); k > 0; k-- {
				var test any
				json.Unmarshal(fw.Pick(r, testPool), &test)
				// (names that differ only in letter case or surrounding white space are different categories)
				cat := map[string]any{"eng": fw.Pick(r, []string{"Yes", "No", "Maybe", "Other", "Numeric", "Oui", "yes", "YES", " Yes", "Yes ", "maybe", "Grade A", "grade a"})}
				if r.Chance(0.4) {
					cat["fra"] = "Peut-être"
				}
				extra = append(extra, map[string]any{"test": test, "category": cat, "label": nil})
			}
			rules = append(append(append([]any{}, rules[:cut]...), extra...), rules[cut:]...)
		}
		// rewire: rules of one category (same base name) share a destination
		destByCat := map[string][2]any{}
		for _, rl := range rules {
			rlm := rl.(map[string]any)
			rlm["uuid"] = randUUID(r)
			name := ""
			switch c := rlm["category"].(type) {
			case map[string]any:
				name = str(c["eng"])
				if _, ok := c["eng"]; !ok {
					name = str(c["base"])
				}
			case string:
				name = c
			}
			d, ok := destByCat[name]
			if !ok {
				a, b := pickDest()
				d = [2]any{a, b}
				destByCat[name] = d
			}
			rlm["destination"], rlm["destination_type"] = d[0], d[1]
		}
		rm["rules"] = rules
		rss = append(rss, rm)
	}

	doc := map[string]any{"base_language": "eng", "action_sets": ass, "rule_sets": rss}
	if flowType != "" || r.Bool() {
		doc["flow_type"] = flowType
	}
	if r.Chance(0.9) {
		doc["entry"] = fw.Pick(r, nodes).uuid
	} else if r.Bool() {
		doc["entry"] = nil
	}
	md := map[string]any{"name": fw.Pick(r, []string{"Legacy Flow", "Registro", ""}), "revision": r.Intn(100), "expires": fw.Pick(r, []int{0, 5, 720})}
	flowUUID := randUUID(r)
	switch r.Intn(10) {
	case 0:
		doc["uuid"] = flowUUID // some exports have it at the top level
		doc["name"] = "Top Level Name"
	default:
		md["uuid"] = flowUUID
	}
	if r.Chance(0.3) {
		md["notes"] = []any{map[string]any{"x": 10, "y": 20, "title": "note", "body": "remember @contact.name"}}
	}
	if r.Chance(0.95) {
		doc["metadata"] = md
	} else {
		doc["uuid"] = flowUUID
	}
	b, err := json.Marshal(doc)
	if err != nil {
		panic("p16: cannot marshal legacy flow: " + err.Error())
	}
	return b, flowType
}

func mustJSON(v any) []byte {
	b, _ := json.Marshal(v)
	return b
}
