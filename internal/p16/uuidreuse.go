package p16

import (
	"fmt"
	"sort"
	"strings"

	"github.com/nyaruka/goflow/flows"

	"verif/internal/fw"
)

// ---------------------------------------------------------------------------------------------------------
// UUID reuse: structurally plausible definitions in which one thing (a node, an action, an exit) has been given
// the UUID of ANOTHER thing of the flow - of the same kind or of a different kind (an exit carrying the UUID of
// its own node, an action carrying the UUID of the node an exit leads to, ...). Every member is present and of
// the right type, every UUID is well formed; only the identity is shared. Such a definition is not valid (paths,
// results and localization are keyed by these UUIDs) and belongs to the rejection clause.
//
// Oracle (independent of goflow's validation code): whenever ReadFlow ACCEPTS a definition - any accepted
// definition, mutated or not - the UUIDs of the nodes, actions and exits of the flow it returned are collected
// through the public accessors (Flow.Nodes, Node.UUID/Actions/Exits, Action.UUID, Exit.UUID) and must be pairwise
// distinct. It trusts those accessors only; it does not look at how (or whether) validate() tracks UUIDs, and it
// does not predict from the JSON which mutants are invalid (a legacy rule UUID that the migration drops, a
// duplicate JSON member that encoding/json resolves differently, ... never give a false alarm).
// ---------------------------------------------------------------------------------------------------------

const (
	roleNode   = "node"
	roleAction = "action"
	roleExit   = "exit"
)

var uuidRoles = []string{roleNode, roleAction, roleExit}

// uuidSite is one position of a definition document that names a node, an action or an exit
type uuidSite struct {
	Idx   int    // pre-order index into seedTree.Nodes
	Role  string // node | action | exit
	Owner string // the node (13.x) / action set / rule set the thing belongs to
	Value string
}

// uuidRole classifies a JSON path of a 13.x or legacy definition
func uuidRole(path []any) (role, owner string) {
	n := len(path)
	if n != 3 && n != 5 {
		return "", ""
	}
	s := func(i int) string { v, _ := path[i].(string); return v }
	if _, ok := path[1].(int); !ok {
		return "", ""
	}
	owner = fmt.Sprintf("%s[%d]", s(0), path[1])
	if n == 3 {
		switch {
		case s(0) == "nodes" && s(2) == "uuid":
			return roleNode, owner
		case (s(0) == "action_sets" || s(0) == "rule_sets") && s(2) == "uuid":
			return roleNode, owner
		case s(0) == "action_sets" && s(2) == "exit_uuid":
			return roleExit, owner
		}
		return "", ""
	}
	if _, ok := path[3].(int); !ok || s(4) != "uuid" {
		return "", ""
	}
	switch {
	case s(0) == "nodes" && s(2) == "actions":
		return roleAction, owner
	case s(0) == "nodes" && s(2) == "exits":
		return roleExit, owner
	case s(0) == "action_sets" && s(2) == "actions":
		return roleAction, owner
	case s(0) == "rule_sets" && s(2) == "rules":
		return roleExit, owner // the legacy migration keeps rule UUIDs as exit UUIDs
	}
	return "", ""
}

// findSites lists the node / action / exit UUID positions of the tree (in document order)
func (st *seedTree) findSites() {
	st.SiteAt = map[int]int{}
	for i, n := range st.Nodes {
		if n.Type != "string" {
			continue
		}
		role, owner := uuidRole(n.Path)
		if role == "" {
			continue
		}
		v, ok := getPath(st.Root, n.Path)
		sv, _ := v.(string)
		if !ok || sv == "" {
			continue
		}
		st.SiteAt[i] = len(st.Sites)
		st.Sites = append(st.Sites, uuidSite{Idx: i, Role: role, Owner: owner, Value: sv})
	}
}

// donor picks the thing whose UUID site k is given: one of role `role` with another UUID; near = prefer a thing
// of the same node (the node itself, one of its actions / exits), else the next one in document order after k.
func (st *seedTree) donor(k int, role string, near bool) (uuidSite, bool) {
	s := st.Sites[k]
	n := len(st.Sites)
	var far *uuidSite
	for d := 1; d < n; d++ {
		c := &st.Sites[(k+d)%n]
		if c.Role != role || c.Value == s.Value {
			continue
		}
		if (c.Owner == s.Owner) == near {
			return *c, true
		}
		if far == nil {
			far = c
		}
	}
	if far != nil {
		return *far, true
	}
	return uuidSite{}, false
}

func reuseKind(site, donor uuidSite) string { return "uuid-reuse." + site.Role + "=" + donor.Role }

// reuseAt runs the mutants of one site: for every kind of thing, the UUID of a near and of a far thing of that kind
func (fr *faultRunner) reuseAt(st *seedTree, k int) {
	s := st.Sites[k]
	where := pathString(st.Nodes[s.Idx].Path)
	for _, role := range uuidRoles {
		prev := ""
		for _, near := range []bool{true, false} {
			d, ok := st.donor(k, role, near)
			if !ok || d.Value == prev {
				continue
			}
			prev = d.Value
			fr.try(reuseKind(s, d), where, st.mutate(s.Idx, modeReplace, mustJSON(d.Value)))
		}
	}
}

// reuseAll: every site x every kind of donor (directed cases: exhaustive over a small definition)
func (fr *faultRunner) reuseAll(st *seedTree) int {
	if st == nil {
		return 0
	}
	for k := range st.Sites {
		fr.reuseAt(st, k)
	}
	return len(st.Sites)
}

// reuseRandom: n mutants, each one site given the UUID of a randomly chosen other thing (any kind pair)
func (fr *faultRunner) reuseRandom(r *fw.Rand, st *seedTree, n int) {
	if st == nil || len(st.Sites) < 2 {
		return
	}
	for i := 0; i < n; i++ {
		k := r.Intn(len(st.Sites))
		s := st.Sites[k]
		role := fw.Pick(r, uuidRoles)
		var d uuidSite
		ok := false
		if r.Chance(0.5) {
			d, ok = st.donor(k, role, r.Bool())
		} else {
			// any thing of that kind
			var cands []uuidSite
			for _, c := range st.Sites {
				if c.Role == role && c.Value != s.Value {
					cands = append(cands, c)
				}
			}
			if len(cands) > 0 {
				d, ok = fw.Pick(r, cands), true
			}
		}
		if !ok {
			continue
		}
		fr.try(reuseKind(s, d), pathString(st.Nodes[s.Idx].Path), st.mutate(s.Idx, modeReplace, mustJSON(d.Value)))
	}
}

// checkUniqueUUIDs: an accepted flow in which two things share a UUID should have been rejected
func (ck *checker) checkUniqueUUIDs(label, mutation, where string, data []byte, flow flows.Flow) {
	res := ck.res
	if flow == nil {
		return
	}
	type thing struct{ Role, Node string }
	seen := map[string]thing{}
	var dupUUID string
	var a, b thing
	things := 0
	add := func(u string, t thing) {
		if u == "" {
			return
		}
		things++
		if p, ok := seen[u]; ok {
			if dupUUID == "" {
				dupUUID, a, b = u, p, t
			}
			return
		}
		seen[u] = t
	}
	pi := guard("read", "flow accessors", func() {
		for _, n := range flow.Nodes() {
			nu := string(n.UUID())
			add(nu, thing{roleNode, nu})
			for _, act := range n.Actions() {
				add(string(act.UUID()), thing{roleAction, nu})
			}
			for _, e := range n.Exits() {
				add(string(e.UUID()), thing{roleExit, nu})
			}
		}
	})
	if pi != nil {
		res.Count("uuid_unique.accessor_panic", 1)
		return
	}
	res.Count("clause.uuid_unique.checked", 1)
	res.Count("uuid_unique.things", int64(things))
	if dupUUID == "" {
		return
	}
	roles := []string{a.Role, b.Role}
	sort.Strings(roles)
	w := map[string]any{"input": label, "definition": clip(string(data), 20000), "shared_uuid": dupUUID,
		"first": map[string]any{"kind": a.Role, "node": a.Node}, "second": map[string]any{"kind": b.Role, "node": b.Node}}
	if mutation != "" {
		w["mutation"] = mutation
		w["path"] = where
	}
	ck.violate("reject|accepted-invalid|uuid-shared|"+strings.Join(roles, "+"),
		fmt.Sprintf("ReadFlow accepts a definition in which %s and %s carry the same UUID: a UUID must identify one thing in a flow, so this definition is not valid and should have been rejected",
			describeThing(a.Role, a.Node), describeThing(b.Role, b.Node)), w)
}

func describeThing(role, node string) string {
	if role == roleNode {
		return "a node"
	}
	return "an " + role
}
