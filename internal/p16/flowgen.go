package p16

import (
	"encoding/json"
	"fmt"
	"strings"

	"verif/internal/fw"
)

// ---------------------------------------------------------------------------------------------------------
// Flow model: a current-version flow whose leaves know how they looked in older spec versions. Rendering the
// model at minor version m applies, newest first, the inverse of every registered migration above 13.m
// (DESIGN.md appendix A.6).
// ---------------------------------------------------------------------------------------------------------

// lname is a result / category name: Long is what a definition <= 13.5 holds, Short what 13.6 allows.
type lname struct{ Long, Short string }

type mFlow struct {
	UUID, Name    string
	Lang, OldLang string // base language from 13.2 on / before 13.2 (differs only when Lang == "und")
	UndJunk       bool   // definitions < 13.2 carry a meaningless localization["und"]
	Type          string
	Revision      int
	Expire        int
	Nodes         []*mNode
	Trans         []mTrans
	UI            bool
	ShortVersion  bool // spec_version written as "13.4" instead of "13.4.0"
	Langs         []string
}

type mNode struct {
	UUID    string
	Actions []map[string]any // leaves: plain JSON values | tpl | lname ; key templatingKey holds *mTemplating
	Router  map[string]any
	Exits   []mExit
}

type mExit struct{ UUID, Dest string }

type mTrans struct {
	Lang, Item, Prop string
	Vals             []any // string | tpl
}

const templatingKey = "\x00templating"

type mTemplating struct {
	UUID  string         // templating.uuid in 13.1 .. 13.3
	Ref   map[string]any // template reference
	Comps []*mComp       // 13.4 components; flattened to `variables` before 13.4, to `template_variables` from 13.5 on
}

type mComp struct {
	UUID, Name string
	Params     []tpl
	Trans      map[string][]tpl // lang -> translated params (same length)
}

// ---------------------------------------------------------------------------------------------------------

type fgen struct {
	r     *fw.Rand
	tg    *tplGen
	pWh   float64 // probability that a template refers to webhook
	pLong float64 // probability that a result / category name is over-long
	f     *mFlow
	heavy bool // template heavy profile
}

const hexd = "0123456789abcdef"

func randUUID(r *fw.Rand) string {
	var b [16]byte
	a, c := r.U64(), r.U64()
	for i := 0; i < 8; i++ {
		b[i] = byte(a >> (8 * i))
		b[8+i] = byte(c >> (8 * i))
	}
	b[6] = (b[6] & 0x0f) | 0x40
	b[8] = (b[8] & 0x3f) | 0x80
	var sb strings.Builder
	for i, x := range b {
		if i == 4 || i == 6 || i == 8 || i == 10 {
			sb.WriteByte('-')
		}
		sb.WriteByte(hexd[x>>4])
		sb.WriteByte(hexd[x&15])
	}
	return sb.String()
}

func (g *fgen) uuid() string { return randUUID(g.r) }

func (g *fgen) t() tpl { return g.tg.template(g.pWh) }

// non-empty template (required fields)
func (g *fgen) tReq() tpl {
	for i := 0; i < 5; i++ {
		t := g.t()
		if strings.TrimSpace(t.Old) != "" {
			return t
		}
	}
	return fixed("Hello")
}

var nameAlphabet = []rune("abcdefghijklmnopqrstuvwxyzABCDEFGHIJKLMNOPQRSTUVWXYZ0123456789_- ")
var catExtra = []rune("éñü日本😀.,!?/")

func truncRunes(s string, n int) string {
	r := []rune(s)
	if len(r) > n {
		r = r[:n]
	}
	return strings.TrimSpace(string(r))
}

// resultName: over the validator's alphabet, starting with a letter
func (g *fgen) resultName() lname {
	base := fw.Pick(g.r, []string{"Color", "Age", "Response 1", "webhook", "Favorite_Beer", "my-result", "Q2", "Name", "intent", "Ticket"})
	if !g.r.Chance(g.pLong) {
		return lname{base, base}
	}
	n := fw.Pick(g.r, []int{65, 66, 70, 100, 128, 64 + g.r.Range(1, 200)})
	rs := []rune(base)
	for len(rs) < n {
		rs = append(rs, nameAlphabet[g.r.Intn(len(nameAlphabet))])
	}
	if g.r.Chance(0.3) && len(rs) > 64 {
		rs[63] = ' ' // a cut that leaves a trailing space
		if g.r.Bool() {
			rs[62] = ' '
		}
	}
	long := string(rs[:n])
	return lname{long, truncRunes(long, 64)}
}

func (g *fgen) categoryName() lname {
	base := fw.Pick(g.r, []string{"Yes", "No", "Other", "All Responses", "Red", "Blue", "Success", "Failure", "Sí", "No Response", "1-5", "Expired", "Completed"})
	if !g.r.Chance(g.pLong) {
		return lname{base, base}
	}
	n := fw.Pick(g.r, []int{37, 38, 40, 64, 36 + g.r.Range(1, 100)})
	rs := []rune(base)
	for len(rs) < n {
		if g.r.Chance(0.1) {
			rs = append(rs, catExtra[g.r.Intn(len(catExtra))])
		} else {
			rs = append(rs, nameAlphabet[g.r.Intn(len(nameAlphabet))])
		}
	}
	if g.r.Chance(0.3) {
		rs[35] = ' '
	}
	long := string(rs[:n])
	return lname{long, truncRunes(long, 36)}
}

func (g *fgen) groupRefs() []any {
	n := g.r.Range(1, 3)
	out := make([]any, n)
	for i := range out {
		if g.r.Chance(0.35) {
			out[i] = map[string]any{"name_match": g.tReq()}
		} else {
			out[i] = map[string]any{"uuid": g.uuid(), "name": fw.Pick(g.r, []string{"Testers", "Customers", "Survey Audience", "Niños"})}
		}
	}
	return out
}

func (g *fgen) tList(min, max int) []any {
	n := g.r.Range(min, max)
	out := make([]any, n)
	for i := range out {
		out[i] = g.tReq()
	}
	return out
}

func (g *fgen) attachments(min, max int) []any {
	n := g.r.Range(min, max)
	out := make([]any, n)
	for i := range out {
		t := g.tReq()
		prefix := fw.Pick(g.r, []string{"image/jpeg:http://example.com/", "image:", "audio/mp3:https://x.io/a?b=", "application/pdf:"})
		out[i] = tpl{Old: prefix + strings.ReplaceAll(t.Old, "\n", " "), New: prefix + strings.ReplaceAll(t.New, "\n", " "), Webhook: t.Webhook, Shape: t.Shape}
	}
	return out
}

// translate adds translations of a localizable property for some of the flow's languages
func (g *fgen) translate(item, prop string, base []any, p float64) {
	for _, lang := range g.f.Langs {
		if !g.r.Chance(p) {
			continue
		}
		vals := make([]any, len(base))
		for i, b := range base {
			switch bt := b.(type) {
			case tpl:
				nt := g.tReq()
				if strings.Contains(bt.Old, ":") && prop == "attachments" {
					pre := bt.Old[:strings.Index(bt.Old, ":")+1]
					nt = tpl{Old: pre + strings.ReplaceAll(nt.Old, "\n", " "), New: pre + strings.ReplaceAll(nt.New, "\n", " "), Webhook: nt.Webhook, Shape: nt.Shape}
				}
				vals[i] = nt
			default:
				vals[i] = fw.Pick(g.r, []string{"Oui", "Sí", "Non", "Autre", "Rojo", "نعم", "Yego", ""})
			}
		}
		if len(vals) == 1 && g.r.Chance(0.05) {
			vals = []any{""} // the editor sometimes saves [""]
		}
		g.f.Trans = append(g.f.Trans, mTrans{Lang: lang, Item: item, Prop: prop, Vals: vals})
	}
}

func (g *fgen) templating() *mTemplating {
	t := &mTemplating{UUID: g.uuid(), Ref: map[string]any{"uuid": g.uuid(), "name": fw.Pick(g.r, []string{"revive_issue", "welcome", "affirmation"})}}
	nc := g.r.Weighted([]int{1, 6, 3, 1}) // number of components
	names := []string{"body", "button.0", "header", "button.1"}
	for i := 0; i < nc; i++ {
		c := &mComp{UUID: g.uuid(), Name: names[i], Trans: map[string][]tpl{}}
		np := g.r.Range(0, 3)
		for j := 0; j < np; j++ {
			c.Params = append(c.Params, g.tReq())
		}
		for _, lang := range g.f.Langs {
			if np > 0 && g.r.Chance(0.4) {
				tr := make([]tpl, np)
				for j := range tr {
					tr[j] = g.tReq()
				}
				c.Trans[lang] = tr
			}
		}
		t.Comps = append(t.Comps, c)
	}
	return t
}

func (g *fgen) sendMsg() map[string]any {
	u := g.uuid()
	a := map[string]any{"uuid": u, "type": "send_msg"}
	text := g.tReq()
	a["text"] = text
	g.translate(u, "text", []any{text}, 0.5)
	maxN := 3
	if g.heavy {
		maxN = 8
	}
	if g.r.Chance(0.4) || g.heavy {
		att := g.attachments(1, 2)
		a["attachments"] = att
		g.translate(u, "attachments", att, 0.3)
	}
	if g.r.Chance(0.5) || g.heavy {
		qr := g.tList(1, maxN)
		a["quick_replies"] = qr
		g.translate(u, "quick_replies", qr, 0.4)
	}
	if g.r.Chance(0.2) {
		a["all_urns"] = true
	}
	if g.r.Chance(0.45) {
		a[templatingKey] = g.templating()
	}
	if g.r.Chance(0.15) {
		a["topic"] = fw.Pick(g.r, []string{"event", "account", "purchase", "agent"})
	}
	return a
}

// action builds one action allowed in the flow's type
func (g *fgen) action() map[string]any {
	ft := g.f.Type
	online := ft != "messaging_offline"
	interactive := ft != "messaging_background"
	voice := ft == "voice"
	type mk struct {
		w  int
		ok bool
		f  func() map[string]any
	}
	u := g.uuid()
	base := func(t string) map[string]any { return map[string]any{"uuid": u, "type": t} }
	opts := []mk{
		{30, true, g.sendMsg},
		{12, true, func() map[string]any {
			a := base("set_run_result")
			a["name"] = g.resultName()
			a["value"] = g.t()
			if g.r.Chance(0.7) {
				c := g.categoryName()
				a["category"] = c
				g.translate(u, "category", []any{c}, 0.3)
			}
			return a
		}},
		{12, online, func() map[string]any {
			a := base("call_webhook")
			a["method"] = fw.Pick(g.r, []string{"GET", "POST", "PUT", "DELETE", "HEAD", "PATCH"})
			t := g.tReq()
			a["url"] = tpl{Old: "http://example.com/?q=" + t.Old, New: "http://example.com/?q=" + t.New, Webhook: t.Webhook, Shape: t.Shape}
			if g.r.Chance(0.6) {
				h := map[string]any{}
				for _, k := range []string{"Authorization", "Content-Type", "X-Custom"} {
					if g.r.Chance(0.5) {
						h[k] = g.t()
					}
				}
				a["headers"] = h
			}
			if g.r.Chance(0.6) {
				a["body"] = g.t()
			}
			if g.r.Chance(0.8) {
				a["result_name"] = fw.Pick(g.r, []string{"webhook", "Response 1", "lookup"})
			}
			return a
		}},
		{6, true, func() map[string]any {
			a := base("enter_flow")
			a["flow"] = map[string]any{"uuid": g.uuid(), "name": "Child Flow"}
			if g.r.Chance(0.3) {
				a["terminal"] = true
			}
			return a
		}},
		{6, true, func() map[string]any {
			a := base("set_contact_field")
			a["field"] = map[string]any{"key": fw.Pick(g.r, []string{"age", "gender", "state"}), "name": "Field"}
			a["value"] = g.t()
			return a
		}},
		{4, true, func() map[string]any { a := base("set_contact_name"); a["name"] = g.t(); return a }},
		{3, true, func() map[string]any { a := base("set_contact_language"); a["language"] = g.t(); return a }},
		{2, true, func() map[string]any { a := base("set_contact_timezone"); a["timezone"] = g.t(); return a }},
		{2, true, func() map[string]any {
			a := base("set_contact_status")
			a["status"] = fw.Pick(g.r, []string{"active", "blocked", "stopped", "archived"})
			return a
		}},
		{2, online, func() map[string]any {
			a := base("set_contact_channel")
			a["channel"] = map[string]any{"uuid": g.uuid(), "name": "Android"}
			return a
		}},
		{5, true, func() map[string]any { a := base("add_contact_groups"); a["groups"] = g.groupRefs(); return a }},
		{3, true, func() map[string]any {
			a := base("remove_contact_groups")
			if g.r.Chance(0.3) {
				a["all_groups"] = true
			} else {
				a["groups"] = g.groupRefs()
			}
			return a
		}},
		{3, true, func() map[string]any {
			a := base("add_contact_urn")
			a["scheme"] = fw.Pick(g.r, []string{"tel", "twitter", "mailto", "telegram"})
			a["path"] = g.tReq()
			return a
		}},
		{4, interactive, func() map[string]any {
			a := base("add_input_labels")
			n := g.r.Range(1, 2)
			ls := make([]any, n)
			for i := range ls {
				if g.r.Chance(0.4) {
					ls[i] = map[string]any{"name_match": g.tReq()}
				} else {
					ls[i] = map[string]any{"uuid": g.uuid(), "name": "Spam"}
				}
			}
			a["labels"] = ls
			return a
		}},
		{5, online, func() map[string]any {
			a := base("send_email")
			a["addresses"] = g.tList(1, 2)
			s, b := g.tReq(), g.tReq()
			a["subject"], a["body"] = s, b
			g.translate(u, "subject", []any{s}, 0.3)
			g.translate(u, "body", []any{b}, 0.3)
			return a
		}},
		{5, online, func() map[string]any {
			a := base("send_broadcast")
			text := g.tReq()
			a["text"] = text
			g.translate(u, "text", []any{text}, 0.3)
			if g.r.Chance(0.3) {
				att := g.attachments(1, 2)
				a["attachments"] = att
				g.translate(u, "attachments", att, 0.3)
			}
			if g.r.Chance(0.3) {
				qr := g.tList(1, 3)
				a["quick_replies"] = qr
				g.translate(u, "quick_replies", qr, 0.3)
			}
			switch g.r.Intn(4) {
			case 0:
				a["groups"] = g.groupRefs()
			case 1:
				a["contacts"] = []any{map[string]any{"uuid": g.uuid(), "name": "Bob"}}
			case 2:
				a["contact_query"] = g.tReq()
			default:
				a["legacy_vars"] = g.tList(1, 2)
				a["urns"] = []any{"tel:+12065551212"}
			}
			return a
		}},
		{4, online, func() map[string]any {
			a := base("start_session")
			a["flow"] = map[string]any{"uuid": g.uuid(), "name": "Other Flow"}
			switch g.r.Intn(4) {
			case 0:
				a["groups"] = g.groupRefs()
			case 1:
				a["contacts"] = []any{map[string]any{"uuid": g.uuid(), "name": "Bob"}}
			case 2:
				a["contact_query"] = g.tReq()
			default:
				a["legacy_vars"] = g.tList(1, 2)
				a["create_contact"] = true
			}
			return a
		}},
		{3, online, func() map[string]any {
			a := base("call_resthook")
			a["resthook"] = "new-registration"
			if g.r.Bool() {
				a["result_name"] = "resthook"
			}
			return a
		}},
		{3, online, func() map[string]any {
			a := base("call_classifier")
			a["classifier"] = map[string]any{"uuid": g.uuid(), "name": "Booking"}
			a["input"] = g.tReq()
			a["result_name"] = "intent"
			return a
		}},
		{3, online, func() map[string]any {
			a := base("open_ticket")
			if g.r.Bool() {
				a["topic"] = map[string]any{"uuid": g.uuid(), "name": "Support"}
			}
			a["body"] = g.t()
			switch g.r.Intn(3) {
			case 0:
				a["assignee"] = map[string]any{"email": "bob@nyaruka.com", "name": "Bob"}
			case 1:
				a["assignee"] = map[string]any{"email_match": g.tReq()}
			}
			a["result_name"] = "Ticket"
			return a
		}},
		{2, online, func() map[string]any {
			a := base("transfer_airtime")
			a["amounts"] = map[string]any{"USD": 0.5, "RWF": 500}
			a["result_name"] = "Reward Transfer"
			return a
		}},
		{2, online, func() map[string]any {
			a := base("request_optin")
			a["optin"] = map[string]any{"uuid": g.uuid(), "name": "Joke Of The Day"}
			return a
		}},
		{8, voice, func() map[string]any {
			a := base("say_msg")
			t := g.tReq()
			a["text"] = t
			g.translate(u, "text", []any{t}, 0.4)
			if g.r.Bool() {
				a["audio_url"] = "http://uploads.temba.io/2353262.m4a"
			}
			return a
		}},
		{6, voice, func() map[string]any {
			a := base("play_audio")
			t := g.tReq()
			a["audio_url"] = t
			g.translate(u, "audio_url", []any{t}, 0.3)
			return a
		}},
	}
	ws := make([]int, len(opts))
	for i, o := range opts {
		if o.ok {
			ws[i] = o.w
		}
	}
	if g.heavy {
		return g.sendMsg()
	}
	return opts[g.r.Weighted(ws)].f()
}

var caseTests = []struct {
	t    string
	args int
}{
	{"has_any_word", 1}, {"has_all_words", 1}, {"has_phrase", 1}, {"has_only_phrase", 1}, {"has_beginning", 1}, {"has_text", 0}, {"has_number", 0},
	{"has_number_between", 2}, {"has_number_lt", 1}, {"has_number_eq", 1}, {"has_number_gte", 1}, {"has_date", 0}, {"has_date_gt", 1}, {"has_pattern", 1},
	{"has_email", 0}, {"has_phone", 0}, {"has_only_text", 1}, {"has_category", 1}, {"has_group", 2}, {"has_state", 0}, {"has_district", 1},
}

// router builds a router plus the node's exits
func (g *fgen) router(dest func() string) (map[string]any, []mExit) {
	ft := g.f.Type
	canWaitMsg := ft != "messaging_background"
	ncat := g.r.Range(1, 5)
	cats := make([]any, ncat)
	catUUIDs := make([]string, ncat)
	var exits []mExit
	for i := 0; i < ncat; i++ {
		cu := g.uuid()
		catUUIDs[i] = cu
		name := g.categoryName()
		// several categories may share one exit
		var ex mExit
		if len(exits) > 0 && g.r.Chance(0.2) {
			ex = fw.Pick(g.r, exits)
		} else {
			ex = mExit{UUID: g.uuid(), Dest: dest()}
			exits = append(exits, ex)
		}
		c := map[string]any{"uuid": cu, "exit_uuid": ex.UUID}
		if !(name.Long == "Other" && g.r.Chance(0.1)) {
			c["name"] = name
			g.translate(cu, "name", []any{name}, 0.3)
		}
		cats[i] = c
	}
	if g.r.Chance(0.1) {
		exits = append(exits, mExit{UUID: g.uuid(), Dest: dest()}) // an exit no category uses
	}
	r := map[string]any{"categories": cats}
	if g.r.Chance(0.6) {
		r["result_name"] = g.resultName()
	}
	if g.r.Chance(0.15) {
		r["type"] = "random"
		return r, exits
	}
	r["type"] = "switch"
	op := g.tReq()
	r["operand"] = op
	r["default_category_uuid"] = catUUIDs[ncat-1]
	if g.r.Chance(0.08) {
		delete(r, "default_category_uuid")
	}
	nc := g.r.Range(0, 5)
	if g.heavy {
		nc = g.r.Range(3, 8)
	}
	cases := make([]any, nc)
	for i := range cases {
		ct := fw.Pick(g.r, caseTests)
		cu := g.uuid()
		args := make([]any, ct.args)
		for j := range args {
			switch {
			case ct.t == "has_group" && j == 0:
				args[j] = fixed(g.uuid())
			case ct.t == "has_group":
				args[j] = fixed("Testers")
			case g.r.Chance(0.5):
				args[j] = fixed(fw.Pick(g.r, []string{"yes yeah", "1", "18", "red rouge", "[Yy]es", "Success", "2020-01-01"}))
			default:
				args[j] = g.tReq()
			}
		}
		c := map[string]any{"uuid": cu, "type": ct.t, "category_uuid": fw.Pick(g.r, catUUIDs)}
		if len(args) > 0 || g.r.Bool() {
			c["arguments"] = args
		}
		if len(args) > 0 && ct.t != "has_group" {
			g.translate(cu, "arguments", args, 0.3)
		}
		cases[i] = c
	}
	r["cases"] = cases
	switch {
	case canWaitMsg && g.r.Chance(0.45):
		w := map[string]any{"type": "msg"}
		if g.r.Chance(0.4) {
			w["timeout"] = map[string]any{"seconds": fw.Pick(g.r, []int{60, 300, 3600}), "category_uuid": fw.Pick(g.r, catUUIDs)}
		}
		if g.r.Chance(0.3) {
			w["hint"] = fw.Pick(g.r, []any{
				map[string]any{"type": "image"}, map[string]any{"type": "audio"}, map[string]any{"type": "video"}, map[string]any{"type": "location"},
				map[string]any{"type": "digits", "count": 1}, map[string]any{"type": "digits", "terminated_by": "#"},
			})
		}
		r["wait"] = w
	case ft == "voice" && g.r.Chance(0.3):
		// the phone of a dial wait is an evaluated template as well
		w := map[string]any{"type": "dial", "phone": g.tReq()}
		if g.r.Bool() {
			w["dial_limit_seconds"] = 60
			w["call_limit_seconds"] = 120
		}
		r["wait"] = w
	}
	return r, exits
}

func genFlow(r *fw.Rand, heavy bool) *mFlow {
	g := &fgen{r: r, tg: &tplGen{r: r.Fork("tpl")}, pWh: 0.45, pLong: 0.3, heavy: heavy}
	f := &mFlow{UUID: g.uuid(), Name: fw.Pick(r, []string{"Test Flow", "Registration", "Encuesta de salud", "", "Flow with \"quotes\"", "😀 flow"})}
	g.f = f
	f.Type = []string{"messaging", "voice", "messaging_background", "messaging_offline"}[r.Weighted([]int{70, 12, 9, 9})]
	f.Lang = fw.Pick(r, []string{"eng", "eng", "fra", "spa", "und", "und", "kin"})
	f.OldLang = f.Lang
	if f.Lang == "und" {
		f.OldLang = fw.Pick(r, []string{"base", "base", "", "en", "xx", "engl"})
		f.UndJunk = r.Chance(0.4)
	}
	all := []string{"spa", "fra", "kin", "ara", "por"}
	fw.Shuffle(r, all)
	for _, l := range all[:r.Weighted([]int{2, 3, 3, 2})] {
		if l != f.Lang {
			f.Langs = append(f.Langs, l)
		}
	}
	f.Revision = r.Intn(200)
	f.Expire = fw.Pick(r, []int{0, 5, 60, 10080})
	f.UI = r.Chance(0.4)
	f.ShortVersion = r.Chance(0.15)

	nn := r.Weighted([]int{0, 3, 3, 3, 2, 2, 1, 1})
	if heavy {
		nn = r.Range(1, 2)
	}
	uu := make([]string, nn)
	for i := range uu {
		uu[i] = g.uuid()
	}
	dest := func() string {
		if r.Chance(0.3) {
			return ""
		}
		return fw.Pick(r, uu)
	}
	for i := 0; i < nn; i++ {
		n := &mNode{UUID: uu[i]}
		kind := r.Weighted([]int{4, 3, 3}) // actions only, router only, both
		if heavy {
			kind = 2
		}
		if kind != 1 {
			na := r.Range(1, 4)
			for j := 0; j < na; j++ {
				n.Actions = append(n.Actions, g.action())
			}
		}
		if kind != 0 {
			n.Router, n.Exits = g.router(dest)
		} else {
			n.Exits = []mExit{{UUID: g.uuid(), Dest: dest()}}
		}
		f.Nodes = append(f.Nodes, n)
	}
	return f
}

// ---------------------------------------------------------------------------------------------------------
// Rendering
// ---------------------------------------------------------------------------------------------------------

// tracked is a leaf whose fate the oracle follows through the migration
type tracked struct {
	Path []any // path in the rendered document
	T    tpl   // template leaf (Text == "" )
	Text string
	IsT  bool
}

type rendered struct {
	Minor int
	Doc   map[string]any
	JSON  []byte
	Leafs []tracked // template leaves and plain translations outside templating objects, with their paths
	// expected template variables per send_msg action after full migration
	Templating []expTemplating
}

type expTemplating struct {
	NodeIdx, ActionIdx int
	ActionUUID         string
	Ref                map[string]any
	Vars               []tpl
	Trans              map[string][]tpl // expected localization[lang][action].template_variables (absent = must not exist)
}

func appendPath(p []any, k any) []any {
	n := make([]any, len(p)+1)
	copy(n, p)
	n[len(p)] = k
	return n
}

type renderer struct {
	minor int
	leafs []tracked
}

func (rd *renderer) val(v any, path []any, track bool) any {
	switch t := v.(type) {
	case tpl:
		if track {
			rd.leafs = append(rd.leafs, tracked{Path: path, T: t, IsT: true})
		}
		return t.at(rd.minor)
	case lname:
		if rd.minor <= 5 {
			return t.Long
		}
		return t.Short
	case []any:
		out := make([]any, len(t))
		for i, e := range t {
			out[i] = rd.val(e, appendPath(path, i), track)
		}
		return out
	case map[string]any:
		out := make(map[string]any, len(t))
		for _, k := range sortedKeys(t) { // sorted: the order of tracked leaves must not depend on map iteration
			if k == templatingKey {
				continue
			}
			out[k] = rd.val(t[k], appendPath(path, k), track)
		}
		return out
	}
	return v
}

func tplStrings(ts []tpl, minor int) []any {
	out := make([]any, len(ts))
	for i, t := range ts {
		out[i] = t.at(minor)
	}
	return out
}

// render produces the definition of the model at spec version 13.<minor>
func (f *mFlow) render(minor int) *rendered {
	rd := &renderer{minor: minor}
	res := &rendered{Minor: minor}
	loc := map[string]any{}
	setLoc := func(lang, item, prop string, vals []any) {
		l, _ := loc[lang].(map[string]any)
		if l == nil {
			l = map[string]any{}
			loc[lang] = l
		}
		it, _ := l[item].(map[string]any)
		if it == nil {
			it = map[string]any{}
			l[item] = it
		}
		it[prop] = vals
	}
	for _, tr := range f.Trans {
		path := []any{"localization", tr.Lang, tr.Item, tr.Prop}
		vals := make([]any, len(tr.Vals))
		for i, v := range tr.Vals {
			switch vt := v.(type) {
			case tpl:
				vals[i] = vt.at(minor)
				rd.leafs = append(rd.leafs, tracked{Path: appendPath(path, i), T: vt, IsT: true})
			case string:
				vals[i] = vt
				rd.leafs = append(rd.leafs, tracked{Path: appendPath(path, i), Text: vt})
			}
		}
		setLoc(tr.Lang, tr.Item, tr.Prop, vals)
	}

	nodes := make([]any, len(f.Nodes))
	for ni, n := range f.Nodes {
		nd := map[string]any{"uuid": n.UUID}
		if len(n.Actions) > 0 {
			acts := make([]any, len(n.Actions))
			for ai, a := range n.Actions {
				path := []any{"nodes", ni, "actions", ai}
				am := rd.val(a, path, true).(map[string]any)
				if tm, ok := a[templatingKey].(*mTemplating); ok {
					f.renderTemplating(minor, tm, am, a["uuid"].(string), setLoc)
					res.Templating = append(res.Templating, f.expectTemplating(minor, tm, ni, ai, a["uuid"].(string)))
				}
				acts[ai] = am
			}
			nd["actions"] = acts
		}
		if n.Router != nil {
			nd["router"] = rd.val(n.Router, []any{"nodes", ni, "router"}, true)
		}
		exits := make([]any, len(n.Exits))
		for i, e := range n.Exits {
			em := map[string]any{"uuid": e.UUID}
			if e.Dest != "" {
				em["destination_uuid"] = e.Dest
			} else if minor%2 == 0 && i%2 == 1 {
				em["destination_uuid"] = nil
			}
			exits[i] = em
		}
		nd["exits"] = exits
		nodes[ni] = nd
	}

	lang := f.Lang
	if minor <= 1 {
		lang = f.OldLang
		if f.Lang == "und" && f.UndJunk {
			setLoc("und", f.UUID, "text", []any{"left over"})
		}
	}
	sv := fmt.Sprintf("13.%d.0", minor)
	if f.ShortVersion {
		sv = fmt.Sprintf("13.%d", minor)
	}
	doc := map[string]any{
		"uuid":                 f.UUID,
		"name":                 f.Name,
		"spec_version":         sv,
		"language":             lang,
		"type":                 f.Type,
		"revision":             f.Revision,
		"expire_after_minutes": f.Expire,
		"nodes":                nodes,
	}
	if len(loc) > 0 || f.Revision%3 == 0 {
		doc["localization"] = loc
	}
	if f.UI {
		uiNodes := map[string]any{}
		for i, n := range f.Nodes {
			uiNodes[n.UUID] = map[string]any{"position": map[string]any{"left": 100 * i, "top": 50 * i}, "type": "execute_actions"}
		}
		doc["_ui"] = map[string]any{"nodes": uiNodes, "stickies": map[string]any{}}
	}
	res.Doc = doc
	res.Leafs = rd.leafs
	b, err := json.Marshal(doc)
	if err != nil {
		panic("p16: cannot marshal rendered flow: " + err.Error())
	}
	res.JSON = b
	return res
}

func (f *mFlow) renderTemplating(minor int, tm *mTemplating, am map[string]any, actionUUID string, setLoc func(lang, item, prop string, vals []any)) {
	switch {
	case minor >= 5:
		am["template"] = tm.Ref
		var vars []any
		for _, c := range tm.Comps {
			vars = append(vars, tplStrings(c.Params, minor)...)
		}
		if len(vars) > 0 || len(tm.Comps)%2 == 0 {
			if vars == nil {
				vars = []any{}
			}
			am["template_variables"] = vars
		}
		for _, lang := range f.Langs {
			if vs, ok := flatTrans(tm, lang); ok {
				setLoc(lang, actionUUID, "template_variables", tplStrings(vs, minor))
			}
		}
	case minor == 4:
		comps := make([]any, len(tm.Comps))
		for i, c := range tm.Comps {
			comps[i] = map[string]any{"uuid": c.UUID, "name": c.Name, "params": tplStrings(c.Params, minor)}
			for lang, tr := range c.Trans {
				setLoc(lang, c.UUID, "params", tplStrings(tr, minor))
			}
		}
		am["templating"] = map[string]any{"template": tm.Ref, "components": comps}
	default:
		// 13.0 .. 13.3: one list of variables; the translations hang on the templating uuid (which 13.0 lacks)
		var vars []any
		for _, c := range tm.Comps {
			vars = append(vars, tplStrings(c.Params, minor)...)
		}
		if vars == nil {
			vars = []any{}
		}
		t := map[string]any{"template": tm.Ref, "variables": vars}
		if minor >= 1 {
			t["uuid"] = tm.UUID
			for _, lang := range f.Langs {
				if vs, ok := flatTrans(tm, lang); ok {
					setLoc(lang, tm.UUID, "variables", tplStrings(vs, minor))
				}
			}
		}
		am["templating"] = t
	}
}

// flatTrans is the merged translation of all variables in a language: a component without its own
// translation contributes its untranslated params. ok is false when no component is translated.
func flatTrans(tm *mTemplating, lang string) ([]tpl, bool) {
	any := false
	var out []tpl
	for _, c := range tm.Comps {
		if tr, ok := c.Trans[lang]; ok {
			any = true
			out = append(out, tr...)
		} else {
			out = append(out, c.Params...)
		}
	}
	return out, any
}

func (f *mFlow) expectTemplating(minor int, tm *mTemplating, ni, ai int, actionUUID string) expTemplating {
	e := expTemplating{NodeIdx: ni, ActionIdx: ai, ActionUUID: actionUUID, Ref: tm.Ref, Trans: map[string][]tpl{}}
	for _, c := range tm.Comps {
		e.Vars = append(e.Vars, c.Params...)
	}
	if minor >= 1 {
		for _, lang := range f.Langs {
			if vs, ok := flatTrans(tm, lang); ok {
				e.Trans[lang] = vs
			}
		}
	}
	return e
}
