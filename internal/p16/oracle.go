package p16

import (
	"bytes"
	"encoding/json"
	"fmt"
	"regexp"
	"runtime/debug"
	"sort"
	"strings"

	"github.com/nyaruka/gocommon/uuids"
	"github.com/nyaruka/goflow/excellent"
	"github.com/nyaruka/goflow/excellent/refactor"
	"github.com/nyaruka/goflow/excellent/types"
	"github.com/nyaruka/goflow/flows"
	"github.com/nyaruka/goflow/flows/definition"
	"github.com/nyaruka/goflow/flows/definition/legacy"
	"github.com/nyaruka/goflow/flows/definition/migrations"

	"verif/internal/fw"
)

// ---------------------------------------------------------------------------------------------------------
// controlled UUID source
// ---------------------------------------------------------------------------------------------------------

type seqUUIDs struct{ r *fw.Rand }

func (g *seqUUIDs) NextV4() uuids.UUID { return uuids.UUID(randUUID(g.r)) }
func (g *seqUUIDs) NextV7() uuids.UUID { return uuids.UUID(randUUID(g.r)) }

// resetUUIDs makes goflow's UUID source restart the same sequence
func resetUUIDs(seed int64) {
	uuids.SetGenerator(&seqUUIDs{r: fw.NewRand(seed, "C16-uuids", 0)})
}

var migCfg = &migrations.Config{BaseMediaURL: "https://media.example.com/base/"}

// ---------------------------------------------------------------------------------------------------------
// guarded calls
// ---------------------------------------------------------------------------------------------------------

// Entry is the entry point *kind* of the crash signature: migrate (MigrateToLatest, MigrateToVersion,
// legacy.MigrateDefinition, legacy.IsPossibleDefinition), read (definition.ReadFlow on a migrated definition),
// marshal, evaluate. Call names the concrete function.
type panicInfo struct {
	Call  string
	Entry string
	Rec   any
	Stack string
}

func (p *panicInfo) signature() string { return fw.PanicSignature(p.Entry, p.Rec, p.Stack) }

func guard(entry, call string, f func()) (pi *panicInfo) {
	defer func() {
		if rec := recover(); rec != nil {
			pi = &panicInfo{Entry: entry, Call: call, Rec: rec, Stack: string(debug.Stack())}
		}
	}()
	f()
	return nil
}

func migrateLatest(data []byte) (out []byte, err error, pi *panicInfo) {
	pi = guard("migrate", "migrations.MigrateToLatest", func() { out, err = migrations.MigrateToLatest(data, migCfg) })
	return
}

func readFlow(data []byte) (f flows.Flow, err error, pi *panicInfo) {
	pi = guard("read", "definition.ReadFlow", func() { f, err = definition.ReadFlow(data, migCfg) })
	return
}

func legacyMigrate(data []byte) (out []byte, err error, pi *panicInfo) {
	pi = guard("migrate", "legacy.MigrateDefinition", func() { out, err = legacy.MigrateDefinition(data, migCfg.BaseMediaURL) })
	return
}

func marshalFlow(f flows.Flow) (out []byte, err error, pi *panicInfo) {
	pi = guard("marshal", "json.Marshal(flow)", func() { out, err = json.Marshal(f) })
	return
}

// ---------------------------------------------------------------------------------------------------------
// versions
// ---------------------------------------------------------------------------------------------------------

// versionStep is one registered migration target. The version type (*semver.Version) is never named here:
// the values come straight from goflow's own registry.
type versionStep struct {
	Name    string
	Migrate func(data []byte) ([]byte, error) // MigrateToVersion(data, v, cfg)
	Stamped func(h *migrations.Header13) bool // h.SpecVersion == v
}

func mapKeys[K comparable, V any](m map[K]V) []K {
	ks := make([]K, 0, len(m))
	for k := range m {
		ks = append(ks, k)
	}
	return ks
}

// versionSteps lists the registered migration targets in ascending order
func versionSteps() []versionStep {
	vs := mapKeys(migrations.Registered())
	sort.Slice(vs, func(i, j int) bool { return vs[i].LessThan(vs[j]) })
	var out []versionStep
	for _, v := range vs {
		v := v
		out = append(out, versionStep{
			Name:    v.String(),
			Migrate: func(data []byte) ([]byte, error) { return migrations.MigrateToVersion(data, v, migCfg) },
			Stamped: func(h *migrations.Header13) bool { return h.SpecVersion != nil && h.SpecVersion.Equal(v) },
		})
	}
	return out
}

func migrateToVersion(data []byte, v versionStep) (out []byte, err error, pi *panicInfo) {
	pi = guard("migrate", "migrations.MigrateToVersion("+v.Name+")", func() { out, err = v.Migrate(data) })
	return
}

// ---------------------------------------------------------------------------------------------------------
// helpers
// ---------------------------------------------------------------------------------------------------------

var uuidRe = regexp.MustCompile(`[0-9a-fA-F]{8}-[0-9a-fA-F]{4}-[0-9a-fA-F]{4}-[0-9a-fA-F]{4}-[0-9a-fA-F]{12}`)
var numRe = regexp.MustCompile(`[0-9]+`)
var quotedRe = regexp.MustCompile(`'[^']*'`)

// errClass reduces an error message to its shape
func errClass(err error) string {
	if err == nil {
		return ""
	}
	s := err.Error()
	s = uuidRe.ReplaceAllString(s, "U")
	s = quotedRe.ReplaceAllString(s, "Q")
	s = numRe.ReplaceAllString(s, "N")
	if len(s) > 110 {
		s = s[:110]
	}
	return s
}

func clip(s string, n int) string {
	if len(s) <= n {
		return s
	}
	return s[:n] + "…"
}

func getPath(doc any, path []any) (any, bool) {
	cur := doc
	for _, k := range path {
		switch kt := k.(type) {
		case string:
			m, ok := cur.(map[string]any)
			if !ok {
				return nil, false
			}
			cur, ok = m[kt]
			if !ok {
				return nil, false
			}
		case int:
			a, ok := cur.([]any)
			if !ok || kt < 0 || kt >= len(a) {
				return nil, false
			}
			cur = a[kt]
		}
	}
	return cur, true
}

func pathString(path []any) string {
	var b strings.Builder
	for _, k := range path {
		switch kt := k.(type) {
		case string:
			b.WriteString("." + kt)
		case int:
			fmt.Fprintf(&b, "[%d]", kt)
		}
	}
	return b.String()
}

// pathShape strips indices and UUIDs from a path (for signatures)
func pathShape(path []any) string {
	var b strings.Builder
	for _, k := range path {
		switch kt := k.(type) {
		case string:
			if uuidRe.MatchString(kt) {
				b.WriteString(".U")
			} else if len(path) > 1 && path[0] == "localization" && len(kt) <= 4 && b.String() == ".localization" {
				b.WriteString(".L")
			} else {
				b.WriteString("." + kt)
			}
		case int:
			b.WriteString("[]")
		}
	}
	return b.String()
}

// ---------------------------------------------------------------------------------------------------------
// graph of a definition
// ---------------------------------------------------------------------------------------------------------

type gExit struct{ UUID, Dest string }
type gNode struct {
	UUID  string
	Exits []gExit
}
type graph struct {
	FlowUUID string
	Nodes    []gNode
}

func str(v any) string { s, _ := v.(string); return s }

func graphOf13(doc map[string]any) graph {
	g := graph{FlowUUID: str(doc["uuid"])}
	nodes, _ := doc["nodes"].([]any)
	for _, n := range nodes {
		nm, _ := n.(map[string]any)
		gn := gNode{UUID: str(nm["uuid"])}
		exits, _ := nm["exits"].([]any)
		for _, e := range exits {
			em, _ := e.(map[string]any)
			gn.Exits = append(gn.Exits, gExit{UUID: str(em["uuid"]), Dest: str(em["destination_uuid"])})
		}
		g.Nodes = append(g.Nodes, gn)
	}
	return g
}

func (g graph) nodeUUIDs() []string {
	out := make([]string, len(g.Nodes))
	for i, n := range g.Nodes {
		out[i] = n.UUID
	}
	return out
}

func graphOfFlow(f flows.Flow) graph {
	g := graph{FlowUUID: string(f.UUID())}
	for _, n := range f.Nodes() {
		gn := gNode{UUID: string(n.UUID())}
		for _, e := range n.Exits() {
			gn.Exits = append(gn.Exits, gExit{UUID: string(e.UUID()), Dest: string(e.DestinationUUID())})
		}
		g.Nodes = append(g.Nodes, gn)
	}
	return g
}

func decodeObject(data []byte) map[string]any {
	v, err := decodeGeneric(data)
	if err != nil {
		return nil
	}
	m, _ := v.(map[string]any)
	return m
}

// ---------------------------------------------------------------------------------------------------------
// the oracle for valid inputs
// ---------------------------------------------------------------------------------------------------------

type validInput struct {
	Label    string // e.g. "gen@13.2", "legacy-gen", "seed:<name>"
	Version  string // "13.0" .. "13.6", "legacy", "seed"
	Data     []byte
	Legacy   bool
	Known    bool      // validity is known by construction (generated); false for file seeds
	R        *rendered // model rendering (generated 13.x only)
	Model    *mFlow
	LegacyEx *legacyExpect // generated legacy only
	UUIDSeed int64
}

// class is the coarse source class used in signatures (the exact version is in the witness)
func (in *validInput) class() string {
	if in.Legacy {
		return "legacy"
	}
	return "13.x"
}

type checker struct {
	res   *fw.Result
	ec    *evalCtx
	steps []versionStep
}

func (ck *checker) violate(sig, what string, w map[string]any) {
	ck.res.Count("violations_raised", 1)
	ck.res.Violate(sig, what, w)
}

func (ck *checker) panicked(in *validInput, pi *panicInfo) {
	ck.res.Count("panics", 1)
	ck.violate(pi.signature(), fmt.Sprintf("%s panicked on a valid %s definition: %v", pi.Call, in.Version, clip(fmt.Sprint(pi.Rec), 200)),
		map[string]any{"input": in.Label, "definition": string(in.Data), "panic": fmt.Sprint(pi.Rec), "stack": fw.TrimStack(pi.Stack)})
}

// checkValid runs every clause for valid inputs. It returns the migrated definition (nil if migration failed).
func (ck *checker) checkValid(in *validInput) []byte {
	res := ck.res
	V := in.Version
	C := in.class()
	wit := func(extra map[string]any) map[string]any {
		m := map[string]any{"input": in.Label, "version": V, "definition": string(in.Data)}
		for k, v := range extra {
			m[k] = v
		}
		return m
	}

	// 1. migration succeeds
	resetUUIDs(in.UUIDSeed)
	fw.SetDetail("MigrateToLatest " + in.Label)
	out, err, pi := migrateLatest(in.Data)
	if pi != nil {
		ck.panicked(in, pi)
		return nil
	}
	if err != nil {
		if in.Known {
			res.Count("clause.migrates.checked", 1)
			ck.violate("valid|migrate-error|"+C+"|"+errClass(err), fmt.Sprintf("MigrateToLatest rejects a valid %s definition: %s", V, clip(err.Error(), 300)), wit(map[string]any{"error": err.Error()}))
		} else {
			res.Count("seeds.rejected_by_migration", 1)
		}
		return nil
	}
	// 2. the output loads
	fw.SetDetail("ReadFlow " + in.Label)
	flow, err, pi := readFlow(out)
	if pi != nil {
		ck.panicked(in, pi)
		return nil
	}
	if err != nil {
		if in.Known {
			res.Count("clause.migrates.checked", 1)
			res.Count("clause.loads.checked", 1)
			ck.violate("valid|not-loadable|"+C+"|"+errClass(err), fmt.Sprintf("the migrated form of a valid %s definition does not load: %s", V, clip(err.Error(), 300)), wit(map[string]any{"error": err.Error(), "migrated": string(out)}))
		} else {
			res.Count("seeds.rejected_by_readflow", 1)
		}
		return nil
	}
	res.Count("clause.migrates.checked", 1)
	res.Count("clause.migrates."+V, 1)
	res.Count("clause.loads.checked", 1)
	// 2a. what loads never has two things (node, action, exit) with one UUID
	ck.checkUniqueUUIDs(in.Label, "", "", in.Data, flow)
	if !bytes.Equal(out, in.Data) {
		res.Count("migration_changed_bytes", 1)
	}

	outDoc := decodeObject(out)
	if outDoc == nil {
		ck.violate("valid|output-not-object", "migrated definition is not a JSON object", wit(map[string]any{"migrated": string(out)}))
		return out
	}

	// 2b. stamped with the current version
	hdr := &migrations.Header13{}
	if json.Unmarshal(out, hdr) == nil && hdr.SpecVersion != nil {
		res.Count("clause.spec_version.checked", 1)
		if !hdr.SpecVersion.Equal(definition.CurrentSpecVersion) && hdr.SpecVersion.LessThan(definition.CurrentSpecVersion) {
			ck.violate("valid|spec-version-not-current|"+C, fmt.Sprintf("migrated definition is stamped %s, not %s", hdr.SpecVersion, definition.CurrentSpecVersion), wit(map[string]any{"stamped": hdr.SpecVersion.String()}))
		}
	}

	got := graphOfFlow(flow)
	gotRaw := graphOf13(outDoc)

	if in.Legacy {
		ck.checkLegacyGraph(in, got, wit)
	} else {
		srcDoc := decodeObject(in.Data)
		want := graphOf13(srcDoc)
		// 3. flow UUID
		res.Count("clause.flow_uuid.checked", 1)
		if got.FlowUUID != want.FlowUUID || gotRaw.FlowUUID != want.FlowUUID {
			ck.violate("valid|flow-uuid-changed|"+C, "flow UUID changed by migration", wit(map[string]any{"expected": want.FlowUUID, "observed": got.FlowUUID}))
		}
		// 4. node UUIDs and order
		res.Count("clause.node_order.checked", 1)
		res.Count("nodes_compared", int64(len(want.Nodes)))
		if fmt.Sprint(got.nodeUUIDs()) != fmt.Sprint(want.nodeUUIDs()) {
			ck.violate("valid|nodes-changed|"+C, "node UUIDs / order changed by migration", wit(map[string]any{"expected": want.nodeUUIDs(), "observed": got.nodeUUIDs()}))
		} else {
			// 5. exits and destinations
			res.Count("clause.exits.checked", 1)
			for i := range want.Nodes {
				res.Count("exits_compared", int64(len(want.Nodes[i].Exits)))
				if fmt.Sprint(want.Nodes[i].Exits) != fmt.Sprint(got.Nodes[i].Exits) {
					kind := "exit-uuid"
					if len(want.Nodes[i].Exits) == len(got.Nodes[i].Exits) {
						same := true
						for j := range want.Nodes[i].Exits {
							if want.Nodes[i].Exits[j].UUID != got.Nodes[i].Exits[j].UUID {
								same = false
							}
						}
						if same {
							kind = "destination"
						}
					}
					ck.violate("valid|exits-changed|"+kind+"|"+C, "exits / destinations of a node changed by migration", wit(map[string]any{"node": want.Nodes[i].UUID, "expected": want.Nodes[i].Exits, "observed": got.Nodes[i].Exits}))
					break
				}
			}
		}
	}

	// 6. migrating again changes nothing
	fw.SetDetail("MigrateToLatest(again) " + in.Label)
	out2, err, pi := migrateLatest(out)
	res.Count("clause.idempotent.checked", 1)
	switch {
	case pi != nil:
		ck.panicked(in, pi)
	case err != nil:
		ck.violate("valid|second-migration-error|"+C, "migrating the migrated definition again fails: "+clip(err.Error(), 200), wit(map[string]any{"migrated": string(out), "error": err.Error()}))
	case !bytes.Equal(out, out2):
		ck.violate("valid|not-idempotent|"+C, "Migrate(Migrate(x)) differs from Migrate(x)", wit(map[string]any{"first": string(out), "second": string(out2)}))
	}

	// 7. stepwise == one go (same UUID source)
	ck.checkStepwise(in, out, wit)

	// 8. read / marshal round trip of the (current version) result
	ck.checkRoundTrip(in.Label, out, flow, in.R != nil)

	// 9. model based clauses
	if in.R != nil {
		ck.checkLeafs(in, outDoc, wit)
		ck.checkTemplating(in, outDoc, wit)
	}
	return out
}

func (ck *checker) checkStepwise(in *validInput, oneGo []byte, wit func(map[string]any) map[string]any) {
	res := ck.res
	V := in.class()
	resetUUIDs(in.UUIDSeed)
	data := in.Data
	steps := 0
	var trail []string
	var inter [][]byte // result after each registered target
	if in.Legacy {
		fw.SetDetail("legacy.MigrateDefinition " + in.Label)
		o, err, pi := legacyMigrate(data)
		if pi != nil {
			ck.panicked(in, pi)
			return
		}
		if err != nil {
			ck.violate("valid|stepwise-error|legacy->13.0", "legacy.MigrateDefinition fails where MigrateToLatest succeeded: "+clip(err.Error(), 200), wit(map[string]any{"error": err.Error()}))
			return
		}
		data = o
		steps++
		trail = append(trail, "13.0.0")
	}
	for _, v := range ck.steps {
		fw.SetDetail("MigrateToVersion " + v.Name + " " + in.Label)
		o, err, pi := migrateToVersion(data, v)
		if pi != nil {
			ck.panicked(in, pi)
			return
		}
		if err != nil {
			ck.violate("valid|stepwise-error|"+V, fmt.Sprintf("MigrateToVersion(%s) fails in a stepwise chain: %s", v.Name, clip(err.Error(), 200)), wit(map[string]any{"error": err.Error(), "step_input": string(data)}))
			return
		}
		if !bytes.Equal(o, data) {
			steps++
			trail = append(trail, v.Name)
			// every intermediate result carries the version it was migrated to
			h := &migrations.Header13{}
			if json.Unmarshal(o, h) == nil && h.SpecVersion != nil {
				res.Count("clause.step_version.checked", 1)
				if !v.Stamped(h) {
					ck.violate("valid|step-version-not-stamped|"+v.Name, fmt.Sprintf("MigrateToVersion(%s) returned a definition stamped %s", v.Name, h.SpecVersion), wit(map[string]any{"step_output": clip(string(o), 2000)}))
				}
			}
		}
		data = o
		inter = append(inter, o)
	}
	res.Count("clause.stepwise.checked", 1)
	res.Count("stepwise_steps", int64(steps))
	if steps >= 2 {
		res.Count("clause.stepwise.multi_step", 1)
	}
	if !bytes.Equal(data, oneGo) {
		ck.violate("valid|stepwise-differs|"+V, "stepwise MigrateToVersion chain differs from one-go migration (same UUID source)", wit(map[string]any{"steps": trail, "stepwise": string(data), "one_go": string(oneGo)}))
	}

	// one direct jump to an intermediate target must give what the chain had at that point
	if len(inter) == len(ck.steps) && len(inter) > 0 {
		k := int(in.UUIDSeed % int64(len(ck.steps)))
		if k < 0 {
			k = -k
		}
		resetUUIDs(in.UUIDSeed)
		fw.SetDetail("MigrateToVersion(direct) " + ck.steps[k].Name + " " + in.Label)
		o, err, pi := migrateToVersion(in.Data, ck.steps[k])
		switch {
		case pi != nil:
			ck.panicked(in, pi)
		case err != nil:
			res.Count("clause.direct_jump.checked", 1)
			ck.violate("valid|direct-jump-error|"+V, fmt.Sprintf("MigrateToVersion(%s) fails although the stepwise chain passed that version: %s", ck.steps[k].Name, clip(err.Error(), 200)), wit(map[string]any{"error": err.Error()}))
		default:
			res.Count("clause.direct_jump.checked", 1)
			if !bytes.Equal(o, inter[k]) {
				ck.violate("valid|direct-jump-differs|"+V, fmt.Sprintf("MigrateToVersion(%s) in one go differs from the stepwise chain stopped at that version", ck.steps[k].Name), wit(map[string]any{"target": ck.steps[k].Name, "direct": string(o), "stepwise": string(inter[k])}))
			}
		}
	}
}

// checkRoundTrip: read(marshal(read(d))) == read(d) for a current-version definition d that loaded as flow
func (ck *checker) checkRoundTrip(label string, d []byte, flow flows.Flow, strict bool) {
	res := ck.res
	m1, err, pi := marshalFlow(flow)
	if pi != nil {
		res.Count("panics", 1)
		ck.violate(pi.signature(), "marshalling a loaded flow panicked: "+clip(fmt.Sprint(pi.Rec), 200), map[string]any{"input": label, "definition": string(d), "stack": fw.TrimStack(pi.Stack)})
		return
	}
	res.Count("clause.roundtrip.checked", 1)
	if err != nil {
		ck.violate("roundtrip|marshal-error", "a loaded flow does not marshal: "+clip(err.Error(), 200), map[string]any{"input": label, "definition": string(d)})
		return
	}
	f2, err, pi := readFlow(m1)
	if pi != nil {
		res.Count("panics", 1)
		ck.violate(pi.signature(), "re-reading a marshalled flow panicked", map[string]any{"input": label, "marshalled": string(m1), "stack": fw.TrimStack(pi.Stack)})
		return
	}
	if err != nil {
		ck.violate("roundtrip|reread-error|"+errClass(err), "marshalled flow does not read back: "+clip(err.Error(), 200), map[string]any{"input": label, "definition": string(d), "marshalled": string(m1)})
		return
	}
	m2, err, _ := marshalFlow(f2)
	if err != nil || !bytes.Equal(m1, m2) {
		ck.violate("roundtrip|not-equal|"+firstDiffShape(m1, m2), "read(marshal(read(d))) differs from read(d)", map[string]any{"input": label, "definition": string(d), "first": string(m1), "second": string(m2)})
	}
	// the two flows compared through the API (marshalling cannot show what marshalling itself loses)
	var a, b []string
	if pi := guard("read", "flow accessors", func() { a, b = describeFlow(flow), describeFlow(f2) }); pi != nil {
		res.Count("panics", 1)
		ck.violate(pi.signature(), "inspecting a loaded flow panicked: "+clip(fmt.Sprint(pi.Rec), 200), map[string]any{"input": label, "definition": string(d), "stack": fw.TrimStack(pi.Stack)})
		return
	}
	res.Count("clause.roundtrip.api_compared", 1)
	for i := 0; i < len(a) || i < len(b); i++ {
		var x, y string
		if i < len(a) {
			x = a[i]
		}
		if i < len(b) {
			y = b[i]
		}
		if x != y {
			what := x
			if what == "" {
				what = y
			}
			if j := strings.Index(what, "="); j > 0 {
				what = what[:j]
			}
			ck.violate("roundtrip|flow-differs|"+uuidRe.ReplaceAllString(numRe.ReplaceAllString(what, "N"), "U"), "the flow read back from its own marshalled form differs from the flow first read",
				map[string]any{"input": label, "definition": string(d), "marshalled": string(m1), "first": x, "second": y})
			break
		}
	}
	if strict {
		ck.checkSubset(label, d, m1)
	}
}

// describeFlow lists what the public API says about a flow, one fact per line
func describeFlow(f flows.Flow) []string {
	out := []string{
		"uuid=" + string(f.UUID()), "name=" + f.Name(), "language=" + string(f.Language()), "type=" + string(f.Type()),
		fmt.Sprintf("revision=%d", f.Revision()), fmt.Sprintf("expire=%d", f.ExpireAfterMinutes()), "ui=" + canonicalJSON(f.UI()),
	}
	for i, n := range f.Nodes() {
		out = append(out, fmt.Sprintf("node[%d]=%s", i, n.UUID()))
		for j, a := range n.Actions() {
			out = append(out, fmt.Sprintf("node.action[%d][%d]=%s %s", i, j, a.Type(), a.UUID()))
		}
		if n.Router() != nil {
			w := ""
			if n.Router().Wait() != nil {
				w = n.Router().Wait().Type()
			}
			out = append(out, fmt.Sprintf("node.router[%d]=%s wait=%s result=%s", i, n.Router().Type(), w, n.Router().ResultName()))
			for j, c := range n.Router().Categories() {
				out = append(out, fmt.Sprintf("node.router.category[%d][%d]=%s %q -> %s", i, j, c.UUID(), c.Name(), c.ExitUUID()))
			}
		}
		for j, e := range n.Exits() {
			out = append(out, fmt.Sprintf("node.exit[%d][%d]=%s -> %s", i, j, e.UUID(), e.DestinationUUID()))
		}
	}
	langs := []string{}
	for _, l := range f.Localization().Languages() {
		langs = append(langs, string(l))
	}
	sort.Strings(langs)
	out = append(out, "localization.languages="+strings.Join(langs, ","))
	// as sorted multisets: the enumeration order of header maps / translations is not fixed (C08's subject)
	ts := append([]string{}, f.ExtractTemplates()...)
	sort.Strings(ts)
	for i, t := range ts {
		out = append(out, fmt.Sprintf("template[%d]=%s", i, t))
	}
	loc := append([]string{}, f.ExtractLocalizables()...)
	sort.Strings(loc)
	for i, t := range loc {
		out = append(out, fmt.Sprintf("localizable[%d]=%s", i, t))
	}
	return out
}

// canonicalJSON re-serialises raw JSON with sorted keys (escaping differences are not differences)
func canonicalJSON(raw []byte) string {
	if len(raw) == 0 {
		return ""
	}
	v, err := decodeGeneric(raw)
	if err != nil {
		return string(raw)
	}
	return string(mustJSON(v))
}

func emptyLeaf(v any) bool {
	switch t := v.(type) {
	case nil:
		return true
	case string:
		return t == ""
	case bool:
		return !t
	case json.Number:
		f, err := t.Float64()
		return err == nil && f == 0
	case []any:
		return len(t) == 0
	case map[string]any:
		return len(t) == 0
	}
	return false
}

// firstMissing finds the first non-empty leaf of a that b does not have (same path, same value)
func firstMissing(a, b any, path []any) ([]any, bool) {
	if emptyLeaf(a) {
		return nil, false
	}
	switch at := a.(type) {
	case map[string]any:
		bt, _ := b.(map[string]any)
		for _, k := range sortedKeys(at) {
			var bv any
			if bt != nil {
				bv = bt[k]
			}
			if p, miss := firstMissing(at[k], bv, appendPath(path, k)); miss {
				return p, true
			}
		}
		return nil, false
	case []any:
		bt, _ := b.([]any)
		for i, e := range at {
			var bv any
			if i < len(bt) {
				bv = bt[i]
			}
			if p, miss := firstMissing(e, bv, appendPath(path, i)); miss {
				return p, true
			}
		}
		return nil, false
	case json.Number:
		bn, ok := b.(json.Number)
		if ok {
			x, _ := at.Float64()
			y, _ := bn.Float64()
			if x == y {
				return nil, false
			}
		}
		return path, true
	}
	if fmt.Sprint(a) != fmt.Sprint(b) || jsonType(a) != jsonType(b) {
		return path, true
	}
	return nil, false
}

// checkSubset: for a generated definition (which only has members goflow knows), everything non-empty in the
// definition must still be in its marshalled form
func (ck *checker) checkSubset(label string, d, m1 []byte) {
	da, _ := decodeGeneric(d)
	db, _ := decodeGeneric(m1)
	if dm, ok := da.(map[string]any); ok {
		cp := make(map[string]any, len(dm))
		for k, v := range dm {
			cp[k] = v
		}
		delete(cp, "spec_version") // "13.6" and "13.6.0" are the same version
		da = cp
	}
	ck.res.Count("clause.roundtrip.members_kept", 1)
	if p, miss := firstMissing(da, db, nil); miss {
		got, _ := getPath(db, p)
		want, _ := getPath(da, p)
		ck.violate("roundtrip|member-lost|"+templatePositionOrPath(p), "a member of a current-version definition is not in the marshalled form of the flow read from it",
			map[string]any{"input": label, "path": pathString(p), "expected": want, "observed": got, "definition": string(d), "marshalled": string(m1)})
	}
}

func templatePositionOrPath(p []any) string {
	if len(p) >= 2 && p[0] == "nodes" {
		return templatePosition(p)
	}
	return pathShape(p)
}

// firstDiffShape gives the (index / uuid free) path of the first difference between two JSON documents
func firstDiffShape(a, b []byte) string {
	da, _ := decodeGeneric(a)
	db, _ := decodeGeneric(b)
	p := firstDiff(da, db, nil)
	return pathShape(p)
}

func firstDiff(a, b any, path []any) []any {
	switch at := a.(type) {
	case map[string]any:
		bt, ok := b.(map[string]any)
		if !ok {
			return path
		}
		keys := map[string]bool{}
		for k := range at {
			keys[k] = true
		}
		for k := range bt {
			keys[k] = true
		}
		ks := make([]string, 0, len(keys))
		for k := range keys {
			ks = append(ks, k)
		}
		sort.Strings(ks)
		for _, k := range ks {
			av, aok := at[k]
			bv, bok := bt[k]
			if aok != bok {
				return appendPath(path, k)
			}
			if d := firstDiff(av, bv, appendPath(path, k)); d != nil {
				return d
			}
		}
		return nil
	case []any:
		bt, ok := b.([]any)
		if !ok || len(at) != len(bt) {
			return path
		}
		for i := range at {
			if d := firstDiff(at[i], bt[i], appendPath(path, i)); d != nil {
				return d
			}
		}
		return nil
	}
	if fmt.Sprint(a) != fmt.Sprint(b) {
		if path == nil {
			return []any{}
		}
		return path
	}
	return nil
}

// checkLeafs follows every template leaf and every plain translation of the model through the migration:
// it must still be there, and evaluate to the same value (old text in {webhook: X} == new text in
// {webhook: {json: X, ...}}).
func (ck *checker) checkLeafs(in *validInput, outDoc map[string]any, wit func(map[string]any) map[string]any) {
	res := ck.res
	srcMinor := in.R.Minor
	for _, lf := range in.R.Leafs {
		v, ok := getPath(outDoc, lf.Path)
		isLoc := len(lf.Path) > 0 && lf.Path[0] == "localization"
		got, isStr := v.(string)
		if !ok || !isStr {
			if isLoc {
				res.Count("clause.localization.checked", 1)
				ck.violate("valid|translation-lost|"+templatePosition(lf.Path), "a translation present before migration is gone afterwards", wit(map[string]any{"path": pathString(lf.Path)}))
			} else {
				res.Count("clause.template_kept.checked", 1)
				ck.violate("valid|template-lost|"+templatePosition(lf.Path), "a template present before migration is gone afterwards", wit(map[string]any{"path": pathString(lf.Path)}))
			}
			continue
		}
		if !lf.IsT {
			res.Count("clause.localization.checked", 1)
			if got != lf.Text {
				ck.violate("valid|translation-changed|"+templatePosition(lf.Path), "a plain translation was changed by migration", wit(map[string]any{"path": pathString(lf.Path), "expected": lf.Text, "observed": got}))
			}
			continue
		}
		if isLoc {
			res.Count("clause.localization.checked", 1)
		}
		src := lf.T.at(srcMinor)
		ck.compareTemplate(in, src, srcMinor, got, lf.Path, lf.T, wit)
	}
}

func (ck *checker) compareTemplate(in *validInput, src string, srcMinor int, got string, path []any, t tpl, wit func(map[string]any) map[string]any) {
	res := ck.res
	if src == got {
		res.Count("clause.template_same_text.checked", 1)
		if srcMinor > 2 || !t.Webhook {
			return
		}
		// an old-style webhook reference left as it was: falls through to evaluation, which will tell
	}
	srcCtx := ck.ec.new
	if srcMinor <= 2 {
		srcCtx = ck.ec.old
	}
	var v1, v2 string
	var e1, e2 bool
	if pi := guard("evaluate", "Evaluator.Template", func() {
		v1, e1 = ck.ec.value(srcCtx, src)
		v2, e2 = ck.ec.value(ck.ec.new, got)
	}); pi != nil {
		res.Count("template_eval_panics", 1)
		return // evaluation totality is C04's business
	}
	res.Count("clause.template_equiv.checked", 1)
	if t.Webhook && srcMinor <= 2 {
		res.Count("clause.template_equiv.webhook_rewrites", 1)
		res.Seen("template_shapes", t.Shape)
	}
	if !e1 {
		res.Count("clause.template_equiv.evaluated_without_error", 1)
	}
	if v1 != v2 || e1 != e2 {
		where := "base"
		if len(path) > 0 && path[0] == "localization" {
			where = "translation"
		}
		sig := ""
		cause := ""
		if src == got && t.Webhook {
			sig = "valid|template-not-rewritten|" + where + "|" + templatePosition(path)
			cause = "the migration left the old-style reference as it was"
		} else {
			cls, why := ck.classifyMismatch(src, srcCtx, v2, e2)
			cause = why
			sig = "valid|template-value-differs|" + cls
			if cls == "rename" {
				sig += "|" + where
			}
		}
		ck.violate(sig, "a template evaluates differently after migration: "+cause,
			wit(map[string]any{"path": pathString(path), "before": src, "after": got, "value_before": v1, "error_before": e1, "value_after": v2, "error_after": e2, "cause": cause}))
	}
}

var trailingZerosRe = regexp.MustCompile(`([0-9]+\.[0-9]*?)0+([^0-9.]|$)`)

// classifyMismatch is a small repair experiment on the source template (in its own context): does printing the
// parsed expressions back - without renaming anything - already change the value, and if so, is it the
// normalisation of number literals (1.50 -> 1.5) that does it?
func (ck *checker) classifyMismatch(src string, srcCtx *types.XObject, vAfter string, eAfter bool) (string, string) {
	v0, e0 := ck.ec.value(srcCtx, src)
	reprinted, _ := refactor.Template(src, []string{"webhook"}, func(excellent.Expression) bool { return true })
	v1, e1 := ck.ec.value(srcCtx, reprinted)
	if v0 == v1 && e0 == e1 {
		return "rename", "printing the expressions back unchanged keeps the value, the renamed reference changes it"
	}
	norm := trailingZerosRe.ReplaceAllStringFunc(src, func(m string) string {
		sm := trailingZerosRe.FindStringSubmatch(m)
		return strings.TrimSuffix(sm[1], ".") + sm[2]
	})
	if v2, e2 := ck.ec.value(srcCtx, norm); norm != src && v2 == vAfter && e2 == eAfter {
		return "reprint|number-literal-rescaled", "printing a number literal drops its trailing zeros (1.50 -> 1.5) and the operator's result depends on the operand's scale"
	}
	return "reprint|other", "printing the parsed expressions back (no renaming) already changes the value"
}

// templatePosition names the template position of a path without indices / uuids
func templatePosition(path []any) string {
	if len(path) > 0 && path[0] == "localization" {
		if len(path) >= 4 {
			return "localization." + fmt.Sprint(path[3])
		}
		return "localization"
	}
	// nodes[i].actions[j].<rest> or nodes[i].router.<rest>
	var parts []string
	for i, k := range path {
		if i < 2 {
			continue
		}
		if s, ok := k.(string); ok {
			parts = append(parts, s)
		}
	}
	return strings.Join(parts, ".")
}

func (ck *checker) checkTemplating(in *validInput, outDoc map[string]any, wit func(map[string]any) map[string]any) {
	res := ck.res
	srcMinor := in.R.Minor
	for _, et := range in.R.Templating {
		av, ok := getPath(outDoc, []any{"nodes", et.NodeIdx, "actions", et.ActionIdx})
		am, _ := av.(map[string]any)
		if !ok || am == nil {
			continue
		}
		res.Count("clause.templating.checked", 1)
		if _, has := am["templating"]; has {
			ck.violate("valid|templating-left", "send_msg still has a templating object after migration", wit(map[string]any{"action": am}))
			continue
		}
		ref, _ := am["template"].(map[string]any)
		if ref == nil || str(ref["uuid"]) != str(et.Ref["uuid"]) || str(ref["name"]) != str(et.Ref["name"]) {
			ck.violate("valid|template-ref-changed", "send_msg template reference changed by migration", wit(map[string]any{"expected": et.Ref, "observed": am["template"]}))
		}
		vars, _ := am["template_variables"].([]any)
		if len(vars) != len(et.Vars) {
			ck.violate("valid|template-variables-count", "number of template variables changed by migration", wit(map[string]any{"expected": len(et.Vars), "observed": am["template_variables"], "action_uuid": et.ActionUUID}))
		} else {
			for i, v := range vars {
				res.Count("clause.templating.variables", 1)
				ck.compareTemplate(in, et.Vars[i].at(srcMinor), srcMinor, str(v), []any{"nodes", et.NodeIdx, "actions", et.ActionIdx, "template_variables", i}, et.Vars[i], wit)
			}
		}
		// translations
		loc, _ := outDoc["localization"].(map[string]any)
		for _, lang := range in.Model.Langs {
			exp, want := et.Trans[lang]
			var got []any
			has := false
			if lt, _ := loc[lang].(map[string]any); lt != nil {
				if it, _ := lt[et.ActionUUID].(map[string]any); it != nil {
					got, has = it["template_variables"].([]any)
				}
			}
			switch {
			case want && !has:
				res.Count("clause.templating.translations", 1)
				ck.violate("valid|template-variables-translation-lost", "translated template variables are gone after migration", wit(map[string]any{"lang": lang, "action_uuid": et.ActionUUID}))
			case !want && has:
				res.Count("templating.translation_without_source", 1) // harmless, not demanded by the statement
			case want && has:
				res.Count("clause.templating.translations", 1)
				if len(got) != len(exp) {
					ck.violate("valid|template-variables-translation-count", "translated template variables do not line up with the components' params", wit(map[string]any{"lang": lang, "action_uuid": et.ActionUUID, "expected": len(exp), "observed": got}))
					continue
				}
				for i := range got {
					ck.compareTemplate(in, exp[i].at(srcMinor), srcMinor, str(got[i]), []any{"localization", lang, et.ActionUUID, "template_variables", i}, exp[i], wit)
				}
			}
		}
	}
}
