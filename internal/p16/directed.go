package p16

import (
	"fmt"
	"strings"

	"verif/internal/fw"
)

func (p *c16) runModel(ck *checker, label string, m *mFlow, minors []int) {
	for _, minor := range minors {
		rd := m.render(minor)
		if minor == 6 {
			if _, err, pi := readFlow(rd.JSON); err != nil || pi != nil {
				ck.res.Inconclusive = fmt.Sprintf("directed model %s is not a valid current definition: %v %v", label, err, pi)
				return
			}
			ck.checkUntouched(label, rd.JSON)
		}
		in := &validInput{Label: fmt.Sprintf("d:%s@%s", label, minorName(minor)), Version: minorName(minor), Data: rd.JSON, Known: true, R: rd, Model: m, UUIDSeed: 7}
		out := ck.checkValid(in)
		if out != nil && minor <= 5 {
			p.observeMigration(ck.res, m, rd, out)
		}
	}
}

var allMinors = []int{0, 1, 2, 3, 4, 5, 6}

const (
	dFlow  = "76f0a02f-3b75-4b86-9064-e9195e1b3a02"
	dNode1 = "365293c7-633c-45bd-96b7-0b059766588d"
	dNode2 = "a58be63b-907d-4a1a-856b-0bb5579d7507"
	dNode3 = "0c6a8ec2-7f4e-4d0a-a0a5-0a2c6b8e0c11"
	dAct1  = "8eebd020-1af5-431c-b943-aa670fc74da9"
	dAct2  = "e5a03dde-3b2f-4603-b5d0-d927f6bcc361"
	dAct3  = "f01d693b-2af2-49fb-9e38-146eb00937e9"
	dExit1 = "3bd19c40-1114-4b83-b12e-f0c38054ba3f"
	dExit2 = "b6f4caf3-ec99-44d5-a40c-8600ac0e2eac"
	dExit3 = "118221f7-e637-4cdb-83ca-7f0a5aae98c6"
	dCat1  = "37d8813f-1402-4ad2-9cc2-e9054a96525b"
	dCat2  = "13fea3d4-b925-495b-b593-1c9e905e700d"
	dCase1 = "98503572-25bf-40ce-ad72-8836b6549a38"
	dTmpl  = "9c4bf5b5-3aa4-48ec-9bb9-424a9cbc6785"
	dComp1 = "d2f852ec-7b4e-457f-ae7f-f8b243c49ff5"
	dComp2 = "5a5ccef6-8daa-4cb8-8e52-6b486361710f"
	dRef   = "ce00c80e-991a-4c03-b373-3273c23ee042"
)

// wh builds a template leaf from text in which \x01 stands for the webhook root
func wh(marked string) tpl {
	return tpl{Old: strings.ReplaceAll(marked, rootMark, "webhook"), New: strings.ReplaceAll(marked, rootMark, "webhook.json"), Webhook: strings.Contains(marked, rootMark), Shape: "directed"}
}

func baseModel(ftype string) *mFlow {
	return &mFlow{UUID: dFlow, Name: "Directed", Lang: "eng", OldLang: "eng", Type: ftype, Revision: 1, Expire: 5}
}

// legacySharedCategoryDef: a legacy flow whose first two rules share a category and a destination
func legacySharedCategoryDef() []byte {
	def := `{"base_language":"eng","flow_type":"F","entry":"` + dNode3 + `","metadata":{"uuid":"` + dFlow + `","name":"Shared","revision":3,"expires":720,"notes":[{"x":1,"y":2,"title":"t","body":"b"}]},
"action_sets":[{"uuid":"` + dNode1 + `","x":0,"y":300,"destination":"` + dNode3 + `","exit_uuid":"` + dExit1 + `","actions":[{"type":"reply","uuid":"` + dAct1 + `","msg":{"eng":"Yes! @contact.name","fra":"Oui!"},"media":{},"send_all":false}]},
{"uuid":"` + dNode2 + `","x":0,"y":100,"destination":null,"exit_uuid":"` + dExit2 + `","actions":[{"type":"reply","uuid":"` + dAct2 + `","msg":{"eng":"No."}}]}],
"rule_sets":[{"uuid":"` + dNode3 + `","x":10,"y":500,"ruleset_type":"wait_message","label":"Answer","operand":"@step.value","config":{},"finished_key":null,"rules":[
{"uuid":"ea304225-332e-49d4-9768-1e804cd0b6c2","test":{"type":"contains_any","test":{"eng":"yes","fra":"oui"}},"category":{"eng":"Yes","fra":"Oui"},"destination":"` + dNode1 + `","destination_type":"A"},
{"uuid":"633dfe67-988e-4190-a95f-70f477494032","test":{"type":"contains_any","test":{"eng":"yeah yep"}},"category":{"eng":"Yes","fra":"Oui"},"destination":"` + dNode1 + `","destination_type":"A"},
{"uuid":"1fc4c133-d038-4f75-a69e-6e7e3190e5d8","test":{"type":"starts","test":{"eng":"n"}},"category":{"eng":"No"},"destination":"` + dNode2 + `","destination_type":"A"},
{"uuid":"2b8a87c9-3262-4dd7-ab57-b099f362b075","test":{"type":"true"},"category":{"eng":"Other"},"destination":"` + dNode3 + `","destination_type":"R"},
{"uuid":"f966c0ac-1c17-4876-8c88-32495490a987","test":{"type":"timeout","minutes":5},"category":{"eng":"No Response"},"destination":null,"destination_type":null}]}]}`
	return compact([]byte(def))
}

// reuseModel: three nodes - two actions and a plain exit; a switch router on a wait with two categories and two
// exits (one looping back); a terminal node - so that every kind of thing has a near and a far thing of every kind
func reuseModel() *mFlow {
	m := baseModel("messaging")
	router := map[string]any{"type": "switch", "operand": fixed("@input.text"), "result_name": lname{"Answer", "Answer"},
		"wait":                  map[string]any{"type": "msg"},
		"cases":                 []any{map[string]any{"uuid": dCase1, "type": "has_any_word", "arguments": []any{fixed("yes")}, "category_uuid": dCat1}},
		"categories":            []any{map[string]any{"uuid": dCat1, "name": lname{"Yes", "Yes"}, "exit_uuid": dExit2}, map[string]any{"uuid": dCat2, "name": lname{"Other", "Other"}, "exit_uuid": dExit3}},
		"default_category_uuid": dCat2}
	m.Nodes = []*mNode{
		{UUID: dNode1, Actions: []map[string]any{
			{"uuid": dAct1, "type": "send_msg", "text": fixed("Hi @contact.name, ready?")},
			{"uuid": dAct2, "type": "set_run_result", "name": lname{"Asked", "Asked"}, "value": fixed("yes")},
		}, Exits: []mExit{{dExit1, dNode2}}},
		{UUID: dNode2, Router: router, Exits: []mExit{{dExit2, dNode3}, {dExit3, dNode1}}},
		{UUID: dNode3, Actions: []map[string]any{{"uuid": dAct3, "type": "send_msg", "text": fixed("Thanks")}}, Exits: []mExit{{dComp1, ""}}},
	}
	return m
}

func (p *c16) runDirected(c fw.Case, ck *checker) {
	res := ck.res
	fr := &faultRunner{res: res, ck: ck, label: "d:" + c.Directed}
	switch c.Directed {

	case "known:legacy-subflow-config-empty":
		// a subflow rule set whose config lost its "flow": must be an error, is a nil dereference
		rs := `{"uuid":"a040f89e-534e-4e5d-9e94-a8b639c426c8","rules":[{"uuid":"d53e9ab2-8e88-4ffc-9452-eb819b50bdb2","test":{"type":"subflow","exit_type":"completed"},"category":{"eng":"Completed"},"destination":null,"destination_type":null}],"ruleset_type":"subflow","label":"Response 1","operand":"@step.value","y":0,"x":100,"config":{}}`
		fr.try("empty-object", ".rule_sets[0].config", []byte(fmt.Sprintf(legacyRuleSetHolder, rs)))
		// the same through a missing config
		rs2 := strings.Replace(rs, `,"config":{}`, ``, 1)
		fr.try("delete", ".rule_sets[0].config", []byte(fmt.Sprintf(legacyRuleSetHolder, rs2)))

	case "known:router-cases-null":
		def := `{"uuid":"` + dFlow + `","name":"x","spec_version":"13.6.0","language":"eng","type":"messaging","nodes":[{"uuid":"` + dNode1 + `","router":{"type":"switch","operand":"@input.text","cases":[null],"categories":[{"uuid":"` + dCat1 + `","name":"Other","exit_uuid":"` + dExit1 + `"}],"default_category_uuid":"` + dCat1 + `"},"exits":[{"uuid":"` + dExit1 + `"}]}]}`
		fr.try("null", ".nodes[0].router.cases[0]", []byte(def))

	case "current-untouched":
		defs := []string{
			`{"uuid":"` + dFlow + `","name":"Empty","spec_version":"13.6.0","language":"eng","type":"messaging","nodes":[]}`,
			"{\n  \"uuid\": \"" + dFlow + "\",\n\t\"name\": \"Spaced\",  \"spec_version\": \"13.6.0\", \"language\": \"eng\", \"type\": \"messaging\", \"nodes\": [ ] , \"unknown_member\": {\"b\":1,\"a\":[ 1 , 2 ]}\n}\n\n",
			`{"nodes":[],"type":"messaging","language":"eng","spec_version":"13.6","name":"Reordered é 😀","uuid":"` + dFlow + `"}`,
			`{"uuid":"` + dFlow + `","name":"Long names stay","spec_version":"13.6.0","language":"und","type":"messaging","localization":{"und":{"x":{"text":["kept"]}}},"nodes":[{"uuid":"` + dNode1 + `","actions":[{"uuid":"` + dAct1 + `","type":"send_msg","text":"@webhook.name @webhook.json.name","templating":{"uuid":"` + dTmpl + `","template":{"uuid":"` + dRef + `","name":"t"},"variables":["@webhook"]}}],"exits":[{"uuid":"` + dExit1 + `","destination_uuid":null}]}]}`,
		}
		for i, d := range defs {
			ck.checkUntouched(fmt.Sprintf("d:current-untouched#%d", i), []byte(d))
		}

	case "webhook-templates":
		texts := []string{
			"@\x01", "@\x01.name", "Hi @\x01.name.", "@\x01.name @\x01.age", "@(\x01.age + 1)", "@(upper(\x01.name))", "@(\x01[\"name\"])", "@(\x01.items[0].tag & \" \" & contact.name)",
			"@(if(\x01.ok, \x01.name, \"none\"))", "@(foreach(\x01.list, (x) => x * 2))", "@(count(\x01.items))", "@(\x01)", "@(default(\x01.missing, \"d\"))",
			"@(text_length(\x01.text) > 3)", "@(-\x01.age ^ 2)", "@((\x01.age - 2) * 3 / \x01.n)", "@(extract(\x01, \"name\"))", "@(\x01.list[\x01.age - 41])", "@(format_number(\x01.n, 2))",
			"@\x01.json", "@\x01.status", "@\x01.headers.x", "@\x01.json.name", "@(\x01.json & \x01.status)", "@\x01.nested.a.b", "@\x01.items.0.tag", "@(\x01.nested.a.c[1])", "@\x01.missing", "@\x01.name.first",
			"mail me at bob@\x01.com or @@\x01", "@webhooks.name stays", "@(\"@webhook.name\")", "@(\"webhook\" & \x01.name)", "@(1 / ) @\x01.name", "@(\x01.n = 3.50)", "@(\x01.name = \"Bob Smith\")",
			"@(  \x01.age+1  )", "@(\x01.age>=42)", "@(\x01.age*2-1)", "@(\x01.age - -1)", "@(\x01.list[0] + \x01.list[1] * \x01.list[2] ^ 2)", "@(title(\x01.text) & 1.50)", "@(\x01.nul)", "@(\x01.empty & \"|\")", "@(\x01.0)",
		}
		m := baseModel("messaging")
		m.Langs = []string{"spa", "fra"}
		var qrs, qrsSpa []any
		for _, t := range texts {
			qrs = append(qrs, wh(t))
			qrsSpa = append(qrsSpa, wh("es: "+t))
		}
		send := map[string]any{"uuid": dAct1, "type": "send_msg", "text": wh("Result: @\x01.name (@\x01.age)"), "quick_replies": qrs,
			"attachments": []any{wh("image/jpeg:@\x01.url"), wh("image:http://example.com/@(url_encode(\x01.name)).jpg")}}
		hook := map[string]any{"uuid": dAct2, "type": "call_webhook", "method": "POST", "url": wh("http://example.com/?n=@(url_encode(\x01.name))"),
			"headers": map[string]any{"Authorization": wh("Token @\x01.json"), "X-Plain": fixed("plain")}, "body": wh("{\"age\": @\x01.age, \"all\": @(json(\x01.list))}"), "result_name": "lookup"}
		m.Trans = []mTrans{
			{Lang: "spa", Item: dAct1, Prop: "text", Vals: []any{wh("Resultado: @\x01.name")}},
			{Lang: "spa", Item: dAct1, Prop: "quick_replies", Vals: qrsSpa},
			{Lang: "fra", Item: dAct1, Prop: "attachments", Vals: []any{wh("image/jpeg:@\x01.url"), wh("image:http://example.com/fr/@\x01.name")}},
			{Lang: "fra", Item: dCase1, Prop: "arguments", Vals: []any{wh("@\x01.words"), wh("@(\x01.age + 1)")}},
			{Lang: "fra", Item: dCat1, Prop: "name", Vals: []any{"Autre"}},
		}
		router := map[string]any{"type": "switch", "operand": wh("@(\x01.age)"), "result_name": lname{"Age", "Age"},
			"cases":                 []any{map[string]any{"uuid": dCase1, "type": "has_number_between", "arguments": []any{wh("@\x01.list.0"), wh("@(\x01.age + 1)")}, "category_uuid": dCat1}},
			"categories":            []any{map[string]any{"uuid": dCat1, "name": lname{"Other", "Other"}, "exit_uuid": dExit2}},
			"default_category_uuid": dCat1}
		m.Nodes = []*mNode{
			{UUID: dNode1, Actions: []map[string]any{send, hook}, Exits: []mExit{{dExit1, dNode2}}},
			{UUID: dNode2, Actions: []map[string]any{{"uuid": dAct3, "type": "set_run_result", "name": lname{"Got", "Got"}, "value": wh("@\x01.count")}}, Router: router, Exits: []mExit{{dExit2, ""}}},
		}
		p.runModel(ck, c.Directed, m, []int{0, 1, 2, 3, 6})

	case "dial-wait-phone":
		// every evaluated template position: the phone of a dial wait is one (flows/routers/waits/dial.go)
		m := baseModel("voice")
		router := map[string]any{"type": "switch", "operand": fixed("@(default(resume.dial.status, \"\"))"),
			"wait":                  map[string]any{"type": "dial", "phone": wh("@\x01.name")},
			"cases":                 []any{map[string]any{"uuid": dCase1, "type": "has_only_text", "arguments": []any{fixed("answered")}, "category_uuid": dCat1}},
			"categories":            []any{map[string]any{"uuid": dCat1, "name": lname{"Answered", "Answered"}, "exit_uuid": dExit1}, map[string]any{"uuid": dCat2, "name": lname{"Other", "Other"}, "exit_uuid": dExit1}},
			"default_category_uuid": dCat2}
		m.Nodes = []*mNode{{UUID: dNode1, Router: router, Exits: []mExit{{dExit1, ""}}}}
		p.runModel(ck, c.Directed, m, []int{2, 3, 6})

	case "number-literal-scale":
		// the rewrite prints the whole expression back: 1.50 becomes 1.5, and ^ with a fractional exponent
		// gives a result whose precision depends on the scale of its operand
		m := baseModel("messaging")
		m.Nodes = []*mNode{{UUID: dNode1, Actions: []map[string]any{{"uuid": dAct1, "type": "send_msg", "text": wh("@(\x01.name & 1.50 ^ 0.5)")}}, Exits: []mExit{{dExit1, ""}}}}
		p.runModel(ck, c.Directed, m, []int{2})

	case "legacy-form-field-operand":
		// a form_field rule set without operand: must be an error, is a slice-bounds panic
		rs := `{"uuid":"413868c6-f35b-4a1c-b80e-df0091568b59","x":293,"y":218,"label":"Delimited Split","rules":[{"uuid":"22b5ef86-afad-41aa-8863-c167996083a6","category":{"eng":"Other"},"destination":null,"destination_type":null,"test":{"type":"true"}}],"ruleset_type":"form_field","operand":"","config":{"field_index":1,"field_delimiter":" "}}`
		fr.try("empty-string", ".rule_sets[0].operand", []byte(fmt.Sprintf(legacyRuleSetHolder, rs)))

	case "legacy-shared-category":
		data := legacySharedCategoryDef()
		in := &validInput{Label: "d:" + c.Directed, Version: "legacy", Data: data, Legacy: true, Known: true, LegacyEx: legacyExpectOf(decodeObject(data), true), UUIDSeed: 11}
		ck.checkValid(in)

	case "long-names":
		m := baseModel("messaging")
		m.Langs = []string{"spa"}
		n70 := strings.Repeat("Result name 0123", 4) + " tail_" // 64 + 6 : the cut leaves no space
		nSp := strings.Repeat("a", 62) + "  " + "bcd"           // the cut leaves two trailing spaces
		c40 := "Category with forty characters in total!"
		cMb := strings.Repeat("é", 30)                                // 60 bytes, 30 characters: stays
		cMb2 := strings.Repeat("日本", 20)                              // 40 characters: cut to 36
		cSp := strings.Repeat("b", 35) + " " + "rest of the category" // trailing space after the cut
		router := map[string]any{"type": "switch", "operand": fixed("@input.text"), "result_name": lname{nSp, truncRunes(nSp, 64)},
			"cases": []any{map[string]any{"uuid": dCase1, "type": "has_text", "category_uuid": dCat1}},
			"categories": []any{
				map[string]any{"uuid": dCat1, "name": lname{c40, truncRunes(c40, 36)}, "exit_uuid": dExit2},
				map[string]any{"uuid": dCat2, "name": lname{cSp, truncRunes(cSp, 36)}, "exit_uuid": dExit2},
				map[string]any{"uuid": dComp1, "name": lname{cMb, cMb}, "exit_uuid": dExit2},
				map[string]any{"uuid": dComp2, "name": lname{cMb2, truncRunes(cMb2, 36)}, "exit_uuid": dExit2},
			},
			"default_category_uuid": dCat2}
		m.Trans = []mTrans{{Lang: "spa", Item: dCat1, Prop: "name", Vals: []any{"Una categoría traducida que también es bastante larga"}}}
		m.Nodes = []*mNode{{UUID: dNode1, Actions: []map[string]any{
			{"uuid": dAct1, "type": "set_run_result", "name": lname{n70, truncRunes(n70, 64)}, "value": fixed("v"), "category": lname{c40, truncRunes(c40, 36)}},
			{"uuid": dAct2, "type": "set_run_result", "name": lname{"Short", "Short"}, "value": fixed("@input.text"), "category": lname{cMb2, truncRunes(cMb2, 36)}},
		}, Router: router, Exits: []mExit{{dExit2, dNode1}}}}
		p.runModel(ck, c.Directed, m, []int{0, 3, 5, 6})

	case "und-language":
		for i, old := range []string{"base", "", "en", "abcd"} {
			m := baseModel("messaging")
			m.Lang, m.OldLang, m.UndJunk = "und", old, i%2 == 0
			m.Langs = []string{"fra"}
			m.Trans = []mTrans{{Lang: "fra", Item: dAct1, Prop: "text", Vals: []any{fixed("Bonjour @contact.name")}}}
			m.Nodes = []*mNode{{UUID: dNode1, Actions: []map[string]any{{"uuid": dAct1, "type": "send_msg", "text": fixed("Hello @contact.name")}}, Exits: []mExit{{dExit1, ""}}}}
			p.runModel(ck, fmt.Sprintf("%s#%d", c.Directed, i), m, []int{0, 1, 2, 6})
		}

	case "templating-shapes":
		m := baseModel("messaging")
		m.Langs = []string{"spa", "fra", "kin"}
		tm := &mTemplating{UUID: dTmpl, Ref: map[string]any{"uuid": dRef, "name": "welcome"}, Comps: []*mComp{
			{UUID: dComp1, Name: "body", Params: []tpl{fixed("@contact.name"), wh("@\x01.age")}, Trans: map[string][]tpl{"spa": {fixed("@contact"), wh("@(\x01.age + 1)")}}},
			{UUID: dComp2, Name: "button.0", Params: []tpl{fixed("@contact.language")}, Trans: map[string][]tpl{"fra": {wh("@\x01.name")}}},
		}}
		m.Trans = []mTrans{{Lang: "spa", Item: dAct1, Prop: "text", Vals: []any{fixed("Hola")}}, {Lang: "kin", Item: dAct1, Prop: "text", Vals: []any{fixed("Muraho")}}}
		m.Nodes = []*mNode{{UUID: dNode1, Actions: []map[string]any{
			{"uuid": dAct1, "type": "send_msg", "text": fixed("Hello"), templatingKey: tm},
			{"uuid": dAct2, "type": "send_msg", "text": fixed("No variables"), templatingKey: &mTemplating{UUID: dCase1, Ref: map[string]any{"uuid": dRef, "name": "welcome"}}},
		}, Exits: []mExit{{dExit1, ""}}}}
		p.runModel(ck, c.Directed, m, allMinors)

	case "hostile-bytes":
		inputs := []string{"", " ", "null", "[]", "{}", `"x"`, "0", "true", "{", `{"`, `{"uuid"`, `{"flow_type":`, `{"flow_type":"F"`, `{"action_sets":null}`, `{"rule_sets":[null]}`,
			`{"action_sets":[null]}`, `{"rule_sets":[{"rules":[null]}]}`, `{"rule_sets":[{"uuid":"` + dNode1 + `","rules":[{"uuid":"` + dExit1 + `","test":null}]}]}`,
			`{"flow_type":"F","metadata":null}`, `{"flow_type":"F","metadata":[]}`, `{"action_sets":[{"uuid":"` + dNode1 + `","exit_uuid":"` + dExit1 + `","actions":[{"type":"reply","msg":null}]}]}`,
			`{"action_sets":[{"uuid":"` + dNode1 + `","exit_uuid":"` + dExit1 + `","actions":[{"type":"reply","msg":{"eng":"x"},"media":{"eng":""},"quick_replies":[null]}]}]}`,
			`{"uuid":"` + dFlow + `","spec_version":"13.0.0","nodes":null}`, `{"uuid":"` + dFlow + `","spec_version":"13.0.0","nodes":[null,1,"x",[],{}]}`,
			`{"uuid":"` + dFlow + `","spec_version":"13.0.0","localization":[],"nodes":[{"actions":[null,{"type":"send_msg","templating":[]},{"type":"send_msg","templating":{"components":[null,1,{"params":[1,null]}],"variables":{}}}],"router":[]}]}`,
			`{"uuid":"` + dFlow + `","spec_version":"13.0.0","language":5,"localization":{"und":1,"fra":[],"spa":{"x":[],"y":{"params":"z","variables":[1]}}},"nodes":[{"actions":[{"uuid":"y","type":"send_msg","text":5,"quick_replies":{"a":"@webhook"},"templating":{"uuid":5,"variables":[5,"@webhook.x"]}}],"router":{"type":"switch","cases":{"a":{"arguments":"@webhook"}},"categories":[1,null,{"name":5}],"result_name":[]}}]}`,
			`{"uuid":"` + dFlow + `","spec_version":"x"}`, `{"uuid":"` + dFlow + `","spec_version":"13"}`, `{"uuid":"` + dFlow + `","spec_version":"99999999999999999999.0.0"}`, `{"uuid":"` + dFlow + `","spec_version":"-1.0.0"}`,
			`{"uuid":"` + dFlow + `","spec_version":"12.0.0","nodes":[]}`, `{"uuid":"` + dFlow + `","spec_version":"14.0.0","nodes":[]}`, `{"uuid":"` + dFlow + `","spec_version":"13.6.0"}`,
			`{"uuid":"` + dFlow + `","spec_version":"13.0.0","nodes":[],"flow_type":"F","rule_sets":[{"uuid":"` + dNode1 + `","ruleset_type":"subflow","rules":[],"config":{}}]}`,
			`{"uuid":"` + dFlow + `","spec_version":"13.0.0","nodes":[],"action_sets":[{"uuid":"` + dNode1 + `","exit_uuid":"` + dExit1 + `","actions":[{"type":"reply","msg":5}]}]}`,
			`{"uuid":"` + dFlow + `","spec_version":"13.0.0","nodes":[],"rule_sets":[{"uuid":"` + dNode1 + `","ruleset_type":"airtime","rules":[],"config":null}]}`,
			"\xff\xfe{}", "\xef\xbb\xbf{}", `{"flow_type":"F"}` + strings.Repeat(" ", 100) + "}", strings.Repeat("[", 10000), strings.Repeat(`{"nodes":`, 2000),
		}
		for i, s := range inputs {
			fr.try("raw-bytes", fmt.Sprintf("hostile#%d", i), []byte(s))
		}
		r := fw.NewRand(0, "C16-hostile", 0)
		st := buildSeedTree([]byte(`{"uuid":"` + dFlow + `","spec_version":"13.0.0","nodes":[]}`))
		fr.randomFaults(r, st, 60)

	case "uuid-reuse-13x":
		// a valid flow at the oldest, a middle and the current version; then every node / action / exit of it in
		// turn given the UUID of a near and of a far node, action and exit (all nine kind pairs)
		m := reuseModel()
		p.runModel(ck, c.Directed, m, []int{0, 3, 6})
		for _, minor := range []int{0, 3, 6} {
			fr.label = fmt.Sprintf("d:%s@%s", c.Directed, minorName(minor))
			if fr.reuseAll(buildSeedTree(m.render(minor).JSON)) == 0 {
				res.Inconclusive = "directed model " + c.Directed + " has no UUID sites"
			}
		}

	case "uuid-reuse-legacy":
		// the same over the legacy form: action sets / rule sets are the nodes, exit_uuid and rule UUIDs the exits
		data := legacySharedCategoryDef()
		in := &validInput{Label: "d:" + c.Directed, Version: "legacy", Data: data, Legacy: true, Known: true, LegacyEx: legacyExpectOf(decodeObject(data), true), UUIDSeed: 11}
		if ck.checkValid(in) == nil {
			res.Inconclusive = "directed legacy definition of " + c.Directed + " does not migrate"
		}
		if fr.reuseAll(buildSeedTree(data)) == 0 {
			res.Inconclusive = "directed legacy definition of " + c.Directed + " has no UUID sites"
		}

	case "own-testdata-pairs":
		// goflow's own before/after pairs: the "original" of each must satisfy every clause
		n := 0
		for _, s := range corpus() {
			if strings.Contains(s.Name, "testdata/migrations/") && strings.HasSuffix(s.Name, ".original") {
				in := &validInput{Label: "seed:" + s.Name, Version: seedVersion(s), Data: s.Data, Known: true, UUIDSeed: 5}
				ck.checkValid(in)
				n++
			}
		}
		if n == 0 {
			res.Inconclusive = "goflow's migration test data not found under " + repoRoot()
		}
	}
}
