// Package drive runs generated scenarios through the real engine under controlled clock / UUID /
// random sources and records a sprint log for the monitors.
package drive

import (
	"fmt"
	"math/rand"
	"time"

	"github.com/nyaruka/gocommon/dates"
	"github.com/nyaruka/gocommon/random"
	"github.com/nyaruka/gocommon/uuids"
)

// BudgetExceeded is the sentinel panic raised by the virtual clock when one engine call has asked for
// the time more often than any terminating sprint can (see DESIGN.md §2, virtual-time watchdog).
type BudgetExceeded struct{ Calls int64 }

// Sources are the deterministic process-global sources installed for single-threaded checks.
type Sources struct {
	base   time.Time
	step   time.Duration
	ticks  int64
	inCall int64 // clock reads since BeginCall
	budget int64 // 0 = unlimited

	uuidSeed uint64
	uuidN    uint64

	rnd *splitSource

	// Coarse > 1: a clock of limited resolution — the time advances only with every Coarse-th read, so that things that
	// happen shortly after each other carry the same time
	Coarse int64
}

type splitSource struct{ s uint64 }

func (s *splitSource) Uint64() uint64 {
	s.s += 0x9E3779B97F4A7C15
	z := s.s
	z = (z ^ (z >> 30)) * 0xBF58476D1CE4E5B9
	z = (z ^ (z >> 27)) * 0x94D049BB133111EB
	return z ^ (z >> 31)
}
func (s *splitSource) Int63() int64    { return int64(s.Uint64() >> 1) }
func (s *splitSource) Seed(seed int64) { s.s = uint64(seed) }

// SourceState is a snapshot that can be restored.
type SourceState struct {
	Ticks int64
	UUIDN uint64
	Rnd   uint64
}

func NewSources(seed int64) *Sources {
	return &Sources{
		// nanosecond parts on purpose: typed values are persisted at microsecond precision
		base:     time.Date(2018, 7, 6, 12, 30, 0, 123456789, time.UTC),
		step:     time.Second + 1001*time.Nanosecond,
		uuidSeed: uint64(seed)*0x9E3779B97F4A7C15 + 12345,
		rnd:      &splitSource{s: uint64(seed) ^ 0xABCDEF},
	}
}

// Install makes these sources the process-global ones.
func (s *Sources) Install() {
	dates.SetNowFunc(s.Now)
	uuids.SetGenerator(s)
	random.SetGenerator(rand.New(s.rnd))
}

// Uninstall restores library defaults.
func Uninstall() {
	dates.SetNowFunc(time.Now)
	uuids.SetGenerator(uuids.DefaultGenerator)
	random.SetGenerator(random.DefaultGenerator)
}

func (s *Sources) Now() time.Time {
	s.inCall++
	if s.budget > 0 && s.inCall > s.budget {
		panic(BudgetExceeded{Calls: s.inCall})
	}
	n := s.ticks
	if s.Coarse > 1 {
		n = n / s.Coarse * s.Coarse
	}
	t := s.base.Add(time.Duration(n) * s.step)
	s.ticks++
	return t
}

// BeginCall resets the per-call counter and sets the logical step budget for the next engine call.
func (s *Sources) BeginCall(budget int64) { s.inCall = 0; s.budget = budget }
func (s *Sources) EndCall() int64         { n := s.inCall; s.budget = 0; return n }

func (s *Sources) NextV4() uuids.UUID {
	s.uuidN++
	z := &splitSource{s: s.uuidSeed + s.uuidN*0x632BE59BD9B4E019}
	a, b := z.Uint64(), z.Uint64()
	return uuids.UUID(fmt.Sprintf("%08x-%04x-4%03x-%x%03x-%012x", uint32(a>>32), uint16(a>>16), uint16(a)&0xfff, 8+(b>>62), uint16(b>>48)&0xfff, b&0xffffffffffff))
}

func (s *Sources) NextV7() uuids.UUID {
	s.uuidN++
	z := &splitSource{s: s.uuidSeed + s.uuidN*0x632BE59BD9B4E019}
	a, b := z.Uint64(), z.Uint64()
	return uuids.UUID(fmt.Sprintf("%08x-%04x-7%03x-%x%03x-%012x", uint32(a>>32), uint16(a>>16), uint16(a)&0xfff, 8+(b>>62), uint16(b>>48)&0xfff, b&0xffffffffffff))
}

func (s *Sources) Snapshot() SourceState {
	return SourceState{Ticks: s.ticks, UUIDN: s.uuidN, Rnd: s.rnd.s}
}

func (s *Sources) Restore(st SourceState) {
	s.ticks, s.uuidN, s.rnd.s = st.Ticks, st.UUIDN, st.Rnd
}
