package drive

import (
	"encoding/json"
	"fmt"
	"runtime/debug"
	"strings"

	"github.com/nyaruka/goflow/assets"
	"github.com/nyaruka/goflow/assets/static"
	"github.com/nyaruka/goflow/envs"
	"github.com/nyaruka/goflow/flows"
	"github.com/nyaruka/goflow/flows/engine"
	"github.com/nyaruka/goflow/flows/resumes"
	"github.com/nyaruka/goflow/flows/triggers"

	"verif/internal/gen"
)

// RunSnap is what we remember of a run before a call.
type RunSnap struct {
	PathLen   int
	EventsLen int
	Status    flows.RunStatus
	Results   map[string]string // name → JSON of the stored result
}

// CallRecord is the sprint-log entry of one engine call.
type CallRecord struct {
	Index      int    // 0 = start, i = i-th resume (1-based)
	Kind       string // "start" | "resume"
	ResumeType string
	ResumeJSON []byte
	Resume     flows.Resume
	Trigger    flows.Trigger

	Err        error
	Panic      any
	PanicStack string
	Budget     bool // virtual-clock budget exceeded
	ClockReads int64

	StatusBefore  flows.SessionStatus
	SessionBefore []byte
	ContactBefore []byte
	RunsBefore    map[flows.RunUUID]RunSnap
	NumRunsBefore int

	Session      flows.Session
	Sprint       flows.Sprint
	SessionAfter []byte
	ContactAfter []byte
	EventsJSON   [][]byte
	SegmentsJSON [][]byte
}

// OK reports whether the call returned normally without error.
func (c *CallRecord) OK() bool { return c.Err == nil && c.Panic == nil && !c.Budget }

// Runner drives one scenario.
type Runner struct {
	Scen    *gen.Scenario
	Src     *Sources
	SA      flows.SessionAssets
	Eng     flows.Engine
	Session flows.Session
	Missing []string
	Log     []*CallRecord
	Budget  int64
}

// Load reads the assets through the real readers. An error means the generated scenario is not loadable.
func Load(scen *gen.Scenario, seed int64) (r *Runner, err error) {
	defer func() {
		if rec := recover(); rec != nil {
			err = fmt.Errorf("panic while loading assets: %v\n%s", rec, debug.Stack())
		}
	}()
	src := NewSources(seed)
	src.Coarse = int64(scen.Coarse)
	src.Install()
	source, err := static.NewSource(scen.AssetsJSON())
	if err != nil {
		return nil, fmt.Errorf("assets source: %w", err)
	}
	sa, err := engine.NewSessionAssets(envs.NewBuilder().Build(), source, nil)
	if err != nil {
		return nil, fmt.Errorf("session assets: %w", err)
	}
	// every flow must load (validation happens lazily on first access)
	for _, f := range scen.Flows() {
		if _, err := sa.Flows().Get(assets.FlowUUID(f["uuid"].(string))); err != nil {
			return nil, fmt.Errorf("flow %s: %w", f["name"], err)
		}
	}
	eng := NewEngine(scen.Options)
	maxSteps := int64(eng.Options().MaxStepsPerSprint)
	return &Runner{Scen: scen, Src: src, SA: sa, Eng: eng, Budget: 1000 * (maxSteps + 10)}, nil
}

// LoadReusing prepares another execution of the scenario over the session assets and the engine of an earlier one — as a
// host does, which keeps assets for many sessions — from fresh sources in the state they had when prev was loaded.
func LoadReusing(prev *Runner, seed int64, loaded SourceState) *Runner {
	src := NewSources(seed)
	src.Coarse = int64(prev.Scen.Coarse)
	src.Install()
	src.Restore(loaded)
	return &Runner{Scen: prev.Scen, Src: src, SA: prev.SA, Eng: prev.Eng, Budget: prev.Budget}
}

func (r *Runner) missing(ref assets.Reference, err error) {
	r.Missing = append(r.Missing, fmt.Sprintf("%s", ref))
}

func marshal(v any) []byte {
	b, err := json.Marshal(v)
	if err != nil {
		return []byte(fmt.Sprintf(`{"marshal_error":%q}`, err.Error()))
	}
	return b
}

func (r *Runner) snapBefore(rec *CallRecord) {
	s := r.Session
	if s == nil {
		return
	}
	rec.StatusBefore = s.Status()
	rec.SessionBefore = marshal(s)
	rec.ContactBefore = marshal(s.Contact())
	rec.RunsBefore = map[flows.RunUUID]RunSnap{}
	rec.NumRunsBefore = len(s.Runs())
	for _, run := range s.Runs() {
		rs := RunSnap{PathLen: len(run.Path()), EventsLen: len(run.Events()), Status: run.Status(), Results: map[string]string{}}
		for k, v := range run.Results() {
			rs.Results[k] = string(marshal(v))
		}
		rec.RunsBefore[run.UUID()] = rs
	}
}

func (r *Runner) snapAfter(rec *CallRecord) {
	if rec.Session != nil && rec.Panic == nil && !rec.Budget {
		rec.SessionAfter = marshal(rec.Session)
		if rec.Session.Contact() != nil {
			rec.ContactAfter = marshal(rec.Session.Contact())
		}
	}
	if rec.Sprint != nil {
		for _, e := range rec.Sprint.Events() {
			rec.EventsJSON = append(rec.EventsJSON, marshal(e))
		}
		for _, s := range rec.Sprint.Segments() {
			rec.SegmentsJSON = append(rec.SegmentsJSON, marshal(s))
		}
	}
}

func (r *Runner) guard(rec *CallRecord, f func()) {
	r.Src.BeginCall(r.Budget)
	defer func() {
		rec.ClockReads = r.Src.EndCall()
		if p := recover(); p != nil {
			if _, ok := p.(BudgetExceeded); ok {
				rec.Budget = true
				return
			}
			rec.Panic = p
			rec.PanicStack = string(debug.Stack())
		}
	}()
	f()
}

// ReadTrigger parses the scenario's trigger; error → scenario discarded.
func (r *Runner) ReadTrigger() (t flows.Trigger, err error) {
	defer func() {
		if rec := recover(); rec != nil {
			err = fmt.Errorf("panic reading trigger: %v\n%s", rec, debug.Stack())
		}
	}()
	return triggers.ReadTrigger(r.SA, r.Scen.TriggerJSON(), r.missing)
}

// Start starts the session. The trigger is read through the real reader.
func (r *Runner) Start() *CallRecord {
	rec := &CallRecord{Index: 0, Kind: "start"}
	trig, err := r.ReadTrigger()
	if err != nil {
		rec.Err = fmt.Errorf("unreadable trigger: %w", err)
		rec.Kind = "unreadable"
		r.Log = append(r.Log, rec)
		return rec
	}
	rec.Trigger = trig
	r.guard(rec, func() {
		rec.Session, rec.Sprint, rec.Err = r.Eng.NewSession(r.SA, trig)
	})
	if rec.Err == nil && rec.Panic == nil && !rec.Budget {
		r.Session = rec.Session
	}
	r.snapAfter(rec)
	r.Log = append(r.Log, rec)
	return rec
}

// ReadResume parses a resume JSON against the assets.
func (r *Runner) ReadResume(data []byte) (res flows.Resume, err error) {
	defer func() {
		if rec := recover(); rec != nil {
			err = fmt.Errorf("panic reading resume: %v\n%s", rec, debug.Stack())
		}
	}()
	return resumes.ReadResume(r.SA, data, r.missing)
}

// Resume applies a resume (given as JSON map) to the current session.
func (r *Runner) Resume(m gen.M) *CallRecord {
	m = r.resolveSessionContact(m)
	data, _ := json.Marshal(m)
	rec := &CallRecord{Index: len(r.Log), Kind: "resume", ResumeJSON: data, ResumeType: fmt.Sprint(m["type"])}
	res, err := r.ReadResume(data)
	if err != nil {
		rec.Err = fmt.Errorf("unreadable resume: %w", err)
		rec.Kind = "unreadable"
		r.Log = append(r.Log, rec)
		return rec
	}
	rec.Resume = res
	r.snapBefore(rec)
	rec.Session = r.Session
	r.guard(rec, func() {
		rec.Sprint, rec.Err = r.Session.Resume(res)
	})
	r.snapAfter(rec)
	r.Log = append(r.Log, rec)
	return rec
}

// Restart replaces the live session by one re-read from its JSON (host process "restart").
// Source state is restored afterwards so that only engine calls consume clock / UUID ticks.
func (r *Runner) Restart() (err error) {
	defer func() {
		if rec := recover(); rec != nil {
			err = fmt.Errorf("panic in ReadSession: %v\n%s", rec, debug.Stack())
		}
	}()
	st := r.Src.Snapshot()
	defer r.Src.Restore(st)
	data := marshal(r.Session)
	s, err := r.Eng.ReadSession(r.SA, data, r.missing)
	if err != nil {
		return err
	}
	r.Session = s
	return nil
}

// RestoreFrom replaces the live session by one read from JSON stored earlier (a host that restarts after a failed call
// has only what it stored after the last successful one). Source state is restored afterwards, as in Restart.
func (r *Runner) RestoreFrom(data []byte) (err error) {
	defer func() {
		if rec := recover(); rec != nil {
			err = fmt.Errorf("panic in ReadSession: %v\n%s", rec, debug.Stack())
		}
	}()
	st := r.Src.Snapshot()
	defer r.Src.Restore(st)
	s, err := r.Eng.ReadSession(r.SA, data, r.missing)
	if err != nil {
		return err
	}
	r.Session = s
	return nil
}

// Waiting reports whether the session can be resumed.
func (r *Runner) Waiting() bool {
	return r.Session != nil && r.Session.Status() == flows.SessionStatusWaiting
}

// RunAll starts the session and applies the resume history while the session is waiting.
// after is called after every engine call.
func (r *Runner) RunAll(after func(*CallRecord)) {
	rec := r.Start()
	if after != nil {
		after(rec)
	}
	if !rec.OK() {
		return
	}
	for _, m := range r.Scen.Resumes {
		if !r.Waiting() {
			return
		}
		rec := r.Resume(m)
		if after != nil {
			after(rec)
		}
		if rec.Panic != nil || rec.Budget {
			return
		}
	}
}

// Reread reads a marshalled session back and marshals it again (source state is restored afterwards).
func (r *Runner) Reread(data []byte) (again []byte, err error) {
	defer func() {
		if rec := recover(); rec != nil {
			err = fmt.Errorf("panic in ReadSession: %v", rec)
		}
	}()
	st := r.Src.Snapshot()
	defer r.Src.Restore(st)
	s, err := r.Eng.ReadSession(r.SA, data, func(assets.Reference, error) {})
	if err != nil {
		return nil, err
	}
	return marshal(s), nil
}

// resolveSessionContact: a resume whose "contact" is {"__session_contact__": "<op>"} carries the session's CURRENT contact
// with exactly one attribute changed (the host re-loading the contact after someone edited it elsewhere). The op is
// applied to the contact JSON as the session holds it right now.
func (r *Runner) resolveSessionContact(m gen.M) gen.M {
	cm, ok := m["contact"].(gen.M)
	if !ok {
		if mm, ok2 := m["contact"].(map[string]any); ok2 {
			cm = mm
		} else {
			return m
		}
	}
	op, ok := cm["__session_contact__"].(string)
	if !ok {
		return m
	}
	out := gen.M{}
	for k, v := range m {
		out[k] = v
	}
	delete(out, "contact")
	if r.Session == nil || r.Session.Contact() == nil {
		return out
	}
	var c map[string]any
	json.Unmarshal(marshal(r.Session.Contact()), &c)
	switch op {
	case "identical":
	case "ticket-assignee":
		if t, ok := c["ticket"].(map[string]any); ok {
			if a, ok := t["assignee"].(map[string]any); ok && a["email"] == "jim@nyaruka.com" {
				t["assignee"] = map[string]any{"email": "bob@nyaruka.com", "name": "Bob"}
			} else {
				t["assignee"] = map[string]any{"email": "jim@nyaruka.com", "name": "Jim"}
			}
		}
	case "ticket-unassign":
		if t, ok := c["ticket"].(map[string]any); ok {
			delete(t, "assignee")
		}
	case "ticket-topic":
		if t, ok := c["ticket"].(map[string]any); ok {
			if tp, ok := t["topic"].(map[string]any); ok {
				tp["uuid"], tp["name"] = swapTopic(r.Scen, fmt.Sprint(tp["uuid"]))
			}
		}
	case "ticket-close":
		delete(c, "ticket")
	case "name":
		c["name"] = fmt.Sprint(c["name"]) + "x"
	case "language":
		if c["language"] == "spa" {
			c["language"] = "eng"
		} else {
			c["language"] = "spa"
		}
	case "last-seen":
		c["last_seen_on"] = "2018-06-22T09:00:00.5Z"
	case "urn-display":
		if us, ok := c["urns"].([]any); ok && len(us) > 0 {
			u := fmt.Sprint(us[0])
			if i := strings.Index(u, "#"); i > 0 {
				u = u[:i]
			}
			us[0] = u + "#Newdisplay"
		}
	case "urn-reorder":
		if us, ok := c["urns"].([]any); ok && len(us) > 1 {
			us[0], us[len(us)-1] = us[len(us)-1], us[0]
		}
	case "field-text":
		f, _ := c["fields"].(map[string]any)
		if f == nil {
			f = map[string]any{}
			c["fields"] = f
		}
		f["nick"] = map[string]any{"text": "edited elsewhere"}
	case "timezone":
		if c["timezone"] == "Africa/Kigali" {
			c["timezone"] = "Asia/Kolkata"
		} else {
			c["timezone"] = "Africa/Kigali"
		}
	case "id":
		c["id"] = 424242
	}
	out["contact"] = c
	return out
}

func swapTopic(scen *gen.Scenario, cur string) (string, string) {
	switch l := scen.Assets["topics"].(type) {
	case []gen.M:
		for _, t := range l {
			if t["uuid"] != cur {
				return fmt.Sprint(t["uuid"]), fmt.Sprint(t["name"])
			}
		}
	case []any:
		for _, x := range l {
			if t, ok := x.(map[string]any); ok && t["uuid"] != cur {
				return fmt.Sprint(t["uuid"]), fmt.Sprint(t["name"])
			}
		}
	}
	return cur, "Same"
}
