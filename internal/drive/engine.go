package drive

import (
	"bytes"
	"errors"
	"io"
	"net/http"
	"strings"
	"time"

	"github.com/nyaruka/gocommon/httpx"
	"github.com/nyaruka/gocommon/urns"
	"github.com/nyaruka/gocommon/uuids"
	"github.com/nyaruka/goflow/envs"
	"github.com/nyaruka/goflow/flows"
	"github.com/nyaruka/goflow/flows/engine"
	"github.com/nyaruka/goflow/services/webhooks"
	"github.com/shopspring/decimal"

	"verif/internal/gen"
)

// fakeTransport answers webhook calls in-process, by the "cmd" in the URL.
type fakeTransport struct{}

func (fakeTransport) RoundTrip(req *http.Request) (*http.Response, error) {
	u := req.URL.String()
	mk := func(code int, body, ctype string) *http.Response {
		return &http.Response{
			Status: http.StatusText(code), StatusCode: code, Proto: "HTTP/1.1", ProtoMajor: 1, ProtoMinor: 1,
			Header:  http.Header{"Content-Type": []string{ctype}, "X-Served-By": []string{"fake"}},
			Body:    io.NopCloser(bytes.NewReader([]byte(body))),
			Request: req, ContentLength: int64(len(body)),
		}
	}
	switch {
	case strings.Contains(u, "cmd=unavailable"):
		return mk(503, `{"errors":["service unavailable"]}`, "application/json"), nil
	case strings.Contains(u, "cmd=badjson"):
		return mk(200, `this is not json {`, "text/plain"), nil
	case strings.Contains(u, "cmd=gone"):
		return mk(410, `{}`, "application/json"), nil
	case strings.Contains(u, "cmd=connerr"):
		return nil, errors.New("unable to connect to server")
	case strings.Contains(u, "cmd=casekeys"):
		return mk(200, `{"a":1,"A":2,"b":{"x":"lower","X":"upper"}}`, "application/json"), nil
	case strings.Contains(u, "cmd=true"):
		return mk(200, `true`, "application/json"), nil
	case strings.Contains(u, "cmd=false"):
		return mk(200, `false`, "application/json"), nil
	case strings.Contains(u, "cmd=null"):
		return mk(200, `null`, "application/json"), nil
	case strings.Contains(u, "cmd=hugeexp"):
		return mk(200, `1e999999`, "application/json"), nil
	case strings.Contains(u, "cmd=nested"):
		return mk(200, `{"a":{"b":[null,{"c":1e999999},[]]},"":{"":null}}`, "application/json"), nil
	case strings.Contains(u, "cmd=number"):
		return mk(200, `23.50`, "application/json"), nil
	case strings.Contains(u, "cmd=string"):
		return mk(200, `"hello"`, "application/json"), nil
	case strings.Contains(u, "cmd=array"):
		return mk(200, `[true,false,null,1,"x",{"vip":true}]`, "application/json"), nil
	case strings.Contains(u, "cmd=flags"):
		return mk(200, `{"vip":true,"blocked":false,"ref":null}`, "application/json"), nil
	case strings.Contains(u, "cmd=empty"):
		return mk(200, ``, "text/plain"), nil
	case strings.Contains(u, "cmd=success"):
		return mk(200, `{"ok":true,"results":[{"state":"WA"},{"state":"IN"}],"n":23,"name":"Bob"}`, "application/json"), nil
	}
	return mk(200, `{"echo":"default","n":1}`, "application/json"), nil
}

type emailService struct{}

func (emailService) Send(addresses []string, subject, body string) error {
	for _, a := range addresses {
		if strings.Contains(a, "fail") {
			return errors.New("unable to send email")
		}
	}
	return nil
}

type classificationService struct{ classifier *flows.Classifier }

var fixedLogTime = time.Date(2019, 10, 16, 13, 59, 30, 123456789, time.UTC)

func (s *classificationService) Classify(env envs.Environment, input string, logHTTP flows.HTTPLogCallback) (*flows.Classification, error) {
	if strings.Contains(input, "fail") {
		return nil, errors.New("classifier unreachable")
	}
	intents := s.classifier.Intents()
	extracted := make([]flows.ExtractedIntent, len(intents))
	confidence := decimal.RequireFromString("0.5")
	for i := range intents {
		extracted[i] = flows.ExtractedIntent{Name: intents[i], Confidence: confidence}
		confidence = confidence.Div(decimal.RequireFromString("2"))
	}
	logHTTP(&flows.HTTPLog{
		HTTPLogWithoutTime: &flows.HTTPLogWithoutTime{
			LogWithoutTime: &httpx.LogWithoutTime{URL: "http://test.acme.ai?classify", StatusCode: 200, Request: "GET /?classify HTTP/1.1\r\n\r\n", Response: "HTTP/1.0 200 OK\r\n\r\n{}", ElapsedMS: 1000},
			Status:         flows.CallStatusSuccess,
		},
		CreatedOn: fixedLogTime,
	})
	return &flows.Classification{
		Intents:  extracted,
		Entities: map[string][]flows.ExtractedEntity{"location": {{Value: "Quito", Confidence: decimal.RequireFromString("1.0")}}},
	}, nil
}

type airtimeService struct{}

func (airtimeService) Transfer(sender urns.URN, recipient urns.URN, amounts map[string]decimal.Decimal, logHTTP flows.HTTPLogCallback) (*flows.AirtimeTransfer, error) {
	logHTTP(&flows.HTTPLog{
		HTTPLogWithoutTime: &flows.HTTPLogWithoutTime{
			LogWithoutTime: &httpx.LogWithoutTime{URL: "http://send.airtime.com", StatusCode: 200, Request: "GET / HTTP/1.1\r\n\r\n", Response: "HTTP/1.0 200 OK\r\n\r\n{}", ElapsedMS: 0},
			Status:         flows.CallStatusSuccess,
		},
		CreatedOn: fixedLogTime,
	})
	amount, has := amounts["RWF"]
	if !has {
		return nil, errors.New("no amount configured for transfers in RWF")
	}
	return &flows.AirtimeTransfer{UUID: flows.AirtimeTransferUUID(uuids.NewV4()), Sender: sender, Recipient: recipient, Currency: "RWF", Amount: amount}, nil
}

// NewEngine builds an engine with in-process fake services and the scenario's options.
func NewEngine(o gen.Options) flows.Engine {
	b := engine.NewBuilder().
		WithEmailServiceFactory(func(flows.SessionAssets) (flows.EmailService, error) { return emailService{}, nil }).
		WithWebhookServiceFactory(webhooks.NewServiceFactory(&http.Client{Transport: fakeTransport{}}, nil, nil, map[string]string{"User-Agent": "goflow-verif"}, 10000)).
		WithClassificationServiceFactory(func(c *flows.Classifier) (flows.ClassificationService, error) {
			return &classificationService{classifier: c}, nil
		}).
		WithAirtimeServiceFactory(func(flows.SessionAssets) (flows.AirtimeService, error) { return airtimeService{}, nil })
	if o.Set {
		b = b.WithMaxStepsPerSprint(o.MaxSteps).WithMaxResumesPerSession(o.MaxResumes).WithMaxTemplateChars(o.MaxTemplateChars).
			WithMaxFieldChars(o.MaxFieldChars).WithMaxResultChars(o.MaxResultChars)
	}
	return b.Build()
}
