package p13

import (
	"encoding/json"
	"fmt"
	"strings"
	"sync"
	"time"
	"unicode/utf8"

	"github.com/nyaruka/gocommon/dates"
	"github.com/nyaruka/goflow/assets"
	"github.com/nyaruka/goflow/assets/static"
	"github.com/nyaruka/goflow/envs"
	"github.com/nyaruka/goflow/excellent/types"
	"github.com/nyaruka/goflow/flows"
	"github.com/nyaruka/goflow/flows/engine"
	"github.com/nyaruka/goflow/flows/modifiers"
	"github.com/shopspring/decimal"

	"verif/internal/fw"
)

// Clause "field". A contact field value is a text plus the typed values (number, datetime) goflow parsed
// from it (flows.FieldValues.Parse, reached through the real field modifier). Checked per text T:
//
//	typed     when T is the rendering of a number n / the ISO form of an instant d / Format(env) of d, the
//	          stored Number is n / the stored Datetime is d at microseconds / re-renders to T
//	persisted the value read back from the contact's JSON (flows.ReadContact) has the same text, an equal
//	          number and the same instant at microsecond precision
//	reparsed  parsing the *stored* text again (same environment, same fixed clock) gives the stored typed parts

type fieldRig struct {
	eng    flows.Engine
	sa     flows.SessionAssets
	fields []*flows.Field
}

var (
	rigOnce sync.Once
	rig     *fieldRig
	rigErr  error
)

const fieldAssetsJSON = `{"fields":[
 {"uuid":"d66a7823-eada-40e5-9a3a-57239d4690bf","key":"note","name":"Note","type":"text"},
 {"uuid":"f1b5aea6-6586-41c7-9020-1a6326cc6565","key":"age","name":"Age","type":"number"},
 {"uuid":"6c86d5ab-3fd9-4a5c-a5b6-48168b016747","key":"joined","name":"Joined","type":"datetime"}
]}`

func getRig() (*fieldRig, error) {
	rigOnce.Do(func() {
		src, err := static.NewSource([]byte(fieldAssetsJSON))
		if err != nil {
			rigErr = err
			return
		}
		sa, err := engine.NewSessionAssets(envs.NewBuilder().Build(), src, nil)
		if err != nil {
			rigErr = err
			return
		}
		r := &fieldRig{eng: engine.NewBuilder().Build(), sa: sa}
		for _, k := range []string{"note", "age", "joined"} {
			f := sa.Fields().Get(k)
			if f == nil {
				rigErr = fmt.Errorf("field %s not loaded", k)
				return
			}
			r.fields = append(r.fields, f)
		}
		rig = r
	})
	return rig, rigErr
}

type fieldInput struct {
	text    string
	origin  string // number-render | datetime-iso | datetime-env-format | date-env-format | free-text | long-text
	num     *decimal.Decimal
	instant *time.Time
	date    *dates.Date
}

const maxFieldChars = 640 // engine default (flows/engine/engine.go)

func (cr *run) checkField(env envs.Environment, fieldIdx int, in fieldInput) (typed bool) {
	rg, err := getRig()
	if err != nil {
		cr.res.Inconclusive = "field rig could not be built: " + err.Error()
		return false
	}
	field := rg.fields[fieldIdx%len(rg.fields)]
	tz := env.Timezone()
	envDesc := map[string]any{"date_format": string(env.DateFormat()), "time_format": string(env.TimeFormat()), "timezone": tz.String()}
	w := func(extra map[string]any) map[string]any {
		m := map[string]any{"text": trunc(in.text, 800), "origin": in.origin, "env": envDesc, "field_type": string(field.Type()), "clock": fixedNow.Format(time.RFC3339Nano)}
		for k, v := range extra {
			m[k] = v
		}
		return m
	}
	truncated := utf8.RuneCountInString(in.text) > maxFieldChars

	var contact *flows.Contact
	var v *flows.Value
	cr.guard("field:modifier.Apply", w(nil), func() {
		contact = flows.NewEmptyContact(rg.sa, "Bob", "", nil)
		modifiers.NewField(field, in.text).Apply(rg.eng, env, rg.sa, contact, func(flows.Event) {})
		v = contact.Fields().Get(field)
		cr.res.Count("field.applied", 1)
	})
	if contact == nil {
		return false
	}
	if v == nil {
		cr.res.Count("field.no_value", 1)
		if in.num != nil || in.instant != nil {
			cr.violate("field-value|typed|value-dropped", "setting a field to the rendering of a typed value stored nothing", w(nil))
		}
		return false
	}
	if v.Number != nil {
		cr.res.Count("field.parsed_number", 1)
		typed = true
	}
	if v.Datetime != nil {
		cr.res.Count("field.parsed_datetime", 1)
		typed = true
	}

	// ---- typed: the typed parts are the values the text was rendered from
	switch in.origin {
	case "number-render":
		cr.res.Count("field.number_from_render", 1)
		if v.Number == nil {
			cr.violate("field-value|typed|number-not-parsed", "a field set to the rendering of a number has no number value", w(nil))
		} else if !decEqual(v.Number.Native(), *in.num) {
			cr.violate("field-value|typed|number-differs", "a field set to the rendering of a number holds a different number", w(map[string]any{"number": decCanon(*in.num), "stored_number": decCanon(v.Number.Native())}))
		}
	case "datetime-iso":
		cr.res.Count("field.datetime_from_iso", 1)
		if v.Datetime == nil {
			cr.violate("field-value|typed|iso-datetime-not-parsed", "a field set to the ISO form of a datetime has no datetime value", w(map[string]any{"instant": instantDesc(*in.instant)}))
		} else if !sameAtMicros(v.Datetime.Native(), *in.instant) {
			cr.isoMismatch("field-text", instantDesc(*in.instant), *in.instant, in.text, v.Datetime.Native(), env)
		}
	case "datetime-env-format":
		cr.res.Count("field.datetime_from_env_format", 1)
		local := in.instant.In(tz)
		cls := dateFailureClass(local.Year(), local.Month(), local.Day(), env.DateFormat(), tz)
		var f2 string
		if v.Datetime != nil {
			f2 = v.Datetime.Format(env)
		}
		if v.Datetime == nil || f2 != in.text {
			ww := w(map[string]any{"instant": instantDesc(*in.instant), "stored_datetime_formatted": f2})
			switch cls {
			case "year<1000":
				cr.violate(sigYear1000, whatYear1000, ww)
			case "midnight-gap-in-env-zone":
				cr.violate(sigMidnightGap, whatMidnightGap, ww)
			default:
				cr.violate("field-value|typed|env-format-datetime-differs", "a field set to a datetime rendered in the environment format holds no datetime or one that renders differently", ww)
			}
		}
	case "date-env-format":
		cr.res.Count("field.date_from_env_format", 1)
		d := *in.date
		fill := dates.ExtractTimeOfDay(fixedNow.In(tz))
		exp := time.Date(d.Year, d.Month, d.Day, fill.Hour, fill.Minute, fill.Second, fill.Nanos, tz)
		if exp.Hour() != fill.Hour || exp.Day() != d.Day {
			cr.res.Count("field.date_from_env_format.fill_time_nonexistent_skipped", 1)
			break
		}
		cls := dateFailureClass(d.Year, d.Month, d.Day, env.DateFormat(), tz)
		ok := v.Datetime != nil && dates.ExtractDate(v.Datetime.Native().In(tz)).Equal(d)
		if !ok {
			ww := w(map[string]any{"date": dateDesc(d)})
			if v.Datetime != nil {
				ww["stored_datetime"] = v.Datetime.Render()
			}
			switch cls {
			case "year<1000":
				cr.violate(sigYear1000, whatYear1000, ww)
			case "midnight-gap-in-env-zone":
				cr.violate(sigMidnightGap, whatMidnightGap, ww)
			default:
				cr.violate("field-value|typed|env-format-date-differs", "a field set to a date rendered in the environment format holds no datetime or one on a different day", ww)
			}
		}
	}

	// ---- persisted: the contact's JSON carries the same value
	cr.guard("field:contact-json", w(nil), func() {
		b, err := json.Marshal(contact)
		if err != nil {
			cr.violate("field-value|persisted|marshal-error", "a contact with the field value could not be marshalled", w(map[string]any{"error": err.Error()}))
			return
		}
		c2, err := flows.ReadContact(rg.sa, b, assets.IgnoreMissing)
		if err != nil {
			cr.violate("field-value|persisted|unreadable", "the JSON of a contact with the field value could not be read back", w(map[string]any{"error": err.Error(), "json": trunc(string(b), 1500)}))
			return
		}
		cr.res.Count("field.persisted", 1)
		v2 := c2.Fields().Get(field)
		if v2 == nil {
			cr.violate("field-value|persisted|value-lost", "a field value is missing after the contact JSON round trip", w(map[string]any{"json": trunc(string(b), 1500)}))
			return
		}
		if v2.Text.Native() != v.Text.Native() {
			cr.violate("field-value|persisted|text-differs", "a field value's text changed in the contact JSON round trip", w(map[string]any{"read_back": trunc(v2.Text.Native(), 800)}))
		}
		if (v.Number == nil) != (v2.Number == nil) || (v.Number != nil && !decEqual(v.Number.Native(), v2.Number.Native())) {
			cr.violate("field-value|persisted|number-differs", "a field value's number changed in the contact JSON round trip", w(map[string]any{"json": trunc(string(b), 1500)}))
		}
		if (v.Datetime == nil) != (v2.Datetime == nil) {
			cr.violate("field-value|persisted|datetime-lost", "a field value's datetime appeared or disappeared in the contact JSON round trip", w(map[string]any{"json": trunc(string(b), 1500)}))
		} else if v.Datetime != nil && !sameAtMicros(v.Datetime.Native(), v2.Datetime.Native()) {
			cr.isoMismatch("contact-json", instantDesc(v.Datetime.Native()), v.Datetime.Native(), trunc(string(b), 1500), v2.Datetime.Native(), env)
		}
	})

	// ---- reparsed: the stored text parses to the stored typed parts
	cr.guard("field:reparse-stored-text", w(nil), func() {
		v3 := contact.Fields().Parse(env, rg.sa.Fields(), field, v.Text.Native())
		cr.res.Count("field.reparsed", 1)
		if truncated {
			cr.res.Count("field.reparsed.text_was_truncated", 1)
		}
		bad := ""
		switch {
		case v3 == nil:
			bad = "nothing"
		case (v.Number == nil) != (v3.Number == nil) || (v.Number != nil && !decEqual(v.Number.Native(), v3.Number.Native())):
			bad = "number"
		case (v.Datetime == nil) != (v3.Datetime == nil) || (v.Datetime != nil && !v.Datetime.Native().Equal(v3.Datetime.Native())):
			bad = "datetime"
		}
		if bad == "" {
			return
		}
		ww := w(map[string]any{"stored_text": trunc(v.Text.Native(), 800), "stored_text_runes": utf8.RuneCountInString(v.Text.Native()), "differs": bad})
		if v.Number != nil {
			ww["stored_number"] = decCanon(v.Number.Native())
		}
		if v.Datetime != nil {
			ww["stored_datetime"] = v.Datetime.Render()
		}
		if truncated {
			// A text longer than MaxFieldChars is cut *after* its typed values were parsed. The statement is about values
			// surviving their own rendered text; an over-long user text is not a rendering of the value, so this is
			// recorded as an observation, not a violation (DESIGN.md §7).
			cr.res.Count("field.reparsed.truncated_text_reparses_differently", 1)
			return
		}
		cr.violate("field-value|reparse|"+bad+"-differs", "a field value's stored text does not re-parse to the stored typed values", ww)
	})
	return typed
}

// ---- generator --------------------------------------------------------------------------------

func genFieldInput(r *fw.Rand, env envs.Environment) fieldInput {
	tz := env.Timezone()
	switch r.Weighted([]int{24, 18, 22, 12, 18, 6}) {
	case 0:
		d := genDecimal(r)
		s := types.NewXNumber(d).Render()
		if r.Chance(0.15) {
			s = " " + s + fw.Pick(r, []string{"", " ", "\n"})
		}
		return fieldInput{text: s, origin: "number-render", num: &d}
	case 1:
		t, _ := genInstant(r)
		return fieldInput{text: types.NewXDateTime(t).Render(), origin: "datetime-iso", instant: &t}
	case 2:
		for i := 0; i < 5; i++ {
			t, _ := genInstant(r)
			if y := t.In(tz).Year(); y < 1 || y > 9999 {
				continue
			}
			return fieldInput{text: types.NewXDateTime(t).Format(env), origin: "datetime-env-format", instant: &t}
		}
	case 3:
		t, _ := genInstant(r)
		l := t.In(tz)
		if l.Year() >= 1 && l.Year() <= 9999 {
			d := dates.ExtractDate(l)
			return fieldInput{text: types.NewXDate(d).Format(env), origin: "date-env-format", date: &d}
		}
	case 5:
		// longer than the field limit, with the typed part at the start, the end, or padded
		pad := strings.Repeat(fw.Pick(r, []string{"x", " ", "ab ", "é"}), r.Range(300, 700))
		core := fw.Pick(r, []string{"12.5", "2020-01-01T10:30:00.000000Z", "01-02-2003 10:30", "hello"})
		switch r.Intn(3) {
		case 0:
			return fieldInput{text: core + " " + pad, origin: "long-text"}
		case 1:
			return fieldInput{text: pad + " " + core, origin: "long-text"}
		}
		return fieldInput{text: strings.Repeat(" ", r.Range(600, 700)) + core, origin: "long-text"}
	}
	// free text, sometimes with an embedded number, date or time
	words := []string{"born", "on", "at", "the", "12", "3pm", "10:30", "1.5", "-7", "25-12-2019", "12-25-2019", "2019-12-25", "2019-12-25T10:30:00Z", "99", "31.12.99", "yes", "é", "😀", "12:00 am", "24:00", ".5", "1,234", "0987-07-18"}
	n := r.Range(1, 5)
	parts := make([]string, n)
	for i := range parts {
		parts[i] = fw.Pick(r, words)
	}
	return fieldInput{text: strings.Join(parts, " "), origin: "free-text"}
}

func (cr *run) genFields(r *fw.Rand) (bool, map[string]any) {
	env := fmtEnv(fw.Pick(r, dateFormats), fw.Pick(r, timeFormats), pickZone(r))
	nontrivial := false
	var first string
	for i := 0; i < 6; i++ {
		in := genFieldInput(r, env)
		cr.res.Count("field.origin."+in.origin, 1)
		if cr.checkField(env, r.Intn(3), in) {
			nontrivial = true
		}
		cr.fp = append(cr.fp, in.text)
		if i == 0 {
			first = in.text
		}
	}
	cr.fp = append(cr.fp, string(env.DateFormat()), string(env.TimeFormat()), env.Timezone().String())
	return nontrivial, map[string]any{"kind": "field", "first_text": trunc(first, 200), "texts": 6,
		"env": map[string]any{"date_format": string(env.DateFormat()), "time_format": string(env.TimeFormat()), "timezone": env.Timezone().String()}}
}

func (cr *run) directedFields() {
	dec := func(s string) *decimal.Decimal { d := decimal.RequireFromString(s); return &d }
	for zi, tz := range []*time.Location{time.UTC, zoneByName("America/New_York"), zoneByName("Asia/Kolkata"), zoneByName("America/Havana")} {
		for _, df := range dateFormats {
			for _, tf := range timeFormats {
				env := fmtEnv(df, tf, tz)
				for _, s := range []string{"0", "1.50", "-12345678901234567890.123456789", "1e30", "5e-30"} {
					d := dec(s)
					cr.checkField(env, 1, fieldInput{text: types.NewXNumber(*d).Render(), origin: "number-render", num: d})
				}
				for i, t := range directedInstants() {
					if zi > 0 && i > 6 && t.Location() != tz {
						continue
					}
					t := t
					cr.checkField(env, 2, fieldInput{text: types.NewXDateTime(t).Render(), origin: "datetime-iso", instant: &t})
					if y := t.In(tz).Year(); y >= 1 && y <= 9999 {
						cr.checkField(env, 2, fieldInput{text: types.NewXDateTime(t).Format(env), origin: "datetime-env-format", instant: &t})
						d := dates.ExtractDate(t.In(tz))
						cr.checkField(env, 2, fieldInput{text: types.NewXDate(d).Format(env), origin: "date-env-format", date: &d})
					}
				}
				for _, s := range []string{"hello", "born on 25-12-2019 at 3pm", "12", " 12 ", ".5", "1,234", "2019-12-25", "12:00 am", "31.12.99 24:00", "😀"} {
					cr.checkField(env, 0, fieldInput{text: s, origin: "free-text"})
				}
			}
		}
	}
	env := fmtEnv(envs.DateFormatDayMonthYear, envs.TimeFormatHourMinute, time.UTC)
	cr.checkField(env, 0, fieldInput{text: "", origin: "free-text"})
	// longer than MaxFieldChars: the typed part lies beyond the cut
	cr.checkField(env, 0, fieldInput{text: strings.Repeat("x", 650) + " 25-12-2019 10:30", origin: "long-text"})
	cr.checkField(env, 1, fieldInput{text: strings.Repeat(" ", 650) + "12.5", origin: "long-text"})
	cr.checkField(env, 1, fieldInput{text: "12.5 " + strings.Repeat("x", 700), origin: "long-text"})
}
