// Package p13 is the runtime-monitoring check for property C13
// ("Values survive their stored text and JSON forms").
//
// Every case runs the real goflow conversion code (types.ToXText/ToXNumber/ToXDateTime/ToXDate/
// ToXTime, XDateTime/XDate/XTime.Render/Format, parse_json/json, operators.Equal, the field
// modifier and the contact (un)marshaller) and lets a round-trip oracle watch it.
//
// Oracle clauses (each with its own counters, see Floors):
//
//	numbers  ToXNumber(ToXText(n)) == n (decimal equality), n.Render() and json(n) likewise
//	datetime ISO form parses back to the same instant at microsecond precision; for each of
//	         the 3 date x 4 time environment formats: Format(parse(Format(d))) == Format(d)
//	date     Render / Format(env) parse back (ToXDate) to the same date
//	time     Render parses back (ToXTime) to the same time at microsecond precision;
//	         Format(parse(Format(t))) == Format(t) for the 4 time formats
//	json     json(parse_json(doc)) is JSON-equivalent to doc (reference: encoding/json with
//	         json.Number, numbers as decimals, last-wins duplicate keys)
//	equal    (x = y) is the boolean (Render(x) == Render(y)); (n1 = n2) implies n1 == n2
//	field    a field value set through the real field modifier: the typed parts are the values
//	         the text was rendered from; they survive the contact JSON; the stored text
//	         re-parses (same environment, same clock) to the stored typed parts
package p13

import (
	"fmt"
	"runtime/debug"
	"sync"
	"time"

	"github.com/nyaruka/gocommon/dates"

	"verif/internal/fw"
)

const propID = "C13"

type c13 struct{}

func init() { fw.Register(&c13{}) }

func (p *c13) ID() string { return propID }

func (p *c13) Rule() string {
	return "case kind = generated index mod 6: (0) 8 decimals (coefficient <= 40 digits, exponent -30..30, both signs, trailing zeros) plus 2 number-like texts (if goflow accepts one, the number it denotes is checked) " +
		"plus 2 extreme numbers (rendering of hundreds to thousands of characters: |exponent| 100..3000, rendering length within 3 of a round length, 150..1600-digit coefficients, products / powers, JSON numbers with |E| <= 1000 read by parse_json's reader); " +
		"(1) one instant (year 1..9999 uniform / modern / boundary years / within 26h of a zone transition; second and sub-second parts; 24 zones incl. DST, half-hour, midnight-DST, fixed offsets, UTC) " +
		"through the ISO form and all 3x4 environment date/time formats under one environment zone; " +
		"(2) one XDate and one XTime through ISO and all environment formats; (3) one JSON document (nesting <= 6, escapes, surrogate pairs, big/exponent numbers |E|<=400, duplicate / case-variant / empty / escaped keys, random whitespace); " +
		"(4) 10 pairs of values for '='; (5) 6 field texts through the field modifier and the contact JSON. " +
		"Non-trivial: (0) some number is not an integer below 1000; (1) instant is not midnight UTC; (2) time of day not 00:00:00 or date not January 1st; " +
		"(3) document has a container nested in a container; (4) some pair has operands of different types or a container operand; (5) some text parsed to a typed (number/datetime) value. " +
		"Distinct = distinct generated inputs (canonical text of all inputs of the case)."
}

func (p *c13) Directed() []string {
	return []string{"numbers", "datetimes-grid", "dates-times-grid", "json-corpus", "equal-corpus", "fields-corpus"}
}

func (p *c13) NumGenerated(tier string) int {
	if tier == "thorough" {
		return 4800000
	}
	return 48000
}

func (p *c13) BatchSize(tier string) int {
	if tier == "thorough" {
		return 30000
	}
	return 1500
}

func (p *c13) CaseTimeoutS() int { return 30 }

func (p *c13) Floors(tier string) []string {
	return []string{
		"num.text_roundtrip", "num.json_roundtrip", "num.nonint_or_big",
		"num.extreme", "num.render_over_256_chars", "num.render_over_1000_chars", "num.extreme.via_json_read",
		"dt.iso", "dt.iso_json", "dt.env_format", "dt.env_format.ampm_midnight_or_noon", "dt.near_transition",
		"date.iso", "date.env_format", "time.iso", "time.env_format",
		"json.docs", "json.nested", "json.dup_keys", "json.case_variant_keys", "json.empty_key", "json.escapes", "json.surrogate_pairs", "json.big_numbers", "json.via_evaluator",
		"eq.checked", "eq.true", "eq.false", "eq.via_evaluator", "eq.cross_type_true",
		"field.applied", "field.number_from_render", "field.datetime_from_iso", "field.datetime_from_env_format", "field.persisted", "field.reparsed",
	}
}

func (p *c13) ExtraEvidence(tier string, counters map[string]int64) map[string]any {
	names := []string{}
	for _, z := range allZones() {
		names = append(names, z.String())
	}
	return map[string]any{
		"zones_loaded":           names,
		"iso_precision_demanded": "microseconds (the documented canonical form of XDateTime/XTime); sub-microsecond input digits are not demanded back",
		"env_format_comparison":  "Format(parse(Format(v))) == Format(v) under the same environment (rendered precision, immune to DST-fold ambiguity)",
		"clock":                  "fixed at " + fixedNow.Format(time.RFC3339Nano) + " (field parsing fills a missing time of day from env.Now())",
		"violations_journalled":  "at most 4 per signature per worker process; all are counted in counters violations_observed.<signature>",
	}
}

// WorkerInit fixes the process clock: field parsing fills a missing time of day from env.Now() and
// two-digit-year logic reads dates.Now(); with a moving clock "re-parsing the stored text" would not even be
// a function of the text. (No generated text has a two-digit year.)
func (p *c13) WorkerInit(tier string, seed int64) {
	dates.SetNowFunc(dates.NewFixedNow(fixedNow))
}

var fixedNow = time.Date(2026, 9, 26, 13, 14, 15, 161718000, time.UTC)

// run is the per-case state shared by the clause files.
type run struct {
	res *fw.Result
	fp  []string // canonical inputs (fingerprint parts)
}

// Violations with the same signature are journalled at most maxPerSig times per worker process (the known
// year<1000 defect alone is hit by ~10% of the datetime cases); the rest are only counted. A replay runs in a
// fresh process, so every witness stays reproducible.
const maxPerSig = 4

var (
	sigMu    sync.Mutex
	sigCount = map[string]int{}
)

func (cr *run) violate(sig, what string, witness map[string]any) {
	cr.res.Count("violations_observed", 1)
	cr.res.Count("violations_observed."+sig, 1)
	sigMu.Lock()
	sigCount[sig]++
	n := sigCount[sig]
	sigMu.Unlock()
	if n > maxPerSig {
		return
	}
	cr.res.Violate(sig, what, witness)
}

// guard runs f; a panic inside goflow is a violation of the round trip it interrupted.
func (cr *run) guard(entry string, input any, f func()) {
	fw.SetDetail(entry)
	defer func() {
		if rec := recover(); rec != nil {
			st := string(debug.Stack())
			if fw.InnermostFrame(st) == "?" {
				panic(rec) // harness bug: let the worker report it as inconclusive
			}
			cr.violate(fw.PanicSignature(entry, rec, st), fmt.Sprintf("%s panicked: %v", entry, rec),
				map[string]any{"entry": entry, "input": input, "panic": fmt.Sprint(rec), "stack": fw.TrimStack(st)})
		}
	}()
	f()
}

func (p *c13) Run(c fw.Case) fw.Result {
	res := fw.Result{}
	cr := &run{res: &res}
	// the worker sets the clock in WorkerInit; replays and custom callers may not have
	dates.SetNowFunc(dates.NewFixedNow(fixedNow))
	r := fw.NewRand(c.Seed, propID, c.Index)

	if c.Directed != "" {
		switch c.Directed {
		case "numbers":
			cr.directedNumbers()
			// the directed part of the extreme class runs inside this case: a new directed name would shift the
			// index (and with it the content) of every generated case
			cr.directedNumbersExtreme()
		case "datetimes-grid":
			cr.directedDatetimes()
		case "dates-times-grid":
			cr.directedDatesTimes()
		case "json-corpus":
			cr.directedJSON()
		case "equal-corpus":
			cr.directedEqual()
		case "fields-corpus":
			cr.directedFields()
		}
		res.Fingerprint = "directed:" + c.Directed
		res.NonTrivial = true
		res.Sample = map[string]any{"case": c.ID()}
		return res
	}

	kind := c.Gen % 6
	var sample map[string]any
	switch kind {
	case 0:
		res.NonTrivial, sample = cr.genNumbers(r)
	case 1:
		res.NonTrivial, sample = cr.genDatetime(r)
	case 2:
		res.NonTrivial, sample = cr.genDateTimeOfDay(r)
	case 3:
		res.NonTrivial, sample = cr.genJSON(r, c.Gen)
	case 4:
		res.NonTrivial, sample = cr.genEqual(r)
	case 5:
		res.NonTrivial, sample = cr.genFields(r)
	}
	res.Fingerprint = fmt.Sprintf("k%d|%s", kind, joinFP(cr.fp))
	if res.NonTrivial {
		res.Sample = sample
	}
	return res
}

func joinFP(parts []string) string {
	n := 0
	for _, p := range parts {
		n += len(p) + 1
	}
	b := make([]byte, 0, n)
	for _, p := range parts {
		b = append(b, p...)
		b = append(b, 0x1f)
	}
	return string(b)
}

func trunc(s string, n int) string {
	if len(s) <= n {
		return s
	}
	for n > 0 && (s[n]&0xC0) == 0x80 {
		n--
	}
	return s[:n] + "…"
}
