package p13

import (
	"fmt"
	"math/big"
	"strings"

	"github.com/nyaruka/goflow/envs"
	"github.com/nyaruka/goflow/excellent/types"
	"github.com/shopspring/decimal"

	"verif/internal/fw"
)

// The "extreme" class of the numbers clause: the property quantifies over decimals of "any sign, scale and
// magnitude within the type", so besides the everyday numbers of genDecimal (<= 40 digits, exponent -30..30) the
// workload draws numbers whose canonical rendering is hundreds to thousands of characters long:
//
//	magnitude        short coefficient, |exponent| 100..3000 (1e1000, -25e-1200 ...)
//	length-boundary  rendering length within 3 of a round length (255, 256, 512, 1000, 1024, 2000, 2048, 4096) as an
//	                 integer, a negative integer or a fraction
//	long-coefficient 150..1600 significant digits with the decimal point anywhere (also left of all digits)
//	arithmetic       products of 2..5 numbers of 100..400 digits and powers b^n (b of 1..3 digits, n 200..1500), built
//	                 with math/big from (coefficient, exponent) - what the arithmetic functions of a flow produce
//	via-json         a JSON number d[.ddd]e[+-]E with |E| <= 1000 (the largest / smallest numbers parse_json reads) read
//	                 through types.JSONToXValue; the number read is the one that has to survive its text form
//
// The oracle is the one of checkNumber: goflow renders, goflow converts back, and equality is decided on
// (coefficient, exponent) with math/big. Nothing here knows how long a text goflow is willing to read.
//
// One deliberate restriction: the *JSON* form of a number (json(n) read back) is only demanded when the number's
// normalised decimal exponent is >= -jsonScaleBound. goflow's JSON reader refuses numbers whose decimal exponent is
// beyond +-1000 (excellent/types/json.go, maxJSONNumberExponent - a documented resource bound of the unchanged tree),
// and json() writes numbers positionally, so a number with more than 1000 decimal places is written as a document
// the reader refuses. The property's number clause is about the text form; those numbers are counted in
// num.json_not_demanded_scale_beyond_reader_bound instead of being judged.
const jsonScaleBound = 1000

// normExponent: the exponent of d after trailing zeros of the coefficient have been moved into it (what a positional
// rendering without trailing zeros shows as decimal places, negated); 0 for zero.
func normExponent(d decimal.Decimal) int64 {
	c := new(big.Int).Set(d.Coefficient())
	e := int64(d.Exponent())
	if c.Sign() == 0 {
		return 0
	}
	ten := big.NewInt(10)
	q, m := new(big.Int), new(big.Int)
	for e < 0 {
		q.QuoRem(c, ten, m)
		if m.Sign() != 0 {
			break
		}
		c.Set(q)
		e++
	}
	return e
}

// patternDigits: n deterministic digits (directed cases), first digit non-zero.
func patternDigits(n, salt int) string {
	b := make([]byte, n)
	for i := range b {
		b[i] = byte('0' + (i*7+salt*3+i/10)%10)
	}
	if n > 0 && b[0] == '0' {
		b[0] = byte('1' + salt%9)
	}
	return string(b)
}

func decFrom(digits string, neg bool, exp int) decimal.Decimal {
	c, ok := new(big.Int).SetString(digits, 10)
	if !ok {
		panic("harness: bad digits " + trunc(digits, 40))
	}
	if neg {
		c.Neg(c)
	}
	return decimal.NewFromBigInt(c, int32(exp))
}

var roundLengths = []int{255, 256, 512, 1000, 1024, 2000, 2048, 4096}

// decOfRenderLength: a number whose positional rendering has exactly length L (L >= 4).
// form 0: integer of L digits; 1: negative integer ("-" + L-1 digits); 2: fraction "0." + L-2 places;
// 3: digits on both sides of the point.
func decOfRenderLength(L, form int, digitsOf func(n int) string) decimal.Decimal {
	switch form {
	case 0, 1:
		n := L
		if form == 1 {
			n = L - 1
		}
		k := n
		if k > 12 {
			k = 1 + (n % 12)
		}
		return decFrom(digitsOf(k), form == 1, n-k) // k significant digits followed by n-k zeros
	case 2:
		places := L - 2
		k := 1 + (places % 9)
		ds := digitsOf(k)
		if ds[len(ds)-1] == '0' {
			ds = ds[:len(ds)-1] + "7" // the last place must not be a zero (it would be trimmed)
		}
		return decFrom(ds, false, -places)
	default:
		intDigits := 1 + L/3
		places := L - 1 - intDigits
		ds := digitsOf(intDigits + places)
		if ds[len(ds)-1] == '0' {
			ds = ds[:len(ds)-1] + "3"
		}
		return decFrom(ds, false, -places)
	}
}

// powDec: (c * 10^e)^n computed on the parts.
func powDec(c int64, e int, n int) decimal.Decimal {
	cc := new(big.Int).Exp(big.NewInt(c), big.NewInt(int64(n)), nil)
	return decimal.NewFromBigInt(cc, int32(e*n))
}

type extremeNumber struct {
	d      decimal.Decimal
	shape  string
	origin string
	doc    string // via-json: the JSON text
}

func genExtremeNumber(r *fw.Rand) extremeNumber {
	neg := r.Chance(0.4)
	switch r.Weighted([]int{26, 22, 18, 16, 18}) {
	case 0: // magnitude
		digits := randDigits(r, r.Range(1, 20), true)
		var e int
		switch r.Weighted([]int{45, 40, 15}) {
		case 0:
			e = r.Range(100, 990)
		case 1:
			e = r.Range(991, 1600)
		default:
			e = r.Range(1601, 3000)
		}
		if r.Bool() {
			e = -e
		}
		return extremeNumber{d: decFrom(digits, neg, e), shape: "magnitude", origin: "extreme:magnitude"}
	case 1: // length boundary
		L := fw.Pick(r, roundLengths) + r.Range(-3, 3)
		form := r.Intn(4)
		d := decOfRenderLength(L, form, func(n int) string {
			s := randDigits(r, n, true)
			return s
		})
		return extremeNumber{d: d, shape: "length-boundary", origin: fmt.Sprintf("extreme:length-boundary:%d:form%d", L, form)}
	case 2: // long coefficient
		n := r.Range(150, 1600)
		digits := randDigits(r, n, true)
		var e int
		switch r.Weighted([]int{25, 40, 20, 15}) {
		case 0:
			e = 0
		case 1:
			e = -r.Range(1, n) // the point inside the digits
		case 2:
			e = -n - r.Range(0, 400) // the point left of all digits
		default:
			e = r.Range(1, 400)
		}
		return extremeNumber{d: decFrom(digits, neg, e), shape: "long-coefficient", origin: "extreme:long-coefficient"}
	case 3: // arithmetic
		if r.Bool() {
			k := r.Range(2, 5)
			c := big.NewInt(1)
			e := 0
			for i := 0; i < k; i++ {
				f, _ := new(big.Int).SetString(randDigits(r, r.Range(100, 400), true), 10)
				c.Mul(c, f)
				e += r.Range(-400, 300)
			}
			if neg {
				c.Neg(c)
			}
			return extremeNumber{d: decimal.NewFromBigInt(c, int32(e)), shape: "arithmetic", origin: fmt.Sprintf("extreme:product-of-%d", k)}
		}
		base := int64(r.Range(2, 999))
		if base%10 == 0 {
			base++
		}
		be := -r.Intn(4)
		n := r.Range(200, 1500)
		if neg {
			base = -base
		}
		return extremeNumber{d: powDec(base, be, n), shape: "arithmetic", origin: fmt.Sprintf("extreme:power:%de%d^%d", base, be, n)}
	default: // via JSON
		var b strings.Builder
		if neg {
			b.WriteByte('-')
		}
		b.WriteString(randDigits(r, r.Range(1, 3), true))
		if r.Chance(0.5) {
			b.WriteByte('.')
			b.WriteString(randDigits(r, r.Range(1, 12), false))
		}
		b.WriteByte(fw.Pick(r, []byte("eE")))
		sign := fw.Pick(r, []string{"", "+", "-"})
		b.WriteString(sign)
		var e int
		if r.Chance(0.5) {
			e = r.Range(985, 1000)
		} else {
			e = r.Range(200, 984)
		}
		fmt.Fprintf(&b, "%d", e)
		doc := b.String()
		// the number the document denotes, from the document's own characters (trusts decimal.NewFromString for
		// the arithmetic of mantissa and exponent only; the verdict on the text round trip does not depend on it)
		d, err := decimal.NewFromString(doc)
		if err != nil {
			panic("harness: generated JSON number does not parse: " + doc)
		}
		return extremeNumber{d: d, shape: "via-json", origin: "extreme:via-json:" + doc, doc: doc}
	}
}

// checkExtreme runs one extreme number through the numbers clause.
func (cr *run) checkExtreme(env envs.Environment, x extremeNumber) {
	cr.res.Count("num.extreme", 1)
	cr.res.Count("num.extreme."+x.shape, 1)
	d := x.d
	if x.doc != "" {
		// the number under test is the one goflow's JSON reader produced
		var read *types.XNumber
		cr.guard("number:JSONToXValue(extreme)", x.doc, func() {
			v := types.JSONToXValue([]byte(x.doc))
			if n, ok := v.(*types.XNumber); ok {
				read = n
			}
		})
		if read == nil {
			// the reader's exponent bound (or anything else) refused the document: nothing was read, so there is
			// no number whose text form could be judged (the JSON clause has its own documents)
			cr.res.Count("num.extreme.via_json_not_read", 1)
			return
		}
		cr.res.Count("num.extreme.via_json_read", 1)
		if !decEqual(read.Native(), x.d) {
			cr.violate("value-mismatch|number-json", "a JSON number is read as a different number",
				map[string]any{"json": x.doc, "expected": decCanon(x.d), "read": trunc(decCanon(read.Native()), 200)})
			return
		}
		d = read.Native()
	}
	cr.checkNumber(env, d, x.origin)
}

// countRenderLength makes the length of the canonical text visible in the evidence.
func (cr *run) countRenderLength(n int) {
	switch {
	case n > 1000:
		cr.res.Count("num.render_over_1000_chars", 1)
		cr.res.Count("num.render_over_256_chars", 1)
	case n > 256:
		cr.res.Count("num.render_over_256_chars", 1)
	}
}

func (cr *run) directedNumbersExtreme() {
	env := envs.NewBuilder().Build()
	envComma := envs.NewBuilder().WithNumberFormat(&envs.NumberFormat{DecimalSymbol: ",", DigitGroupingSymbol: "."}).Build()
	both := func(x extremeNumber) {
		cr.checkExtreme(env, x)
		cr.checkExtreme(envComma, x)
	}

	// magnitude: a few coefficients at exponents from moderate to far beyond anything JSON can carry
	for ci, c := range []string{"1", "999", "25", "123456789", "70000000000000000003"} {
		for _, e := range []int{120, 300, 640, 997, 998, 999, 1000, 1001, 1002, 1003, 1500, 3000} {
			for _, neg := range []bool{false, true} {
				both(extremeNumber{d: decFrom(c, neg, e), shape: "magnitude", origin: fmt.Sprintf("directed:%s%se%d", sign(neg), c, e)})
				if ci < 4 {
					both(extremeNumber{d: decFrom(c, neg, -e), shape: "magnitude", origin: fmt.Sprintf("directed:%s%se-%d", sign(neg), c, e)})
				}
			}
		}
	}
	// every rendering length within 3 of the round lengths, in all four forms
	for _, base := range roundLengths {
		for delta := -3; delta <= 3; delta++ {
			for form := 0; form < 4; form++ {
				L := base + delta
				d := decOfRenderLength(L, form, func(n int) string { return patternDigits(n, L+form) })
				both(extremeNumber{d: d, shape: "length-boundary", origin: fmt.Sprintf("directed:length-boundary:%d:form%d", L, form)})
			}
		}
	}
	// long coefficients with the point at the end, inside, at the very front and left of all digits
	for i, n := range []int{150, 300, 640, 999, 1000, 1001, 1600} {
		digits := patternDigits(n, i)
		if digits[n-1] == '0' {
			digits = digits[:n-1] + "9"
		}
		for _, e := range []int{0, -n / 2, -(n - 1), -n, -n - 50, 7} {
			both(extremeNumber{d: decFrom(digits, i%2 == 1, e), shape: "long-coefficient", origin: fmt.Sprintf("directed:%d-digits-e%d", n, e)})
		}
	}
	// arithmetic: powers and products
	for _, b := range []struct {
		c int64
		e int
	}{{5, -1}, {15, -1}, {2, 0}, {7, -2}, {101, -2}, {-3, 0}, {-25, -2}} {
		for _, n := range []int{333, 1000, 1201, 1500} {
			both(extremeNumber{d: powDec(b.c, b.e, n), shape: "arithmetic", origin: fmt.Sprintf("directed:power:%de%d^%d", b.c, b.e, n)})
		}
	}
	for k := 2; k <= 5; k++ {
		for _, fe := range []int{250, -250, 0} {
			c := big.NewInt(1)
			for i := 0; i < k; i++ {
				f, _ := new(big.Int).SetString(patternDigits(9+40*i, k+i), 10)
				c.Mul(c, f)
			}
			both(extremeNumber{d: decimal.NewFromBigInt(c, int32(fe*k)), shape: "arithmetic", origin: fmt.Sprintf("directed:product-of-%d-e%d", k, fe*k)})
		}
	}
	// the numbers at the edge of what the JSON reader accepts (decimal exponent +-1000) and well inside
	for _, m := range []string{"1", "-1", "9.99", "-2.5", "123456789", "-0.001", "4.000"} {
		for _, e := range []int{500, 990, 997, 998, 999, 1000} {
			for _, s := range []string{"", "+", "-"} {
				doc := fmt.Sprintf("%se%s%d", m, s, e)
				if s == "+" {
					doc = fmt.Sprintf("%sE%s%d", m, s, e)
				}
				d, err := decimal.NewFromString(doc)
				if err != nil {
					panic("harness: directed JSON number does not parse: " + doc)
				}
				cr.checkExtreme(env, extremeNumber{d: d, shape: "via-json", origin: "directed:via-json:" + doc, doc: doc})
			}
		}
	}
}

func sign(neg bool) string {
	if neg {
		return "-"
	}
	return ""
}
