package p13

import (
	"encoding/json"
	"fmt"
	"io"
	"sort"
	"strings"
	"unicode"

	"github.com/nyaruka/goflow/envs"
	"github.com/nyaruka/goflow/excellent"
	"github.com/nyaruka/goflow/excellent/functions"
	"github.com/nyaruka/goflow/excellent/types"
	"github.com/shopspring/decimal"

	"verif/internal/fw"
)

// ---- generator: JSON *text* (Appendix A.5) --------------------------------------------------------

type docStats struct {
	maxDepth       int // 1 = a top-level container, 2 = a container in a container, …
	dupKeys        bool
	caseVariant    bool
	emptyKey       bool
	escapes        bool
	surrogatePairs bool
	bigNumbers     bool
	exponents      bool
	escapedKey     bool
}

type docGen struct {
	r  *fw.Rand
	b  strings.Builder
	st docStats
	n  int // values emitted (size bound)
}

func (g *docGen) ws() {
	if g.r.Chance(0.25) {
		g.b.WriteString(fw.Pick(g.r, []string{" ", "  ", "\n", "\t", "\r\n", " \n  "}))
	}
}

var rawRunes = []rune{'\u00e9', '\u00df', '\u0130', '\u0131', '\u212a', '\u017f', '\u65e5', '\u672c', '\U0001f600', '\U0001d11e', '\u2028', '\u2029', '\ufeff', '\ufffd', '\u00a0', '\u007f', '\u03a9', '\u044f', '\u0663', '\U0010ffff'}
var asciiChars = []byte("abcxyzABCXYZ0129 _-./:@#$%&*()[]{}<>=+'`~!?,;|^")

func hex4(r *fw.Rand, v int) string {
	s := fmt.Sprintf("%04x", v)
	if r.Bool() {
		s = strings.ToUpper(s)
	}
	return s
}

// str writes one JSON string literal (valid UTF-8, surrogates only in pairs).
func (g *docGen) str(maxAtoms int) {
	r := g.r
	g.b.WriteByte('"')
	n := r.Intn(maxAtoms + 1)
	for i := 0; i < n; i++ {
		switch r.Weighted([]int{40, 12, 14, 12, 8, 6}) {
		case 0:
			g.b.WriteByte(fw.Pick(r, asciiChars))
		case 1:
			g.b.WriteRune(fw.Pick(r, rawRunes))
		case 2:
			g.b.WriteString(fw.Pick(r, []string{`\"`, `\\`, `\/`, `\b`, `\f`, `\n`, `\r`, `\t`}))
			g.st.escapes = true
		case 3:
			// \uXXXX of a BMP code point that is not a surrogate
			var cp int
			switch r.Intn(4) {
			case 0:
				cp = r.Intn(0x20) // controls incl. \u0000
			case 1:
				cp = fw.Pick(r, []int{0x22, 0x5c, 0x2f, 0x41, 0x61, 0x7f, 0xe9, 0x130, 0x131, 0x2028, 0xfeff, 0xfffd, 0xffff, 0xd7ff, 0xe000})
			default:
				cp = r.Intn(0x10000)
				if cp >= 0xd800 && cp <= 0xdfff {
					cp = 0x20ac
				}
			}
			g.b.WriteString(`\u` + hex4(r, cp))
			g.st.escapes = true
		case 4:
			hi := 0xd800 + r.Intn(0x400)
			lo := 0xdc00 + r.Intn(0x400)
			if r.Chance(0.3) {
				hi, lo = 0xd83d, 0xde00 // 😀
			}
			g.b.WriteString(`\u` + hex4(r, hi) + `\u` + hex4(r, lo))
			g.st.escapes = true
			g.st.surrogatePairs = true
		case 5:
			g.b.WriteString(fw.Pick(r, []string{"true", "null", "12", "1e5", "2020-01-01", "@(1+2)"}))
		}
	}
	g.b.WriteByte('"')
}

var numberPool = []string{"0", "-0", "1.0", "1.50", "1e2", "1E-2", "12345678901234567890", "1e400", "-1e-400", "1E+2", "0.0", "-0.0", "0e0", "1e-0", "123456789012345678901234567890.123456789012345678901234567890",
	"9.999999999999999999e399", "1.7976931348623157e308", "5e-324", "2.5E400", "100", "-7", "3.14159", "0.1", "1e0", "10e-1", "0.10"}

func (g *docGen) num() {
	r := g.r
	if r.Chance(0.45) {
		s := fw.Pick(r, numberPool)
		g.b.WriteString(s)
		g.noteNumber(s)
		return
	}
	var b strings.Builder
	if r.Chance(0.35) {
		b.WriteByte('-')
	}
	if r.Chance(0.2) {
		b.WriteByte('0')
	} else {
		var n int
		switch r.Weighted([]int{50, 30, 20}) {
		case 0:
			n = r.Range(1, 4)
		case 1:
			n = r.Range(5, 19)
		default:
			n = r.Range(20, 40)
		}
		b.WriteString(randDigits(r, n, true))
	}
	if r.Chance(0.4) {
		b.WriteByte('.')
		b.WriteString(randDigits(r, r.Range(1, 30), false))
	}
	if r.Chance(0.3) {
		b.WriteByte(fw.Pick(r, []byte("eE")))
		b.WriteString(fw.Pick(r, []string{"", "+", "-"}))
		e := r.Range(0, 30)
		if r.Chance(0.3) {
			e = r.Range(0, 400)
		}
		if r.Chance(0.2) {
			b.WriteString("0") // leading zero in the exponent is legal JSON
		}
		fmt.Fprintf(&b, "%d", e)
	}
	g.b.WriteString(b.String())
	g.noteNumber(b.String())
}

func (g *docGen) noteNumber(s string) {
	if strings.ContainsAny(s, "eE") {
		g.st.exponents = true
	}
	if len(s) > 19 || strings.Contains(s, "e3") || strings.Contains(s, "e4") || strings.Contains(s, "E4") || strings.Contains(s, "e-4") {
		g.st.bigNumbers = true
	}
}

var keyPool = []string{`a`, `A`, `b`, `B`, `key`, `Key`, `KEY`, ``, `0`, `1`, `a b`, `é`, `É`, `name`, `value`, `日本`, `😀`, `ß`, `SS`, `ı`, `I`, `i`, `İ`, `x.y`, `__proto__`, `null`, `extra`,
	// the reserved default key and its look-alikes (an object keeps its default under exactly "__default__"; anything else is an ordinary key)
	`__default__`, `__Default__`, `__DEFAULT__`, `__default`, `default`, `_default_`, `__default__ `, `__defaulT__`}

// swapCase flips the case of every cased rune (ASCII and beyond), to make keys that differ only in case.
func swapCase(s string) string {
	return strings.Map(func(c rune) rune {
		if unicode.IsUpper(c) {
			return unicode.ToLower(c)
		}
		if unicode.IsLower(c) {
			return unicode.ToUpper(c)
		}
		return c
	}, s)
}

// key writes an object key and returns its decoded value (as far as the generator knows it; "" for
// random strings) — only used for the statistics.
func (g *docGen) key(prev []string) string {
	r := g.r
	switch {
	case len(prev) > 0 && r.Chance(0.18):
		k := fw.Pick(r, prev) // duplicate key
		g.writeKeyLiteral(k)
		g.st.dupKeys = true
		return k
	case len(prev) > 0 && r.Chance(0.18):
		k := swapCase(fw.Pick(r, prev))
		g.writeKeyLiteral(k)
		return k
	case r.Chance(0.75):
		k := fw.Pick(r, keyPool)
		g.writeKeyLiteral(k)
		return k
	}
	start := g.b.Len()
	g.str(6)
	lit := g.b.String()[start:]
	var k string
	if json.Unmarshal([]byte(lit), &k) != nil {
		return "\x00?"
	}
	if strings.Contains(lit, `\`) {
		g.st.escapedKey = true
	}
	return k
}

// writeKeyLiteral writes k as a JSON string, sometimes with \u escapes for some of its characters.
func (g *docGen) writeKeyLiteral(k string) {
	r := g.r
	g.b.WriteByte('"')
	for _, c := range k {
		if c < 0x10000 && r.Chance(0.12) {
			g.b.WriteString(`\u` + hex4(r, int(c)))
			g.st.escapes = true
			g.st.escapedKey = true
			continue
		}
		switch {
		case c == '"' || c == '\\':
			g.b.WriteByte('\\')
			g.b.WriteRune(c)
		case c < 0x20:
			g.b.WriteString(`\u` + hex4(r, int(c)))
		default:
			g.b.WriteRune(c)
		}
	}
	g.b.WriteByte('"')
}

func (g *docGen) value(depth int) {
	r := g.r
	g.n++
	w := []int{16, 16, 22, 26, 8, 6, 6} // object, array, string, number, true, false, null
	if depth >= 6 || g.n > 60 {
		w[0], w[1] = 0, 0
	} else if depth == 0 {
		w[0], w[1] = 40, 30
	}
	switch r.Weighted(w) {
	case 0:
		if depth+1 > g.st.maxDepth {
			g.st.maxDepth = depth + 1
		}
		g.b.WriteByte('{')
		g.ws()
		n := r.Intn(6)
		if r.Chance(0.1) {
			n = 0
		}
		var prev []string
		for i := 0; i < n; i++ {
			if i > 0 {
				g.b.WriteByte(',')
				g.ws()
			}
			k := g.key(prev)
			if k == "" {
				g.st.emptyKey = true
			}
			for _, p := range prev {
				if p != k && strings.EqualFold(p, k) {
					g.st.caseVariant = true
				}
				if p == k {
					g.st.dupKeys = true
				}
			}
			prev = append(prev, k)
			g.ws()
			g.b.WriteByte(':')
			g.ws()
			g.value(depth + 1)
			g.ws()
		}
		g.b.WriteByte('}')
	case 1:
		if depth+1 > g.st.maxDepth {
			g.st.maxDepth = depth + 1
		}
		g.b.WriteByte('[')
		g.ws()
		n := r.Intn(6)
		for i := 0; i < n; i++ {
			if i > 0 {
				g.b.WriteByte(',')
				g.ws()
			}
			g.value(depth + 1)
			g.ws()
		}
		g.b.WriteByte(']')
	case 2:
		g.str(12)
	case 3:
		g.num()
	case 4:
		g.b.WriteString("true")
	case 5:
		g.b.WriteString("false")
	case 6:
		g.b.WriteString("null")
	}
}

func genDoc(r *fw.Rand) (string, docStats) {
	g := &docGen{r: r}
	g.ws()
	g.value(0)
	g.ws()
	return g.b.String(), g.st
}

// ---- reference decoding and comparison -----------------------------------------------------------

// refDecode: encoding/json with json.Number; objects become map[string]any (the last duplicate wins).
func refDecode(s string) (any, error) {
	dec := json.NewDecoder(strings.NewReader(s))
	dec.UseNumber()
	var v any
	if err := dec.Decode(&v); err != nil {
		return nil, err
	}
	if _, err := dec.Token(); err != io.EOF {
		return nil, fmt.Errorf("trailing data after the JSON value")
	}
	return v, nil
}

type jsonDiff struct {
	path string // JSON path of the first difference
	kind string // coarse kind (part of the signature)
	want string
	got  string
}

func kindOf(v any) string {
	switch v.(type) {
	case nil:
		return "null"
	case bool:
		return "boolean"
	case json.Number:
		return "number"
	case string:
		return "string"
	case []any:
		return "array"
	case map[string]any:
		return "object"
	}
	return fmt.Sprintf("%T", v)
}

func jsonEquivalent(want, got any, path string) *jsonDiff {
	if kindOf(want) != kindOf(got) {
		return &jsonDiff{path, "type", kindOf(want), kindOf(got)}
	}
	switch w := want.(type) {
	case nil:
		return nil
	case bool:
		if w != got.(bool) {
			return &jsonDiff{path, "boolean", fmt.Sprint(w), fmt.Sprint(got)}
		}
	case string:
		if w != got.(string) {
			return &jsonDiff{path, "string", fmt.Sprintf("%+q", w), fmt.Sprintf("%+q", got.(string))}
		}
	case json.Number:
		dw, err1 := decimal.NewFromString(w.String())
		dg, err2 := decimal.NewFromString(got.(json.Number).String())
		if err1 != nil || err2 != nil || !decEqual(dw, dg) {
			return &jsonDiff{path, "number", trunc(w.String(), 80), trunc(got.(json.Number).String(), 80)}
		}
	case []any:
		g := got.([]any)
		if len(w) != len(g) {
			return &jsonDiff{path, "array-length", fmt.Sprint(len(w)), fmt.Sprint(len(g))}
		}
		for i := range w {
			if d := jsonEquivalent(w[i], g[i], fmt.Sprintf("%s[%d]", path, i)); d != nil {
				return d
			}
		}
	case map[string]any:
		g := got.(map[string]any)
		keys := make([]string, 0, len(w))
		for k := range w {
			keys = append(keys, k)
		}
		sort.Strings(keys)
		for _, k := range keys {
			if _, ok := g[k]; !ok {
				kind := "object-key-missing"
				if k == "__default__" {
					kind = "object-key-missing|__default__"
				}
				return &jsonDiff{path, kind, fmt.Sprintf("key %+q", k), "absent"}
			}
		}
		if len(g) != len(w) {
			for k := range g {
				if _, ok := w[k]; !ok {
					return &jsonDiff{path, "object-key-extra", "absent", fmt.Sprintf("key %+q", k)}
				}
			}
		}
		for _, k := range keys {
			if d := jsonEquivalent(w[k], g[k], path+"."+fmt.Sprintf("%+q", k)); d != nil {
				return d
			}
		}
	}
	return nil
}

// ---- clause "json" ------------------------------------------------------------------------------

var jsonEvaluator = excellent.NewEvaluator()

// checkJSONDoc: json(parse_json(doc)) must be JSON-equivalent to doc. viaEvaluator additionally goes through
// the expression evaluator (the path a flow takes) instead of calling the two functions directly.
func (cr *run) checkJSONDoc(env envs.Environment, doc string, viaEvaluator bool) {
	want, err := refDecode(doc)
	if err != nil {
		// generator bug, not a verdict
		cr.res.Count("json.generator_produced_invalid_json", 1)
		cr.res.Seen("json.generator_invalid_examples", trunc(doc, 200)+" :: "+err.Error())
		return
	}
	var out types.XValue
	entry := "json:parse_json/json"
	if viaEvaluator {
		entry = "json:evaluator"
	}
	cr.guard(entry, trunc(doc, 2000), func() {
		if viaEvaluator {
			ctx := types.NewXObject(map[string]types.XValue{"doc": types.NewXText(doc)})
			out, _ = jsonEvaluator.Expression(env, ctx, "json(parse_json(doc))")
			cr.res.Count("json.via_evaluator", 1)
		} else {
			v := functions.XFUNCTIONS["parse_json"].Call(env, []types.XValue{types.NewXText(doc)})
			out = functions.XFUNCTIONS["json"].Call(env, []types.XValue{v})
			cr.res.Count("json.via_functions", 1)
		}
	})
	cr.res.Count("json.docs", 1)
	w := map[string]any{"doc": trunc(doc, 2000), "via": entry}
	txt, ok := out.(*types.XText)
	if !ok {
		w["result"] = types.Describe(out)
		if xe, isErr := out.(*types.XError); isErr {
			w["result"] = "error: " + xe.Error()
		}
		cr.violate("json-roundtrip|error-result", "json(parse_json(doc)) of a valid JSON document is not a text", w)
		return
	}
	w["output"] = trunc(txt.Native(), 2000)
	got, err := refDecode(txt.Native())
	if err != nil {
		w["decode_error"] = err.Error()
		cr.violate("json-roundtrip|invalid-output", "json(parse_json(doc)) is not valid JSON", w)
		return
	}
	if d := jsonEquivalent(want, got, "$"); d != nil {
		w["path"], w["expected"], w["observed"] = d.path, d.want, d.got
		cr.violate("json-roundtrip|"+d.kind, "json(parse_json(doc)) is not JSON-equivalent to doc: "+d.kind+" at "+d.path, w)
		return
	}
	cr.res.Count("json.equivalent", 1)
}

func (cr *run) countDocStats(st docStats) {
	b := func(name string, v bool) {
		if v {
			cr.res.Count(name, 1)
		}
	}
	b("json.nested", st.maxDepth >= 2)
	b("json.depth_ge_4", st.maxDepth >= 4)
	b("json.dup_keys", st.dupKeys)
	b("json.case_variant_keys", st.caseVariant)
	b("json.empty_key", st.emptyKey)
	b("json.escapes", st.escapes)
	b("json.escaped_keys", st.escapedKey)
	b("json.surrogate_pairs", st.surrogatePairs)
	b("json.big_numbers", st.bigNumbers)
	b("json.exponent_numbers", st.exponents)
	cr.res.Seen("json.max_depth", fmt.Sprint(st.maxDepth))
}

func (cr *run) genJSON(r *fw.Rand, gen int) (bool, map[string]any) {
	doc, st := genDoc(r)
	env := envs.NewBuilder().Build()
	cr.countDocStats(st)
	cr.checkJSONDoc(env, doc, (gen/6)%4 == 0)
	cr.fp = append(cr.fp, doc)
	return st.maxDepth >= 2, map[string]any{"kind": "json", "doc": trunc(doc, 400), "max_depth": st.maxDepth}
}

var jsonCorpus = []string{
	`0`, `-0`, `1.0`, `1.50`, `1e2`, `1E-2`, `12345678901234567890`, `1e400`, `-1e-400`, `null`, `true`, `false`, `""`, `"a"`, `[]`, `{}`, ` [ ] `, ` { } `,
	`[0, -0, 1.0, 1.50, 1e2, 1E-2, 12345678901234567890, 1e400, 1E+2, 0e0, 5e-324]`,
	`{"a":1,"a":2}`, `{"a":1,"b":2,"a":{"c":[1,2]}}`, `{"a":1,"A":2}`, `{"key":1,"Key":2,"KEY":3,"key":4}`, `{"":1}`, `{"":1,"":2," ":3}`,
	`{"a":1,"bé":2,"\"q\"":3,"back\\slash":4,"new\nline":5,"😀":6}`,
	`"\u00e9\u00E9\ud83d\ude00\uD83D\uDE00\u0000\u001f\u2028\ufeff\uffff\/\b\f\n\r\t\"\\"`,
	"\"\U0001f600 \u00e9 \u65e5\u672c \U0001d11e \u2028\"",
	`{"a":{"b":{"c":{"d":{"e":{"f":1}}}}}}`, `[[[[[[1]]]]]]`, `{"a":[{"b":[{"c":[1,null]}]}]}`,
	`{"intents":[{"name":"book_flight","confidence":0.5},{"name":"book_hotel","confidence":0.25}],"entities":{"location":[{"value":"Quito","confidence":1.0}]}}`,
	"{\n\t\"a\" : [ 1 ,\r\n 2 ] ,\n \"b\" : { } \n}",
	`{"ß":1,"SS":2,"ss":3,"ı":4,"I":5,"i":6,"İ":7}`,
	`[{"a":1,"A":2},{"A":2,"a":1}]`,
	`{"a":null,"b":[null],"c":{"d":null}}`,
	`[true,false,null,"true","null","12",12]`,
}

func (cr *run) directedJSON() {
	env := envs.NewBuilder().Build()
	for _, doc := range jsonCorpus {
		st := statsOf(doc)
		cr.countDocStats(st)
		cr.checkJSONDoc(env, doc, false)
		cr.checkJSONDoc(env, doc, true)
	}
	// probe: the key that XObject reserves for its default value
	cr.res.Count("json.default_key_probe", 1)
	cr.checkJSONDoc(env, `{"__default__":1,"b":2}`, false)
}

// statsOf derives the statistics of a hand-written document from its reference decoding and text.
func statsOf(doc string) docStats {
	st := docStats{}
	st.escapes = strings.Contains(doc, `\`)
	low := strings.ToLower(doc)
	st.surrogatePairs = strings.Contains(low, `\ud83d\ude00`)
	st.exponents = strings.ContainsAny(doc, "eE") && strings.ContainsAny(doc, "0123456789")
	st.bigNumbers = strings.Contains(doc, "12345678901234567890") || strings.Contains(doc, "e400")
	dec := json.NewDecoder(strings.NewReader(doc))
	dec.UseNumber()
	type frame struct {
		obj  bool
		keys []string
		key  bool
	}
	var stack []*frame
	for {
		tok, err := dec.Token()
		if err != nil {
			break
		}
		top := func() *frame {
			if len(stack) == 0 {
				return nil
			}
			return stack[len(stack)-1]
		}
		if d, ok := tok.(json.Delim); ok {
			switch d {
			case '{', '[':
				if f := top(); f != nil && f.obj {
					f.key = true
				}
				stack = append(stack, &frame{obj: d == '{', key: true})
				if len(stack) > st.maxDepth {
					st.maxDepth = len(stack)
				}
			default:
				stack = stack[:len(stack)-1]
			}
			continue
		}
		f := top()
		if f == nil || !f.obj {
			continue
		}
		if f.key {
			k, _ := tok.(string)
			if k == "" {
				st.emptyKey = true
			}
			for _, p := range f.keys {
				if p == k {
					st.dupKeys = true
				} else if strings.EqualFold(p, k) {
					st.caseVariant = true
				}
			}
			f.keys = append(f.keys, k)
			f.key = false
		} else {
			f.key = true
		}
	}
	return st
}
