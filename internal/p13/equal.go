package p13

import (
	"fmt"
	"math/big"
	"reflect"
	"time"

	"github.com/nyaruka/gocommon/dates"
	"github.com/nyaruka/goflow/envs"
	"github.com/nyaruka/goflow/excellent"
	"github.com/nyaruka/goflow/excellent/operators"
	"github.com/nyaruka/goflow/excellent/types"
	"github.com/shopspring/decimal"

	"verif/internal/fw"
)

// Clause "equal". operators.Equal is textualBinary: both operands go through types.ToXText (nil -> "",
// otherwise x.Render()) and the two texts are compared with ==. The relation checked, for non-error x, y:
//
//	(x = y) is an XBoolean and its value is (types.Render(x) == types.Render(y))
//
// both when calling operators.Equal directly and when evaluating the expression "x = y" with {x, y} in the
// context. Consequences that tie '=' to the round-trip clauses and are also checked:
//
//	numbers n1, n2:  (n1 = n2) implies n1 == n2 as decimals
//	datetimes d1,d2: (d1 = d2) implies the same instant at microsecond precision
//
// (the converses are only counted: equal instants in different zones render differently by design).

var eqEvaluator = excellent.NewEvaluator()

// the same comparison with different spacing / redundant parentheses / letter case of the names
var eqExpressions = []string{"x = y", "x=y", "(x) = (y)", "X = Y"}

func describeValue(v types.XValue) string {
	if types.IsNil(v) {
		return "nil"
	}
	return trunc(v.String(), 300)
}

func (cr *run) checkEqual(env envs.Environment, x, y types.XValue, origin string, viaEvaluator bool) {
	want := types.Render(x) == types.Render(y)
	in := map[string]any{"x": describeValue(x), "y": describeValue(y), "origin": origin}
	var got types.XValue
	entry := "equal:operators.Equal"
	if viaEvaluator {
		entry = "equal:evaluator"
	}
	cr.guard(entry, in, func() {
		if viaEvaluator {
			ctx := types.NewXObject(map[string]types.XValue{"x": x, "y": y})
			got, _ = eqEvaluator.Expression(env, ctx, eqExpressions[len(origin)%len(eqExpressions)])
			cr.res.Count("eq.via_evaluator", 1)
		} else {
			got = operators.Equal(env, x, y)
			cr.res.Count("eq.direct", 1)
		}
	})
	cr.res.Count("eq.checked", 1)
	b, ok := got.(*types.XBoolean)
	if !ok {
		in["result"] = describeValue(got)
		cr.violate("equal|not-a-boolean", "'=' on two non-error values did not yield a boolean", in)
		return
	}
	if b.Native() != want {
		in["render_x"], in["render_y"], in["result"] = trunc(types.Render(x), 300), trunc(types.Render(y), 300), b.Native()
		cr.violate("equal|disagrees-with-render", "(x = y) differs from (Render(x) == Render(y))", in)
		return
	}
	if want {
		cr.res.Count("eq.true", 1)
		if !types.IsNil(x) && !types.IsNil(y) && reflect.TypeOf(x) != reflect.TypeOf(y) {
			cr.res.Count("eq.cross_type_true", 1)
		}
	} else {
		cr.res.Count("eq.false", 1)
	}

	// consequences for typed operands
	if n1, ok := x.(*types.XNumber); ok {
		if n2, ok := y.(*types.XNumber); ok {
			same := decEqual(n1.Native(), n2.Native())
			cr.res.Count("eq.number_pairs", 1)
			if b.Native() && !same {
				cr.violate("equal|true-for-different-numbers", "(n1 = n2) is true for two different numbers", in)
			} else if same && !b.Native() {
				cr.res.Count("eq.equal_numbers_render_differently", 1)
			} else if same {
				cr.res.Count("eq.equal_numbers_equal", 1)
			}
		}
	}
	if d1, ok := x.(*types.XDateTime); ok {
		if d2, ok := y.(*types.XDateTime); ok {
			same := sameAtMicros(d1.Native(), d2.Native())
			cr.res.Count("eq.datetime_pairs", 1)
			_, o1 := d1.Native().Zone()
			_, o2 := d2.Native().Zone()
			if b.Native() && !same && o1%60 == 0 && o2%60 == 0 {
				cr.violate("equal|true-for-different-instants", "(d1 = d2) is true for two different instants", in)
			} else if same && !b.Native() {
				cr.res.Count("eq.same_instant_other_zone_unequal", 1)
			}
		}
	}
}

// ---- value generator ------------------------------------------------------------------------

var eqTexts = []string{"", " ", "a", "A", "hello", "Hello", "1", "1.0", "1.5", "1.50", "01", "-0", "0", "true", "TRUE", "false", "null", "2020-01-01", "2020-01-01T00:00:00.000000Z", "10:30",
	"[1, 2]", "{a: 1}", "é", "É", "日本", "😀", "x y", "100", "1e2", "0.5", ".5", "16:30:45.000000"}

func genScalar(r *fw.Rand) types.XValue {
	switch r.Weighted([]int{6, 22, 22, 8, 16, 8, 8, 4}) {
	case 0:
		return nil
	case 1:
		if r.Chance(0.7) {
			return types.NewXText(fw.Pick(r, eqTexts))
		}
		return types.NewXText(genNumberText(r))
	case 2:
		if r.Chance(0.5) {
			return types.NewXNumber(decimal.RequireFromString(fw.Pick(r, []string{"0", "1", "1.0", "1.5", "1.50", "100", "1e2", "-0", "0.5", "-1", "10", "1000000e-6", "12345678901234567890"})))
		}
		return types.NewXNumber(genDecimal(r))
	case 3:
		return types.NewXBoolean(r.Bool())
	case 4:
		if r.Chance(0.4) {
			return types.NewXDateTime(fw.Pick(r, []time.Time{time.Date(2020, 1, 1, 0, 0, 0, 0, time.UTC), time.Date(2020, 1, 1, 2, 0, 0, 0, time.FixedZone("", 7200)), time.Date(2019, 12, 31, 19, 0, 0, 0, zoneByName("America/Guayaquil")), time.Date(2020, 1, 1, 0, 0, 0, 999, time.UTC)}))
		}
		t, _ := genInstant(r)
		return types.NewXDateTime(t)
	case 5:
		return types.NewXDate(dates.NewDate(fw.Pick(r, []int{2020, 1, 987, genYear(r)}), r.Range(1, 12), r.Range(1, 28)))
	case 6:
		return types.NewXTime(dates.NewTimeOfDay(genHour(r), fw.Pick(r, []int{0, 30, r.Intn(60)}), fw.Pick(r, []int{0, 45}), fw.Pick(r, []int{0, 0, 123456000, 5})))
	}
	return types.XTextEmpty
}

func genEqValue(r *fw.Rand, depth int) types.XValue {
	if depth < 2 && r.Chance(0.15) {
		n := r.Intn(4)
		if r.Bool() {
			items := make([]types.XValue, n)
			for i := range items {
				items[i] = genEqValue(r, depth+1)
			}
			return types.NewXArray(items...)
		}
		props := map[string]types.XValue{}
		for i := 0; i < n; i++ {
			props[fw.Pick(r, []string{"a", "b", "name", "value"})] = genEqValue(r, depth+1)
		}
		if r.Chance(0.3) {
			props["__default__"] = genScalar(r)
		}
		return types.NewXObject(props)
	}
	return genScalar(r)
}

// rescale returns the same number at a different scale (trailing zeros in the coefficient).
func rescale(r *fw.Rand, d decimal.Decimal) decimal.Decimal {
	k := int64(r.Range(1, 5))
	c := new(big.Int).Mul(d.Coefficient(), new(big.Int).Exp(big.NewInt(10), big.NewInt(k), nil))
	return decimal.NewFromBigInt(c, d.Exponent()-int32(k))
}

func isContainer(v types.XValue) bool {
	switch v.(type) {
	case *types.XArray, *types.XObject:
		return true
	}
	return false
}

func (cr *run) genEqual(r *fw.Rand) (bool, map[string]any) {
	env := fmtEnv(fw.Pick(r, dateFormats), fw.Pick(r, timeFormats), pickZone(r))
	nontrivial := false
	var first string
	for i := 0; i < 10; i++ {
		x := genEqValue(r, 0)
		var y types.XValue
		origin := "independent"
		switch r.Weighted([]int{40, 25, 15, 10, 10}) {
		case 0:
			y = genEqValue(r, 0)
		case 1:
			origin = "text-of-render"
			y = types.NewXText(types.Render(x))
		case 2:
			origin = "same-value-other-representation"
			switch t := x.(type) {
			case *types.XNumber:
				y = types.NewXNumber(rescale(r, t.Native()))
			case *types.XDateTime:
				y = types.NewXDateTime(t.Native().In(pickZone(r)))
			case *types.XText:
				y = types.NewXText(t.Native())
			default:
				y = x
			}
		case 3:
			origin = "number-vs-number-text"
			d := genDecimal(r)
			x = types.NewXNumber(d)
			y = types.NewXText(fw.Pick(r, []string{d.String(), d.String() + "0", " " + d.String(), d.StringFixed(2), rescale(r, d).String()}))
		case 4:
			origin = "swapped"
			y = x
			x = genEqValue(r, 0)
		}
		if i%2 == 1 {
			x, y = y, x
		}
		if isContainer(x) || isContainer(y) || (!types.IsNil(x) && !types.IsNil(y) && reflect.TypeOf(x) != reflect.TypeOf(y)) {
			nontrivial = true
		}
		cr.fp = append(cr.fp, describeValue(x), describeValue(y))
		if i == 0 {
			first = describeValue(x) + " = " + describeValue(y)
		}
		cr.res.Seen("eq.type_pair", fmt.Sprintf("%T/%T", x, y))
		cr.checkEqual(env, x, y, origin, false)
		if i%3 == 0 {
			cr.checkEqual(env, x, y, origin, true)
		}
	}
	return nontrivial, map[string]any{"kind": "equal", "first": trunc(first, 300), "pairs": 10}
}

func (cr *run) directedEqual() {
	env := envs.NewBuilder().Build()
	d := func(s string) types.XValue { return types.NewXNumber(decimal.RequireFromString(s)) }
	t := func(s string) types.XValue { return types.NewXText(s) }
	utc := time.Date(2020, 1, 1, 0, 0, 0, 0, time.UTC)
	pairs := [][2]types.XValue{
		{t("hello"), t("hello")}, {t("hello"), t("bar")}, {d("1"), t("1")}, {d("1.50"), d("1.5")}, {d("1.50"), t("1.5")}, {d("1.50"), t("1.50")}, {d("100"), d("1e2")},
		{d("-0"), d("0")}, {nil, t("")}, {nil, nil}, {nil, d("0")}, {types.XBooleanTrue, t("true")}, {types.XBooleanTrue, t("TRUE")}, {types.XBooleanFalse, nil},
		{types.NewXDateTime(utc), t("2020-01-01T00:00:00.000000Z")}, {types.NewXDateTime(utc), types.NewXDateTime(utc.In(time.FixedZone("", 7200)))},
		{types.NewXDateTime(utc), types.NewXDateTime(utc.Add(999))}, {types.NewXDateTime(utc), types.NewXDateTime(utc.Add(1000))},
		{types.NewXDate(dates.NewDate(2019, 4, 11)), t("2019-04-11")}, {types.NewXTime(dates.NewTimeOfDay(16, 30, 45, 0)), t("16:30:45.000000")},
		{types.NewXArray(d("1"), d("2")), t("[1, 2]")}, {types.NewXArray(d("1"), d("2")), types.NewXArray(d("1.0"), d("2"))},
		{types.NewXObject(map[string]types.XValue{"a": d("1")}), t("{a: 1}")}, {types.NewXObject(map[string]types.XValue{"__default__": t("dflt"), "a": d("1")}), t("dflt")},
		{types.JSONToXValue([]byte(`{"a":1.50,"b":[1,2]}`)), types.JSONToXValue([]byte(`{"b":[1.0,2],"a":1.5}`))},
	}
	for _, p := range pairs {
		cr.checkEqual(env, p[0], p[1], "directed", false)
		cr.checkEqual(env, p[0], p[1], "directed", true)
		cr.checkEqual(env, p[1], p[0], "directed", false)
	}
}
