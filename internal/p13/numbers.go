package p13

import (
	"math/big"
	"strings"

	"github.com/nyaruka/goflow/envs"
	"github.com/nyaruka/goflow/excellent/types"
	"github.com/shopspring/decimal"

	"verif/internal/fw"
)

// decEqual is decimal equality computed on (coefficient, exponent) with math/big, independent of
// shopspring's Cmp/Equal.
func decEqual(a, b decimal.Decimal) bool {
	ca, cb := new(big.Int).Set(a.Coefficient()), new(big.Int).Set(b.Coefficient())
	ea, eb := int64(a.Exponent()), int64(b.Exponent())
	if ca.Sign() == 0 || cb.Sign() == 0 {
		return ca.Sign() == cb.Sign()
	}
	ten := big.NewInt(10)
	if ea > eb {
		ca.Mul(ca, new(big.Int).Exp(ten, big.NewInt(ea-eb), nil))
	} else if eb > ea {
		cb.Mul(cb, new(big.Int).Exp(ten, big.NewInt(eb-ea), nil))
	}
	return ca.Cmp(cb) == 0
}

func decCanon(d decimal.Decimal) string {
	return d.Coefficient().String() + "e" + big.NewInt(int64(d.Exponent())).String()
}

// smallInt: |d| is an integer below 1000 (the trivial class of the non-triviality rule).
func smallInt(d decimal.Decimal) bool {
	if !decEqual(d, d.Truncate(0)) {
		return false
	}
	return d.Abs().Cmp(decimal.New(1000, 0)) < 0
}

func randDigits(r *fw.Rand, n int, firstNonZero bool) string {
	var b strings.Builder
	for i := 0; i < n; i++ {
		d := r.Intn(10)
		if i == 0 && firstNonZero && d == 0 {
			d = 1 + r.Intn(9)
		}
		b.WriteByte(byte('0' + d))
	}
	return b.String()
}

// genDecimal: coefficient of up to 40 digits, exponent -30..30, both signs, trailing zeros.
func genDecimal(r *fw.Rand) decimal.Decimal {
	var nd int
	switch r.Weighted([]int{25, 35, 25, 15}) {
	case 0:
		nd = r.Range(1, 3)
	case 1:
		nd = r.Range(4, 18)
	case 2:
		nd = r.Range(19, 39)
	default:
		nd = 40
	}
	digits := randDigits(r, nd, true)
	if r.Chance(0.05) {
		digits = "0"
	}
	exp := r.Range(-30, 30)
	if r.Chance(0.25) {
		exp = fw.Pick(r, []int{0, 0, 0, -1, -2, 1, 2, -30, 30})
	}
	// trailing zeros: same value at a different scale
	if r.Chance(0.3) {
		k := r.Range(1, 6)
		if len(digits)+k <= 40 && exp-k >= -30 {
			digits += strings.Repeat("0", k)
			exp -= k
		}
	}
	c, _ := new(big.Int).SetString(digits, 10)
	if r.Bool() {
		c.Neg(c)
	}
	return decimal.NewFromBigInt(c, int32(exp))
}

func randNumberEnv(r *fw.Rand) envs.Environment {
	b := envs.NewBuilder().WithTimezone(pickZone(r))
	if r.Chance(0.4) {
		b = b.WithNumberFormat(&envs.NumberFormat{DecimalSymbol: ",", DigitGroupingSymbol: "."})
	}
	return b.Build()
}

// checkNumber: clause "numbers".
func (cr *run) checkNumber(env envs.Environment, d decimal.Decimal, origin string) {
	n := types.NewXNumber(d)
	in := map[string]any{"coefficient": d.Coefficient().String(), "exponent": d.Exponent(), "origin": origin}

	cr.guard("number:ToXText/ToXNumber", in, func() {
		t, xerr := types.ToXText(env, n)
		if xerr != nil {
			cr.violate("roundtrip|number-text|render-error", "ToXText of a number returned an error", map[string]any{"number": in, "error": xerr.Error()})
			return
		}
		back, xerr := types.ToXNumber(env, t)
		cr.res.Count("num.text_roundtrip", 1)
		cr.countRenderLength(len(t.Native()))
		if xerr != nil {
			cr.violate("roundtrip|number-text|unparseable", "the text a number renders to does not convert back to a number",
				map[string]any{"number": in, "text": trunc(t.Native(), 1200), "text_length": len(t.Native()), "error": xerr.Error()})
			return
		}
		if !decEqual(back.Native(), d) {
			cr.violate("value-mismatch|number-text", "ToXNumber(ToXText(n)) is a different number",
				map[string]any{"number": in, "text": trunc(t.Native(), 1200), "back": trunc(decCanon(back.Native()), 1200)})
			return
		}
		// Render is the same canonical form
		rb, xerr := types.ToXNumber(env, types.NewXText(n.Render()))
		cr.res.Count("num.render_roundtrip", 1)
		if xerr != nil || !decEqual(rb.Native(), d) {
			cr.violate("value-mismatch|number-render", "XNumber.Render() does not convert back to the same number",
				map[string]any{"number": in, "text": trunc(n.Render(), 1200)})
		}
	})

	cr.guard("number:ToXJSON/JSONToXValue", in, func() {
		if normExponent(d) < -jsonScaleBound {
			// more decimal places than goflow's JSON reader accepts by design (see numbers_extreme.go)
			cr.res.Count("num.json_not_demanded_scale_beyond_reader_bound", 1)
			return
		}
		j, xerr := types.ToXJSON(n)
		if xerr != nil {
			cr.violate("roundtrip|number-json|render-error", "ToXJSON of a number returned an error", map[string]any{"number": in, "error": xerr.Error()})
			return
		}
		v := types.JSONToXValue([]byte(j.Native()))
		cr.res.Count("num.json_roundtrip", 1)
		bn, ok := v.(*types.XNumber)
		if !ok {
			cr.violate("roundtrip|number-json|unparseable", "the JSON form of a number does not read back as a number",
				map[string]any{"number": in, "json": trunc(j.Native(), 200), "back": types.Describe(v)})
			return
		}
		if !decEqual(bn.Native(), d) {
			cr.violate("value-mismatch|number-json", "the JSON form of a number reads back as a different number",
				map[string]any{"number": in, "json": trunc(j.Native(), 200), "back": decCanon(bn.Native())})
		}
	})

	if !smallInt(d) {
		cr.res.Count("num.nonint_or_big", 1)
	}
	if d.Sign() < 0 {
		cr.res.Count("num.negative", 1)
	}
	if d.Exponent() < 0 && new(big.Int).Rem(d.Coefficient(), big.NewInt(10)).Sign() == 0 && d.Coefficient().Sign() != 0 {
		cr.res.Count("num.trailing_zeros", 1)
	}
	if d.Exponent() > 0 {
		cr.res.Count("num.positive_exponent", 1)
	}
	if len(strings.TrimLeft(d.Coefficient().String(), "-")) >= 30 {
		cr.res.Count("num.coefficient_30plus_digits", 1)
	}
}

// checkNumberText: a text goflow accepts as a number denotes a number that survives its own text form.
func (cr *run) checkNumberText(env envs.Environment, s string) {
	cr.guard("number:ToXNumber(text)", s, func() {
		n, xerr := types.ToXNumber(env, types.NewXText(s))
		if xerr != nil {
			cr.res.Count("num.text_not_accepted", 1)
			return
		}
		cr.res.Count("num.accepted_text", 1)
		cr.checkNumber(env, n.Native(), "text:"+s)
	})
}

var numberTexts = []string{".5", "-.5", "007", "0.10", " 12 ", "\t3.0\n", "-0", "00.00", "-0.0", "1.", "1e3", "+1", "1,5", "٣", "0x10", "--1", "",
	"1234567890123456789012345678901234567890.123456789012345678901234567890", "0.000000000000000000000000000001", "999999999999999999999999999999999999999"}

func genNumberText(r *fw.Rand) string {
	if r.Chance(0.4) {
		return fw.Pick(r, numberTexts)
	}
	s := ""
	if r.Chance(0.3) {
		s = "-"
	}
	if r.Chance(0.85) {
		s += randDigits(r, r.Range(1, 25), false)
	}
	if r.Chance(0.6) {
		s += "." + randDigits(r, r.Range(0, 25), false)
	}
	if r.Chance(0.2) {
		s = " " + s + " "
	}
	return s
}

func (cr *run) genNumbers(r *fw.Rand) (bool, map[string]any) {
	env := randNumberEnv(r)
	nontrivial := false
	var first string
	for i := 0; i < 8; i++ {
		d := genDecimal(r)
		cr.fp = append(cr.fp, decCanon(d))
		if i == 0 {
			first = decCanon(d)
		}
		if !smallInt(d) {
			nontrivial = true
		}
		cr.checkNumber(env, d, "generated")
	}
	for i := 0; i < 2; i++ {
		s := genNumberText(r)
		cr.fp = append(cr.fp, "t:"+s)
		cr.checkNumberText(env, s)
	}
	// the extreme class is drawn after everything else, so the everyday numbers of an index are what they always were
	for i := 0; i < 2; i++ {
		x := genExtremeNumber(r)
		cr.fp = append(cr.fp, "x:"+decCanon(x.d))
		if !smallInt(x.d) {
			nontrivial = true
		}
		cr.checkExtreme(env, x)
	}
	return nontrivial, map[string]any{"kind": "numbers", "first": first, "count": 12}
}

func (cr *run) directedNumbers() {
	env := envs.NewBuilder().Build()
	envComma := envs.NewBuilder().WithNumberFormat(&envs.NumberFormat{DecimalSymbol: ",", DigitGroupingSymbol: "."}).Build()
	for _, s := range []string{"0", "-0", "1", "-1", "999", "1000", "1.50", "-1.50", "123.4500", "0.1", "0.000000000000000000000000000001", "-0.000000000000000000000000000001",
		"1e30", "-1e30", "5e-30", "1234567890123456789012345678901234567890", "1234567890123456789012345678901234567890e30", "-1234567890123456789012345678901234567890e-30",
		"9999999999999999999999999999999999999999e-20", "100e-2", "1000000e-6", "0e-30", "0e30", "2147483648", "0.5", "12345678901234567890.123456789"} {
		d := decimal.RequireFromString(s)
		cr.checkNumber(env, d, "directed:"+s)
		cr.checkNumber(envComma, d, "directed:"+s)
	}
	for _, s := range numberTexts {
		cr.checkNumberText(env, s)
	}
}
