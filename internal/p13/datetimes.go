package p13

import (
	"fmt"
	"sync"
	"time"

	"github.com/nyaruka/gocommon/dates"
	"github.com/nyaruka/goflow/envs"
	"github.com/nyaruka/goflow/excellent/types"

	"verif/internal/fw"
)

// Zones: UTC, whole-hour, half-hour and 45-minute offsets, DST (incl. 30-minute DST, negative DST,
// transitions at local midnight, a skipped calendar day), both hemispheres.
var zoneNames = []string{
	"UTC", "America/Guayaquil", "Asia/Kolkata", "Europe/London", "America/New_York", "Australia/Lord_Howe",
	"Pacific/Kiritimati", "Africa/Kigali", "Asia/Kathmandu", "America/St_Johns", "Pacific/Chatham", "Asia/Tehran",
	"Europe/Dublin", "America/Sao_Paulo", "America/Havana", "Pacific/Apia", "America/Santiago", "Africa/Casablanca",
	"Pacific/Honolulu", "Etc/GMT+12", "Asia/Tokyo", "Europe/Moscow", "America/Asuncion", "Antarctica/Troll",
}

var (
	zoneOnce sync.Once
	zones    []*time.Location // the loadable ones, in zoneNames order
)

func allZones() []*time.Location {
	zoneOnce.Do(func() {
		for _, n := range zoneNames {
			if loc, err := time.LoadLocation(n); err == nil {
				zones = append(zones, loc)
			}
		}
		if len(zones) == 0 {
			zones = []*time.Location{time.UTC}
		}
	})
	return zones
}

func zoneByName(n string) *time.Location {
	for _, z := range allZones() {
		if z.String() == n {
			return z
		}
	}
	return time.UTC
}

func pickZone(r *fw.Rand) *time.Location { return fw.Pick(r, allZones()) }

var dateFormats = []envs.DateFormat{envs.DateFormatYearMonthDay, envs.DateFormatMonthDayYear, envs.DateFormatDayMonthYear}
var timeFormats = []envs.TimeFormat{envs.TimeFormatHourMinute, envs.TimeFormatHourMinuteAmPm, envs.TimeFormatHourMinuteSecond, envs.TimeFormatHourMinuteSecondAmPm}

func isAmPm(tf envs.TimeFormat) bool {
	return tf == envs.TimeFormatHourMinuteAmPm || tf == envs.TimeFormatHourMinuteSecondAmPm
}

// locale stays the default (no allowed languages / country): non-English am/pm markers are outside the quantifier
func fmtEnv(df envs.DateFormat, tf envs.TimeFormat, tz *time.Location) envs.Environment {
	return envs.NewBuilder().WithDateFormat(df).WithTimeFormat(tf).WithTimezone(tz).Build()
}

// midnightMissing: the wall time 00:00 of that calendar day does not exist in loc (DST starting at midnight,
// or the whole day skipped).
func midnightMissing(y int, m time.Month, d int, loc *time.Location) bool {
	t := time.Date(y, m, d, 0, 0, 0, 0, loc)
	return t.Hour() != 0 || t.Minute() != 0 || t.Day() != d || t.Month() != m
}

func daysIn(y int, m time.Month) int {
	return time.Date(y, m+1, 0, 0, 0, 0, 0, time.UTC).Day()
}

var boundaryYears = []int{1, 2, 9, 10, 99, 100, 999, 1000, 1001, 1582, 1752, 1883, 1899, 1900, 1969, 1970, 1999, 2000, 2038, 9998, 9999}

func genYear(r *fw.Rand) int {
	switch r.Weighted([]int{45, 35, 20}) {
	case 0:
		return r.Range(1, 9999)
	case 1:
		return r.Range(1900, 2100)
	}
	return fw.Pick(r, boundaryYears)
}

func genNanos(r *fw.Rand) int {
	switch r.Weighted([]int{25, 20, 35, 20}) {
	case 0:
		return 0
	case 1:
		return r.Intn(1000) * 1000000
	case 2:
		return r.Intn(1000000) * 1000
	}
	return r.Intn(1000000000)
}

func genHour(r *fw.Rand) int {
	if r.Chance(0.4) {
		return fw.Pick(r, []int{0, 0, 1, 11, 12, 12, 13, 23})
	}
	return r.Intn(24)
}

// genInstant returns an instant whose year (in its own location) is within 1..9999, and its class.
func genInstant(r *fw.Rand) (time.Time, string) {
	zs := allZones()
	for attempt := 0; attempt < 20; attempt++ {
		if r.Chance(0.15) {
			// near a zone transition
			loc := fw.Pick(r, zs)
			t0 := time.Date(r.Range(1950, 2037), time.Month(r.Range(1, 12)), 1, 0, 0, 0, 0, loc)
			_, end := t0.ZoneBounds()
			if end.IsZero() {
				continue
			}
			t := end.Add(time.Duration(r.Range(-26*3600, 26*3600))*time.Second + time.Duration(genNanos(r))).In(loc)
			if t.Year() < 1 || t.Year() > 9999 {
				continue
			}
			return t, "near-transition"
		}
		var loc *time.Location
		if r.Chance(0.15) {
			// fixed offsets are what parsing an ISO text with an explicit offset yields
			loc = time.FixedZone("", r.Range(-48, 56)*900)
		} else {
			loc = fw.Pick(r, zs)
		}
		y := genYear(r)
		m := time.Month(r.Range(1, 12))
		d := r.Range(1, daysIn(y, m))
		sec := r.Intn(60)
		if r.Chance(0.2) {
			sec = 0
		}
		t := time.Date(y, m, d, genHour(r), r.Intn(60), sec, genNanos(r), loc)
		if t.Year() < 1 || t.Year() > 9999 {
			continue
		}
		return t, "wall-clock"
	}
	return time.Date(2000, 1, 2, 3, 4, 5, 6000, time.UTC), "fallback"
}

func instantDesc(t time.Time) map[string]any {
	_, off := t.Zone()
	return map[string]any{"utc": t.UTC().Format("2006-01-02T15:04:05.000000000Z"), "location": t.Location().String(), "offset_seconds": off}
}

// ---- ISO form -------------------------------------------------------------------------------

// isoPrecision: the canonical ISO form of XDateTime is documented with microseconds
// (1979-07-18T10:30:45.123456Z); that is the rendered precision the round trip is held to.
func sameAtMicros(a, b time.Time) bool { return a.UnixMicro() == b.UnixMicro() }

func isoClass(t time.Time) string {
	if _, off := t.Zone(); off%60 != 0 {
		return "zone-offset-seconds"
	}
	return ""
}

func (cr *run) checkDatetimeISO(env envs.Environment, t time.Time) {
	x := types.NewXDateTime(t)
	in := instantDesc(t)
	if _, off := t.Zone(); off%60 != 0 {
		cr.res.Count("dt.iso.zone_offset_with_seconds", 1)
	}
	if t.Nanosecond() != 0 {
		cr.res.Count("dt.iso.subsecond", 1)
	}
	if t.Nanosecond()%1000 != 0 {
		cr.res.Count("dt.iso.sub_microsecond_input", 1)
	}
	cr.guard("datetime:ToXText/ToXDateTime", in, func() {
		txt, xerr := types.ToXText(env, x)
		if xerr != nil {
			cr.violate("roundtrip|datetime-iso|render-error", "ToXText of a datetime returned an error", map[string]any{"instant": in, "error": xerr.Error()})
			return
		}
		back, xerr := types.ToXDateTime(env, txt)
		cr.res.Count("dt.iso", 1)
		if xerr != nil {
			cr.violate("roundtrip|datetime-iso|unparseable", "the ISO form of a datetime does not parse back",
				map[string]any{"instant": in, "text": txt.Native(), "env_timezone": env.Timezone().String(), "error": xerr.Error()})
			return
		}
		if !sameAtMicros(back.Native(), t) {
			cr.isoMismatch("iso", in, t, txt.Native(), back.Native(), env)
		}
	})
	cr.guard("datetime:ToXJSON/JSONToXValue/ToXDateTime", in, func() {
		j, xerr := types.ToXJSON(x)
		if xerr != nil {
			cr.violate("roundtrip|datetime-json|render-error", "ToXJSON of a datetime returned an error", map[string]any{"instant": in, "error": xerr.Error()})
			return
		}
		v := types.JSONToXValue([]byte(j.Native()))
		back, xerr := types.ToXDateTime(env, v)
		cr.res.Count("dt.iso_json", 1)
		if _, isText := v.(*types.XText); !isText || xerr != nil {
			cr.violate("roundtrip|datetime-json|unparseable", "the JSON form of a datetime does not read back as a datetime text",
				map[string]any{"instant": in, "json": j.Native()})
			return
		}
		if !sameAtMicros(back.Native(), t) {
			cr.isoMismatch("json", in, t, j.Native(), back.Native(), env)
		}
	})
}

func (cr *run) isoMismatch(form string, in map[string]any, t time.Time, text string, back time.Time, env envs.Environment) {
	w := map[string]any{"instant": in, "form": form, "text": text, "parsed_back_utc": back.UTC().Format("2006-01-02T15:04:05.000000000Z"),
		"difference": back.Sub(t).String(), "env_timezone": env.Timezone().String()}
	if isoClass(t) != "" {
		cr.violate("value-mismatch|datetime-iso|zone-offset-seconds",
			"a datetime whose zone offset is not a whole number of minutes (local mean time) renders to an ISO text (offset truncated to hh:mm) that parses back to a different instant", w)
		return
	}
	cr.violate("value-mismatch|datetime-"+form+"|instant", "the ISO form of a datetime parses back to a different instant (compared at microsecond precision)", w)
}

// ---- environment formats ----------------------------------------------------------------------

// formatFailure classifies a failed environment-format round trip of a date(time) whose calendar day in the
// environment zone is (y, m, d). The first two classes are the two confirmed defects of the date parser.
func dateFailureClass(y int, m time.Month, d int, df envs.DateFormat, tz *time.Location) string {
	if y < 1000 && df != envs.DateFormatYearMonthDay {
		return "year<1000"
	}
	// only the YYYY-MM-DD format goes through the ISO date branch of the parser
	if df == envs.DateFormatYearMonthDay && midnightMissing(y, m, d, tz) {
		return "midnight-gap-in-env-zone"
	}
	return ""
}

const sigYear1000 = "value-mismatch|datetime-format|year<1000"
const sigMidnightGap = "value-mismatch|date-parse|midnight-gap-in-env-zone"

const whatYear1000 = "a date with a year below 1000 rendered in the environment date format (DD-MM-YYYY / MM-DD-YYYY) does not parse back"
const whatMidnightGap = "a YYYY-MM-DD date whose local midnight does not exist in the environment timezone (DST starts at 00:00, or the day is skipped) parses back as a different day"

func (cr *run) checkDatetimeEnvFormat(env envs.Environment, t time.Time) {
	tz := env.Timezone()
	local := t.In(tz)
	if local.Year() < 1 || local.Year() > 9999 {
		cr.res.Count("dt.env_format.skipped_year_outside_1_9999_in_env_zone", 1)
		return
	}
	x := types.NewXDateTime(t)
	df, tf := env.DateFormat(), env.TimeFormat()
	in := instantDesc(t)
	cr.guard("datetime:Format/ToXDateTime", in, func() {
		f := x.Format(env)
		back, xerr := types.ToXDateTime(env, types.NewXText(f))
		cr.res.Count("dt.env_format", 1)
		cr.res.Count("dt.env_format."+string(df)+" "+string(tf), 1)
		if isAmPm(tf) && (local.Hour() == 0 || local.Hour() == 12) {
			cr.res.Count("dt.env_format.ampm_midnight_or_noon", 1)
		}
		if local.Year() < 1000 {
			cr.res.Count("dt.env_format.year_below_1000", 1)
		}
		w := map[string]any{"instant": in, "env": map[string]any{"date_format": string(df), "time_format": string(tf), "timezone": tz.String()}, "formatted": f}
		cls := dateFailureClass(local.Year(), local.Month(), local.Day(), df, tz)
		if xerr != nil {
			w["error"] = xerr.Error()
			switch cls {
			case "year<1000":
				cr.violate(sigYear1000, whatYear1000, w)
			case "midnight-gap-in-env-zone":
				cr.violate(sigMidnightGap, whatMidnightGap, w)
			default:
				cr.violate("roundtrip|datetime-format|unparseable", "a datetime rendered in the environment format does not parse back", w)
			}
			return
		}
		f2 := back.Format(env)
		if f2 == f {
			return
		}
		w["reformatted"] = f2
		switch cls {
		case "year<1000":
			cr.violate(sigYear1000, whatYear1000, w)
			return
		case "midnight-gap-in-env-zone":
			cr.violate(sigMidnightGap, whatMidnightGap, w)
			return
		}
		bl := back.Native().In(tz)
		part := "time-part"
		if bl.Year() != local.Year() || bl.Month() != local.Month() || bl.Day() != local.Day() {
			part = "date-part"
		}
		clock := "24h"
		if isAmPm(tf) {
			clock = "ampm"
		}
		cr.violate("value-mismatch|datetime-format|"+part+"|"+clock,
			"a datetime rendered in the environment format parses back to a value that renders differently (same environment)", w)
	})
}

// ---- XDate ---------------------------------------------------------------------------------------

func dateDesc(d dates.Date) string { return fmt.Sprintf("%04d-%02d-%02d", d.Year, int(d.Month), d.Day) }

func (cr *run) checkDate(tz *time.Location, d dates.Date) {
	x := types.NewXDate(d)
	in := dateDesc(d)
	env := fmtEnv(envs.DateFormatDayMonthYear, envs.TimeFormatHourMinute, tz)

	failISO := func(form, text string, back *types.XDate, xerr *types.XError) {
		w := map[string]any{"date": in, "form": form, "text": text, "env_timezone": tz.String()}
		if xerr != nil {
			w["error"] = xerr.Error()
		} else {
			w["parsed_back"] = dateDesc(back.Native())
		}
		if midnightMissing(d.Year, d.Month, d.Day, tz) {
			cr.violate(sigMidnightGap, whatMidnightGap, w)
		} else if xerr != nil {
			cr.violate("roundtrip|date-"+form+"|unparseable", "the ISO form of a date does not parse back", w)
		} else {
			cr.violate("value-mismatch|date-"+form, "the ISO form of a date parses back to a different date", w)
		}
	}

	cr.guard("date:ToXText/ToXDate", in, func() {
		txt, xerr := types.ToXText(env, x)
		if xerr != nil {
			cr.violate("roundtrip|date-iso|render-error", "ToXText of a date returned an error", map[string]any{"date": in})
			return
		}
		back, xerr := types.ToXDate(env, txt)
		cr.res.Count("date.iso", 1)
		if xerr != nil || !back.Native().Equal(d) {
			failISO("iso", txt.Native(), back, xerr)
		}
	})
	cr.guard("date:ToXJSON/JSONToXValue/ToXDate", in, func() {
		j, xerr := types.ToXJSON(x)
		if xerr != nil {
			cr.violate("roundtrip|date-json|render-error", "ToXJSON of a date returned an error", map[string]any{"date": in})
			return
		}
		v := types.JSONToXValue([]byte(j.Native()))
		back, xerr := types.ToXDate(env, v)
		cr.res.Count("date.iso_json", 1)
		if xerr != nil || !back.Native().Equal(d) {
			failISO("json", j.Native(), back, xerr)
		}
	})
	for _, df := range dateFormats {
		e := fmtEnv(df, envs.TimeFormatHourMinute, tz)
		cr.guard("date:Format/ToXDate", in, func() {
			f := x.Format(e)
			back, xerr := types.ToXDate(e, types.NewXText(f))
			cr.res.Count("date.env_format", 1)
			cr.res.Count("date.env_format."+string(df), 1)
			if xerr == nil && back.Native().Equal(d) && back.Format(e) == f {
				return
			}
			w := map[string]any{"date": in, "env": map[string]any{"date_format": string(df), "timezone": tz.String()}, "formatted": f}
			if xerr != nil {
				w["error"] = xerr.Error()
			} else {
				w["parsed_back"] = dateDesc(back.Native())
			}
			switch dateFailureClass(d.Year, d.Month, d.Day, df, tz) {
			case "year<1000":
				cr.violate(sigYear1000, whatYear1000, w)
			case "midnight-gap-in-env-zone":
				cr.violate(sigMidnightGap, whatMidnightGap, w)
			default:
				if xerr != nil {
					cr.violate("roundtrip|date-format|unparseable", "a date rendered in the environment date format does not parse back", w)
				} else {
					cr.violate("value-mismatch|date-format", "a date rendered in the environment date format parses back to a different date", w)
				}
			}
		})
	}
}

// ---- XTime ---------------------------------------------------------------------------------------

func todDesc(t dates.TimeOfDay) string {
	return fmt.Sprintf("%02d:%02d:%02d.%09d", t.Hour, t.Minute, t.Second, t.Nanos)
}

func (cr *run) checkTimeOfDay(tod dates.TimeOfDay) {
	x := types.NewXTime(tod)
	in := todDesc(tod)
	env := envs.NewBuilder().Build()
	truncated := dates.NewTimeOfDay(tod.Hour, tod.Minute, tod.Second, tod.Nanos/1000*1000)

	cr.guard("time:ToXText/ToXTime", in, func() {
		txt, xerr := types.ToXText(env, x)
		if xerr != nil {
			cr.violate("roundtrip|time-iso|render-error", "ToXText of a time returned an error", map[string]any{"time": in})
			return
		}
		back, xerr := types.ToXTime(env, txt)
		cr.res.Count("time.iso", 1)
		if xerr != nil {
			cr.violate("roundtrip|time-iso|unparseable", "the ISO form of a time does not parse back", map[string]any{"time": in, "text": txt.Native(), "error": xerr.Error()})
			return
		}
		b := back.Native()
		if !dates.NewTimeOfDay(b.Hour, b.Minute, b.Second, b.Nanos/1000*1000).Equal(truncated) {
			cr.violate("value-mismatch|time-iso", "the ISO form of a time parses back to a different time (compared at microsecond precision)",
				map[string]any{"time": in, "text": txt.Native(), "parsed_back": todDesc(b)})
		}
	})
	cr.guard("time:ToXJSON/JSONToXValue/ToXTime", in, func() {
		j, xerr := types.ToXJSON(x)
		if xerr != nil {
			cr.violate("roundtrip|time-json|render-error", "ToXJSON of a time returned an error", map[string]any{"time": in})
			return
		}
		v := types.JSONToXValue([]byte(j.Native()))
		back, xerr := types.ToXTime(env, v)
		cr.res.Count("time.iso_json", 1)
		if _, isText := v.(*types.XText); !isText || xerr != nil {
			cr.violate("roundtrip|time-json|unparseable", "the JSON form of a time does not read back", map[string]any{"time": in, "json": j.Native()})
			return
		}
		b := back.Native()
		if !dates.NewTimeOfDay(b.Hour, b.Minute, b.Second, b.Nanos/1000*1000).Equal(truncated) {
			cr.violate("value-mismatch|time-json", "the JSON form of a time reads back as a different time", map[string]any{"time": in, "json": j.Native(), "parsed_back": todDesc(b)})
		}
	})
	for _, tf := range timeFormats {
		e := fmtEnv(envs.DateFormatYearMonthDay, tf, time.UTC)
		cr.guard("time:Format/ToXTime", in, func() {
			f := x.Format(e)
			back, xerr := types.ToXTime(e, types.NewXText(f))
			cr.res.Count("time.env_format", 1)
			cr.res.Count("time.env_format."+string(tf), 1)
			if isAmPm(tf) && (tod.Hour == 0 || tod.Hour == 12) {
				cr.res.Count("time.env_format.ampm_midnight_or_noon", 1)
			}
			clock := "24h"
			if isAmPm(tf) {
				clock = "ampm"
			}
			if xerr != nil {
				cr.violate("roundtrip|time-format|unparseable|"+clock, "a time rendered in the environment time format does not parse back",
					map[string]any{"time": in, "time_format": string(tf), "formatted": f, "error": xerr.Error()})
				return
			}
			if f2 := back.Format(e); f2 != f {
				cr.violate("value-mismatch|time-format|"+clock, "a time rendered in the environment time format parses back to a value that renders differently",
					map[string]any{"time": in, "time_format": string(tf), "formatted": f, "reformatted": f2})
			}
		})
	}
}

// ---- generated cases -------------------------------------------------------------------------

func (cr *run) envZoneFor(r *fw.Rand, t time.Time, class string) *time.Location {
	own := t.Location()
	named := own.String() != ""
	switch {
	case class == "near-transition" && r.Chance(0.85):
		return own
	case named && r.Chance(0.5):
		return own
	}
	return pickZone(r)
}

func (cr *run) genDatetime(r *fw.Rand) (bool, map[string]any) {
	t, class := genInstant(r)
	cr.res.Count("dt.instants", 1)
	cr.res.Count("dt."+map[string]string{"near-transition": "near_transition", "wall-clock": "wall_clock", "fallback": "fallback"}[class], 1)
	isoEnv := fmtEnv(fw.Pick(r, dateFormats), fw.Pick(r, timeFormats), cr.envZoneFor(r, t, class))
	cr.checkDatetimeISO(isoEnv, t)

	tz := cr.envZoneFor(r, t, class)
	for _, df := range dateFormats {
		for _, tf := range timeFormats {
			cr.checkDatetimeEnvFormat(fmtEnv(df, tf, tz), t)
		}
	}
	cr.res.Seen("dt.env_zone", tz.String())
	cr.res.Seen("dt.own_zone_offset", t.Format("-07:00:00"))
	cr.fp = append(cr.fp, t.UTC().Format(time.RFC3339Nano), t.Location().String(), t.Format("-07:00:00"), isoEnv.Timezone().String(), tz.String())
	u := t.UTC()
	nontrivial := !(u.Hour() == 0 && u.Minute() == 0 && u.Second() == 0 && u.Nanosecond() == 0)
	return nontrivial, map[string]any{"kind": "datetime", "instant": instantDesc(t), "class": class, "env_timezone": tz.String()}
}

func (cr *run) genDateTimeOfDay(r *fw.Rand) (bool, map[string]any) {
	t, class := genInstant(r)
	tz := cr.envZoneFor(r, t, class)
	local := t.In(tz)
	if local.Year() < 1 || local.Year() > 9999 {
		local = t
		tz = time.UTC
	}
	d := dates.ExtractDate(local)
	if r.Chance(0.1) {
		// impossible-looking but valid days
		d = fw.Pick(r, []dates.Date{dates.NewDate(2024, 2, 29), dates.NewDate(2000, 2, 29), dates.NewDate(1900, 2, 28), dates.NewDate(9999, 12, 31), dates.NewDate(1, 1, 1), dates.NewDate(1212, 12, 12), dates.NewDate(2001, 2, 3)})
	}
	tod := dates.NewTimeOfDay(genHour(r), r.Intn(60), r.Intn(60), genNanos(r))
	if r.Chance(0.15) {
		tod = dates.NewTimeOfDay(tod.Hour, fw.Pick(r, []int{0, 0, 59}), 0, 0)
	}
	cr.res.Count("date.values", 1)
	cr.res.Count("time.values", 1)
	if midnightMissing(d.Year, d.Month, d.Day, tz) {
		cr.res.Count("date.midnight_missing_in_env_zone", 1)
	}
	cr.checkDate(tz, d)
	cr.checkTimeOfDay(tod)
	cr.res.Seen("date.env_zone", tz.String())
	cr.fp = append(cr.fp, dateDesc(d), tz.String(), todDesc(tod))
	nontrivial := !(tod.Hour == 0 && tod.Minute == 0 && tod.Second == 0 && tod.Nanos == 0) || !(d.Month == 1 && d.Day == 1)
	return nontrivial, map[string]any{"kind": "date+time", "date": dateDesc(d), "time": todDesc(tod), "env_timezone": tz.String()}
}

// ---- directed ----------------------------------------------------------------------------------

func directedInstants() []time.Time {
	ny, lh, hav, sp, apia, kol := zoneByName("America/New_York"), zoneByName("Australia/Lord_Howe"), zoneByName("America/Havana"), zoneByName("America/Sao_Paulo"), zoneByName("Pacific/Apia"), zoneByName("Asia/Kolkata")
	return []time.Time{
		time.Date(1979, 7, 18, 10, 30, 45, 123456000, time.UTC),
		time.Date(2020, 1, 1, 0, 0, 0, 0, time.UTC),
		time.Date(2020, 6, 15, 12, 0, 0, 0, time.UTC),
		time.Date(2024, 2, 29, 23, 59, 59, 999999999, time.UTC),
		time.Date(987, 7, 18, 10, 30, 45, 0, time.UTC), // known: year < 1000
		time.Date(999, 12, 31, 12, 0, 0, 0, time.UTC),
		time.Date(1000, 1, 1, 12, 0, 0, 0, time.UTC),
		time.Date(1, 1, 2, 0, 0, 0, 0, time.UTC),
		time.Date(9999, 12, 30, 12, 0, 0, 0, time.UTC),
		time.Date(1800, 1, 1, 10, 0, 0, 0, ny),     // local mean time: offset -04:56:02
		time.Date(1890, 5, 6, 7, 8, 9, 0, kol),     // +05:21:10
		time.Date(2020, 11, 1, 5, 30, 0, 0, time.UTC).In(ny), // 01:30 EDT (first pass of the fold)
		time.Date(2020, 11, 1, 6, 30, 0, 0, time.UTC).In(ny), // 01:30 EST (second pass)
		time.Date(2020, 3, 8, 3, 30, 0, 0, ny),
		time.Date(2020, 4, 4, 15, 15, 0, 0, time.UTC).In(lh),
		time.Date(2024, 3, 10, 10, 30, 0, 0, hav), // DST starts at 00:00 local
		time.Date(2018, 11, 4, 10, 30, 0, 0, sp),
		time.Date(2011, 12, 31, 10, 30, 0, 0, apia), // the day after the skipped day
		time.Date(2026, 9, 26, 12, 30, 15, 500000000, time.FixedZone("", 5*3600+1800)),
	}
}

func (cr *run) directedDatetimes() {
	for _, t := range directedInstants() {
		cr.res.Count("dt.instants", 1)
		cr.checkDatetimeISO(fmtEnv(envs.DateFormatDayMonthYear, envs.TimeFormatHourMinute, time.UTC), t)
		if t.Location().String() != "" {
			cr.checkDatetimeISO(fmtEnv(envs.DateFormatYearMonthDay, envs.TimeFormatHourMinuteSecondAmPm, t.Location()), t)
		}
		for _, tz := range allZones() {
			for _, df := range dateFormats {
				for _, tf := range timeFormats {
					cr.checkDatetimeEnvFormat(fmtEnv(df, tf, tz), t)
				}
			}
		}
	}
	// instants right at zone transitions of every zone, 2015..2025, under that zone
	for _, tz := range allZones() {
		t := time.Date(2015, 1, 1, 0, 0, 0, 0, tz)
		for i := 0; i < 30; i++ {
			_, end := t.ZoneBounds()
			if end.IsZero() || end.Year() > 2025 {
				break
			}
			cr.res.Count("dt.near_transition", 1)
			for _, delta := range []time.Duration{-time.Hour, -time.Second, 0, 30 * time.Minute, 10 * time.Hour} {
				u := end.Add(delta).In(tz)
				cr.res.Count("dt.instants", 1)
				cr.checkDatetimeISO(fmtEnv(envs.DateFormatYearMonthDay, envs.TimeFormatHourMinute, tz), u)
				for _, df := range dateFormats {
					for _, tf := range timeFormats {
						cr.checkDatetimeEnvFormat(fmtEnv(df, tf, tz), u)
					}
				}
			}
			t = end
		}
	}
}

func (cr *run) directedDatesTimes() {
	for _, d := range []dates.Date{dates.NewDate(2019, 4, 11), dates.NewDate(2024, 2, 29), dates.NewDate(1, 1, 1), dates.NewDate(987, 7, 18), dates.NewDate(999, 12, 31), dates.NewDate(1000, 1, 1),
		dates.NewDate(9999, 12, 31), dates.NewDate(2001, 2, 3), dates.NewDate(2012, 12, 12), dates.NewDate(2024, 3, 10), dates.NewDate(2018, 11, 4), dates.NewDate(2011, 12, 30)} {
		for _, tz := range allZones() {
			cr.res.Count("date.values", 1)
			if midnightMissing(d.Year, d.Month, d.Day, tz) {
				cr.res.Count("date.midnight_missing_in_env_zone", 1)
			}
			cr.checkDate(tz, d)
		}
	}
	for _, h := range []int{0, 1, 9, 11, 12, 13, 23} {
		for _, m := range []int{0, 5, 30, 59} {
			for _, s := range [][2]int{{0, 0}, {45, 0}, {59, 999999000}, {7, 123456789}, {1, 500000000}} {
				cr.res.Count("time.values", 1)
				cr.checkTimeOfDay(dates.NewTimeOfDay(h, m, s[0], s[1]))
			}
		}
	}
}
