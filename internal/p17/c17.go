package p17

import (
	"fmt"
	"math/big"
	"regexp"
	"runtime/debug"
	"sort"
	"strings"
	"time"

	"github.com/nyaruka/goflow/envs"
	"github.com/nyaruka/goflow/excellent"
	"github.com/nyaruka/goflow/excellent/types"
	"github.com/nyaruka/goflow/flows/definition/legacy/expressions"

	"verif/internal/fw"
)

// C17 — legacy expression migration preserves meaning.

type c17 struct{}

func init() { fw.Register(&c17{}) }

func (p *c17) ID() string { return "C17" }

func (p *c17) Rule() string {
	return "a case is a bundle of legacy (Excellent1) templates printed from generator-side typed trees with the legacy precedence " +
		"(unary minus > ^ > * / > + - > comparisons > = <> > &, left associative, \"\" quote doubling): per bundle, focused templates put " +
		"one catalogued migratable function (callMigrators key) at one nesting position — top level, under every operator on either side, " +
		"as every argument of every other catalogued function; the (function, position) pairs are enumerated round-robin over the case index so a run covers all of them — " +
		"plus random deep trees, string-literal forms (doubled quotes, backslashes, parentheses, @) and templates with surrounding text, @@ and @identifier forms. " +
		"Operands are literals and legacy references (contact.age, flow.q1, step.value, extra.n …) bound to random small numbers / short ASCII strings / fixed dates. " +
		"Number literals are written in every form the legacy DECIMAL token admits (leading zeros 007 010 0012, trailing fractional zeros 2.0 2.50, both, under a unary minus, 5-10 digit values) at every position that takes a number — " +
		"in particular as the word / field index and stop of WORD, WORD_SLICE, FIELD over texts of 13 words / fields, where the migration rewrites the literal — and always denote their decimal value. " +
		"Besides a fixed catalogue of references, every case draws run result names, contact field keys and webhook keys from the neighbourhood of each word the reference mapping table anchors on " +
		"(contact_age contacted contacts xcontact my_flow steps value2 tel_number categories … : exact, extended, truncated, prefixed, doubled, digit-first forms of contact flow step extra parent child date channel, of the new top levels and of the property / URN scheme names) " +
		"and uses them in every scope form (flow.X flow.X.value .category .text .time, child.X…, parent.X…, extra.flow.X…, contact.X flow.contact.X step.contact.X parent.contact.X child.contact.X, extra.X extra.X.k extra.k.X extra.k.X.j) as @identifier, alone in @(…), as an operand and as a call argument; " +
		"the operand is bound where the reference denotes it (results / child.results / parent.results, fields / parent.fields / child.fields, legacy_extra), next to a neutrally named twin; the built-in contact properties, URN forms, channel and step.attachments.N are bound too. " +
		"A widening step with its own stream puts placeholder-like content ($1 $2 $3 dollar amounts, %s %[2]s, {0}) into a string literal (whole, in front, behind, inside) and makes the text after an @identifier / lone @(reference) begin with periods that do not continue it (..thanks ...and . ok .? and a trailing .). " +
		"Each template is migrated by expressions.MigrateTemplate and evaluated by excellent.Evaluator.Template in a context binding the migrated references (the migrated template is cut into text and expressions by the check's own scanner); " +
		"the value is compared with an independent reference evaluation of the legacy tree (numbers as decimals rounded to 6 places, text exactly, booleans ignoring the TRUE/true rendering change, dates through DAY/MONTH/YEAR/WEEKDAY/DAYS). " +
		"Every mismatch is shrunk and put through repair experiments (write the number literals canonically; count a negative word index from the front; use the neutrally named twin of a drawn name; parenthesise each call/operator of the legacy source in turn; replace backslashes / quotes in literals; separate an expression from the following text) which give the signature. Non-trivial case = at least one template whose value was compared and in which a function call is nested under an operator or inside another call; " +
		"distinct = distinct bundle text."
}

func (p *c17) Directed() []string {
	return directedNames()
}

const (
	quickCases       = 1500
	thoroughCases    = 30000
	quickPerCase     = 32
	thoroughPerCase  = 128
	focusedOutOfFour = 3 // of every 4 generated templates, 3 are focused on a (function, position) pair
)

func (p *c17) NumGenerated(tier string) int {
	if tier == "thorough" {
		return thoroughCases
	}
	return quickCases
}

func (p *c17) BatchSize(tier string) int {
	if tier == "thorough" {
		return 120
	}
	return 8 // small batches spread the (heavier) directed cases over several children
}

func (p *c17) CaseTimeoutS() int { return 120 }

func (p *c17) Floors(tier string) []string {
	return []string{
		"templates", "clause.migrated_without_error", "clause.parse.expressions_parsed", "clause.text.bodies_compared",
		"clause.value.compared", "value.num", "value.text", "value.bool", "value.approx",
		"nested.fn_under_operator", "nested.fn_in_fn", "literal.with_backslash", "literal.with_doubled_quote",
		"template.with_text", "template.with_atat", "template.identifier_form", "options.default_to_self", "options.raw_dates",
		"numform.leading_zeros.compared", "numform.trailing_zeros.compared", "numform.negative_noncanonical.compared", "numform.large_literal.compared",
		"numform.index_param_noncanonical.compared", "numform.index_param_octal_lookalike.compared",
		"reference.builtin_property.compared", "reference.drawn_name.compared", "reference.colliding_name.compared",
		"reference.colliding_name.identifier_form.compared", "reference.colliding_name.alone_in_expression.compared",
		"reference.colliding_name.as_call_argument.compared", "reference.colliding_name.as_operand.compared",
		"literal.placeholder_like.compared", "literal.placeholder_like.inside_reshaped_call.compared",
		"template.identifier_then_period.compared", "template.identifier_then_periods_and_name.compared",
		"template.lone_reference_then_periods_and_name.compared", "oracle.independent_scanner.templates_scanned",
	}
}

func (p *c17) ExtraEvidence(tier string, counters map[string]int64) map[string]any {
	fns := make([]string, 0, len(fnSpecs))
	for _, f := range fnSpecs {
		fns = append(fns, f.name)
	}
	return map[string]any{
		"catalogued_functions":       fns,
		"function_position_pairs":    len(allPairs),
		"number_positions":           len(numPositions),
		"directed_reference_names":   len(directedNamePool),
		"templates_checked":          counters["templates"],
		"templates_value_compared":   counters["templates.value_compared"],
		"excluded_migratable":        "NOW TODAY RAND RANDBETWEEN EPOCH (non-deterministic); TIME TIMEVALUE HOUR MINUTE SECOND FORMAT_DATE (time-of-day / env formatting); REGEX_GROUP READ_DIGITS FORMAT_LOCATION WORD_SLICE-with-negative-stop etc. (legacy meaning not pinned down)",
		"reference_evaluator_domain": "exact decimals with <=4 places and <1e5, integer exponents 0..4, terminating divisions, ASCII strings, dates 1990-2035 with day<=28; anything else is 'undefined' and not compared",
	}
}

// ---------------------------------------------------------------------------------------------
// one check of one template
// ---------------------------------------------------------------------------------------------

type checker struct {
	res  *fw.Result
	env  envs.Environment
	eval *excellent.Evaluator
	b    *bindings
	ref  *refEnv
	ctx  *types.XObject
	tops []string
	opts *expressions.MigrateOptions

	experiments int
}

var fixedEnv = envs.NewBuilder().WithDateFormat(envs.DateFormatYearMonthDay).WithTimeFormat(envs.TimeFormatHourMinute).WithTimezone(time.UTC).Build()

func newChecker(res *fw.Result, b *bindings, opts *expressions.MigrateOptions) *checker {
	ck := &checker{res: res, env: fixedEnv, eval: excellent.NewEvaluator(), b: b, opts: opts}
	ck.ref = b.refEnv()
	ck.ctx = b.buildContext()
	ck.tops = ck.ctx.Properties()
	sort.Strings(ck.tops)
	return ck
}

type outcome struct {
	clause   string // "" = every clause that could be checked holds
	detail   string
	source   string
	migrated string
	expected []string
	observed []string
	defined  bool // the reference evaluator knows the value of every expression
	compared int  // number of values compared
	panicSig string
}

type tok struct {
	expr bool
	text string
}

func scanTokens(s string, tops []string) []tok {
	var out []tok
	sc := excellent.NewXScanner(strings.NewReader(s), tops)
	sc.SetUnescapeBody(false)
	for tt, t := sc.Scan(); tt != excellent.EOF; tt, t = sc.Scan() {
		if tt == excellent.BODY {
			if len(out) > 0 && !out[len(out)-1].expr {
				out[len(out)-1].text += t
			} else {
				out = append(out, tok{text: t})
			}
		} else {
			out = append(out, tok{expr: true, text: t})
		}
	}
	return out
}

const markOpen, markClose = "\x01", "\x02"

var decimalRe = regexp.MustCompile(`^-?[0-9]+(\.[0-9]+)?$`)
var pow10_6 = big.NewInt(1000000)

func round6(r *big.Rat) *big.Int {
	// round half away from zero to 6 places, as an integer number of millionths
	x := new(big.Rat).Mul(r, new(big.Rat).SetInt(pow10_6))
	neg := x.Sign() < 0
	x.Abs(x)
	x.Add(x, ratHalf)
	q := new(big.Int).Div(x.Num(), x.Denom())
	if neg {
		q.Neg(q)
	}
	return q
}

func sameValue(exp val, obs string) bool {
	switch exp.t {
	case tT:
		return exp.s == obs
	case tB:
		if exp.b {
			return strings.EqualFold(obs, "true")
		}
		return strings.EqualFold(obs, "false")
	case tN:
		if !decimalRe.MatchString(obs) {
			return false
		}
		o, ok := new(big.Rat).SetString(obs)
		if !ok {
			return false
		}
		if exp.approx {
			d := new(big.Rat).Sub(o, exp.r)
			d.Abs(d)
			tol := new(big.Rat).Abs(exp.r)
			if tol.Cmp(ratOne) < 0 {
				tol.Set(ratOne)
			}
			tol.Mul(tol, big.NewRat(1, 1000000))
			return d.Cmp(tol) <= 0
		}
		return round6(o).Cmp(round6(exp.r)) == 0
	}
	return false
}

// isDroppedEmpty: the migration deliberately turns @("") into nothing.
func isDroppedEmpty(e *node, spaced bool) bool {
	return e.k == kStr && e.lit == "" && !e.paren
}

func (ck *checker) check(t *tmpl, primary bool) (o outcome) {
	res := ck.res
	src := t.source()
	o.source = src
	if !primary {
		ck.experiments++
	}

	// reference values
	exprs := t.exprs()
	vals := make([]val, len(exprs))
	o.defined = true
	for i, e := range exprs {
		v, ok := ck.ref.eval(e)
		if ok {
			var s string
			if s, ok = v.render(); ok {
				o.expected = append(o.expected, s)
			}
		}
		if !ok {
			o.defined = false
			o.expected = append(o.expected, "<outside the reference domain>")
		}
		vals[i] = v
	}

	// the call under test
	var migrated string
	var err error
	func() {
		defer func() {
			if rec := recover(); rec != nil {
				st := string(debug.Stack())
				o.clause = "panic"
				o.detail = fmt.Sprintf("MigrateTemplate panicked: %v", rec)
				o.panicSig = fw.PanicSignature("MigrateTemplate", rec, st)
			}
		}()
		fw.SetDetail("MigrateTemplate: " + src)
		migrated, err = expressions.MigrateTemplate(src, ck.opts)
	}()
	if o.clause != "" {
		return o
	}
	o.migrated = migrated
	if err != nil {
		o.clause, o.detail = "migrate-error", "a well-formed legacy template was rejected: "+err.Error()
		return o
	}
	if primary {
		res.Count("clause.migrated_without_error", 1)
	}

	// clause 1: every expression of the migrated template parses
	// (the migrated template is cut into text and expressions by the check's own scanner, refScan; goflow's scanner is
	// only consulted to record whether the two agree)
	toks := refScan(migrated, ck.tops)
	if primary {
		res.Count("oracle.independent_scanner.templates_scanned", 1)
		func() {
			defer func() { _ = recover() }()
			if !sameToks(toks, scanTokens(migrated, ck.tops)) {
				res.Count("oracle.independent_scanner.library_scanner_differs", 1)
			}
		}()
	}
	for _, tk := range toks {
		if !tk.expr {
			continue
		}
		var perr error
		func() {
			defer func() {
				if rec := recover(); rec != nil {
					perr = fmt.Errorf("excellent.Parse panicked: %v", rec)
				}
			}()
			_, perr = excellent.Parse(tk.text, nil)
		}()
		if perr != nil {
			o.clause, o.detail = "unparseable", fmt.Sprintf("migrated expression %q does not parse: %v", tk.text, perr)
			return o
		}
		if primary {
			res.Count("clause.parse.expressions_parsed", 1)
		}
	}

	// clause 2: text outside expressions is unchanged (and the expressions are where they were)
	var want []tok
	var wantVals []val
	for _, s := range t.segs {
		if s.expr != nil {
			if isDroppedEmpty(s.expr, t.spaced) {
				continue // @("") is deliberately migrated to nothing (also with the wrapping options)
			}
			want = append(want, tok{expr: true})
		} else if s.text != "" {
			if len(want) > 0 && !want[len(want)-1].expr {
				want[len(want)-1].text += s.text
			} else {
				want = append(want, tok{text: s.text})
			}
		}
	}
	for i, e := range exprs {
		if !isDroppedEmpty(e, t.spaced) {
			wantVals = append(wantVals, vals[i])
		}
	}
	if len(toks) != len(want) {
		o.clause, o.detail = "structure", fmt.Sprintf("the migrated template has %d text/expression segments, the legacy template %d", len(toks), len(want))
		return o
	}
	for i := range want {
		if want[i].expr != toks[i].expr {
			o.clause, o.detail = "structure", fmt.Sprintf("segment %d changed between text and expression", i)
			return o
		}
		if !want[i].expr {
			if want[i].text != toks[i].text {
				o.clause, o.detail = "text-changed", fmt.Sprintf("text outside expressions changed: %q became %q", want[i].text, toks[i].text)
				return o
			}
			if primary {
				res.Count("clause.text.bodies_compared", 1)
			}
		}
	}

	// clause 3: the value
	if !o.defined {
		return o
	}
	var out string
	var everr error
	func() {
		defer func() {
			if rec := recover(); rec != nil {
				everr = fmt.Errorf("Evaluator.Template panicked: %v", rec)
			}
		}()
		fw.SetDetail("Evaluator.Template: " + migrated)
		out, _, everr = ck.eval.Template(ck.env, ck.ctx, migrated, func(s string) string { return markOpen + s + markClose })
	}()
	if everr != nil {
		o.clause, o.detail = "eval-error", "the legacy template denotes a value but the migrated template fails to evaluate: "+oneLine(everr.Error())
		o.observed = []string{"ERROR: " + oneLine(everr.Error())}
		return o
	}
	// split the output into bodies and values
	var obsVals []string
	rest := out
	var bodies []string
	for {
		i := strings.Index(rest, markOpen)
		if i < 0 {
			bodies = append(bodies, rest)
			break
		}
		j := strings.Index(rest[i:], markClose)
		if j < 0 {
			bodies = append(bodies, rest)
			break
		}
		bodies = append(bodies, rest[:i])
		obsVals = append(obsVals, rest[i+1:i+j])
		rest = rest[i+j+1:]
	}
	o.observed = obsVals
	if len(obsVals) != len(wantVals) {
		o.clause, o.detail = "structure", fmt.Sprintf("evaluation produced %d values for %d legacy expressions", len(obsVals), len(wantVals))
		return o
	}
	// rendered text: @@ is a literal @ in both syntaxes
	k := 0
	for i := range want {
		if want[i].expr {
			k++
			continue
		}
		wb := strings.ReplaceAll(want[i].text, "@@", "@")
		if k >= len(bodies) || bodies[k] != wb {
			got := ""
			if k < len(bodies) {
				got = bodies[k]
			}
			o.clause, o.detail = "text-changed", fmt.Sprintf("rendered text outside expressions differs: want %q, got %q", wb, got)
			return o
		}
	}
	for i, v := range wantVals {
		o.compared++
		if !sameValue(v, obsVals[i]) {
			exp, _ := v.render()
			o.clause, o.detail = "value", fmt.Sprintf("expression %d evaluates to %q but the legacy expression denotes %q", i, obsVals[i], exp)
			return o
		}
		if primary {
			res.Count("clause.value.compared", 1)
			switch {
			case v.t == tN && v.approx:
				res.Count("value.approx", 1)
			case v.t == tN:
				res.Count("value.num", 1)
			case v.t == tT:
				res.Count("value.text", 1)
			case v.t == tB:
				res.Count("value.bool", 1)
			}
		}
	}
	return o
}

func oneLine(s string) string {
	s = strings.ReplaceAll(s, "\n", " ")
	if len(s) > 300 {
		s = s[:300] + "…"
	}
	return s
}

// ---------------------------------------------------------------------------------------------
// classification of a failing template: shrink, then the repair experiments
// ---------------------------------------------------------------------------------------------

func weight(n *node) int {
	w := 0
	n.walk(func(n, _ *node, _ int) {
		switch n.k {
		case kCall:
			w += 12
		case kBin, kNeg:
			w += 10
		case kRef:
			w += 6
		case kStr:
			w += 3 + 2*len(n.lit)
			if n.lit == "a" || n.lit == "ab" || n.lit == "a b" {
				w = w - 2 - len(n.lit)
			}
		case kNum:
			switch n.lit {
			case "2":
				w += 1
			case "3":
				w += 2
			case "0", "1":
				w += 3
			default:
				w += 3 + len(n.lit)
			}
		case kBool:
			w += 2
		}
		if n.paren {
			w++
		}
	})
	return w
}

// nth returns the i-th node (pre-order) of root with its parent and index.
func nth(root *node, i int) (n, parent *node, idx int) {
	c := 0
	root.walk(func(x, p *node, j int) {
		if c == i {
			n, parent, idx = x, p, j
		}
		c++
	})
	return
}

// replaced returns a copy of root in which the i-th node is replaced by repl.
func replaced(root *node, i int, repl *node) *node {
	c := root.clone()
	n, p, idx := nth(c, i)
	if p == nil {
		return repl
	}
	_ = n
	p.args[idx] = repl
	return c
}

func (ck *checker) literalOf(n *node) *node {
	v, ok := ck.ref.eval(n)
	if !ok {
		return nil
	}
	switch v.t {
	case tN:
		if v.approx {
			return nil
		}
		s := fmtRat(v.r)
		if strings.HasPrefix(s, "-") {
			return neg(num(s[1:]))
		}
		return num(s)
	case tT:
		return str(v.s)
	case tB:
		return boolean(v.b)
	case tD:
		if n.k == kCall && n.fn == "DATE" && n.args[0].k == kNum && n.args[1].k == kNum && n.args[2].k == kNum {
			return nil
		}
		return call("DATE", tD, num(fmt.Sprint(v.d.Year())), num(fmt.Sprint(int(v.d.Month()))), num(fmt.Sprint(v.d.Day())))
	}
	return nil
}

func paramIsLiteral(f *fnSpec, idx int) bool {
	if f.variadic > 0 {
		return f.params[0].lit
	}
	return idx < len(f.params) && f.params[idx].lit
}

// candidates lists smaller variants of root obtained by changing its i-th node.
func (ck *checker) candidates(root *node, i int) []*node {
	n, p, idx := nth(root, i)
	var out []*node
	// hoist a child of the same type; at the root: any sub-expression that can be shown on its own
	if p == nil {
		n.walk(func(x, xp *node, _ int) {
			if xp != nil && x.t != tD {
				out = append(out, x.clone())
			}
		})
	} else {
		for _, c := range n.args {
			if c.t == n.t {
				out = append(out, replaced(root, i, c.clone()))
			}
		}
	}
	// replace by the literal of its value
	if p != nil && (n.k == kNeg || n.k == kBin || n.k == kCall || n.k == kRef) {
		if n.k == kNeg && n.args[0].k == kNum {
			// already a negative literal
		} else if l := ck.literalOf(n); l != nil {
			out = append(out, replaced(root, i, l))
		}
	}
	// replace by a canonical small literal (the reference evaluator recomputes the expected value)
	if p != nil && !(p.k == kCall && fnByName[p.fn] != nil && paramIsLiteral(fnByName[p.fn], idx)) {
		switch n.t {
		case tN:
			for _, l := range []string{"2", "3", "1", "0"} {
				if !(n.k == kNum && n.lit == l) {
					out = append(out, replaced(root, i, num(l)))
				}
			}
		case tT:
			for _, l := range []string{"a", "ab", "a b"} {
				if !(n.k == kStr && n.lit == l) {
					out = append(out, replaced(root, i, str(l)))
				}
			}
		case tB:
			if n.k != kBool {
				out = append(out, replaced(root, i, boolean(true)), replaced(root, i, boolean(false)))
			}
		}
	}
	if n.k == kCall {
		if f := fnByName[n.fn]; f != nil {
			if f.variadic > 0 && len(n.args) > 1 {
				for j := range n.args {
					c := n.clone()
					c.args = append(c.args[:j:j], c.args[j+1:]...)
					out = append(out, replaced(root, i, c))
				}
			}
			if f.optional > 0 && len(n.args) > len(f.params)-f.optional {
				c := n.clone()
				c.args = c.args[:len(c.args)-1]
				out = append(out, replaced(root, i, c))
			}
		}
		if n.fnLit != n.fn {
			c := n.clone()
			c.fnLit = c.fn
			out = append(out, replaced(root, i, c))
		}
	}
	if n.paren {
		c := n.clone()
		c.paren = false
		out = append(out, replaced(root, i, c))
	}
	if n.k == kNum && canonicalLit(n.lit) != n.lit {
		c := n.clone()
		c.lit = canonicalLit(n.lit)
		out = append(out, replaced(root, i, c))
	}
	if n.k == kStr && len(n.lit) >= 2 && len(n.lit) <= 24 {
		rs := []rune(n.lit)
		for j := range rs {
			c := n.clone()
			c.lit = string(rs[:j]) + string(rs[j+1:])
			out = append(out, replaced(root, i, c))
		}
	}
	return out
}

func (ck *checker) shrink(root *node, budget *int) *node {
	cur := root
	for changed := true; changed; {
		changed = false
		size := cur.size()
		w := weight(cur)
		for i := 0; i < size && !changed; i++ {
			for _, cand := range ck.candidates(cur, i) {
				if weight(cand) >= w {
					continue
				}
				if cand.t == tD {
					continue // a date cannot be shown at top level
				}
				if *budget <= 0 {
					return cur
				}
				*budget--
				if ck.check(single(cand, true), false).clause != "" {
					cur, changed = cand, true
					break
				}
			}
		}
	}
	return cur
}

// hasTopLevelOperator: is the (new syntax) expression text something other than an atom?
func hasTopLevelOperator(s string) bool {
	depth := 0
	inStr := false
	for i := 0; i < len(s); i++ {
		c := s[i]
		if inStr {
			if c == '\\' {
				i++
			} else if c == '"' {
				inStr = false
			}
			continue
		}
		switch c {
		case '"':
			inStr = true
		case '(', '[':
			depth++
		case ')', ']':
			depth--
		case '+', '-', '*', '/', '^', '&', '=', '<', '>', '!':
			if depth == 0 {
				return true
			}
		}
	}
	return false
}

func mapStrings(n *node, f func(string) string) (*node, bool) {
	c := n.clone()
	changed := false
	c.walk(func(x, _ *node, _ int) {
		if x.k == kStr {
			if s := f(x.lit); s != x.lit {
				x.lit = s
				changed = true
			}
		}
	})
	return c, changed
}

// isAncestor: is the a-th node (pre-order) a proper ancestor of the b-th?
func isAncestor(root *node, a, b int) bool {
	if a >= b {
		return false
	}
	n, _, _ := nth(root, a)
	return b < a+n.size()
}

func isDateObserver(n *node) bool {
	if n.k != kCall || len(n.args) != 1 || n.args[0].t != tD {
		return false
	}
	switch n.fn {
	case "DAY", "MONTH", "YEAR", "WEEKDAY":
		return true
	}
	return false
}

type classification struct {
	sig     string
	what    string
	witness map[string]any
}

// classify reduces a failing template to a signature that names the defect rather than the input.
func (ck0 *checker) classify(t *tmpl, first outcome) classification {
	w := map[string]any{
		"legacy_template": first.source, "migrated": first.migrated, "clause": first.clause, "detail": first.detail,
		"expected": first.expected, "observed": first.observed, "operands": ck0.b.describeFor(first.source), "options": optsString(ck0.opts),
	}
	if first.panicSig != "" {
		return classification{first.panicSig, first.detail, w}
	}
	// the experiments run without the wrapping options whenever the failure does not need them
	ck := ck0
	if ck0.opts != nil {
		plain := &checker{res: ck0.res, env: ck0.env, eval: ck0.eval, b: ck0.b, ref: ck0.ref, ctx: ck0.ctx, tops: ck0.tops}
		if plain.check(t, false).clause != "" {
			ck = plain
		}
		defer func() { ck0.experiments += plain.experiments }()
	}

	// 1. which expression fails on its own?
	var root *node
	for _, e := range t.exprs() {
		if e.t == tD {
			continue
		}
		if ck.check(single(e, true), false).clause != "" {
			root = e
			break
		}
	}
	if root == nil {
		return ck.classifyTemplate(t, first, w)
	}

	// a date seen through DAY/MONTH/YEAR/WEEKDAY is a coarse observation: count days instead, if that fails too
	if isDateObserver(root) {
		fine := call("DAYS", tN, root.args[0].clone(), call("DATE", tD, num("2000"), num("1"), num("1")))
		if ck.check(single(fine, true), false).clause != "" {
			root = fine
		}
	}

	// 2. shrink it
	budget := 600
	root = ck.shrink(root, &budget)
	so := ck.check(single(root, true), false)
	w["shrunk_legacy"] = so.source
	w["shrunk_migrated"] = so.migrated
	w["shrunk_expected"] = so.expected
	w["shrunk_observed"] = so.observed
	w["shrunk_clause"] = so.clause
	w["shrunk_detail"] = so.detail
	passes1 := func(e *node) bool {
		o := ck.check(single(e, true), false)
		return o.clause == "" && (o.compared > 0 || !so.defined)
	}
	// a date is only seen through DAY/MONTH/YEAR/WEEKDAY: a repair must hold under every observer
	passes := func(e *node) bool {
		if isDateObserver(e) {
			for _, obs := range []string{"DAY", "MONTH", "YEAR"} {
				c := e.clone()
				c.fn, c.fnLit = obs, obs
				if !passes1(c) {
					return false
				}
			}
			return true
		}
		return passes1(e)
	}

	// 3. spelling experiments: number literals, negative indexes, drawn names
	if cl, ok := ck.classifySpelling(root, so, passes, w); ok {
		return cl
	}

	// 3a. string literal experiments
	if c, changed := mapStrings(root, func(s string) string { return strings.ReplaceAll(s, `\`, "/") }); changed && passes(c) {
		w["repair"] = "replacing every backslash in the string literals by / makes the migration correct"
		return classification{"literal-escape|backslash", "a legacy string literal containing a backslash does not denote the same characters after migration (backslashes are not escaped): " + so.source + " → " + so.migrated + "; " + so.detail, w}
	}
	if c, changed := mapStrings(root, func(s string) string { return strings.ReplaceAll(s, `"`, "'") }); changed && passes(c) {
		w["repair"] = "replacing every double quote in the string literals by ' makes the migration correct"
		return classification{"literal-escape|quote", "a legacy string literal containing a doubled quote does not denote the same characters after migration: " + so.source + " → " + so.migrated + "; " + so.detail, w}
	}

	if c, changed := mapStrings(root, func(s string) string {
		if !looksLikePlaceholder(s) {
			return s
		}
		return strings.NewReplacer("$", "S", "%", "P", "{", "<").Replace(s)
	}); changed && passes(c) {
		w["repair"] = "replacing $ % { in the string literals that look like a placeholder ($2, %s, {0}) by other characters makes the migration correct"
		return classification{"literal-rewritten|placeholder-like-text", "a legacy string literal whose content looks like a positional placeholder does not denote the same characters after migration: " + so.source + " → " + so.migrated + "; " + so.detail, w}
	}

	// 3b. parenthesisation experiments: wrap each call / operator node in turn
	type repair struct {
		kind   string
		atomic bool
		idx    int
		src    string
	}
	var reps []repair
	size := root.size()
	for i := 1; i < size; i++ {
		n, p, idx := nth(root, i)
		if n.k != kNeg && n.k != kBin && n.k != kCall {
			continue
		}
		if n.k == kNeg && n.args[0].k == kNum {
			continue // a negative literal
		}
		if n.paren || needsParen(p, idx, n) {
			continue
		}
		c := n.clone()
		c.paren = true
		variant := replaced(root, i, c)
		if !passes(variant) {
			continue
		}
		rp := repair{idx: i, src: printer{spaced: true}.print(variant)}
		switch {
		case n.k == kCall:
			rp.kind = n.constructKind()
			// is the migrated form of this call an atom?
			m, _ := expressions.MigrateTemplate("@("+printer{spaced: true}.print(n)+")", nil)
			ck.experiments++
			rp.atomic = !hasTopLevelOperator(strings.TrimSuffix(strings.TrimPrefix(m, "@("), ")"))
		case p.k == kCall:
			rp.kind = "arg-of:" + strings.ToLower(p.fn)
		default:
			rp.kind = "operand-of:" + p.constructKind()
		}
		reps = append(reps, rp)
	}
	if len(reps) > 0 {
		// Several wrappings may repair the same splice (the call whose migrated form is an operator expression,
		// an operator inside or around it). Name the call if there is one (outermost), else the innermost operator.
		anyCall := false
		for _, rp := range reps {
			anyCall = anyCall || strings.HasPrefix(rp.kind, "call:")
		}
		kinds := map[string]bool{}
		atomicOnly := true
		var srcs []string
		var keptIdx []int
		for i, rp := range reps {
			isCall := strings.HasPrefix(rp.kind, "call:")
			if anyCall != isCall {
				continue
			}
			skip := false
			for j, other := range reps {
				if i == j || strings.HasPrefix(other.kind, "call:") != isCall {
					continue
				}
				if isCall && isAncestor(root, other.idx, rp.idx) { // a repairing call further out
					skip = true
				}
				if !isCall && isAncestor(root, rp.idx, other.idx) { // a repairing operator further in
					skip = true
				}
			}
			if skip {
				continue
			}
			kinds[rp.kind] = true
			atomicOnly = atomicOnly && rp.atomic
			srcs = append(srcs, rp.src)
			keptIdx = append(keptIdx, rp.idx)
		}
		// Sibling calls that each repair the failure (RIGHT(s, SUM(a, b) + MOD(c, d)): wrapping either call makes the
		// +/- migration fall back to legacy_add(), which is spliced as one atom) are not the construct that loses the
		// grouping: if wrapping an operator that contains all of them repairs it too, that operator's position is.
		if anyCall && len(kinds) > 1 {
			best := -1
			for j, other := range reps {
				if strings.HasPrefix(other.kind, "call:") {
					continue
				}
				all := true
				for _, ki := range keptIdx {
					all = all && isAncestor(root, other.idx, ki)
				}
				if all && (best < 0 || other.idx > reps[best].idx) {
					best = j // the innermost one
				}
			}
			if best >= 0 {
				kinds = map[string]bool{reps[best].kind: true}
				atomicOnly = false
				srcs = []string{reps[best].src}
			}
		}
		ks := make([]string, 0, len(kinds))
		for k := range kinds {
			ks = append(ks, k)
		}
		sort.Strings(ks)
		w["repaired_by_parenthesising"] = srcs
		if atomicOnly {
			return classification{"paren-sensitive|" + strings.Join(ks, ","),
				"the migrated value is wrong unless the legacy call is parenthesised, although its migrated form is an atom (the +/- migration guesses operand types from the migrated text): " + so.source + " → " + so.migrated + "; " + so.detail, w}
		}
		return classification{"grouping-lost|" + strings.Join(ks, ","),
			"operand grouping is lost by the migration (a join/template is spliced without parentheses): " + so.source + " → " + so.migrated + "; " + so.detail, w}
	}
	culprit := root
	for (isDateObserver(culprit) || (culprit.k == kCall && culprit.fn == "DAYS" && len(culprit.args) == 2)) && culprit.args[0].k != kRef {
		culprit = culprit.args[0] // the observer of a date is not the construct that fails
	}
	ckind := culprit.constructKind()
	if culprit.k == kRef {
		ckind = "reference:" + strings.SplitN(culprit.ref, ".", 2)[0]
	}
	return classification{"other|" + so.clause + "|" + ckind, "migrated template does not keep the legacy meaning: " + so.source + " → " + so.migrated + "; " + so.detail, w}
}

// classifyTemplate: every expression is fine on its own, the failure needs the surrounding template.
func (ck *checker) classifyTemplate(t *tmpl, first outcome, w map[string]any) classification {
	// experiment: separate every expression from the text that follows it
	sep := &tmpl{spaced: t.spaced}
	changed := false
	for i, s := range t.segs {
		if s.expr == nil && i > 0 && t.segs[i-1].expr != nil && s.text != "" && !strings.HasPrefix(s.text, " ") {
			s.text = " " + s.text
			changed = true
		}
		sep.segs = append(sep.segs, s)
	}
	if changed && ck.check(sep, false).clause == "" {
		// smallest witness: the first expression + following text that fails on its own
		var wexpr *seg
		wtext := ""
		for i, s := range t.segs {
			if s.expr != nil && i+1 < len(t.segs) && t.segs[i+1].expr == nil {
				small := &tmpl{segs: []seg{s, t.segs[i+1]}, spaced: true}
				if o := ck.check(small, false); o.clause != "" {
					w["shrunk_legacy"], w["shrunk_migrated"], w["shrunk_detail"] = o.source, o.migrated, o.detail
					sc := s
					wexpr, wtext = &sc, t.segs[i+1].text
					break
				}
			}
		}
		w["repair"] = "a space between the expression and the following text makes the migration correct"
		if wexpr != nil && !continuesIdentifier(wtext) {
			// the text could not have been read as part of an identifier (it begins with a period that is not followed by a
			// name character, …): not the unwrapping of @(reference) in front of a name
			form := "expression"
			if wexpr.expr.k == kRef && wexpr.ident && !wexpr.expr.paren {
				form = "identifier"
			} else if wexpr.expr.k == kRef {
				form = "lone-reference"
			}
			w["expression_form"] = form
			return classification{"expression-extent|following-text-absorbed",
				"text that follows an expression and cannot continue an identifier is not kept as text outside the expression: " + fmt.Sprint(w["shrunk_legacy"]) + " → " + fmt.Sprint(w["shrunk_migrated"]) + "; " + fmt.Sprint(w["shrunk_detail"]), w}
		}
		return classification{"reference-unwrapped|runs-into-following-text",
			"@(reference) is migrated to @reference without parentheses and swallows the text that follows it: " + fmt.Sprint(w["shrunk_legacy"]) + " → " + fmt.Sprint(w["shrunk_migrated"]), w}
	}
	return classification{"other|" + first.clause + "|template", "the migrated template differs only in the context of the whole template: " + first.detail, w}
}

func optsString(o *expressions.MigrateOptions) string {
	if o == nil {
		return "nil"
	}
	return fmt.Sprintf("DefaultToSelf=%v URLEncode=%v RawDates=%v", o.DefaultToSelf, o.URLEncode, o.RawDates)
}

// ---------------------------------------------------------------------------------------------
// running one template with counters
// ---------------------------------------------------------------------------------------------

type caseState struct {
	res       *fw.Result
	fp        strings.Builder
	nontriv   bool
	firstSrc  []string
	mismatchN int
}

func (cs *caseState) runTemplate(ck *checker, t *tmpl, tag string) outcome {
	res := cs.res
	o := ck.check(t, true)
	cs.fp.WriteString(o.source)
	cs.fp.WriteByte('\n')
	if len(cs.firstSrc) < 4 {
		cs.firstSrc = append(cs.firstSrc, o.source)
	}
	res.Count("templates", 1)
	res.Count("templates."+tag, 1)
	if ck.opts != nil && ck.opts.DefaultToSelf {
		res.Count("options.default_to_self", 1)
	}
	if ck.opts != nil && ck.opts.RawDates {
		res.Count("options.raw_dates", 1)
	}
	nestedOp, nestedFn := false, false
	hasText, hasAtAt, hasIdent := false, false, false
	var marks []string // what the template exercises, counted once its value has been compared
	mark := func(m string) {
		for _, x := range marks {
			if x == m {
				return
			}
		}
		marks = append(marks, m)
	}
	for si, s := range t.segs {
		if s.expr == nil {
			if s.text != "" {
				hasText = true
			}
			if strings.Contains(s.text, "@@") {
				hasAtAt = true
			}
			if si > 0 && t.segs[si-1].expr != nil && t.segs[si-1].expr.k == kRef && !t.segs[si-1].expr.paren {
				form := "lone_reference"
				if t.segs[si-1].ident {
					form = "identifier"
				}
				if period, thenName := periodsAfterExpression(s.text); period {
					mark("template." + form + "_then_period")
					if thenName {
						mark("template." + form + "_then_periods_and_name")
					}
				}
			}
			continue
		}
		markPlaceholderLiterals(s.expr, false, mark)
		if s.ident && s.expr.k == kRef {
			hasIdent = true
		}
		identForm := s.ident && s.expr.k == kRef && !s.expr.paren
		s.expr.walk(func(n, p *node, idx int) {
			switch n.k {
			case kNum:
				if canonicalLit(n.lit) == n.lit {
					if p != nil && p.k == kNeg {
						mark("numform.negative_literal")
					}
					if ip, _, _ := strings.Cut(n.lit, "."); len(ip) >= 5 {
						mark("numform.large_literal")
					}
					break
				}
				lead := stripLeadingZeros(n.lit) != n.lit
				if lead {
					mark("numform.leading_zeros")
					res.Seen("number_literal_forms", "leading zeros")
				}
				if stripTrailingZeros(n.lit) != n.lit {
					mark("numform.trailing_zeros")
					res.Seen("number_literal_forms", "trailing fractional zeros")
				}
				if p != nil && p.k == kNeg {
					mark("numform.negative_noncanonical")
					res.Seen("number_literal_forms", "negated non-canonical literal")
				}
				if p != nil && p.k == kCall {
					res.Seen("number_literal_form_positions", "arg:"+strings.ToLower(p.fn)+"/"+fmt.Sprint(idx))
					if f := fnByName[p.fn]; f != nil && idx < len(f.params) && (f.params[idx].hint == "index" || f.params[idx].hint == "stop") {
						mark("numform.index_param_noncanonical")
						// reads differently in base 8 (010 = 8) or is not a base-8 number at all (08)
						if ip, _, _ := strings.Cut(n.lit, "."); lead && !strings.Contains(n.lit, ".") && len(strings.TrimLeft(ip, "0")) >= 2 {
							mark("numform.index_param_octal_lookalike")
						}
					}
				} else if p != nil && p.k == kBin {
					res.Seen("number_literal_form_positions", "operand:"+opName(p.op))
				}
			case kCall:
				res.Seen("functions", n.fn)
				if p != nil {
					if p.k == kCall {
						nestedFn = true
						res.Seen("nesting", strings.ToLower(n.fn)+" in "+strings.ToLower(p.fn))
					} else {
						nestedOp = true
						res.Seen("nesting", strings.ToLower(n.fn)+" under "+p.constructKind())
					}
				}
			case kStr:
				if strings.Contains(n.lit, `\`) {
					res.Count("literal.with_backslash", 1)
				}
				if strings.Contains(n.lit, `"`) {
					res.Count("literal.with_doubled_quote", 1)
				}
			case kRef:
				if d := ck.b.dynRefOf(n.ref); d != nil {
					res.Seen("reference_scope_forms", d.scope)
					if d.kind == "builtin" {
						mark("reference.builtin_property")
						break
					}
					class := nameClass(d.name)
					res.Seen("reference_name_classes", d.kind+" "+class)
					mark("reference.drawn_name")
					if class != "plain" {
						mark("reference.colliding_name")
						switch {
						case identForm:
							mark("reference.colliding_name.identifier_form")
						case p == nil:
							mark("reference.colliding_name.alone_in_expression")
						case p.k == kCall:
							mark("reference.colliding_name.as_call_argument")
						default:
							mark("reference.colliding_name.as_operand")
						}
					}
					break
				}
				res.Seen("references", n.ref)
			case kBin:
				res.Seen("operators", n.op)
			}
		})
	}
	if hasText {
		res.Count("template.with_text", 1)
	}
	if hasAtAt {
		res.Count("template.with_atat", 1)
	}
	if hasIdent {
		res.Count("template.identifier_form", 1)
	}
	if o.defined {
		res.Count("templates.reference_defined", 1)
	} else {
		res.Count("templates.outside_reference_domain", 1)
	}
	if o.compared > 0 && o.clause == "" {
		res.Count("templates.value_compared", 1)
		for _, m := range marks {
			res.Count(m+".compared", 1)
		}
		if nestedOp {
			res.Count("nested.fn_under_operator", 1)
		}
		if nestedFn {
			res.Count("nested.fn_in_fn", 1)
		}
		if nestedOp || nestedFn {
			cs.nontriv = true
		}
	}
	if o.clause != "" {
		res.Count("mismatch.total", 1)
		res.Count("mismatch.clause."+o.clause, 1)
		if nestedOp || nestedFn {
			cs.nontriv = true
		}
		cl := ck.classify(t, o)
		res.Count("mismatch.sig."+cl.sig, 1)
		res.Count("repair_experiments.migrations", int64(ck.experiments))
		res.Violate(cl.sig, cl.what, cl.witness)
	}
	return o
}

// markPlaceholderLiterals marks string literals whose content looks like a positional placeholder, and whether they sit
// (at any depth) inside an argument of a function that the migration re-shapes and that has several arguments.
func markPlaceholderLiterals(n *node, inReshaped bool, mark func(string)) {
	if n.k == kStr && looksLikePlaceholder(n.lit) {
		mark("literal.placeholder_like")
		if inReshaped {
			mark("literal.placeholder_like.inside_reshaped_call")
		}
	}
	for _, a := range n.args {
		markPlaceholderLiterals(a, inReshaped || (n.k == kCall && reshapedMultiArg[n.fn]), mark)
	}
}

func genOpts(r *fw.Rand) *expressions.MigrateOptions {
	switch r.Intn(10) {
	case 0:
		return &expressions.MigrateOptions{DefaultToSelf: true}
	case 1:
		return &expressions.MigrateOptions{RawDates: true}
	case 2:
		return &expressions.MigrateOptions{}
	}
	return nil
}

func (p *c17) Run(c fw.Case) fw.Result {
	res := fw.Result{}
	cs := &caseState{res: &res}
	if c.Directed != "" {
		p.directed(c, cs)
		res.Fingerprint = "directed:" + c.Directed
		res.NonTrivial = true
		res.Sample = map[string]any{"case": c.ID(), "first_templates": cs.firstSrc}
		return res
	}
	r := fw.NewRand(c.Seed, "C17", c.Index)
	per := quickPerCase
	if c.Tier == "thorough" {
		per = thoroughPerCase
	}
	focusedPer := per * focusedOutOfFour / 4
	// the seed rotates the enumeration so different seeds pair different indices with different operands
	base := (c.Gen*focusedPer + int(uint64(c.Seed)%uint64(len(allPairs)))*7) % len(allPairs)
	nf := 0
	for j := 0; j < per; j++ {
		g := &genr{r: r.Fork(fmt.Sprint("t", j))}
		b := genBindings(g.r)
		g.b = b
		ck := newChecker(&res, b, genOpts(g.r))
		var t *tmpl
		tag := "random"
		// up to 6 attempts to get a template inside the reference domain
		for attempt := 0; attempt < 6; attempt++ {
			switch {
			case j%4 < focusedOutOfFour:
				pr := allPairs[(base+nf)%len(allPairs)]
				tag = "focused"
				e := g.focused(pr, 2)
				if attempt == 0 {
					res.Seen("pairs", pr.f.name+"@"+pr.pos.String())
				}
				t = g.template([]*node{e}, g.r.Chance(0.2))
			case j%8 == 3:
				tag = "random"
				e := g.toTopLevel(g.expr(fw.Pick(g.r, []typ{tN, tN, tT, tT, tB, tD}), g.r.Range(2, 4), ""))
				t = g.template([]*node{e}, g.r.Chance(0.2))
			default:
				tag = "text"
				n := g.r.Range(1, 3)
				var es []*node
				for k := 0; k < n; k++ {
					if g.r.Chance(0.35) {
						es = append(es, g.leaf(fw.Pick(g.r, []typ{tN, tT}), ""))
					} else {
						es = append(es, g.toTopLevel(g.expr(fw.Pick(g.r, []typ{tN, tT, tB}), g.r.Range(1, 2), "")))
					}
				}
				t = g.template(es, true)
			}
			ok := true
			for _, e := range t.exprs() {
				if _, d := ck.ref.eval(e); !d {
					ok = false
				}
			}
			if ok {
				break
			}
			res.Count("generator.redrawn_outside_domain", 1)
		}
		if tag == "focused" {
			nf++
		}
		// widening step (widen.go), from a stream of its own; kept only if the template stays inside the reference domain
		if wt := widen(fw.NewRand(c.Seed, "C17-widen", c.Index*1024+j), t); wt != nil {
			ok := true
			for _, e := range wt.exprs() {
				if _, d := ck.ref.eval(e); !d {
					ok = false
				}
			}
			if ok {
				t = wt
				res.Count("generator.widened", 1)
			} else {
				res.Count("generator.widening_dropped_outside_domain", 1)
			}
		}
		cs.runTemplate(ck, t, tag)
	}
	res.Fingerprint = cs.fp.String()
	res.NonTrivial = cs.nontriv
	res.Sample = map[string]any{"case": c.ID(), "first_templates": cs.firstSrc}
	return res
}
