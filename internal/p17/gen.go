package p17

import (
	"fmt"
	"math/big"
	"strings"
	"time"

	"github.com/nyaruka/gocommon/dates"
	"github.com/nyaruka/goflow/excellent/types"
	"github.com/shopspring/decimal"

	"verif/internal/fw"
)

// ---------------------------------------------------------------------------------------------
// operand bindings: legacy references and where flows/definition/legacy/expressions/context.go
// sends them in the new context
// ---------------------------------------------------------------------------------------------

type refDef struct {
	legacy string // canonical legacy reference
	t      typ
	slot   string // which generated operand it is bound to
}

// Every legacy reference used by the generator. The "slot" names the generated operand; the new
// context (buildContext) puts the same operand where the migrated reference points.
var refDefs = []refDef{
	{"contact.age", tN, "n1"},          // -> fields.age
	{"flow.q1", tN, "n2"},              // -> results.q1 (object with default)
	{"flow.q1.value", tN, "n2"},        // -> results.q1.value
	{"extra.n", tN, "n3"},              // -> legacy_extra.n
	{"child.score", tN, "n4"},          // -> child.results.score
	{"parent.level.value", tN, "n5"},   // -> parent.results.level.value
	{"extra.flow.level", tN, "n5"},     // -> parent.results.level
	{"step.contact.age", tN, "n1"},     // -> fields.age
	{"contact.name", tT, "s1"},         // -> contact.name
	{"contact", tT, "s1"},              // -> contact (default)
	{"contact.nick", tT, "s2"},         // -> fields.nick
	{"flow.color", tT, "s3"},           // -> results.color
	{"flow.color.category", tT, "s4"},  // -> results.color.category_localized
	{"flow.color.text", tT, "s5"},      // -> results.color.input
	{"step.value", tT, "s6"},           // -> input
	{"step", tT, "s6"},                 // -> input
	{"step.text", tT, "s6"},            // -> input.text
	{"extra.s", tT, "s7"},              // -> legacy_extra.s
	{"extra.addr.city", tT, "s8"},      // -> legacy_extra.addr.city
	{"extra.results.1", tT, "s9"},      // -> legacy_extra.results["1"]
	{"flow.2factor", tT, "s10"},        // -> results["2factor"]
	{"parent.contact.name", tT, "s11"}, // -> parent.contact.name
	{"child.contact.nick", tT, "s12"},  // -> child.fields.nick
	{"contact.joined", tD, "d1"},       // -> fields.joined
	{"extra.d", tD, "d2"},              // -> legacy_extra.d
}

var refsByType = func() map[typ][]refDef {
	m := map[typ][]refDef{}
	for _, d := range refDefs {
		m[d.t] = append(m[d.t], d)
	}
	return m
}()

var numOperands = []string{"0", "1", "2", "3", "4", "5", "6", "7", "8", "9", "10", "12", "2", "3", "4", "0.5", "1.5", "2.25", "7.5", "0.1", "100", "-1", "-2", "-3.5"}
var simpleTexts = []string{"bee cat dog", "Hello World", "red", "a b c d", "Ryan Lewis", "ONE two Three", "x", "quick brown fox jumps", "Bob"}
var otherTexts = []string{"", "a,b;c", "it's", "50%", "a1", "say \"hi\"", `C:\temp`, "x-y_z", "(ok)", "1+1", " lead", "tab\there", "A&B", "q?"}

type bindings struct {
	nums  map[string]string    // slot -> decimal text
	texts map[string]string    // slot -> text
	dts   map[string]time.Time // slot -> UTC midnight

	// the drawn part (refs.go)
	results     map[string]map[string]*resEnt // root of the new context ("", "child", "parent") -> result name
	fields      map[string]map[string]val     // root -> field key
	contacts    map[string]*contactEnt        // root -> contact
	extra       map[string]any                // webhook payload: nested maps with val leaves
	inputTime   time.Time
	attachments []string
	twins       int
	twinVals    map[string]val // legacy reference of a neutrally named twin -> operand
	dyn         []dynRef
	dynIdx      map[string]int
	dynByType   map[typ][]int
}

func newBindings() *bindings {
	return &bindings{nums: map[string]string{}, texts: map[string]string{}, dts: map[string]time.Time{},
		results: map[string]map[string]*resEnt{}, fields: map[string]map[string]val{}, contacts: map[string]*contactEnt{},
		extra: map[string]any{}, dynIdx: map[string]int{}, dynByType: map[typ][]int{}, twinVals: map[string]val{}}
}

// genBindings draws the operands of the fixed catalogue and the per-case references.
func genBindings(r *fw.Rand) *bindings {
	b := genStaticBindings(r)
	b.genDynamic(r)
	return b
}

func genStaticBindings(r *fw.Rand) *bindings {
	b := newBindings()
	for i := 1; i <= 5; i++ {
		b.nums[fmt.Sprintf("n%d", i)] = fw.Pick(r, numOperands)
	}
	for i := 1; i <= 12; i++ {
		if r.Chance(0.7) {
			b.texts[fmt.Sprintf("s%d", i)] = fw.Pick(r, simpleTexts)
		} else {
			b.texts[fmt.Sprintf("s%d", i)] = fw.Pick(r, otherTexts)
		}
	}
	for i := 1; i <= 2; i++ {
		b.dts[fmt.Sprintf("d%d", i)] = time.Date(r.Range(1995, 2030), time.Month(r.Range(1, 12)), r.Range(1, 28), 0, 0, 0, 0, time.UTC)
	}
	return b
}

func (b *bindings) refEnv() *refEnv {
	e := &refEnv{refs: map[string]val{}}
	for _, d := range refDefs {
		switch d.t {
		case tN:
			r, _ := new(big.Rat).SetString(b.nums[d.slot])
			e.refs[d.legacy] = val{t: tN, r: r}
		case tT:
			e.refs[d.legacy] = val{t: tT, s: b.texts[d.slot]}
		case tD:
			e.refs[d.legacy] = val{t: tD, d: b.dts[d.slot]}
		}
	}
	for _, d := range b.dyn {
		e.refs[d.legacy] = d.v
	}
	for k, v := range b.twinVals {
		e.refs[k] = v
	}
	return e
}

// describeFor lists the operands of the references that occur in a template.
func (b *bindings) describeFor(src string) map[string]any {
	m := map[string]any{}
	low := strings.ToLower(src)
	for k, v := range b.describe() {
		if strings.Contains(low, k) {
			m[k] = v
		}
	}
	for _, d := range b.dyn {
		if strings.Contains(low, d.legacy) {
			s, _ := d.v.render()
			if d.v.t == tD {
				s = d.v.d.Format("2006-01-02")
			}
			m[d.legacy] = s
		}
	}
	return m
}

func (b *bindings) describe() map[string]any {
	m := map[string]any{}
	for _, d := range refDefs {
		switch d.t {
		case tN:
			m[d.legacy] = b.nums[d.slot]
		case tT:
			m[d.legacy] = b.texts[d.slot]
		case tD:
			m[d.legacy] = b.dts[d.slot].Format("2006-01-02")
		}
	}
	return m
}

func xnum(s string) types.XValue  { return types.NewXNumber(decimal.RequireFromString(s)) }
func xtext(s string) types.XValue { return types.NewXText(s) }
func xobj(m map[string]types.XValue) *types.XObject {
	return types.NewXObject(m)
}

// result builds something shaped like a run result: the default and .value are text (results are
// always stored as text by the engine).
func result(value, category, input string) types.XValue {
	return xobj(map[string]types.XValue{
		"__default__":        xtext(value),
		"value":              xtext(value),
		"category":           xtext("base:" + category), // the legacy .category is the localized name
		"category_localized": xtext(category),
		"input":              xtext(input),
		"name":               xtext("Result"),
	})
}

// canonical decimal text (the way the engine would have stored a number as a result value)
func canonNum(s string) string {
	r, _ := new(big.Rat).SetString(s)
	return fmtRat(r)
}

// buildContext is the Excellent context in which migrated templates are evaluated: every operand
// sits where context.go's mappings send the legacy reference.
func (b *bindings) buildContext() *types.XObject {
	top := map[string]any{
		"contact": map[string]any{
			"__default__": xtext(b.texts["s1"]),
			"name":        xtext(b.texts["s1"]),
		},
		"fields": map[string]any{
			"age":    xnum(b.nums["n1"]),
			"nick":   xtext(b.texts["s2"]),
			"joined": types.NewXDateTime(b.dts["d1"]),
		},
		"results": map[string]any{
			"q1":      result(canonNum(b.nums["n2"]), "Numeric", canonNum(b.nums["n2"])),
			"color":   result(b.texts["s3"], b.texts["s4"], b.texts["s5"]),
			"2factor": result(b.texts["s10"], "All", b.texts["s10"]),
		},
		"input": map[string]any{
			"__default__": xtext(b.texts["s6"]),
			"text":        xtext(b.texts["s6"]),
		},
		"legacy_extra": map[string]any{
			"n":       xnum(b.nums["n3"]),
			"s":       xtext(b.texts["s7"]),
			"addr":    map[string]any{"city": xtext(b.texts["s8"])},
			"results": map[string]any{"1": xtext(b.texts["s9"])},
			"d":       types.NewXDate(dates.ExtractDate(b.dts["d2"])),
		},
		"child": map[string]any{
			"results": map[string]any{"score": result(canonNum(b.nums["n4"]), "Numeric", "x")},
			"fields":  map[string]any{"nick": xtext(b.texts["s12"])},
		},
		"parent": map[string]any{
			"results": map[string]any{"level": result(canonNum(b.nums["n5"]), "Numeric", "x")},
			"contact": map[string]any{"__default__": xtext(b.texts["s11"]), "name": xtext(b.texts["s11"])},
		},
	}
	b.addDynamic(top)
	return treeToX(top).(*types.XObject)
}

// ---------------------------------------------------------------------------------------------
// function catalogue (the part of callMigrators whose legacy meaning the reference evaluator knows)
// ---------------------------------------------------------------------------------------------

type param struct {
	t    typ    // tN, tT, tB, tD, tAny
	hint string // what a useful value looks like
	lit  bool   // must be a literal (not a nesting position)
}

type fnSpec struct {
	name     string
	ret      typ // tAny: IF (type of its branches)
	params   []param
	optional int // how many trailing params may be omitted
	variadic int // >0: params[0] repeated 1..variadic times
}

var fnSpecs = []fnSpec{
	{name: "SUM", ret: tN, params: []param{{t: tN}}, variadic: 3},
	{name: "AVERAGE", ret: tN, params: []param{{t: tN}}, variadic: 2},
	{name: "MAX", ret: tN, params: []param{{t: tN}}, variadic: 3},
	{name: "MIN", ret: tN, params: []param{{t: tN}}, variadic: 3},
	{name: "ABS", ret: tN, params: []param{{t: tN}}},
	{name: "POWER", ret: tN, params: []param{{t: tN}, {t: tN, hint: "exp"}}},
	{name: "EXP", ret: tN, params: []param{{t: tN, hint: "exp"}}},
	{name: "MOD", ret: tN, params: []param{{t: tN, hint: "nonneg"}, {t: tN, hint: "pos"}}},
	{name: "INT", ret: tN, params: []param{{t: tN, hint: "nonneg"}}},
	{name: "TRUNC", ret: tN, params: []param{{t: tN, hint: "nonneg"}}},
	{name: "ROUND", ret: tN, params: []param{{t: tN, hint: "nonneg"}, {t: tN, hint: "places"}}},
	{name: "ROUNDUP", ret: tN, params: []param{{t: tN, hint: "nonneg"}, {t: tN, hint: "places"}}},
	{name: "ROUNDDOWN", ret: tN, params: []param{{t: tN, hint: "nonneg"}, {t: tN, hint: "places"}}},
	{name: "LEN", ret: tN, params: []param{{t: tT}}},
	{name: "CODE", ret: tN, params: []param{{t: tT, hint: "nonempty"}}},
	{name: "UNICODE", ret: tN, params: []param{{t: tT, hint: "nonempty"}}},
	{name: "WORD_COUNT", ret: tN, params: []param{{t: tT, hint: "simple"}, {t: tB, hint: "flag", lit: true}}, optional: 1},
	{name: "WEEKDAY", ret: tN, params: []param{{t: tD}}},
	{name: "DAY", ret: tN, params: []param{{t: tD}}},
	{name: "MONTH", ret: tN, params: []param{{t: tD}}},
	{name: "YEAR", ret: tN, params: []param{{t: tD}}},
	{name: "DAYS", ret: tN, params: []param{{t: tD}, {t: tD}}},
	{name: "DATEDIF", ret: tN, params: []param{{t: tD}, {t: tD}, {t: tT, hint: "unitD", lit: true}}},

	{name: "CONCATENATE", ret: tT, params: []param{{t: tAny}}, variadic: 3},
	{name: "LEFT", ret: tT, params: []param{{t: tT}, {t: tN, hint: "count"}}},
	{name: "RIGHT", ret: tT, params: []param{{t: tT}, {t: tN, hint: "count1"}}},
	{name: "UPPER", ret: tT, params: []param{{t: tT}}},
	{name: "LOWER", ret: tT, params: []param{{t: tT}}},
	{name: "PROPER", ret: tT, params: []param{{t: tT, hint: "simple"}}},
	{name: "CLEAN", ret: tT, params: []param{{t: tT}}},
	{name: "WORD", ret: tT, params: []param{{t: tT, hint: "simple"}, {t: tN, hint: "index"}, {t: tB, hint: "flag", lit: true}}, optional: 1},
	{name: "WORD_SLICE", ret: tT, params: []param{{t: tT, hint: "simple"}, {t: tN, hint: "index"}, {t: tN, hint: "stop"}, {t: tB, hint: "flag", lit: true}}, optional: 2},
	{name: "FIRST_WORD", ret: tT, params: []param{{t: tT, hint: "simple"}}},
	{name: "REMOVE_FIRST_WORD", ret: tT, params: []param{{t: tT, hint: "simple"}}},
	{name: "FIELD", ret: tT, params: []param{{t: tT, hint: "fields"}, {t: tN, hint: "index"}, {t: tT, hint: "delim", lit: true}}},
	{name: "REPT", ret: tT, params: []param{{t: tT}, {t: tN, hint: "count"}}},
	{name: "SUBSTITUTE", ret: tT, params: []param{{t: tT}, {t: tT, hint: "nonempty"}, {t: tT}}},
	{name: "CHAR", ret: tT, params: []param{{t: tN, hint: "charcode"}}},
	{name: "UNICHAR", ret: tT, params: []param{{t: tN, hint: "charcode"}}},
	{name: "FIXED", ret: tT, params: []param{{t: tN, hint: "nonneg"}, {t: tN, hint: "places"}, {t: tB, hint: "flag", lit: true}}, optional: 2},
	{name: "PERCENT", ret: tT, params: []param{{t: tN, hint: "fraction"}}},

	{name: "IF", ret: tAny, params: []param{{t: tB}, {t: tAny, hint: "branch"}, {t: tAny, hint: "branch"}}},
	{name: "AND", ret: tB, params: []param{{t: tB}}, variadic: 3},
	{name: "OR", ret: tB, params: []param{{t: tB}}, variadic: 3},
	{name: "TRUE", ret: tB},
	{name: "FALSE", ret: tB},

	{name: "DATE", ret: tD, params: []param{{t: tN, hint: "year"}, {t: tN, hint: "month"}, {t: tN, hint: "day"}}},
	{name: "EDATE", ret: tD, params: []param{{t: tD}, {t: tN, hint: "months"}}},
	{name: "DATEVALUE", ret: tD, params: []param{{t: tT, hint: "isodate", lit: true}}},
}

var fnByName = func() map[string]*fnSpec {
	m := map[string]*fnSpec{}
	for i := range fnSpecs {
		m[fnSpecs[i].name] = &fnSpecs[i]
	}
	return m
}()

// fnsReturning lists the functions usable where a value of type t is wanted.
func fnsReturning(t typ) []*fnSpec {
	var out []*fnSpec
	for i := range fnSpecs {
		f := &fnSpecs[i]
		if f.ret == t || (f.ret == tAny && t != tD) {
			out = append(out, f)
		}
	}
	return out
}

// position describes where a focused call is nested.
type position struct {
	kind string // "top", "op", "arg"
	op   string // kind op: operator (or "neg")
	side int    // kind op: 0 left, 1 right
	fn   *fnSpec
	idx  int // kind arg: parameter index
}

func (p position) String() string {
	switch p.kind {
	case "op":
		if p.op == "neg" {
			return "under:neg"
		}
		return fmt.Sprintf("under:%s/%s", opName(p.op)+"("+p.op+")", []string{"left", "right"}[p.side])
	case "arg":
		return fmt.Sprintf("arg:%s/%d", strings.ToLower(p.fn.name), p.idx)
	}
	return "top"
}

// positionsFor lists every nesting position that accepts a value of type t.
func positionsFor(t typ) []position {
	ps := []position{}
	addOp := func(op string) {
		ps = append(ps, position{kind: "op", op: op, side: 0}, position{kind: "op", op: op, side: 1})
	}
	switch t {
	case tN:
		ps = append(ps, position{kind: "op", op: "neg"})
		for _, op := range []string{"^", "*", "/", "+", "-", "<", "<=", ">", ">=", "=", "<>", "&"} {
			addOp(op)
		}
	case tT:
		for _, op := range []string{"=", "<>", "&"} {
			addOp(op)
		}
	case tD:
		ps = append(ps, position{kind: "op", op: "+", side: 0}, position{kind: "op", op: "-", side: 0})
	}
	for i := range fnSpecs {
		f := &fnSpecs[i]
		for j, p := range f.params {
			if p.lit {
				continue
			}
			if p.t == t || (p.t == tAny && (t == tN || t == tT)) || (p.hint == "branch" && t == tB) {
				ps = append(ps, position{kind: "arg", fn: f, idx: j})
			}
		}
	}
	return ps
}

type pair struct {
	f   *fnSpec
	ret typ // concrete return type (IF: N, T or B)
	pos position
}

// allPairs: every catalogued function at every nesting position its result type fits.
var allPairs = func() []pair {
	var out []pair
	for i := range fnSpecs {
		f := &fnSpecs[i]
		rets := []typ{f.ret}
		if f.ret == tAny {
			rets = []typ{tN, tT, tB}
		}
		for _, rt := range rets {
			out = append(out, pair{f: f, ret: rt, pos: position{kind: "top"}})
			for _, p := range positionsFor(rt) {
				out = append(out, pair{f: f, ret: rt, pos: p})
			}
		}
	}
	return out
}()

// ---------------------------------------------------------------------------------------------
// the typed generator
// ---------------------------------------------------------------------------------------------

type genr struct {
	r *fw.Rand
	b *bindings // the case's bindings (nil: only the fixed catalogue of references is used)
}

// pickRef chooses a legacy reference of type t: from the fixed catalogue or from the case's drawn references.
func (g *genr) pickRef(t typ) *node {
	if g.b != nil && g.r.Chance(0.55) {
		if idx := g.b.dynByType[t]; len(idx) > 0 {
			// drawn names (results, fields, webhook keys) are preferred to the built-in contact properties
			for attempt := 0; attempt < 3; attempt++ {
				d := g.b.dyn[fw.Pick(g.r, idx)]
				if d.kind != "builtin" || attempt == 2 || g.r.Chance(0.3) {
					return refNode(g.spellRef(d.legacy), t)
				}
			}
		}
	}
	d := fw.Pick(g.r, refsByType[t])
	return refNode(g.spellRef(d.legacy), t)
}

// numForm re-spells a number literal the way a person might have typed it: the legacy grammar's
// DECIMAL is [0-9]+ ('.' [0-9]+)? and always decimal, so 007, 010, 2.0 and 02.50 are 7, 10, 2 and 2.5.
func (g *genr) numForm(n *node) *node {
	if !g.r.Chance(0.3) {
		return n
	}
	target := n
	if n.k == kNeg && len(n.args) == 1 && n.args[0].k == kNum {
		target = n.args[0]
	}
	if target.k != kNum {
		return n
	}
	target.lit = respell(target.lit, g.r.Intn(6))
	return n
}

// respell gives one of the spellings of a canonical decimal literal.
func respell(lit string, form int) string {
	switch form {
	case 0:
		return "0" + lit
	case 1:
		return "00" + lit
	case 2:
		if strings.Contains(lit, ".") {
			return lit + "0"
		}
		return lit + ".0"
	case 3:
		if strings.Contains(lit, ".") {
			return lit + "00"
		}
		return lit + ".00"
	case 4:
		if strings.Contains(lit, ".") {
			return "0" + lit + "0"
		}
		return "0" + lit + ".0"
	}
	return "000" + lit
}

// canonicalLit undoes respell: no leading zeros, no trailing fractional zeros.
func canonicalLit(lit string) string {
	ip, fp, hasFrac := strings.Cut(lit, ".")
	ip = strings.TrimLeft(ip, "0")
	if ip == "" {
		ip = "0"
	}
	if hasFrac {
		fp = strings.TrimRight(fp, "0")
		if fp != "" {
			return ip + "." + fp
		}
	}
	return ip
}

const longWords = "one two three four five six seven eight nine ten eleven twelve thirteen"

var longFieldTokens = []string{"a1", "b2", "c3", "d4", "e5", "f6", "g7", "h8", "i9", "j10", "k11", "l12", "m13"}

func (g *genr) spell(name string) string {
	switch g.r.Intn(10) {
	case 0:
		return strings.ToLower(name)
	case 1:
		return name[:1] + strings.ToLower(name[1:])
	}
	return name
}

func (g *genr) spellRef(name string) string {
	switch g.r.Intn(10) {
	case 0:
		return strings.ToUpper(name)
	case 1:
		return strings.ToUpper(name[:1]) + name[1:]
	}
	return name
}

func intLit(i int) *node {
	if i < 0 {
		return neg(num(fmt.Sprint(-i)))
	}
	return num(fmt.Sprint(i))
}

// numLeaf produces a number literal (canonically spelled) or reference that suits the hint.
func (g *genr) numLeaf(hint string) *node {
	r := g.r
	switch hint {
	case "exp":
		return intLit(r.Range(0, 3))
	case "places":
		return intLit(r.Range(0, 2))
	case "count":
		return intLit(r.Range(0, 4))
	case "count1":
		return intLit(r.Range(1, 4))
	case "index":
		switch r.Intn(20) {
		case 0:
			return intLit(-r.Range(1, 3)) // from the end
		case 1, 2, 3, 4, 5, 6, 7:
			return intLit(r.Range(5, 13))
		}
		return intLit(r.Range(1, 4))
	case "stop":
		switch r.Intn(16) {
		case 0, 1, 2, 3:
			return intLit(r.Range(7, 15))
		case 4, 5:
			return num(fw.Pick(r, []string{"100", "65536", "2147483647"}))
		case 6:
			return num("0") // the end
		case 7:
			return intLit(-r.Range(1, 2)) // from the end
		}
		return intLit(r.Range(3, 6))
	case "charcode":
		return intLit(r.Range(65, 90))
	case "year":
		return intLit(r.Range(1995, 2030))
	case "month":
		return intLit(r.Range(1, 12))
	case "day":
		return intLit(r.Range(1, 28))
	case "months":
		return intLit(r.Range(-6, 6))
	case "fraction":
		return num(fw.Pick(r, []string{"0.25", "0.5", "0.07", "1", "0.99", "1.2"}))
	case "pos":
		return num(fw.Pick(r, []string{"1", "2", "3", "4", "5", "7", "0.5", "10"}))
	}
	if r.Chance(0.35) {
		return g.pickRef(tN)
	}
	switch r.Intn(12) {
	case 0:
		return num(fw.Pick(r, []string{"0.5", "1.5", "2.25", "0.1", "2.50", "10.0", "0.125"}))
	case 1:
		// (5-digit and larger literals only appear where the surrounding structure is controlled — the directed
		// number-forms cases and the stop of WORD_SLICE — because a known grouping loss around them can turn a small
		// REPT count into a huge one)
		return num(fw.Pick(r, []string{"10", "12", "100", "25", "64"}))
	case 2:
		if hint != "nonneg" {
			return intLit(-r.Range(1, 5))
		}
	}
	return intLit(r.Range(0, 9))
}

// leaf produces a literal or a reference of type t that suits the hint.
func (g *genr) leaf(t typ, hint string) *node {
	r := g.r
	switch t {
	case tN:
		return g.numForm(g.numLeaf(hint))
	case tT:
		switch hint {
		case "simple":
			if r.Chance(0.3) {
				return str(longWords)
			}
			if r.Chance(0.4) {
				return g.pickRef(tT)
			}
			return str(fw.Pick(r, simpleTexts))
		case "fields":
			d := fw.Pick(r, []string{",", "+", "|", ";"})
			return str(strings.Join(fw.Pick(r, [][]string{{"15", "M", "Seattle"}, {"a", "b", "c", "d"}, {"red", "green"}, {"x1"}, longFieldTokens, longFieldTokens}), d))
		case "delim":
			return str(fw.Pick(r, []string{",", "+", "|", ";"}))
		case "unitD":
			return str("D")
		case "isodate":
			return str(fmt.Sprintf("%04d-%02d-%02d", r.Range(1995, 2030), r.Range(1, 12), r.Range(1, 28)))
		}
		if r.Chance(0.35) {
			return g.pickRef(tT)
		}
		return str(g.literalText(hint == "nonempty"))
	case tB:
		b := boolean(r.Bool())
		switch r.Intn(4) {
		case 0:
			b.lit = strings.ToLower(b.lit)
		case 1:
			b.lit = b.lit[:1] + strings.ToLower(b.lit[1:])
		}
		return b
	case tD:
		if r.Chance(0.5) {
			return g.pickRef(tD)
		}
		if r.Chance(0.25) {
			return call(g.spell("DATEVALUE"), tD, g.leaf(tT, "isodate"))
		}
		return call(g.spell("DATE"), tD, g.leaf(tN, "year"), g.leaf(tN, "month"), g.leaf(tN, "day"))
	}
	return num("1")
}

// literalText: contents of a legacy string literal, with the forms the property names (doubled
// quotes, backslashes) and characters that matter to the template scanner.
func (g *genr) literalText(nonEmpty bool) string {
	r := g.r
	switch r.Intn(10) {
	case 0, 1, 2, 3:
		return fw.Pick(r, simpleTexts)
	case 4:
		return fw.Pick(r, []string{`say "hi"`, `"`, `""`, `a"b`, `"quoted"`, `x"`, `"y`, `6" tall`})
	case 5:
		return fw.Pick(r, []string{`a\b`, `C:\temp`, `\d+`, `a\`, `\`, `\\`, `a\nb`, `tab\t`, `\w+ \w+`, `a\"`, `\u0041`, `x\y"z`, `\\server\share`, `50\50`})
	case 6:
		return fw.Pick(r, []string{"(", ")", ")(", "a, b", "@", "@@", "@(1+1)", "@contact.name", "it's", "1+1", "a & b", "x = y", "<>", "50%", "#1", "a.b"})
	case 7:
		if nonEmpty {
			return "z"
		}
		return ""
	}
	// a few random characters from an alphabet biased to quoting
	alpha := []string{"a", "b", "c", " ", "X", "1", `"`, `\`, "(", ")", ",", "'", "n", "t", "-", "&"}
	n := r.Range(1, 6)
	var b strings.Builder
	for i := 0; i < n; i++ {
		b.WriteString(fw.Pick(r, alpha))
	}
	return b.String()
}

// expr generates an expression of type t with at most the given depth.
func (g *genr) expr(t typ, depth int, hint string) *node {
	r := g.r
	if depth <= 0 || r.Chance(0.15) {
		return g.leaf(t, hint)
	}
	var n *node
	switch t {
	case tN:
		switch r.Weighted([]int{40, 6, 50, 4}) {
		case 0:
			op := fw.Pick(r, []string{"+", "-", "*", "/", "^", "+", "-", "*"})
			switch op {
			case "^":
				n = bin(op, g.expr(tN, depth-1, ""), g.expr(tN, depth-1, "exp"))
			case "/":
				n = bin(op, g.expr(tN, depth-1, ""), g.expr(tN, depth-1, "pos"))
			default:
				n = bin(op, g.expr(tN, depth-1, hint), g.expr(tN, depth-1, hint))
			}
		case 1:
			n = neg(g.expr(tN, depth-1, ""))
		case 2:
			n = g.callOf(fw.Pick(r, fnsReturning(tN)), tN, depth)
		default:
			n = g.leaf(tN, hint)
		}
	case tT:
		switch r.Weighted([]int{30, 65, 5}) {
		case 0:
			n = bin("&", g.anyOperand(depth-1), g.anyOperand(depth-1))
		case 1:
			n = g.callOf(fw.Pick(r, fnsReturning(tT)), tT, depth)
		default:
			n = g.leaf(tT, hint)
		}
	case tB:
		switch r.Weighted([]int{40, 25, 30, 5}) {
		case 0:
			n = bin(fw.Pick(r, []string{"<", "<=", ">", ">="}), g.expr(tN, depth-1, ""), g.expr(tN, depth-1, ""))
		case 1:
			op := fw.Pick(r, []string{"=", "<>"})
			if r.Bool() {
				n = bin(op, g.expr(tN, depth-1, ""), g.expr(tN, depth-1, ""))
			} else {
				n = bin(op, g.expr(tT, depth-1, ""), g.expr(tT, depth-1, ""))
			}
		case 2:
			n = g.callOf(fw.Pick(r, fnsReturning(tB)), tB, depth)
		default:
			n = g.leaf(tB, "")
		}
	case tD:
		switch r.Weighted([]int{35, 35, 30}) {
		case 0:
			n = bin(fw.Pick(r, []string{"+", "-"}), g.expr(tD, depth-1, ""), g.expr(tN, depth-1, "count"))
		case 1:
			n = g.callOf(fw.Pick(r, fnsReturning(tD)), tD, depth)
		default:
			n = g.leaf(tD, "")
		}
	}
	if r.Chance(0.04) {
		n.paren = true // redundant parentheses are legal legacy syntax too
	}
	return n
}

func (g *genr) anyOperand(depth int) *node {
	if g.r.Chance(0.6) {
		return g.expr(tT, depth, "")
	}
	return g.expr(tN, depth, "")
}

// callOf builds a call of f (IF: with branches of type want) with generated arguments.
func (g *genr) callOf(f *fnSpec, want typ, depth int) *node {
	r := g.r
	ret := f.ret
	if ret == tAny {
		ret = want
	}
	var args []*node
	arg := func(p param) *node {
		pt := p.t
		if p.hint == "branch" {
			pt = want
		} else if pt == tAny {
			if r.Chance(0.6) {
				pt = tT
			} else {
				pt = tN
			}
		}
		if p.lit || r.Chance(0.45) {
			if p.hint == "flag" {
				return g.leaf(tB, "")
			}
			return g.leaf(pt, p.hint)
		}
		return g.expr(pt, depth-1, p.hint)
	}
	if f.variadic > 0 {
		n := r.Range(1, f.variadic)
		if f.name == "AVERAGE" {
			n = fw.Pick(r, []int{1, 2, 2, 4})
		}
		for i := 0; i < n; i++ {
			args = append(args, arg(f.params[0]))
		}
	} else {
		n := len(f.params) - r.Intn(f.optional+1)
		for i := 0; i < n; i++ {
			args = append(args, arg(f.params[i]))
		}
	}
	return call(g.spell(f.name), ret, args...)
}

// place nests inner at position pos and returns the enclosing expression.
func (g *genr) place(inner *node, pos position, depth int) *node {
	r := g.r
	switch pos.kind {
	case "op":
		if pos.op == "neg" {
			return neg(inner)
		}
		var other *node
		switch {
		case inner.t == tD:
			other = g.expr(tN, depth, "count")
		case pos.op == "&":
			other = g.anyOperand(depth)
		case pos.op == "^" && pos.side == 0:
			other = g.expr(tN, depth, "exp")
		case pos.op == "/" && pos.side == 0:
			other = g.expr(tN, depth, "pos")
		default:
			other = g.expr(inner.t, depth, "")
		}
		if pos.side == 0 {
			return bin(pos.op, inner, other)
		}
		return bin(pos.op, other, inner)
	case "arg":
		f := pos.fn
		want := tN
		if f.ret == tAny {
			// IF: as a branch the call's type decides, as the condition pick one
			if pos.idx > 0 {
				want = inner.t
			} else {
				want = fw.Pick(r, []typ{tN, tT})
			}
		}
		c := g.callOf(f, want, depth)
		// make sure the argument position exists
		idx := pos.idx
		if f.variadic > 0 {
			idx = r.Intn(len(c.args))
		} else {
			for len(c.args) <= idx {
				p := f.params[len(c.args)]
				if p.hint == "flag" {
					c.args = append(c.args, g.leaf(tB, ""))
				} else {
					c.args = append(c.args, g.leaf(p.t, p.hint))
				}
			}
		}
		c.args[idx] = inner
		return c
	}
	return inner
}

// toTopLevel wraps an expression so that its value can be shown in a template (dates are not
// rendered the same way by design, so they are observed through DAY/MONTH/YEAR/WEEKDAY).
func (g *genr) toTopLevel(n *node) *node {
	if n.t == tD {
		if g.r.Chance(0.3) {
			return call(g.spell("DAYS"), tN, n, call("DATE", tD, num("2000"), num("1"), num("1")))
		}
		return call(g.spell(fw.Pick(g.r, []string{"DAY", "MONTH", "YEAR", "WEEKDAY"})), tN, n)
	}
	return n
}

// focused builds an expression that has function p.f at position p.pos, possibly nested once more.
func (g *genr) focused(p pair, depth int) *node {
	inner := g.callOf(p.f, p.ret, depth)
	n := g.place(inner, p.pos, depth-1)
	if g.r.Chance(0.25) {
		// one more random layer on top
		ps := positionsFor(n.t)
		if len(ps) > 0 {
			n = g.place(n, fw.Pick(g.r, ps), 1)
		}
	}
	return g.toTopLevel(n)
}

var bodyTexts = []string{
	"Hi ", " and ", "Total: ", ", thanks!", " ", "bob@nyaruka.com ", " @@ ", "100% (sure) ", ` say "x" `, ` back\slash `, "\n",
	" é 日本 ", " @@flow.q1 ", " @twitter_handle ", " ) ( ", "@@", " a @ b ", "! ", ": ", "; x", " @nyaruka, ",
	// '@' followed by names that are not legacy top-levels, in every letter case (mentions, e-mail domains): literal text
	// the legacy escape '@@' in front of words that are top-levels only in the NEW syntax (and of legacy ones)
	" @@input ", " @@results.q1 ", "bob@@results.org ", " @@fields.age ", " @@webhook ", " @@urns.tel, ", " @@RUN ", " @@trigger.params ", " @@node @@resume @@ticket @@globals.x @@legacy_extra ", " @@contact.name @@step.value ",
	"Bob.Smith@Nyaruka.COM ", " @NyarukaHQ ", " @Twitter_Handle, ", " mail Jo@Example.Org now ", " @Ünïcode ", " @İstanbul ", " @CONTACTS ", " @Flowers.Red ", " @Stepper ", " @ΣΊΣΥΦΟΣ ", " @ǅ ", " X@Y.Z ",
}

// template builds a template around the given expressions.
func (g *genr) template(exprs []*node, withText bool) *tmpl {
	r := g.r
	t := &tmpl{spaced: r.Chance(0.7)}
	if !withText {
		for _, e := range exprs {
			t.segs = append(t.segs, seg{expr: e})
			if len(exprs) > 1 {
				t.segs = append(t.segs, seg{text: " "})
			}
		}
		return t
	}
	if r.Chance(0.7) {
		t.segs = append(t.segs, seg{text: fw.Pick(r, bodyTexts)})
	}
	for i, e := range exprs {
		ident := e.k == kRef && !e.paren && r.Chance(0.7)
		t.segs = append(t.segs, seg{expr: e, ident: ident})
		if i < len(exprs)-1 || r.Chance(0.7) {
			txt := fw.Pick(r, bodyTexts)
			if ident {
				// an @identifier ends at the first character that cannot continue it
				txt = fw.Pick(r, []string{" ", ", ", "! ", ": ", "; "}) + strings.TrimLeft(txt, " ")
			}
			t.segs = append(t.segs, seg{text: txt})
		}
	}
	// a text segment in front of an expression must not end in a single '@'
	for i := range t.segs {
		if t.segs[i].expr == nil && i+1 < len(t.segs) {
			s := t.segs[i].text
			if strings.HasSuffix(s, "@") && !strings.HasSuffix(s, "@@") {
				t.segs[i].text = s + " "
			}
		}
	}
	return t
}
