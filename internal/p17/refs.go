package p17

import (
	"fmt"
	"math/big"
	"regexp"
	"sort"
	"strings"
	"time"

	"github.com/nyaruka/gocommon/urns"
	"github.com/nyaruka/goflow/excellent/types"

	"verif/internal/fw"
)

// ---------------------------------------------------------------------------------------------
// Drawn references: the part of the legacy context whose *names* are generated.
//
// flows/definition/legacy/expressions/context.go maps a legacy reference to a place in the new context
// with a table of anchored regular expressions that is tried in order. Which row fires depends on where
// a name starts and ends, so the generator draws run result names, contact field keys and webhook
// ("extra") keys from the neighbourhood of every word the table anchors on (contact*, flow*, step*,
// value*, tel*, …), uses them in every scope form the legacy syntax has, and binds the operand in the
// evaluation context at the place the legacy reference *denotes* (a run result of the flow / the child
// run / the parent run, a contact field of the contact / parent contact / child contact, a key of the
// webhook payload). The table below is that denotation, written independently of the regexes.
// ---------------------------------------------------------------------------------------------

// words the mapping table (or the new context) anchors on
var reservedWords = []string{
	// legacy top levels
	"channel", "child", "contact", "date", "extra", "flow", "parent", "step",
	// top levels of the new context
	"fields", "globals", "input", "legacy_extra", "node", "results", "resume", "run", "ticket", "trigger", "urns", "webhook",
	// properties the rows end in
	"value", "category", "text", "time", "name", "uuid", "id", "first_name", "created_on", "language", "groups", "tel", "tel_e164",
	"display", "path", "scheme", "urn", "attachments", "address", "now", "today", "tomorrow", "yesterday", "category_localized",
	// URN schemes
	"twitter", "twitterid", "mailto", "facebook", "telegram", "whatsapp", "ext", "line", "vk",
}

// the words whose neighbourhood gets the full set of variants in the directed grid
var scopeWords = []string{"contact", "flow", "step", "extra", "parent", "child", "date", "channel"}

// keywords of the *new* syntax: `x.true` is not a dot lookup in Excellent3 (TRUE is its own token)
var keywordNames = map[string]bool{"true": true, "false": true, "null": true}

var nameRe = regexp.MustCompile(`^[a-z0-9][a-z0-9_]*$`)

// names taken by the fixed part of the context (gen.go refDefs)
var staticResultNames = map[string]bool{"q1": true, "color": true, "2factor": true, "score": true, "level": true}
var staticFieldNames = map[string]bool{"age": true, "nick": true, "joined": true}
var staticExtraNames = map[string]bool{"n": true, "s": true, "addr": true, "results": true, "d": true}

// contact properties that are not fields
var contactBuiltins = func() map[string]bool {
	m := map[string]bool{"uuid": true, "id": true, "name": true, "first_name": true, "created_on": true, "language": true, "groups": true, "tel_e164": true}
	for _, s := range urns.Schemes {
		m[s.Prefix] = true
	}
	return m
}()

// variants of a reserved word: the word itself, extensions, prefixes and embeddings
func nameVariants(w string) []string {
	vs := []string{w, w + "s", w + "_age", w + "_id", w + "2", w + "ed", w + "x", w + "_", w + w, "x" + w, "my_" + w, "2" + w, w + "_" + w}
	if len(w) > 2 {
		vs = append(vs, w[:len(w)-1])
	}
	return vs
}

func nameAllowed(container, name string) bool {
	if !nameRe.MatchString(name) {
		return false
	}
	switch container {
	case "result":
		// flow.contact / child.contact / parent.contact are the contact itself, also in the legacy engine
		return name != "contact" && !staticResultNames[name]
	case "field":
		return !contactBuiltins[name] && !staticFieldNames[name]
	case "extra":
		// extra.flow is the parent run's results
		return name != "flow" && !staticExtraNames[name]
	}
	return true
}

// nameClass says how a name relates to the reserved words (for coverage and signatures).
func nameClass(name string) string {
	if keywordNames[name] {
		return "keyword"
	}
	if strings.HasPrefix(name, "zz") {
		return "plain"
	}
	best := ""
	for _, w := range reservedWords {
		if name == w {
			return "exact:" + w
		}
		if strings.HasPrefix(name, w) && len(w) > len(best) {
			best = w
		}
	}
	if name[0] >= '0' && name[0] <= '9' {
		return "digit-start"
	}
	if best != "" {
		return "prefix:" + best
	}
	for _, w := range reservedWords {
		if strings.HasSuffix(name, w) && len(w) > len(best) {
			best = w
		}
	}
	if best != "" {
		return "suffix:" + best
	}
	for _, w := range reservedWords {
		if len(w) > 2 && strings.HasPrefix(w, name) {
			return "truncated:" + w
		}
	}
	return "plain"
}

// drawName picks a name near a reserved word that may be used in the container.
func drawName(r *fw.Rand, container string) string {
	for attempt := 0; attempt < 8; attempt++ {
		var w string
		if r.Chance(0.6) {
			w = fw.Pick(r, scopeWords)
		} else {
			w = fw.Pick(r, reservedWords)
		}
		n := fw.Pick(r, nameVariants(w))
		if r.Chance(0.004) {
			n = fw.Pick(r, []string{"true", "false", "null"})
		}
		if nameAllowed(container, n) {
			return n
		}
	}
	return fw.Pick(r, []string{"answer", "total", "reply_1", "x9"})
}

// dynRef is one legacy reference whose operand is bound per case.
type dynRef struct {
	legacy string // canonical (lower case) legacy reference
	t      typ
	v      val
	scope  string // scope form with the drawn name replaced by X: "flow.X.category", "step.contact.X", "extra.X.k" …
	kind   string // "result", "field", "extra", "builtin"
	name   string // the drawn name ("" for builtins)
	twin   string // the same reference with a neutral name bound to the same operand ("" if there is none)
}

type resEnt struct {
	value, category, input string
	created                time.Time
}

type contactEnt struct {
	name, first, uuid, lang string
	id                      string
	created                 time.Time
	groups                  []string
	urns                    map[string]string // scheme -> urn
	chanAddr, chanName      string
}

// the URNs contacts are given, with what the legacy engine showed for them
type urnSpec struct{ scheme, urn, path, display string }

var urnSpecs = []urnSpec{
	{"tel", "tel:+12065551212", "+12065551212", "(206) 555-1212"},
	{"tel", "tel:+12024561111", "+12024561111", "(202) 456-1111"},
	{"twitter", "twitter:bobby", "bobby", "bobby"},
	{"twitter", "twitter:nyaruka", "nyaruka", "nyaruka"},
	{"mailto", "mailto:bob@example.com", "bob@example.com", "bob@example.com"},
	{"telegram", "telegram:12345#bobby", "12345", "bobby"},
	{"facebook", "facebook:4567", "4567", "4567"},
}

func (b *bindings) addRef(d dynRef) {
	if _, dup := b.dynIdx[d.legacy]; dup {
		return
	}
	b.dynIdx[d.legacy] = len(b.dyn)
	if d.twin != "" {
		b.twinVals[d.twin] = d.v
	}
	b.dyn = append(b.dyn, d)
	b.dynByType[d.t] = append(b.dynByType[d.t], len(b.dyn)-1)
}

func (b *bindings) dynRefOf(legacy string) *dynRef {
	if i, ok := b.dynIdx[strings.ToLower(legacy)]; ok {
		return &b.dyn[i]
	}
	return nil
}

func numOrText(s string) (typ, val) {
	if decimalRe.MatchString(s) {
		r, _ := new(big.Rat).SetString(s)
		return tN, val{t: tN, r: r}
	}
	return tT, val{t: tT, s: s}
}

func genDate(r *fw.Rand) time.Time {
	return time.Date(r.Range(1995, 2030), time.Month(r.Range(1, 12)), r.Range(1, 28), 0, 0, 0, 0, time.UTC)
}

func genText(r *fw.Rand) string {
	if r.Chance(0.7) {
		return fw.Pick(r, simpleTexts)
	}
	return fw.Pick(r, otherTexts)
}

// legacy scope prefixes of the results of a run, by root of the new context
var resultScopes = map[string][]string{"": {"flow"}, "child": {"child"}, "parent": {"parent", "extra.flow"}}

// legacy scope prefixes of a contact, by root of the new context
var contactScopes = map[string][]string{"": {"contact", "flow.contact", "step.contact"}, "parent": {"parent.contact"}, "child": {"child.contact"}}

var roots = []string{"", "child", "parent"}

// addResult binds a run result called name (and its neutral twin) on the run at root and adds every
// legacy way of referring to it.
func (b *bindings) addResult(r *fw.Rand, root, name string) bool {
	if !nameAllowed("result", name) {
		return false
	}
	if b.results[root] == nil {
		b.results[root] = map[string]*resEnt{}
	}
	if b.results[root][name] != nil {
		return false
	}
	e := &resEnt{category: genText(r), input: genText(r), created: genDate(r)}
	if r.Chance(0.5) {
		e.value = canonNum(fw.Pick(r, numOperands))
	} else {
		e.value = fw.Pick(r, simpleTexts)
	}
	b.twins++
	twin := fmt.Sprintf("zz%d", b.twins)
	b.results[root][name] = e
	b.results[root][twin] = e
	t, v := numOrText(e.value)
	for _, sc := range resultScopes[root] {
		add := func(suffix string, t typ, v val) {
			b.addRef(dynRef{legacy: sc + "." + name + suffix, t: t, v: v, scope: sc + ".X" + suffix, kind: "result", name: name, twin: sc + "." + twin + suffix})
		}
		add("", t, v)
		add(".value", t, v)
		add(".category", tT, val{t: tT, s: e.category})
		add(".text", tT, val{t: tT, s: e.input})
		add(".time", tD, val{t: tD, d: e.created})
	}
	return true
}

// addField binds a contact field called name on the contact at root.
func (b *bindings) addField(r *fw.Rand, root, name string) bool {
	if !nameAllowed("field", name) {
		return false
	}
	if b.fields[root] == nil {
		b.fields[root] = map[string]val{}
	}
	if _, dup := b.fields[root][name]; dup {
		return false
	}
	var v val
	switch r.Intn(5) {
	case 0, 1:
		x, _ := new(big.Rat).SetString(fw.Pick(r, numOperands))
		v = val{t: tN, r: x}
	case 2:
		v = val{t: tD, d: genDate(r)}
	default:
		v = val{t: tT, s: genText(r)}
	}
	b.twins++
	twin := fmt.Sprintf("zz%d", b.twins)
	b.fields[root][name] = v
	b.fields[root][twin] = v
	for _, sc := range contactScopes[root] {
		b.addRef(dynRef{legacy: sc + "." + name, t: v.t, v: v, scope: sc + ".X", kind: "field", name: name, twin: sc + "." + twin})
	}
	return true
}

// addExtra binds a key of the webhook payload. shape 0: extra.X, 1: extra.X.k, 2: extra.k.X, 3: extra.k.X.j
func (b *bindings) addExtra(r *fw.Rand, shape int, name string) bool {
	var v val
	if r.Chance(0.4) {
		x, _ := new(big.Rat).SetString(fw.Pick(r, numOperands))
		v = val{t: tN, r: x}
	} else {
		v = val{t: tT, s: genText(r)}
	}
	b.twins++
	twin := fmt.Sprintf("zz%d", b.twins)
	var path, tpath []string
	var scope string
	switch shape {
	case 0:
		path, tpath, scope = []string{name}, []string{twin}, "extra.X"
	case 1:
		path, tpath, scope = []string{name, "k"}, []string{twin, "k"}, "extra.X.k"
	case 2:
		path, tpath, scope = []string{"k", name}, []string{"k", twin}, "extra.k.X"
	default:
		path, tpath, scope = []string{"k", name, "j"}, []string{"k", twin, "j"}, "extra.k.X.j"
	}
	if !nameAllowed("extra", path[0]) {
		return false
	}
	if !insertPath(b.extra, path, v) {
		return false
	}
	insertPath(b.extra, tpath, v)
	b.addRef(dynRef{legacy: "extra." + strings.Join(path, "."), t: v.t, v: v, scope: scope, kind: "extra", name: name, twin: "extra." + strings.Join(tpath, ".")})
	return true
}

// insertPath puts v at path of a nested map unless something incompatible is already there.
func insertPath(m map[string]any, path []string, v any) bool {
	for i, k := range path {
		if i == len(path)-1 {
			if _, exists := m[k]; exists {
				return false
			}
			m[k] = v
			return true
		}
		next, exists := m[k]
		if !exists {
			nm := map[string]any{}
			m[k] = nm
			m = nm
			continue
		}
		nm, isMap := next.(map[string]any)
		if !isMap {
			return false
		}
		m = nm
	}
	return false
}

// addContact binds the built-in properties of the contact at root and every legacy way of reading them.
func (b *bindings) addContact(r *fw.Rand, root string, name string) {
	c := &contactEnt{
		name: name, first: fw.Pick(r, []string{"Ryan", "Bob", "Ann", "Jo"}), uuid: fw.Pick(r, []string{"5d76d86b-3bb9-4d5a-b822-c9d86f5d8e4f", "c34b6c7d-fa06-4563-92a3-d648ab64bccb"}),
		lang: fw.Pick(r, []string{"eng", "fra", "spa"}), id: fw.Pick(r, []string{"1234567", "42"}), created: genDate(r), urns: map[string]string{},
		chanAddr: fw.Pick(r, []string{"+12345671111", "1234"}), chanName: fw.Pick(r, []string{"Nexmo", "My Android"}),
	}
	for i, n := 0, r.Intn(4); i < n; i++ {
		c.groups = append(c.groups, fw.Pick(r, []string{"Testers", "Customers", "Big Spenders", "VIP", "Males"}))
	}
	b.contacts[root] = c
	text := func(s string) val { return val{t: tT, s: s} }
	specs := map[string]urnSpec{}
	for _, u := range urnSpecs {
		if _, have := specs[u.scheme]; !have && r.Chance(0.5) {
			specs[u.scheme] = u
			c.urns[u.scheme] = u.urn
		}
	}
	for _, sc := range contactScopes[root] {
		add := func(suffix string, v val) {
			b.addRef(dynRef{legacy: sc + suffix, t: v.t, v: v, scope: sc + suffix, kind: "builtin"})
		}
		if sc != "contact" && sc != "parent.contact" { // those two are in the fixed catalogue
			add("", text(c.name))
			add(".name", text(c.name))
		}
		add(".first_name", text(c.first))
		add(".uuid", text(c.uuid))
		add(".id", text(c.id))
		add(".language", text(c.lang))
		add(".created_on", val{t: tD, d: c.created})
		add(".groups", text(strings.Join(c.groups, ",")))
		// every scheme: a contact without such a URN shows nothing
		for _, scheme := range []string{"tel", "twitter", "mailto", "telegram", "facebook", "whatsapp"} {
			u, has := specs[scheme]
			if !has {
				// only the rows that are migrated with an explicit default(…, "") are compared for a missing URN
				if scheme == "tel" {
					add(".tel_e164", text(""))
				} else {
					add("."+scheme, text(""))
				}
				continue
			}
			if scheme == "tel" {
				add(".tel", text(u.display))
				add(".tel_e164", text(u.path))
			} else {
				add("."+scheme, text(u.path))
			}
			add("."+scheme+".display", text(u.display))
			add("."+scheme+".path", text(u.path))
			add("."+scheme+".scheme", text(u.scheme))
			add("."+scheme+".urn", text(u.urn))
		}
	}
	if root == "" {
		add := func(legacy string, v val) {
			b.addRef(dynRef{legacy: legacy, t: v.t, v: v, scope: legacy, kind: "builtin"})
		}
		add("channel", text(c.chanAddr))
		add("channel.address", text(c.chanAddr))
		add("channel.tel", text(c.chanAddr))
		add("channel.tel_e164", text(c.chanAddr))
		add("channel.name", text(c.chanName))
		add("step.time", val{t: tD, d: b.inputTime})
		for i, a := range b.attachments {
			add(fmt.Sprintf("step.attachments.%d", i), text(a[strings.Index(a, ":")+1:]))
		}
	}
}

// genDynamic draws the per-case part of the context.
func (b *bindings) genDynamic(r *fw.Rand) {
	b.inputTime = genDate(r)
	for i, n := 0, r.Intn(3); i < n; i++ {
		b.attachments = append(b.attachments, fw.Pick(r, []string{"image/jpeg:http://s3.com/a.jpg", "audio/mp3:https://example.com/b.mp3", "video/mp4:http://x.io/c.mp4"}))
	}
	b.addContact(r, "", b.texts["s1"])
	if r.Chance(0.5) {
		b.addContact(r, "parent", b.texts["s11"])
	}
	if r.Chance(0.5) {
		b.addContact(r, "child", genText(r))
	}
	for i := 0; i < 3; i++ {
		b.addResult(r, fw.Pick(r, roots), drawName(r, "result"))
	}
	for i := 0; i < 2; i++ {
		b.addField(r, fw.Pick(r, roots), drawName(r, "field"))
	}
	for i := 0; i < 2; i++ {
		b.addExtra(r, r.Intn(4), drawName(r, "extra"))
	}
}

// ---------------------------------------------------------------------------------------------
// the evaluation context
// ---------------------------------------------------------------------------------------------

func valToX(v val) types.XValue {
	switch v.t {
	case tN:
		return xnum(fmtRat(v.r))
	case tT:
		return xtext(v.s)
	case tD:
		return types.NewXDateTime(v.d)
	}
	return nil
}

func treeToX(x any) types.XValue {
	switch t := x.(type) {
	case map[string]any:
		m := make(map[string]types.XValue, len(t))
		for k, v := range t {
			m[k] = treeToX(v)
		}
		return xobj(m)
	case val:
		return valToX(t)
	case types.XValue:
		return t
	}
	return nil
}

func sub(m map[string]any, key string) map[string]any {
	if s, ok := m[key].(map[string]any); ok {
		return s
	}
	s := map[string]any{}
	m[key] = s
	return s
}

// addDynamic puts the per-case operands where the legacy references denote them.
func (b *bindings) addDynamic(top map[string]any) {
	for _, root := range roots {
		at := top
		if root != "" {
			at = sub(top, root)
		}
		if es := b.results[root]; len(es) > 0 {
			rs := sub(at, "results")
			for name, e := range es {
				rs[name] = types.NewXObject(map[string]types.XValue{
					"__default__":        xtext(e.value),
					"value":              xtext(e.value),
					"category":           xtext("base:" + e.category), // the legacy .category is the localized name
					"category_localized": xtext(e.category),
					"input":              xtext(e.input),
					"name":               xtext("Result"),
					"created_on":         types.NewXDateTime(e.created),
				})
			}
		}
		if fs := b.fields[root]; len(fs) > 0 {
			fm := sub(at, "fields")
			for name, v := range fs {
				fm[name] = v
			}
		}
		if c := b.contacts[root]; c != nil {
			cm := sub(at, "contact")
			cm["__default__"] = xtext(c.name)
			cm["name"] = xtext(c.name)
			cm["first_name"] = xtext(c.first)
			cm["uuid"] = xtext(c.uuid)
			cm["id"] = xtext(c.id)
			cm["language"] = xtext(c.lang)
			cm["created_on"] = types.NewXDateTime(c.created)
			gs := make([]types.XValue, len(c.groups))
			for i, g := range c.groups {
				gs[i] = xtext(g)
			}
			cm["groups"] = types.NewXArray(gs...)
			um := sub(at, "urns")
			for _, s := range urns.Schemes {
				if u, has := c.urns[s.Prefix]; has {
					um[s.Prefix] = xtext(u)
				} else {
					um[s.Prefix] = types.XValue(nil)
				}
			}
			if root == "" {
				cm["channel"] = types.NewXObject(map[string]types.XValue{"__default__": xtext(c.chanName), "address": xtext(c.chanAddr), "name": xtext(c.chanName)})
			}
		}
	}
	if len(b.extra) > 0 {
		em := sub(top, "legacy_extra")
		keys := make([]string, 0, len(b.extra))
		for k := range b.extra {
			keys = append(keys, k)
		}
		sort.Strings(keys)
		for _, k := range keys {
			em[k] = b.extra[k]
		}
	}
	in := sub(top, "input")
	in["created_on"] = types.NewXDateTime(b.inputTime)
	as := make([]types.XValue, len(b.attachments))
	for i, a := range b.attachments {
		as[i] = xtext(a)
	}
	in["attachments"] = types.NewXArray(as...)
}
