// Package p17 is the runtime check for property C17 (legacy expression migration preserves meaning).
//
// The generator owns the legacy syntax trees: a template is a list of text / expression segments,
// an expression is a typed tree that is *printed* with the legacy (Excellent1) precedence and
// *evaluated* by an independent reference evaluator (ref.go). goflow only ever sees the printed
// text; its output is evaluated with the real excellent.Evaluator.
package p17

import (
	"strings"
)

type typ int

const (
	tN   typ = iota // number
	tT              // text
	tB              // boolean
	tD              // date
	tAny            // text or number (only used in parameter descriptions)
)

func (t typ) String() string { return [...]string{"num", "text", "bool", "date", "any"}[t] }

type kind int

const (
	kNum kind = iota
	kStr
	kBool
	kRef
	kNeg
	kBin
	kCall
)

// node is one node of a legacy expression tree.
type node struct {
	k     kind
	t     typ     // static type
	lit   string  // kNum: literal text; kStr: content; kBool: spelled literal; kRef: spelled reference
	ref   string  // kRef: canonical (lower case) reference
	op    string  // kBin: + - * / ^ < <= > >= = <> &
	fn    string  // kCall: legacy function name, upper case
	fnLit string  // kCall: as spelled
	args  []*node // kNeg: 1, kBin: 2, kCall: n
	paren bool    // explicit parentheses in the source
}

func num(s string) *node { return &node{k: kNum, t: tN, lit: s} }
func str(s string) *node { return &node{k: kStr, t: tT, lit: s} }
func boolean(b bool) *node {
	if b {
		return &node{k: kBool, t: tB, lit: "TRUE"}
	}
	return &node{k: kBool, t: tB, lit: "FALSE"}
}
func (n *node) boolValue() bool { return strings.EqualFold(n.lit, "true") }

func refNode(name string, t typ) *node {
	return &node{k: kRef, t: t, lit: name, ref: strings.ToLower(name)}
}
func neg(a *node) *node { return &node{k: kNeg, t: tN, args: []*node{a}} }
func bin(op string, a, b *node) *node {
	t := tN
	switch op {
	case "<", "<=", ">", ">=", "=", "<>":
		t = tB
	case "&":
		t = tT
	case "+", "-":
		if a.t == tD {
			t = tD
		}
	}
	return &node{k: kBin, t: t, op: op, args: []*node{a, b}}
}
func call(fn string, t typ, args ...*node) *node {
	return &node{k: kCall, t: t, fn: strings.ToUpper(fn), fnLit: fn, args: args}
}
func paren(n *node) *node { c := *n; c.paren = true; return &c }

// prec is the binding strength in the legacy grammar (antlr/Excellent1.g4: alternatives in order):
// atoms 9 > unary minus 8 > ^ 7 > * / 6 > + - 5 > comparisons 4 > = <> 3 > & 2.
func (n *node) prec() int {
	if n.paren {
		return 9
	}
	switch n.k {
	case kNeg:
		return 8
	case kBin:
		return opPrec(n.op)
	}
	return 9
}

func opPrec(op string) int {
	switch op {
	case "^":
		return 7
	case "*", "/":
		return 6
	case "+", "-":
		return 5
	case "<", "<=", ">", ">=":
		return 4
	case "=", "<>":
		return 3
	case "&":
		return 2
	}
	return 9
}

// constructKind names a construct for signatures / coverage.
func (n *node) constructKind() string {
	switch n.k {
	case kNum:
		return "number"
	case kStr:
		return "string"
	case kBool:
		return "boolean"
	case kRef:
		return "reference"
	case kNeg:
		return "neg"
	case kBin:
		return opName(n.op)
	case kCall:
		return "call:" + strings.ToLower(n.fn)
	}
	return "?"
}

func opName(op string) string {
	switch op {
	case "+":
		return "add"
	case "-":
		return "sub"
	case "*":
		return "mul"
	case "/":
		return "div"
	case "^":
		return "exp"
	case "<", "<=", ">", ">=":
		return "cmp"
	case "=", "<>":
		return "eq"
	case "&":
		return "concat"
	}
	return op
}

// needsParen: must child c of parent p (at argument position i) be parenthesised to keep the tree?
// All legacy binary operators are left associative (ANTLR default, no <assoc=right>).
func needsParen(p *node, i int, c *node) bool {
	if c.paren {
		return false // already has them
	}
	switch p.k {
	case kNeg:
		return c.prec() < 8
	case kBin:
		l := opPrec(p.op)
		if i == 0 {
			return c.prec() < l
		}
		return c.prec() <= l
	}
	return false // call arguments are delimited by commas
}

type printer struct {
	spaced bool
}

func (p printer) print(n *node) string {
	var b strings.Builder
	p.write(&b, n)
	return b.String()
}

func (p printer) write(b *strings.Builder, n *node) {
	if n.paren {
		b.WriteByte('(')
		defer b.WriteByte(')')
	}
	switch n.k {
	case kNum, kBool, kRef:
		b.WriteString(n.lit)
	case kStr:
		b.WriteByte('"')
		b.WriteString(strings.ReplaceAll(n.lit, `"`, `""`))
		b.WriteByte('"')
	case kNeg:
		b.WriteByte('-')
		p.child(b, n, 0)
	case kBin:
		p.child(b, n, 0)
		if p.spaced {
			b.WriteByte(' ')
		}
		b.WriteString(n.op)
		if p.spaced {
			b.WriteByte(' ')
		}
		p.child(b, n, 1)
	case kCall:
		b.WriteString(n.fnLit)
		b.WriteByte('(')
		for i, a := range n.args {
			if i > 0 {
				b.WriteByte(',')
				if p.spaced {
					b.WriteByte(' ')
				}
			}
			p.write(b, a)
		}
		b.WriteByte(')')
	}
}

func (p printer) child(b *strings.Builder, parent *node, i int) {
	c := parent.args[i]
	if needsParen(parent, i, c) {
		b.WriteByte('(')
		p.write(b, c)
		b.WriteByte(')')
	} else {
		p.write(b, c)
	}
}

// clone makes a deep copy.
func (n *node) clone() *node {
	c := *n
	c.args = make([]*node, len(n.args))
	for i, a := range n.args {
		c.args[i] = a.clone()
	}
	return &c
}

// walk visits every node in pre-order with its parent and argument index (root: nil, -1).
func (n *node) walk(f func(n, parent *node, idx int)) {
	var rec func(n, p *node, i int)
	rec = func(n, p *node, i int) {
		f(n, p, i)
		for j, a := range n.args {
			rec(a, n, j)
		}
	}
	rec(n, nil, -1)
}

func (n *node) size() int {
	s := 1
	for _, a := range n.args {
		s += a.size()
	}
	return s
}

// seg is one segment of a template: text, or an expression (printed as @(...) or, for a bare
// reference, optionally as @reference).
type seg struct {
	text  string
	expr  *node
	ident bool
}

type tmpl struct {
	segs   []seg
	spaced bool
}

func (t *tmpl) source() string {
	var b strings.Builder
	p := printer{spaced: t.spaced}
	for _, s := range t.segs {
		if s.expr == nil {
			b.WriteString(s.text)
		} else if s.ident && s.expr.k == kRef && !s.expr.paren {
			b.WriteString("@" + s.expr.lit)
		} else {
			b.WriteString("@(" + p.print(s.expr) + ")")
		}
	}
	return b.String()
}

func (t *tmpl) exprs() []*node {
	var out []*node
	for _, s := range t.segs {
		if s.expr != nil {
			out = append(out, s.expr)
		}
	}
	return out
}

func single(e *node, spaced bool) *tmpl { return &tmpl{segs: []seg{{expr: e}}, spaced: spaced} }
