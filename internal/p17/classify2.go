package p17

import (
	"strings"
)

// parentsOf maps every node of a tree to its parent.
func parentsOf(root *node) map[*node]*node {
	m := map[*node]*node{}
	root.walk(func(n, p *node, _ int) { m[n] = p })
	return m
}

// enclosingKind names the construct a literal is an operand of (a unary minus is part of the literal).
func enclosingKind(root, n *node) string {
	ps := parentsOf(root)
	p := ps[n]
	for p != nil && p.k == kNeg {
		p = ps[p]
	}
	switch {
	case p == nil:
		return "top-level"
	case p.k == kCall:
		return "arg-of:" + strings.ToLower(p.fn)
	}
	return "operand-of:" + p.constructKind()
}

func stripLeadingZeros(lit string) string {
	ip, fp, hasFrac := strings.Cut(lit, ".")
	ip = strings.TrimLeft(ip, "0")
	if ip == "" {
		ip = "0"
	}
	if hasFrac {
		return ip + "." + fp
	}
	return ip
}

func stripTrailingZeros(lit string) string {
	ip, fp, hasFrac := strings.Cut(lit, ".")
	if !hasFrac {
		return lit
	}
	fp = strings.TrimRight(fp, "0")
	if fp == "" {
		return ip
	}
	return ip + "." + fp
}

// scopeRoot: "flow.X.category" -> "flow", "step.contact.X" -> "step.contact", "extra.k.X.j" -> "extra.k"
func scopeRoot(scope string) string {
	if i := strings.Index(scope, ".X"); i >= 0 {
		return scope[:i]
	}
	return scope
}

// isNegativeIntegerLiteral: -2, -02 (but not -2.0, -(2), 0 - 2 or a reference)
func isNegativeIntegerLiteral(n *node) bool {
	return n.k == kNeg && !n.paren && n.args[0].k == kNum && !n.args[0].paren && !strings.Contains(n.args[0].lit, ".")
}

// classifySpelling runs the repair experiments that change only how something is *spelled*: number
// literals written canonically, an index counted from the front instead of from the end, a drawn
// result / field / key name replaced by a neutral one bound to the same operand.
func (ck *checker) classifySpelling(root *node, so outcome, passes func(*node) bool, w map[string]any) (classification, bool) {
	size := root.size()

	// (b) an index counted from the end: WORD(s, -k), WORD_SLICE(s, -k), WORD_SLICE(s, i, -k)
	for i := 0; i < size; i++ {
		n, _, _ := nth(root, i)
		if n.k != kCall || (n.fn != "WORD" && n.fn != "WORD_SLICE") || len(n.args) < 2 {
			continue
		}
		tv, ok := ck.ref.eval(n.args[0])
		if !ok || tv.t != tT {
			continue
		}
		ws, ok := words(tv.s)
		if !ok {
			continue
		}
		variant := root.clone()
		vn, _, _ := nth(variant, i)
		fromEnd, literal := false, true
		for ai := 1; ai < len(n.args) && ai <= 2; ai++ {
			if n.fn == "WORD" && ai > 1 {
				break
			}
			iv, ok := ck.ref.eval(n.args[ai])
			if !ok || iv.t != tN {
				continue
			}
			if idx, ok := iv.intIn(-int64(len(ws)), -1); ok {
				vn.args[ai] = intLit(len(ws) + 1 + idx)
				fromEnd = true
				literal = literal && isNegativeIntegerLiteral(n.args[ai])
			}
		}
		if fromEnd && passes(variant) {
			w["repair"] = "counting from the front instead of from the end makes the migration correct: " + printer{spaced: true}.print(variant)
			kind := "negative-index"
			if !literal {
				kind = "negative-index-nonliteral" // the number is only known when the template is evaluated
			}
			what := "a negative word number counts from the end in the legacy syntax (WORD(s, -1) is the last word, WORD_SLICE(s, -2) the last two, WORD_SLICE(s, 2, -1) leaves the last one out), but the migrated call does not denote the same words"
			switch {
			case !literal:
				what += " (a number that is only known at evaluation time is always migrated to `n - 1`, which is right only for n > 0): "
			case n.fn == "WORD_SLICE":
				what += " (word_slice() in the new syntax rejects a negative start and reads any end <= 0 as the end of the text): "
			default:
				what += " (the literal is decremented like a 1-based index): "
			}
			return classification{"index-shift|" + kind + "|call:" + strings.ToLower(n.fn), what + so.source + " → " + so.migrated + "; " + so.detail, w}, true
		}
	}

	// (a) number literals
	canon := root.clone()
	changed := false
	canon.walk(func(x, _ *node, _ int) {
		if x.k == kNum {
			if c := canonicalLit(x.lit); c != x.lit {
				x.lit, changed = c, true
			}
		}
	})
	if changed && passes(canon) {
		form, where := "spelling", "several-literals"
		for i := 0; i < size; i++ {
			n, _, _ := nth(root, i)
			if n.k != kNum || canonicalLit(n.lit) == n.lit {
				continue
			}
			if !passes(replaced(root, i, num(canonicalLit(n.lit)))) {
				continue
			}
			where = enclosingKind(root, n)
			if lz := stripLeadingZeros(n.lit); lz != n.lit && passes(replaced(root, i, num(lz))) {
				form = "leading-zeros"
			} else if tz := stripTrailingZeros(n.lit); tz != n.lit && passes(replaced(root, i, num(tz))) {
				form = "trailing-zeros"
			}
			break
		}
		w["repair"] = "writing the number literals canonically (no leading zeros, no trailing fractional zeros) makes the migration correct: " + printer{spaced: true}.print(canon)
		return classification{"literal-form|number-" + form + "|" + where,
			"a legacy number literal is always decimal, however it is padded, but the migration gives it another value: " + so.source + " → " + so.migrated + "; " + so.detail, w}, true
	}

	// (c) drawn names: all at once, then one at a time to find which one matters
	all := root.clone()
	var drawn []*dynRef
	all.walk(func(x, _ *node, _ int) {
		if x.k == kRef {
			if d := ck.b.dynRefOf(x.ref); d != nil && d.twin != "" {
				drawn = append(drawn, d)
				x.lit, x.ref = d.twin, d.twin
			}
		}
	})
	if len(drawn) > 0 && passes(all) {
		d := drawn[0]
		for i := 0; i < size; i++ {
			n, _, _ := nth(root, i)
			if n.k != kRef {
				continue
			}
			if di := ck.b.dynRefOf(n.ref); di != nil && di.twin != "" && passes(replaced(root, i, refNode(di.twin, n.t))) {
				d = di
				break
			}
		}
		class := nameClass(d.name)
		w["repair"] = "referring to " + d.twin + " (a neutral name bound to the same operand) instead of " + d.legacy + " makes the migration correct"
		w["name"], w["name_class"], w["scope_form"] = d.name, class, d.scope
		if class == "keyword" {
			return classification{"reference-name|keyword",
				"a run result / contact field / webhook key called true, false or null is migrated to a dot lookup, which is not valid in the new syntax (TRUE, FALSE and NULL are tokens of their own there): " + so.source + " → " + so.migrated + "; " + so.detail, w}, true
		}
		return classification{"reference-name|" + class + "|" + scopeRoot(d.scope),
			"the mapping of a context reference depends on what the " + d.kind + " is called: " + so.source + " → " + so.migrated + "; " + so.detail, w}, true
	}
	return classification{}, false
}
