package p17

import (
	"fmt"
	"strings"
)

// ---------------------------------------------------------------------------------------------
// directed: every spelling of a number literal at every position that takes a number
// ---------------------------------------------------------------------------------------------

const numFormChunks = 8
const refNameChunks = 12

// values worth writing at a position, by parameter hint (two-digit values and 8 / 9 matter: a padded
// literal read in another base changes value or stops being a number there)
var formValues = map[string][]string{
	"index":    {"1", "2", "7", "8", "9", "10", "11", "12"},
	"stop":     {"8", "9", "10", "11", "12", "14", "100", "2147483647"},
	"count":    {"0", "1", "8", "9", "10", "12"},
	"count1":   {"1", "8", "9", "10", "12"},
	"places":   {"0", "1", "2"},
	"exp":      {"0", "1", "2", "3"},
	"charcode": {"65", "72", "90", "100", "108"},
	"year":     {"2010", "2015"},
	"month":    {"1", "8", "9", "10", "11", "12"},
	"day":      {"1", "8", "9", "10", "17", "27"},
	"months":   {"1", "8", "10", "12"},
	"pos":      {"1", "2", "8", "10"},
	"fraction": {"0.5", "0.25", "1"},
	"nonneg":   {"0", "1", "7", "8", "10", "12", "100", "1.5", "2.25", "12345"},
	"":         {"0", "1", "7", "8", "10", "12", "100", "1.5", "2.25", "99999"},
}

// spellings returns the literal (canonical first) in every form of respell.
func spellings(v string) []string {
	out := []string{v}
	for f := 0; f < 6; f++ {
		out = append(out, respell(v, f))
	}
	return out
}

const alphabet26 = "abcdefghijklmnopqrstuvwxyz"

type numPosition struct {
	fn   *fnSpec // nil: operator position
	idx  int
	op   string // operator, "neg" or "top"
	side int
	hint string
}

func (p numPosition) String() string {
	if p.fn != nil {
		return fmt.Sprintf("arg:%s/%d", strings.ToLower(p.fn.name), p.idx)
	}
	if p.op == "neg" || p.op == "top" {
		return p.op
	}
	return fmt.Sprintf("operand:%s/%d", opName(p.op), p.side)
}

var numPositions = func() []numPosition {
	var out []numPosition
	for i := range fnSpecs {
		f := &fnSpecs[i]
		for j, p := range f.params {
			if p.t == tN || p.t == tAny {
				h := p.hint
				if h == "branch" {
					h = ""
				}
				out = append(out, numPosition{fn: f, idx: j, hint: h})
			}
		}
	}
	for _, op := range []string{"^", "*", "/", "+", "-", "<", "<=", ">", ">=", "=", "<>", "&"} {
		for side := 0; side < 2; side++ {
			h := ""
			if op == "^" && side == 1 {
				h = "exp"
			}
			if op == "/" && side == 1 {
				h = "pos"
			}
			out = append(out, numPosition{op: op, side: side, hint: h})
		}
	}
	out = append(out, numPosition{op: "neg"}, numPosition{op: "top"})
	return out
}()

// buildAt puts the literal lit at the position, with the other operands chosen so that the value of the
// literal matters (long texts for indexes and counts).
func (g *genr) buildAt(pos numPosition, lit *node) *node {
	if pos.fn == nil {
		switch pos.op {
		case "top":
			return lit
		case "neg":
			return neg(lit)
		}
		var other *node
		switch {
		case pos.op == "&":
			other = str("|")
		case pos.op == "^" && pos.side == 0:
			other = g.leaf(tN, "exp")
		case pos.op == "/" && pos.side == 0:
			other = g.leaf(tN, "pos")
		default:
			other = g.leaf(tN, "")
		}
		if pos.side == 0 {
			return bin(pos.op, lit, other)
		}
		return bin(pos.op, other, lit)
	}
	f := pos.fn
	c := g.callOf(f, tN, 0)
	idx := pos.idx
	if f.variadic > 0 {
		idx = g.r.Intn(len(c.args))
	} else {
		for len(c.args) <= idx {
			p := f.params[len(c.args)]
			if p.hint == "flag" {
				c.args = append(c.args, g.leaf(tB, ""))
			} else {
				c.args = append(c.args, g.leaf(p.t, p.hint))
			}
		}
	}
	switch f.name {
	case "WORD", "WORD_SLICE":
		c.args[0] = str(longWords)
		if f.name == "WORD_SLICE" && idx == 2 {
			c.args[1] = num("2")
		}
		if f.name == "WORD_SLICE" && idx == 1 && len(c.args) > 2 {
			c.args[2] = num("14")
		}
	case "FIELD":
		c.args[0], c.args[2] = str(strings.Join(longFieldTokens, ",")), str(",")
	case "LEFT", "RIGHT":
		c.args[0] = str(alphabet26)
	case "REPT":
		c.args[0] = str("ab")
	case "IF":
		c.args[0] = boolean(idx == 1)
	}
	c.args[idx] = lit
	return c
}

func (p *c17) directedNumberForms(chunk int, cs *caseState) {
	res := cs.res
	for pi := chunk; pi < len(numPositions); pi += numFormChunks {
		pos := numPositions[pi]
		vals := formValues[pos.hint]
		for vi, v := range vals {
			for fi, sp := range spellings(v) {
				for _, negated := range []bool{false, true} {
					if negated && !(pos.hint == "" || pos.hint == "months") {
						continue
					}
					if negated && fi%3 != 1 {
						continue // a third of the spellings is enough under a minus
					}
					g := &genr{r: directedRand("numform-"+pos.String(), vi*16+fi)}
					b := genBindings(g.r)
					g.b = b
					ck := newChecker(res, b, nil)
					var e *node
					for attempt := 0; attempt < 10; attempt++ {
						lit := num(sp)
						if negated {
							lit = neg(lit)
						}
						e = g.buildAt(pos, lit)
						if e.t == tD { // DAYS sees the year, the month and the day
							e = call("DAYS", tN, e, call("DATE", tD, num("2000"), num("1"), num("1")))
						}
						if _, ok := ck.ref.eval(e); ok {
							break
						}
					}
					o := cs.runTemplate(ck, single(e, (vi+fi)%2 == 0), "directed")
					if o.compared > 0 && fi > 0 {
						res.Seen("number_literal_form_positions_compared", pos.String())
					}
				}
			}
		}
	}
}

// ---------------------------------------------------------------------------------------------
// directed: every name near a reserved word, as a run result / contact field / webhook key, in every
// scope form, as @identifier, alone in @( ), as an operand and as a call argument
// ---------------------------------------------------------------------------------------------

var directedNamePool = func() []string {
	seen := map[string]bool{}
	var out []string
	add := func(n string) {
		if !seen[n] && nameRe.MatchString(n) && !keywordNames[n] {
			seen[n] = true
			out = append(out, n)
		}
	}
	for _, w := range scopeWords {
		for _, v := range nameVariants(w) {
			add(v)
		}
	}
	for _, w := range reservedWords {
		add(w)
		add(w + "s")
		add("x" + w)
	}
	for _, n := range []string{"true", "false", "null"} { // keywords of the new syntax
		seen[n] = true
		out = append(out, n)
	}
	for _, n := range []string{"answer", "a", "x1", "1", "1337", "2factor_x", "contact_tel", "flow_contact", "step_value", "extra_flow", "parent_contact", "contactname", "contact_name", "contact_uuid"} {
		add(n)
	}
	// names that begin with, end in or contain a keyword of the new syntax (the key of a result called "True or False")
	for _, kw := range []string{"true", "false", "null"} {
		for _, n := range []string{kw + "able", kw + "_or_" + kw, kw + "_alarm", kw + "ness", kw + "s", kw + "1", "is_" + kw, "un" + kw, kw + "_", kw + kw} {
			add(n)
		}
	}
	return out
}()

// embeddings of a reference of type t
func embeddings(ref func() *node, t typ) []*tmpl {
	out := []*tmpl{
		{segs: []seg{{text: "v="}, {expr: ref(), ident: true}, {text: ";"}}},
		{segs: []seg{{expr: ref()}}},
	}
	switch t {
	case tN:
		out = append(out, single(bin("+", ref(), num("1")), true), single(call("ABS", tN, ref()), false))
	case tT:
		out = append(out, single(bin("&", ref(), str("!")), true), single(call("IF", tT, boolean(true), ref(), str("no")), false))
	case tD:
		out = []*tmpl{
			single(call("DAYS", tN, ref(), call("DATE", tD, num("2000"), num("1"), num("1"))), true),
			single(call("YEAR", tN, bin("+", ref(), num("1"))), false),
		}
	}
	return out
}

func (p *c17) directedReferenceNames(chunk int, cs *caseState) {
	res := cs.res
	for ni := chunk; ni < len(directedNamePool); ni += refNameChunks {
		name := directedNamePool[ni]
		for variant := 0; variant < 2; variant++ {
			r := directedRand("refname-"+name, variant)
			b := genStaticBindings(r)
			for _, root := range roots {
				b.addResult(r, root, name)
				b.addField(r, root, name)
			}
			// extra.X and extra.X.k cannot both exist
			b.addExtra(r, variant, name)
			b.addExtra(r, variant+2, name)
			ck := newChecker(res, b, nil)
			for di := range b.dyn {
				d := b.dyn[di]
				// the second variant only repeats the webhook keys
				if variant == 1 && d.kind != "extra" {
					continue
				}
				ref := func() *node { return refNode(d.legacy, d.t) }
				for ei, t := range embeddings(ref, d.t) {
					t.spaced = ei%2 == 0
					o := cs.runTemplate(ck, t, "directed")
					if o.compared > 0 && o.clause == "" {
						res.Seen("reference_scope_forms_compared", d.scope)
					}
				}
			}
		}
	}
	// the built-in properties in every scope, for a few contacts
	if chunk == 0 {
		for k := 0; k < 6; k++ {
			b := genBindings(directedRand("builtin", k))
			ck := newChecker(res, b, nil)
			for di := range b.dyn {
				d := b.dyn[di]
				if d.kind != "builtin" {
					continue
				}
				ref := func() *node { return refNode(d.legacy, d.t) }
				for ei, t := range embeddings(ref, d.t) {
					if ei%2 != k%2 {
						continue
					}
					o := cs.runTemplate(ck, t, "directed")
					if o.compared > 0 && o.clause == "" {
						res.Seen("reference_scope_forms_compared", d.scope)
					}
				}
			}
		}
	}
}

// ---------------------------------------------------------------------------------------------
// directed: word numbers counted from the end, stop 0
// ---------------------------------------------------------------------------------------------

func (p *c17) directedNegativeIndexes(cs *caseState) {
	res := cs.res
	for ti, text := range []string{"one two three four", longWords} {
		s := func() *node { return str(text) }
		m := func(lit string) *node { return neg(num(lit)) }
		forms := []*node{
			call("WORD", tT, s(), m("1")),
			call("WORD", tT, s(), m("2")),
			call("WORD", tT, s(), m("4")),
			call("WORD", tT, s(), m("01")),
			call("WORD", tT, s(), m("1.0")),
			call("WORD", tT, s(), bin("-", num("0"), num("1"))),
			call("WORD", tT, s(), neg(paren(num("1")))),
			call("WORD", tT, s(), m("1"), boolean(true)),
			call("word", tT, s(), m("3"), boolean(false)),
			bin("&", call("UPPER", tT, call("WORD", tT, s(), m("1"))), str("!")),
			call("WORD_SLICE", tT, s(), m("1")),
			call("WORD_SLICE", tT, s(), m("2")),
			call("WORD_SLICE", tT, s(), m("2"), num("0")),
			call("WORD_SLICE", tT, s(), num("2"), m("1")),
			call("WORD_SLICE", tT, s(), num("1"), m("2")),
			call("WORD_SLICE", tT, s(), num("2"), m("1"), boolean(true)),
			call("LEN", tN, call("WORD_SLICE", tT, s(), num("2"), m("1"))),
			// stop 0 is the end
			call("WORD_SLICE", tT, s(), num("2"), num("0")),
			call("WORD_SLICE", tT, s(), num("3"), num("00"), boolean(true)),
			call("WORD_SLICE", tT, s(), num("1"), bin("-", num("1"), num("1"))),
		}
		for fi, e := range forms {
			ck := newChecker(res, genBindings(directedRand("negidx", ti*64+fi)), nil)
			o := cs.runTemplate(ck, single(e, fi%2 == 0), "directed")
			if o.compared > 0 {
				res.Count("index.from_end_or_zero_stop.compared", 1)
			}
		}
	}
}
