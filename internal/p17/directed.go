package p17

import (
	"fmt"
	"github.com/nyaruka/goflow/envs"
	"github.com/nyaruka/goflow/excellent/types"
	"regexp"
	"strings"
	"time"

	"github.com/nyaruka/goflow/excellent"
	"github.com/nyaruka/goflow/flows"
	"github.com/nyaruka/goflow/flows/definition/legacy/expressions"

	"verif/internal/fw"
)

// The directed corpus is seed independent: every random choice below comes from a stream with a fixed seed.

const pairChunks = 16

func directedRand(tag string, i int) *fw.Rand { return fw.NewRand(0, "C17-directed-"+tag, i) }

// optionsDateReferences: what a template migrates to is a function of the template and the options, whatever was migrated
// before; and for a date reference the RawDates option decides between the date itself and its formatted text, which are
// different expressions: rendered in a day-first environment the first is written year-first (ISO) and the second day-first.
func optionsDateReferences(cs *caseState) {
	res := cs.res
	env := envs.NewBuilder().WithDateFormat(envs.DateFormatDayMonthYear).WithTimeFormat(envs.TimeFormatHourMinute).WithTimezone(time.UTC).Build()
	ctx := types.NewXObject(map[string]types.XValue{})
	ev := excellent.NewEvaluator()
	mig := func(src string, o *expressions.MigrateOptions) string {
		out, err := expressions.MigrateTemplate(src, o)
		if err != nil {
			return "error: " + err.Error()
		}
		return out
	}
	raw := &expressions.MigrateOptions{RawDates: true}
	dayFirst := regexp.MustCompile(`^\d\d-\d\d-\d{4}`)
	yearFirst := regexp.MustCompile(`^\d{4}-\d\d-\d\d`)
	for _, ref := range []string{"date.today", "date.tomorrow", "date.yesterday", "date.now", "DATE.TODAY"} {
		for _, src := range []string{"@" + ref, "Today is @" + ref + ".", "@(" + ref + ")", "@(" + ref + " + 2)", "@(DAYS(" + ref + ", " + ref + "))"} {
			res.Count("templates", 1)
			res.Count("clause.options.date_reference", 1)
			cs.fp.WriteString(src + "\n")
			a1, b1, a2, b2 := mig(src, nil), mig(src, raw), mig(src, nil), mig(src, raw)
			w := map[string]any{"legacy_template": src, "migrated_default": a1, "migrated_raw_dates": b1, "migrated_default_again": a2, "migrated_raw_dates_again": b2}
			if a1 != a2 || b1 != b2 {
				res.Violate("options|history-dependent", "the same template migrated with the same options gave another result after a migration with other options", w)
				continue
			}
			if src != "@"+ref || strings.HasPrefix(a1, "error") || strings.EqualFold(ref, "date.now") {
				continue // (date.now is a datetime and is migrated to now() under either option)
			}
			// the bare reference: formatted text by default, the date itself with RawDates
			oa, _, _ := ev.Template(env, ctx, a1, nil)
			ob, _, _ := ev.Template(env, ctx, b1, nil)
			w["rendered_default"], w["rendered_raw_dates"] = oa, ob
			if !dayFirst.MatchString(oa) {
				res.Violate("options|date-reference-not-formatted", "a bare legacy date reference migrated with default options does not render as the date in the environment's format", w)
			} else if !yearFirst.MatchString(ob) {
				res.Violate("options|raw-date-reference-formatted", "a bare legacy date reference migrated with RawDates does not evaluate to the date itself", w)
			}
		}
	}
}

func (p *c17) directed(c fw.Case, cs *caseState) {
	res := cs.res
	switch {
	case c.Directed == "options-date-references":
		optionsDateReferences(cs)
	case c.Directed == "known-probes":
		d := func() *node { return call("DATE", tD, num("2015"), num("8"), num("15")) } // a Saturday
		probes := []*node{
			bin("*", call("SUM", tN, num("1"), num("2")), num("3")),
			call("POWER", tN, bin("+", num("1"), num("1")), num("2")),
			bin("=", call("CONCATENATE", tT, str("a"), str("b")), str("ab")),
			bin("-", num("10"), bin("^", num("2"), num("2"))),
			call("RIGHT", tT, str("abcdef"), bin("+", num("1"), num("1"))),
			bin("*", call("WEEKDAY", tN, d()), num("2")),
			str(`a\b`),
			// further surface forms of the same splices
			neg(call("SUM", tN, num("1"), num("2"))),
			bin("^", num("2"), call("POWER", tN, num("3"), num("2"))),
			neg(call("POWER", tN, num("2"), num("2"))),
			call("EXP", tN, bin("+", num("1"), num("1"))),
			neg(call("EXP", tN, num("2"))),
			bin("-", num("2"), call("WEEKDAY", tN, d())),
			call("RIGHT", tT, str("abcdef"), call("SUM", tN, num("1"), num("1"))),
			call("DAY", tN, bin("-", d(), bin("^", num("2"), num("2")))),
			bin("+", call("YEAR", tN, d()), num("1")),
			bin("-", call("MONTH", tN, d()), num("1")),
			bin("+", call("DAY", tN, d()), num("1")),
			bin("&", str(`C:\temp`), str("!")),
			call("LEN", tN, str(`a\`)),
			str(`a"\d`), // a doubled quote next to an escape Go does not know
			bin("&", str(`a\`), str(`b`)),
			// forms that are migrated correctly
			bin("*", paren(call("SUM", tN, num("1"), num("2"))), num("3")),
			call("POWER", tN, paren(bin("+", num("1"), num("1"))), num("2")),
			bin("-", num("10"), paren(bin("^", num("2"), num("2")))),
			bin("+", call("SUM", tN, num("1"), num("2")), num("3")),
			bin("^", neg(num("2")), num("2")),
			bin("^", bin("^", num("2"), num("3")), num("2")),
			str(`say "hi"`),
			str(""),
		}
		for i, e := range probes {
			ck := newChecker(res, genBindings(directedRand("probe", i)), nil)
			cs.runTemplate(ck, single(e, true), "directed")
			ck = newChecker(res, genBindings(directedRand("probe", i)), nil)
			cs.runTemplate(ck, single(e, false), "directed")
		}
	case c.Directed == "each-function-top":
		for fi := range fnSpecs {
			f := &fnSpecs[fi]
			wants := []typ{f.ret}
			if f.ret == tAny {
				wants = []typ{tN, tT, tB}
			}
			for _, want := range wants {
				for k := 0; k < 8; k++ {
					g := &genr{r: directedRand("top-"+f.name+want.String(), k)}
					g.b = genBindings(g.r)
					ck := newChecker(res, g.b, nil)
					var e *node
					for attempt := 0; attempt < 10; attempt++ {
						e = g.toTopLevel(g.callOf(f, want, 1))
						if _, ok := ck.ref.eval(e); ok {
							break
						}
					}
					o := cs.runTemplate(ck, single(e, k%2 == 0), "directed")
					if o.compared > 0 {
						res.Seen("functions_compared_at_top_level", f.name)
					}
				}
			}
		}
	case strings.HasPrefix(c.Directed, "pairs-"):
		var chunk int
		fmt.Sscanf(c.Directed, "pairs-%d", &chunk)
		for pi := chunk; pi < len(allPairs); pi += pairChunks {
			pr := allPairs[pi]
			for k := 0; k < 2; k++ {
				g := &genr{r: directedRand("pair", pi*4+k)}
				g.b = genBindings(g.r)
				ck := newChecker(res, g.b, nil)
				var e *node
				for attempt := 0; attempt < 10; attempt++ {
					e = g.toTopLevel(g.place(g.callOf(pr.f, pr.ret, 1), pr.pos, 0))
					if _, ok := ck.ref.eval(e); ok {
						break
					}
				}
				o := cs.runTemplate(ck, single(e, true), "directed")
				res.Seen("pairs", pr.f.name+"@"+pr.pos.String())
				if o.defined {
					res.Seen("pairs_inside_reference_domain", pr.f.name+"@"+pr.pos.String())
				}
			}
		}
	case c.Directed == "literals":
		lits := []string{
			"", " ", "abc", `say "hi"`, `"`, `""`, `a"b`, `"quoted"`, `x"`, `"y`, `a\b`, `C:\temp`, `\d+`, `a\`, `\`, `\\`, `a\nb`, `tab\t`,
			`\w+ \w+`, `a\"`, `\u0041`, `x\y"z`, `\\server\share`, `50\50`, `\x41`, `\101`, `\'`, `\a\f\v\r`, "(", ")", ")(", "a, b", "@", "@@",
			"@(1+1)", "@contact.name", "it's", "1+1", "a & b", "x = y", "<>", "50%", "line1\nline2", "tab\there", "é", "日本", "TRUE", "12", "1.50",
		}
		for i, l := range lits {
			forms := []*node{
				str(l),
				bin("&", str(l), str("|")),
				bin("&", str("|"), str(l)),
				call("LEN", tN, str(l)),
				call("CONCATENATE", tT, str(l), str(l)),
				bin("=", str(l), str("zzz")),
				call("IF", tT, bin("<", num("1"), num("2")), str(l), str("no")),
			}
			for k, e := range forms {
				ck := newChecker(res, genBindings(directedRand("lit", i)), nil)
				cs.runTemplate(ck, single(e, k%2 == 0), "directed")
			}
			ck := newChecker(res, genBindings(directedRand("lit", i)), nil)
			cs.runTemplate(ck, &tmpl{segs: []seg{{text: "He said "}, {expr: str(l)}, {text: " (twice: "}, {expr: bin("&", str(l), str(l))}, {text: ")"}}, spaced: true}, "directed")
		}
	case c.Directed == "templates-text":
		age := func() *node { return refNode("contact.age", tN) }
		name := func() *node { return refNode("contact.name", tT) }
		ts := []*tmpl{
			{segs: []seg{{text: "Hi "}, {expr: name(), ident: true}, {text: ", you are "}, {expr: bin("*", age(), num("2"))}, {text: " @@ ok"}}},
			{segs: []seg{{text: "Hi @@"}, {expr: refNode("flow.color", tT), ident: true}, {text: " @@flow.color "}, {expr: refNode("flow.color", tT), ident: true}, {text: " @nyaruka @ @"}}},
			{segs: []seg{{text: "bob@nyaruka.com wrote "}, {expr: refNode("step.value", tT), ident: true}, {text: "!"}}},
			{segs: []seg{{expr: refNode("CONTACT.Name", tT), ident: true}, {text: ": "}, {expr: refNode("Extra.N", tN), ident: true}, {text: " / "}, {expr: refNode("extra.results.1", tT), ident: true}}},
			{segs: []seg{{expr: refNode("flow.2factor", tT), ident: true}, {text: " and "}, {expr: refNode("flow.q1.value", tN), ident: true}, {text: " and "}, {expr: refNode("flow.color.category", tT), ident: true}}},
			{segs: []seg{{text: "empty:"}, {expr: str("")}, {text: ":"}, {expr: str(" ")}, {text: ":"}}},
			{segs: []seg{{text: "a) "}, {expr: call("UPPER", tT, str("(x)"))}, {text: " (b "}, {expr: bin("+", num("1"), num("2"))}, {text: ")"}}},
			{segs: []seg{{text: "quotes \" and \\ outside "}, {expr: call("LEN", tN, name())}, {text: " \"end\""}}},
			{segs: []seg{{expr: bin("+", num("1"), num("2"))}, {expr: bin("&", str("a"), str("b"))}, {text: "\n"}, {expr: bin("<", num("1"), num("2"))}}},
			{segs: []seg{{text: "@@"}, {expr: bin("+", num("1"), num("2"))}, {text: "@@"}}},
			// @(reference) directly followed by text that could continue an identifier
			{segs: []seg{{expr: refNode("contact", tT)}, {text: "bob"}}},
			{segs: []seg{{text: "Dear "}, {expr: refNode("contact.name", tT)}, {text: ".pdf is attached, "}, {expr: refNode("contact.age", tN)}, {text: "kg"}}},
			{segs: []seg{{expr: refNode("contact.name", tT)}, {text: ", "}, {expr: refNode("contact.age", tN)}, {text: " kg"}}},
			{segs: []seg{{expr: refNode("contact", tT), ident: true}, {text: " "}, {expr: refNode("step", tT), ident: true}, {text: " "}, {expr: refNode("parent.contact.name", tT), ident: true}, {text: " "}, {expr: refNode("child.contact.nick", tT), ident: true}}},
			{segs: []seg{{expr: refNode("child.score", tN), ident: true}, {text: " "}, {expr: refNode("parent.level.value", tN), ident: true}, {text: " "}, {expr: refNode("extra.flow.level", tN), ident: true}, {text: " "}, {expr: refNode("step.contact.age", tN), ident: true}, {text: " "}, {expr: refNode("extra.addr.city", tT), ident: true}}},
		}
		for i, t := range ts {
			for k, opts := range []*expressions.MigrateOptions{nil, {DefaultToSelf: true}, {RawDates: true}} {
				t.spaced = k%2 == 0
				ck := newChecker(res, genBindings(directedRand("text", i)), opts)
				cs.runTemplate(ck, t, "directed")
			}
		}
		// every reference of the catalogue, in both forms
		for i, d := range refDefs {
			if d.t == tD {
				continue
			}
			for _, ident := range []bool{true, false} {
				ck := newChecker(res, genBindings(directedRand("ref", i)), nil)
				cs.runTemplate(ck, &tmpl{segs: []seg{{text: "v="}, {expr: refNode(d.legacy, d.t), ident: ident}, {text: ";"}}}, "directed")
			}
		}
	case strings.HasPrefix(c.Directed, "number-forms-"):
		var chunk int
		fmt.Sscanf(c.Directed, "number-forms-%d", &chunk)
		p.directedNumberForms(chunk, cs)
	case strings.HasPrefix(c.Directed, "reference-names-"):
		var chunk int
		fmt.Sscanf(c.Directed, "reference-names-%d", &chunk)
		p.directedReferenceNames(chunk, cs)
	case c.Directed == "negative-indexes":
		p.directedNegativeIndexes(cs)
	case c.Directed == "placeholder-literals":
		p.directedPlaceholderLiterals(cs)
	case c.Directed == "identifier-periods":
		p.directedIdentifierPeriods(cs)
	case c.Directed == "pinned-corpus":
		for _, src := range pinnedCorpus {
			checkRaw(cs, src)
		}
	}
}

func directedNames() []string {
	names := []string{"known-probes", "each-function-top", "literals", "templates-text", "pinned-corpus", "negative-indexes", "options-date-references", "placeholder-literals", "identifier-periods"}
	for i := 0; i < pairChunks; i++ {
		names = append(names, fmt.Sprintf("pairs-%02d", i))
	}
	for i := 0; i < numFormChunks; i++ {
		names = append(names, fmt.Sprintf("number-forms-%d", i))
	}
	for i := 0; i < refNameChunks; i++ {
		names = append(names, fmt.Sprintf("reference-names-%d", i))
	}
	return names
}

// checkRaw checks clauses 1 and 2 on a legacy template given as text (no tree, so no value).
func checkRaw(cs *caseState, src string) {
	res := cs.res
	res.Count("templates", 1)
	res.Count("templates.raw", 1)
	cs.fp.WriteString(src + "\n")
	var migrated string
	var err error
	func() {
		defer func() {
			if rec := recover(); rec != nil {
				err = fmt.Errorf("panic: %v", rec)
			}
		}()
		migrated, err = expressions.MigrateTemplate(src, nil)
	}()
	w := map[string]any{"legacy_template": src, "migrated": migrated}
	if err != nil {
		res.Violate("other|migrate-error|raw", "a pinned legacy template is rejected: "+oneLine(err.Error()), w)
		return
	}
	res.Count("clause.migrated_without_error", 1)
	toks := refScan(migrated, flows.RunContextTopLevels)
	for _, tk := range toks {
		if !tk.expr {
			continue
		}
		if _, perr := excellent.Parse(tk.text, nil); perr != nil {
			res.Violate("other|unparseable|raw", fmt.Sprintf("migrated expression %q of a pinned legacy template does not parse: %v", tk.text, perr), w)
			return
		}
		res.Count("clause.parse.expressions_parsed", 1)
	}
	old := refScan(src, expressions.ContextTopLevels)
	same := len(old) == len(toks)
	for i := 0; same && i < len(old); i++ {
		same = old[i].expr == toks[i].expr
	}
	if !same {
		res.Count("raw.shape_not_comparable", 1) // e.g. @("") is dropped on purpose
		return
	}
	for i := range old {
		if !old[i].expr {
			if old[i].text != toks[i].text {
				res.Violate("other|text-changed|raw", fmt.Sprintf("text outside expressions changed: %q became %q", old[i].text, toks[i].text), w)
				return
			}
			res.Count("clause.text.bodies_compared", 1)
		}
	}
}

// legacy templates pinned by goflow's own migrate_test.go / functions_test.go
var pinnedCorpus = []string{
	`@contact`, `@CONTACT`, `@contact.uuid`, `@contact.name`, `@contact.NAME`, `@contact.first_name`, `@contact.gender`, `@contact.groups`,
	`@contact.language`, `@contact.created_on`, `@contact.tel`, `@contact.tel.display`, `@contact.tel.scheme`, `@contact.tel.path`, `@contact.tel.urn`,
	`@contact.tel_e164`, `@contact.twitterid`, `@contact.mailto`, `@flow`, `@flow.favorite_color`, `@flow.favorite_color.category`,
	`@flow.favorite_color.text`, `@flow.favorite_color.time`, `@flow.favorite_color.value`, `@flow.2factor`, `@flow.2factor.value`, `@flow.1`,
	`@(flow.1337)`, `@(flow.1337.value)`, `@(flow.1337.category)`, `@flow.contact`, `@flow.contact.name`, `@flow.contact.age`, `@child`, `@child.age`,
	`@child.age.value`, `@child.age.category`, `@child.age.text`, `@child.age.time`, `@child.contact`, `@child.contact.name`, `@child.contact.age`,
	`@parent`, `@parent.role`, `@parent.role.value`, `@parent.role.category`, `@parent.role.text`, `@parent.role.time`, `@parent.contact`,
	`@parent.contact.name`, `@parent.contact.groups`, `@parent.contact.gender`, `@parent.contact.tel`, `@parent.contact.tel.display`,
	`@parent.contact.tel.scheme`, `@parent.contact.tel.path`, `@parent.contact.tel.urn`, `@parent.contact.tel_e164`, `@parent.contact.twitterid`,
	`@step`, `@step.value`, `@step.text`, `@step.attachments`, `@step.attachments.0`, `@step.attachments.10`, `@step.time`, `@step.contact`,
	`@step.contact.name`, `@step.contact.age`, `@date`, `@date.now`, `@date.today`, `@date.tomorrow`, `@date.yesterday`, `@channel`, `@channel.address`,
	`@channel.tel`, `@channel.tel_e164`, `@channel.name`, `@extra`, `@extra.address.state`, `@extra.results.1`, `@extra.flow.role`, `@(contact.tel)`,
	`@(contact.gender)`, `@(flow.favorite_color)`, `@(TRUE)`, `@(False)`, `@(TRUE())`, `@(FALSE())`, `@(1 + 2)`, `@(1 - 2)`, `@(-2)`, `@(2 ^ 4)`,
	`@(2 * 4)`, `@(2 / 4)`, `@(1 = 4)`, `@(1 <> 4)`, `@(1 < 4)`, `@(1 <= 4)`, `@(1 > 4)`, `@(1 >= 4)`, `@("")`, `@(" ")`, `@(" "" ")`,
	`@("you" & " are " & contact.gender)`, `@(5 + 4)`, `@(5 - 4)`, `@(ABS(5) + MOD(7, 2))`, `@(date.now + 5)`, `@(now() + 5)`, `@(date + 5)`,
	`@(date.now + 5 + contact.age)`, `@(date.now + TIME(2, 30, 0))`, `@(date.now - TIME(2, 30, 0))`, `@(date.today + 5)`, `@(date.yesterday - 5)`,
	`@(date.tomorrow - 3 + 10)`, `@(today() + TIME(15, 30, 0))`, `@(TODAY()+TIMEVALUE("10:30"))`,
	`@(DATEVALUE(date.today) + TIMEVALUE(CONCATENATE(flow.time_input, ":00")))`, `@(contact.join_date + TIME(2, 30, 0))`, `@(contact.age + 5)`,
	`@(contact.join_date + 5 + contact.age)`, `@(contact.age + 100 - 5)`, `@((5 + contact.age) / 2)`,
	`@((DATEDIF(DATEVALUE("1970-01-01"), date.now, "D") * 24 * 60 * 60) + ((((HOUR(date.now)+7) * 60) + MINUTE(date.now)) * 60))`,
	`bob@nyaruka.com`, `@twitter_handle`, `@`, `@contact.name...?`, `Hi @@@flow.favorite_color @@flow.favorite_color @flow.favorite_color @nyaruka @ @`,
	`@(ABS(-1))`, `@(AND(contact.age > 30, flow.amount < 5))`, `@(AVERAGE(1, 2, 3, 4, 5))`, `@(CHAR(10))`, `@(CLEAN(contact.gender))`, `@(CODE("A"))`,
	`@(CONCATENATE(contact.name, " ", contact.language))`, `@(DATE(2012, 12, 25))`, `@(DATEDIF(contact.join_date, date.now, "M"))`,
	`@(DATEVALUE("2012-02-03"))`, `@(DAY(contact.join_date))`, `@(DAYS("2016-02-28", "2015-02-28"))`, `@(EDATE("2012-02-03", 1))`, `@(EPOCH(NOW()))`,
	`@(FIELD(flow.favorite_color, 2, ","))`, `@(FIELD(flow.favorite_color, child.age, ","))`, `@(FIRST_WORD(flow.favorite_color))`,
	`@(FIRST_WORD(WORD_SLICE("bee cat dog elf", 2, 4)))`, `@(FIXED(contact.age, 3, false))`, `@(FIXED(contact.age, 3))`, `@(FIXED(contact.age))`,
	`@(HOUR(NOW()))`, `@(IF(contact.gender = "M", "Sir", "Madam"))`, `@(INT(contact.age))`, `@(LEFT(contact.name, 4))`, `@(LEN(contact.first_name))`,
	`@(LOWER(contact.first_name))`, `@(MAX(child.age, 10))`, `@(MIN(child.age, 10))`, `@(MINUTE(NOW()))`, `@(MOD(103, 4))`, `@(MONTH(NOW()))`, `@(NOW())`,
	`@(OR(contact.gender = "M", contact.gender = "F", contact.gender = "NB"))`, `@(POWER(2, 3))`, `@(PROPER(contact))`, `@(RAND())`, `@(RANDBETWEEN(1, 10))`,
	`@(REGEX_GROUP(flow.favorite_color, "\w(\w+)", 1))`, `@(REGEX_GROUP(flow.favorite_color, "\w\w+"))`, `@(REMOVE_FIRST_WORD(flow.favorite_color))`,
	`@(REPT("*", 10))`, `@(RIGHT(contact.name, 4))`, `@(ROUND(9.4378, 3))`, `@(ROUND(9.4378))`, `@(ROUNDDOWN(9.4378, 3))`, `@(ROUNDDOWN(9.4378))`,
	`@(ROUNDUP(9.4378, 3))`, `@(ROUNDUP(9.4378))`, `@(SECOND(NOW()))`, `@(SUM(contact.age, child.age))`, `@(WEEKDAY(TODAY()))`,
	`@(WORD_COUNT(flow.favorite_color, FALSE))`, `@(WORD_COUNT(flow.favorite_color, TRUE))`, `@(WORD_COUNT(flow.favorite_color))`,
	`@(WORD_SLICE(flow.favorite_color, 2, 4, FALSE))`, `@(WORD_SLICE(flow.favorite_color, 2, 4, TRUE))`, `@(WORD_SLICE(flow.favorite_color, 2, 4))`,
	`@(WORD_SLICE(flow.favorite_color, 2))`, `@(WORD(flow.favorite_color, 1, FALSE))`, `@(WORD(flow.favorite_color, 1, TRUE))`, `@(WORD(flow.favorite_color, 1))`,
	`@(WORD(flow.favorite_color, child.age - 22))`, `@(YEAR(date.now))`, `@(YEAR(NOW()))`,
}
