package p17

import (
	"testing"

	"verif/internal/fw"
)

func TestProf(t *testing.T) {
	p := &c17{}
	for i := 0; i < 40; i++ {
		p.Run(fw.Case{Index: 32 + i, Gen: i, Seed: 1, Tier: "quick"})
	}
}
