package p17

import (
	"math/big"
	"regexp"
	"strings"
	"time"
	"unicode/utf8"
)

// The reference evaluator gives the *legacy* meaning of a generator-side tree on a restricted domain
// on which that meaning is unambiguous (Excel semantics as implemented by the legacy RapidPro
// expression engine; see flows/definition/legacy/expressions/testdata/legacy_tests.json). Everything
// outside the domain evaluates to "undefined" (ok=false) and is never compared.

type val struct {
	t      typ
	r      *big.Rat  // tN
	approx bool      // tN: value involves EXP(); compared with a tolerance and never converted to text
	s      string    // tT
	b      bool      // tB
	d      time.Time // tD (UTC midnight)
}

var (
	ratZero  = big.NewRat(0, 1)
	ratOne   = big.NewRat(1, 1)
	ratHalf  = big.NewRat(1, 2)
	ratE     = func() *big.Rat { r, _ := new(big.Rat).SetString("2.718281828459045"); return r }()
	ratMax   = big.NewRat(100000, 1) // |exact value| bound: at most 5 integer digits
	ratMaxA  = big.NewRat(1000000, 1)
	pow10_4  = big.NewInt(10000)
	pow10_12 = new(big.Int).Exp(big.NewInt(10), big.NewInt(12), nil)
)

func ratInt(i int64) *big.Rat { return big.NewRat(i, 1) }

// exactOK: at most 4 decimal places and 5 integer digits, so that neither the legacy engine's
// 10-significant-digit arithmetic nor its number formatting could have rounded the value.
func exactOK(r *big.Rat) bool {
	if new(big.Rat).Abs(r).Cmp(ratMax) >= 0 {
		return false
	}
	x := new(big.Int).Mul(r.Num(), pow10_4)
	return new(big.Int).Rem(x, r.Denom()).Sign() == 0
}

func numVal(r *big.Rat, approx bool) (val, bool) {
	if approx {
		if new(big.Rat).Abs(r).Cmp(ratMaxA) >= 0 {
			return val{}, false
		}
		// keep the representation small: round to 12 places
		x := new(big.Int).Mul(r.Num(), pow10_12)
		x.Quo(x, r.Denom())
		return val{t: tN, r: new(big.Rat).SetFrac(x, pow10_12), approx: true}, true
	}
	if !exactOK(r) {
		return val{}, false
	}
	return val{t: tN, r: r}, true
}

func (v val) isInt() bool { return !v.approx && v.r.IsInt() }

// intIn returns the value as an int if it is an exact integer in [lo,hi].
func (v val) intIn(lo, hi int64) (int, bool) {
	if v.t != tN || !v.isInt() {
		return 0, false
	}
	i := v.r.Num().Int64()
	if !v.r.Num().IsInt64() || i < lo || i > hi {
		return 0, false
	}
	return int(i), true
}

// fmtRat renders an exact value canonically (no trailing zeros), which is how both the legacy engine
// and Excellent render a decimal inside text.
func fmtRat(r *big.Rat) string {
	s := r.FloatString(6)
	if strings.Contains(s, ".") {
		s = strings.TrimRight(s, "0")
		s = strings.TrimSuffix(s, ".")
	}
	if s == "-0" {
		s = "0"
	}
	return s
}

// asText converts a number or text operand of & / CONCATENATE to text.
func (v val) asText() (string, bool) {
	switch v.t {
	case tT:
		return v.s, true
	case tN:
		if v.approx {
			return "", false
		}
		return fmtRat(v.r), true
	}
	return "", false // booleans (TRUE vs true) and dates (format) render differently by design
}

var simpleRe = regexp.MustCompile(`^[A-Za-z]+( [A-Za-z]+)*$`)
var fieldTokRe = regexp.MustCompile(`^[A-Za-z0-9]+$`)

func isASCIIPrintable(s string) bool {
	for i := 0; i < len(s); i++ {
		if s[i] < 0x20 || s[i] > 0x7e {
			return false
		}
	}
	return true
}

type refEnv struct {
	refs map[string]val // canonical legacy reference -> bound value
}

func (e *refEnv) eval(n *node) (val, bool) {
	switch n.k {
	case kNum:
		r, ok := new(big.Rat).SetString(n.lit)
		if !ok {
			return val{}, false
		}
		return numVal(r, false)
	case kStr:
		return val{t: tT, s: n.lit}, true
	case kBool:
		return val{t: tB, b: n.boolValue()}, true
	case kRef:
		v, ok := e.refs[n.ref]
		return v, ok
	case kNeg:
		a, ok := e.eval(n.args[0])
		if !ok || a.t != tN {
			return val{}, false
		}
		return numVal(new(big.Rat).Neg(a.r), a.approx)
	case kBin:
		a, ok := e.eval(n.args[0])
		if !ok {
			return val{}, false
		}
		b, ok := e.eval(n.args[1])
		if !ok {
			return val{}, false
		}
		return e.binary(n.op, a, b)
	case kCall:
		args := make([]val, len(n.args))
		for i, an := range n.args {
			v, ok := e.eval(an)
			if !ok {
				return val{}, false
			}
			args[i] = v
		}
		return e.call(n, args)
	}
	return val{}, false
}

func (e *refEnv) binary(op string, a, b val) (val, bool) {
	switch op {
	case "+", "-":
		if a.t == tD && b.t == tN {
			days, ok := b.intIn(-400, 400)
			if !ok {
				return val{}, false
			}
			if op == "-" {
				days = -days
			}
			return val{t: tD, d: a.d.AddDate(0, 0, days)}, true
		}
		if a.t != tN || b.t != tN {
			return val{}, false
		}
		if op == "+" {
			return numVal(new(big.Rat).Add(a.r, b.r), a.approx || b.approx)
		}
		return numVal(new(big.Rat).Sub(a.r, b.r), a.approx || b.approx)
	case "*":
		if a.t != tN || b.t != tN {
			return val{}, false
		}
		return numVal(new(big.Rat).Mul(a.r, b.r), a.approx || b.approx)
	case "/":
		if a.t != tN || b.t != tN || b.r.Sign() == 0 {
			return val{}, false
		}
		if b.approx {
			return val{}, false
		}
		return numVal(new(big.Rat).Quo(a.r, b.r), a.approx) // exactOK rejects non-terminating quotients
	case "^":
		if a.t != tN || b.t != tN {
			return val{}, false
		}
		x, ok := b.intIn(0, 4)
		if !ok {
			return val{}, false
		}
		if x == 0 && a.r.Sign() == 0 {
			return val{}, false
		}
		r := new(big.Rat).Set(ratOne)
		for i := 0; i < x; i++ {
			r.Mul(r, a.r)
		}
		return numVal(r, a.approx)
	case "<", "<=", ">", ">=":
		if a.t != tN || b.t != tN || a.approx || b.approx {
			return val{}, false
		}
		c := a.r.Cmp(b.r)
		switch op {
		case "<":
			return val{t: tB, b: c < 0}, true
		case "<=":
			return val{t: tB, b: c <= 0}, true
		case ">":
			return val{t: tB, b: c > 0}, true
		}
		return val{t: tB, b: c >= 0}, true
	case "=", "<>":
		var eq bool
		switch {
		case a.t == tN && b.t == tN:
			if a.approx || b.approx {
				return val{}, false
			}
			eq = a.r.Cmp(b.r) == 0
		case a.t == tT && b.t == tT:
			// legacy string equality ignores case, Excellent's does not: only compare where both agree;
			// and two numeric looking strings are left alone
			if a.s != b.s && strings.EqualFold(a.s, b.s) {
				return val{}, false
			}
			if looksNumeric(a.s) || looksNumeric(b.s) {
				return val{}, false
			}
			eq = a.s == b.s
		default:
			return val{}, false
		}
		if op == "<>" {
			eq = !eq
		}
		return val{t: tB, b: eq}, true
	case "&":
		as, ok := a.asText()
		if !ok {
			return val{}, false
		}
		bs, ok := b.asText()
		if !ok {
			return val{}, false
		}
		return val{t: tT, s: as + bs}, true
	}
	return val{}, false
}

var numericRe = regexp.MustCompile(`^\s*-?[0-9.]+\s*$`)

func looksNumeric(s string) bool { return numericRe.MatchString(s) }

func words(s string) ([]string, bool) {
	if !simpleRe.MatchString(s) {
		return nil, false
	}
	return strings.Split(s, " "), true
}

func floorRat(r *big.Rat) *big.Rat {
	q := new(big.Int).Div(r.Num(), r.Denom()) // Euclidean; denominators are positive => floor
	return new(big.Rat).SetInt(q)
}

func scale10(p int) *big.Rat {
	return new(big.Rat).SetInt(new(big.Int).Exp(big.NewInt(10), big.NewInt(int64(p)), nil))
}

func (e *refEnv) call(n *node, a []val) (val, bool) {
	bad := val{}
	allNum := func(exact bool) bool {
		for _, v := range a {
			if v.t != tN || (exact && v.approx) {
				return false
			}
		}
		return len(a) > 0
	}
	anyApprox := func() bool {
		for _, v := range a {
			if v.approx {
				return true
			}
		}
		return false
	}
	text := func(i int) (string, bool) {
		if i >= len(a) || a[i].t != tT || !isASCIIPrintable(a[i].s) {
			return "", false
		}
		return a[i].s, true
	}
	// the optional by_spaces flag must be a literal TRUE/FALSE (the migrator looks at its text)
	bySpacesOK := func(i int) bool {
		if i >= len(a) {
			return true
		}
		return n.args[i].k == kBool && !n.args[i].paren
	}

	switch n.fn {
	case "SUM":
		if !allNum(false) {
			return bad, false
		}
		r := new(big.Rat)
		for _, v := range a {
			r.Add(r, v.r)
		}
		return numVal(r, anyApprox())
	case "AVERAGE":
		if !allNum(false) {
			return bad, false
		}
		r := new(big.Rat)
		for _, v := range a {
			r.Add(r, v.r)
		}
		r.Quo(r, ratInt(int64(len(a))))
		return numVal(r, anyApprox())
	case "MAX", "MIN":
		if !allNum(true) {
			return bad, false
		}
		m := a[0].r
		for _, v := range a[1:] {
			if (n.fn == "MAX" && v.r.Cmp(m) > 0) || (n.fn == "MIN" && v.r.Cmp(m) < 0) {
				m = v.r
			}
		}
		return numVal(m, false)
	case "ABS":
		if len(a) != 1 || a[0].t != tN {
			return bad, false
		}
		return numVal(new(big.Rat).Abs(a[0].r), a[0].approx)
	case "POWER":
		if len(a) != 2 {
			return bad, false
		}
		return e.binary("^", a[0], a[1])
	case "EXP":
		if len(a) != 1 {
			return bad, false
		}
		x, ok := a[0].intIn(0, 3)
		if !ok {
			return bad, false
		}
		r := new(big.Rat).Set(ratOne)
		for i := 0; i < x; i++ {
			r.Mul(r, ratE)
		}
		return numVal(r, true)
	case "MOD":
		// Excel: sign follows the divisor; decimal.Mod: sign follows the dividend. Agree for a>=0, b>0.
		if len(a) != 2 || !allNum(true) || a[0].r.Sign() < 0 || a[1].r.Sign() <= 0 {
			return bad, false
		}
		q := floorRat(new(big.Rat).Quo(a[0].r, a[1].r))
		return numVal(new(big.Rat).Sub(a[0].r, q.Mul(q, a[1].r)), false)
	case "INT", "TRUNC":
		// INT floors, TRUNC truncates, round_down floors: all agree for x >= 0
		if len(a) != 1 || !allNum(true) || a[0].r.Sign() < 0 {
			return bad, false
		}
		return numVal(floorRat(a[0].r), false)
	case "ROUND", "ROUNDUP", "ROUNDDOWN":
		if len(a) != 2 || !allNum(true) || a[0].r.Sign() < 0 {
			return bad, false
		}
		p, ok := a[1].intIn(0, 3)
		if !ok {
			return bad, false
		}
		sc := scale10(p)
		x := new(big.Rat).Mul(a[0].r, sc)
		var q *big.Rat
		switch n.fn {
		case "ROUND": // half up (away from zero)
			q = floorRat(new(big.Rat).Add(x, ratHalf))
		case "ROUNDDOWN":
			q = floorRat(x)
		default:
			q = floorRat(x)
			if q.Cmp(x) != 0 {
				q.Add(q, ratOne)
			}
		}
		return numVal(q.Quo(q, sc), false)
	case "LEN":
		s, ok := text(0)
		if !ok || len(a) != 1 {
			return bad, false
		}
		return numVal(ratInt(int64(utf8.RuneCountInString(s))), false)
	case "CODE", "UNICODE":
		s, ok := text(0)
		if !ok || len(a) != 1 || s == "" {
			return bad, false
		}
		return numVal(ratInt(int64(s[0])), false)
	case "CHAR", "UNICHAR":
		if len(a) != 1 {
			return bad, false
		}
		c, ok := a[0].intIn(33, 126)
		if !ok {
			return bad, false
		}
		return val{t: tT, s: string(rune(c))}, true
	case "WORD_COUNT":
		s, ok := text(0)
		if !ok || len(a) > 2 || !bySpacesOK(1) {
			return bad, false
		}
		w, ok := words(s)
		if !ok {
			return bad, false
		}
		return numVal(ratInt(int64(len(w))), false)
	case "WORD":
		s, ok := text(0)
		if !ok || len(a) < 2 || len(a) > 3 || !bySpacesOK(2) {
			return bad, false
		}
		w, ok := words(s)
		if !ok {
			return bad, false
		}
		i, ok := a[1].intIn(1, int64(len(w))) // out of range: legacy "" but word() is an error
		if !ok {
			// a negative number counts from the end (legacy_tests.json: WORD("abc-def  ghi  jkl", -1) is "jkl")
			if i, ok = a[1].intIn(-int64(len(w)), -1); ok {
				return val{t: tT, s: w[len(w)+i]}, true
			}
			return bad, false
		}
		return val{t: tT, s: w[i-1]}, true
	case "WORD_SLICE":
		s, ok := text(0)
		if !ok || len(a) < 2 || len(a) > 4 || !bySpacesOK(3) {
			return bad, false
		}
		w, ok := words(s)
		if !ok {
			return bad, false
		}
		// The legacy function is words[start-1 : stop-1] with Python slice semantics: a negative start or stop
		// counts from the end, stop 0 (or no stop) is the end (legacy_tests.json: WORD_SLICE(" abc  def ghi-jkl ", 2, -1)
		// is "def ghi", (…, -1, 0) is "jkl", (…, 3, 0, true) is "ghi-jkl").
		n := int64(len(w))
		start, ok := a[1].intIn(1, 1000)
		if !ok {
			// from the end: only without a stop (or with stop 0)
			if start, ok = a[1].intIn(-n, -1); !ok {
				return bad, false
			}
			if len(a) >= 3 {
				if z, isInt := a[2].intIn(0, 0); !isInt || z != 0 {
					return bad, false
				}
			}
			return val{t: tT, s: strings.Join(w[len(w)+start:], " ")}, true
		}
		stop := len(w) + 1
		if len(a) >= 3 {
			st, ok := a[2].intIn(int64(start)+1, 2147483647) // a stop past the end is the end
			if !ok {
				if st, ok = a[2].intIn(0, 0); ok {
					st = len(w) + 1 // 0: the end
				} else if st, ok = a[2].intIn(-n+int64(start), -1); ok {
					st = len(w) + 1 + st // from the end, and after the start
				} else {
					return bad, false
				}
			}
			stop = st
		}
		if stop > len(w)+1 {
			stop = len(w) + 1
		}
		if start > len(w) {
			return val{t: tT, s: ""}, true
		}
		return val{t: tT, s: strings.Join(w[start-1:stop-1], " ")}, true
	case "FIRST_WORD":
		s, ok := text(0)
		if !ok || len(a) != 1 {
			return bad, false
		}
		w, ok := words(s)
		if !ok {
			return bad, false
		}
		return val{t: tT, s: w[0]}, true
	case "REMOVE_FIRST_WORD":
		s, ok := text(0)
		if !ok || len(a) != 1 {
			return bad, false
		}
		w, ok := words(s)
		if !ok {
			return bad, false
		}
		return val{t: tT, s: strings.Join(w[1:], " ")}, true
	case "FIELD":
		s, ok := text(0)
		if !ok || len(a) != 3 {
			return bad, false
		}
		delim, ok := text(2)
		if !ok || len(delim) != 1 || !strings.Contains(",+|;:", delim) {
			return bad, false
		}
		fs := strings.Split(s, delim)
		for _, f := range fs {
			if !fieldTokRe.MatchString(f) { // empty fields / surrounding spaces are treated differently
				return bad, false
			}
		}
		i, ok := a[1].intIn(1, 1000000) // past the last field: empty
		if !ok {
			return bad, false
		}
		if i > len(fs) {
			return val{t: tT, s: ""}, true
		}
		return val{t: tT, s: fs[i-1]}, true
	case "LEFT", "RIGHT":
		s, ok := text(0)
		if !ok || len(a) != 2 {
			return bad, false
		}
		lo := int64(0)
		if n.fn == "RIGHT" {
			lo = 1 // RIGHT(s, 0) is "" in Excel but text_slice(s, -0) is s: outside the compared domain
		}
		c, ok := a[1].intIn(lo, 100)
		if !ok {
			return bad, false
		}
		if c > len(s) {
			c = len(s)
		}
		if n.fn == "LEFT" {
			return val{t: tT, s: s[:c]}, true
		}
		return val{t: tT, s: s[len(s)-c:]}, true
	case "UPPER", "LOWER", "CLEAN":
		s, ok := text(0)
		if !ok || len(a) != 1 {
			return bad, false
		}
		switch n.fn {
		case "UPPER":
			s = strings.ToUpper(s)
		case "LOWER":
			s = strings.ToLower(s)
		}
		return val{t: tT, s: s}, true
	case "PROPER":
		s, ok := text(0)
		if !ok || len(a) != 1 {
			return bad, false
		}
		w, ok := words(s)
		if !ok {
			return bad, false
		}
		for i := range w {
			w[i] = strings.ToUpper(w[i][:1]) + strings.ToLower(w[i][1:])
		}
		return val{t: tT, s: strings.Join(w, " ")}, true
	case "REPT":
		s, ok := text(0)
		if !ok || len(a) != 2 {
			return bad, false
		}
		c, ok := a[1].intIn(0, 12)
		if !ok || len(s)*c > 60 {
			return bad, false
		}
		// A count that involves exponentiation is left alone: the known grouping losses around POWER / ^ / EXP
		// (REPT(s, POWER(10, n / 10)) becomes repeat(s, 10 ^ n / 10)) can turn it into 10^9 repetitions, which
		// does not finish; the loss itself is found with every other function.
		explosive := false
		n.args[1].walk(func(x, _ *node, _ int) {
			if (x.k == kBin && x.op == "^") || (x.k == kCall && (x.fn == "POWER" || x.fn == "EXP")) {
				explosive = true
			}
		})
		if explosive {
			return bad, false
		}
		return val{t: tT, s: strings.Repeat(s, c)}, true
	case "SUBSTITUTE":
		// the optional 4th argument is an instance number in Excel but a count in replace(): 3 args only
		if len(a) != 3 {
			return bad, false
		}
		s, ok1 := text(0)
		old, ok2 := text(1)
		nw, ok3 := text(2)
		if !ok1 || !ok2 || !ok3 || old == "" {
			return bad, false
		}
		return val{t: tT, s: strings.ReplaceAll(s, old, nw)}, true
	case "CONCATENATE":
		if len(a) == 0 {
			return bad, false
		}
		var b strings.Builder
		for _, v := range a {
			s, ok := v.asText()
			if !ok {
				return bad, false
			}
			b.WriteString(s)
		}
		return val{t: tT, s: b.String()}, true
	case "FIXED":
		// below 1000 there is no digit grouping, so the (differently meant) third argument is irrelevant
		if len(a) < 1 || len(a) > 3 || a[0].t != tN || a[0].approx || a[0].r.Sign() < 0 || a[0].r.Cmp(ratInt(1000)) >= 0 {
			return bad, false
		}
		p := 2
		if len(a) >= 2 {
			var ok bool
			if p, ok = a[1].intIn(0, 3); !ok {
				return bad, false
			}
		}
		if len(a) == 3 && a[2].t != tB {
			return bad, false
		}
		sc := scale10(p)
		q := floorRat(new(big.Rat).Add(new(big.Rat).Mul(a[0].r, sc), ratHalf))
		if q.Quo(q, sc).Cmp(ratInt(1000)) >= 0 {
			return bad, false
		}
		return val{t: tT, s: q.FloatString(p)}, true
	case "PERCENT":
		if len(a) != 1 || a[0].t != tN || a[0].approx || a[0].r.Sign() < 0 {
			return bad, false
		}
		x := new(big.Rat).Mul(a[0].r, ratInt(100))
		if !x.IsInt() || x.Cmp(ratInt(100000)) > 0 {
			return bad, false
		}
		return val{t: tT, s: x.Num().String() + "%"}, true
	case "IF":
		if len(a) != 3 || a[0].t != tB || a[1].t != a[2].t {
			return bad, false
		}
		if a[0].b {
			return a[1], true
		}
		return a[2], true
	case "AND", "OR":
		if len(a) == 0 {
			return bad, false
		}
		res := n.fn == "AND"
		for _, v := range a {
			if v.t != tB {
				return bad, false
			}
			if n.fn == "AND" {
				res = res && v.b
			} else {
				res = res || v.b
			}
		}
		return val{t: tB, b: res}, true
	case "TRUE", "FALSE":
		if len(a) != 0 {
			return bad, false
		}
		return val{t: tB, b: n.fn == "TRUE"}, true
	case "DATE":
		if len(a) != 3 {
			return bad, false
		}
		y, ok1 := a[0].intIn(1990, 2035)
		m, ok2 := a[1].intIn(1, 12)
		d, ok3 := a[2].intIn(1, 28)
		if !ok1 || !ok2 || !ok3 {
			return bad, false
		}
		return val{t: tD, d: time.Date(y, time.Month(m), d, 0, 0, 0, 0, time.UTC)}, true
	case "DATEVALUE":
		// only a *literal* ISO date
		if len(a) != 1 || n.args[0].k != kStr {
			return bad, false
		}
		d, err := time.Parse("2006-01-02", a[0].s)
		if err != nil || d.Year() < 1990 || d.Year() > 2035 || d.Day() > 28 {
			return bad, false
		}
		return val{t: tD, d: d}, true
	case "EDATE":
		if len(a) != 2 || a[0].t != tD || a[0].d.Day() > 28 {
			return bad, false
		}
		m, ok := a[1].intIn(-24, 24)
		if !ok {
			return bad, false
		}
		return val{t: tD, d: a[0].d.AddDate(0, m, 0)}, true
	case "DAY", "MONTH", "YEAR", "WEEKDAY":
		if len(a) != 1 || a[0].t != tD {
			return bad, false
		}
		var x int
		switch n.fn {
		case "DAY":
			x = a[0].d.Day()
		case "MONTH":
			x = int(a[0].d.Month())
		case "YEAR":
			x = a[0].d.Year()
		default:
			x = int(a[0].d.Weekday()) + 1 // Excel: Sunday = 1
		}
		return numVal(ratInt(int64(x)), false)
	case "DAYS":
		if len(a) != 2 || a[0].t != tD || a[1].t != tD {
			return bad, false
		}
		return numVal(ratInt(int64(a[0].d.Sub(a[1].d)/(24*time.Hour))), false)
	case "DATEDIF":
		// only unit "D" (the legacy units are case-insensitive, datetime_diff's are not) and start <= end
		if len(a) != 3 || a[0].t != tD || a[1].t != tD || a[2].t != tT || a[2].s != "D" || a[0].d.After(a[1].d) {
			return bad, false
		}
		return numVal(ratInt(int64(a[1].d.Sub(a[0].d)/(24*time.Hour))), false)
	}
	return bad, false
}

// render gives the text a legacy template would have shown for a top-level value, and whether
// such a rendering is comparable at all.
func (v val) render() (string, bool) {
	switch v.t {
	case tT:
		return v.s, true
	case tN:
		if v.approx {
			return v.r.FloatString(9), true
		}
		return fmtRat(v.r), true
	case tB:
		if v.b {
			return "TRUE", true
		}
		return "FALSE", true
	}
	return "", false
}
