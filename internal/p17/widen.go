package p17

import (
	"fmt"
	"regexp"
	"strings"
	"unicode"

	"verif/internal/fw"
)

// ---------------------------------------------------------------------------------------------
// Two input classes added on top of the generator (round 2):
//
//  1. string literals whose CONTENT looks like a positional placeholder of some template notation
//     ($1 $2 $3 as in dollar amounts, %s %v %[2]s, {0}, ${2} …) as / inside any argument of any function.
//     The migration assembles the new expression from the migrated texts of the arguments; whatever
//     notation it uses internally, a literal denotes its own characters.
//  2. text that directly follows an @identifier (or a lone @(reference)) and begins with periods:
//     a period continues an identifier only when a name character comes right after it, so
//     "..thanks", "...and", ". ", ".?" and a trailing "." are text outside the expression.
//
// Both are applied as a widening step AFTER the template has been drawn, from a stream of their own
// (seed, "C17-widen", index, template number), so the content of a case is still a pure function of
// (seed, property, index) and the templates that are not widened are the ones generated before.
// ---------------------------------------------------------------------------------------------

// placeholder-like texts; the positional dollar forms are the common ones in message texts (amounts)
var placeholderTokens = []string{
	"$1", "$2", "$3", "$1", "$2", "$3", "$2", "$3", "$10", "$2.50", "US$2", "$1 $2 $3", "$3 or $2",
	"%s", "%v", "%d", "%[1]s", "%[2]s", "%%", "%2$s", "{0}", "{1}", "${2}", "{{.}}",
}

var placeholderRe = regexp.MustCompile(`\$[0-9{]|%[svd\[%0-9]|\{[0-9{]`)

func looksLikePlaceholder(s string) bool { return placeholderRe.MatchString(s) }

// functions whose migrated form is not "same or renamed function, same argument list" and that take
// two or more arguments (callMigrators: templates with several arguments)
var reshapedMultiArg = map[string]bool{"LEFT": true, "RIGHT": true, "POWER": true, "EDATE": true, "DAYS": true}

func placeholderText(r *fw.Rand, old string) string {
	tok := fw.Pick(r, placeholderTokens)
	if len(old) > 24 {
		old = old[:24]
	}
	switch r.Intn(10) {
	case 0, 1:
		return tok + " " + old
	case 2, 3:
		return old + " " + tok
	case 4:
		// inside (ASCII texts only: cut at a byte position)
		if isASCIIPrintable(old) && len(old) >= 2 {
			k := r.Range(1, len(old)-1)
			return old[:k] + tok + old[k:]
		}
	case 5:
		return tok + tok
	}
	return tok
}

// forms of text after an @identifier that begin with periods and do not continue the identifier
var periodHeads = []string{"..", "...", "..", "....", "."}
var periodNameTails = []string{"thanks", "and ", "ok", "9", "_x ", "é", "Yes!", "23 it is", "x.y"}
var periodOtherTails = []string{"", " ", " ok?", "?", ", ", ") ", "!", "\n", " .", "-", "@@"}

func periodText(r *fw.Rand, rest string, last bool) string {
	head := fw.Pick(r, periodHeads)
	if head == "." || r.Chance(0.3) {
		// (a single period followed by a name character would be part of the identifier)
		t := fw.Pick(r, periodOtherTails)
		if last && r.Chance(0.5) {
			return head // periods at the very end of the template
		}
		return head + t + rest
	}
	if rest != "" && isNameRune(firstRune(rest)) && r.Chance(0.5) {
		return head + rest // the drawn body text itself starts with a name character
	}
	return head + fw.Pick(r, periodNameTails) + rest
}

func firstRune(s string) rune {
	for _, c := range s {
		return c
	}
	return 0
}

func isNameRune(c rune) bool { return unicode.IsLetter(c) || unicode.IsNumber(c) || c == '_' }

var identSeparators = []string{", ", "! ", ": ", "; ", " "}

// widen returns a widened copy of t, or nil when nothing was changed.
func widen(r *fw.Rand, t *tmpl) *tmpl {
	c := &tmpl{spaced: t.spaced, segs: make([]seg, len(t.segs))}
	for i, s := range t.segs {
		c.segs[i] = s
		if s.expr != nil {
			c.segs[i].expr = s.expr.clone()
		}
	}
	changed := false

	// 1. a placeholder-like literal
	if r.Chance(0.14) {
		var cands []*node
		for _, s := range c.segs {
			if s.expr == nil {
				continue
			}
			s.expr.walk(func(n, p *node, idx int) {
				if n.k != kStr {
					return
				}
				if p != nil && p.k == kCall && fnByName[p.fn] != nil && paramIsLiteral(fnByName[p.fn], idx) {
					return // delimiters, units, ISO dates
				}
				cands = append(cands, n)
			})
		}
		if len(cands) > 0 {
			n := fw.Pick(r, cands)
			n.lit = placeholderText(r, n.lit)
			changed = true
		}
	}

	// 2. periods after an @identifier / lone reference
	for i := 0; i < len(c.segs); i++ {
		s := c.segs[i]
		if s.expr == nil || s.expr.k != kRef || s.expr.paren {
			continue
		}
		p := 0.3
		if !s.ident {
			p = 0.15
		}
		if !r.Chance(p) {
			continue
		}
		if i+1 < len(c.segs) && c.segs[i+1].expr == nil {
			rest := c.segs[i+1].text
			for _, sep := range identSeparators {
				if strings.HasPrefix(rest, sep) {
					if r.Chance(0.6) {
						rest = rest[len(sep):]
					}
					break
				}
			}
			c.segs[i+1].text = periodText(r, rest, i+2 == len(c.segs))
			changed = true
		} else if i+1 == len(c.segs) {
			c.segs = append(c.segs, seg{text: periodText(r, "", true)})
			changed = true
		}
	}
	// (a text segment in front of an expression must not end in a single '@')
	for i := range c.segs {
		if c.segs[i].expr == nil && i+1 < len(c.segs) {
			s := c.segs[i].text
			if strings.HasSuffix(s, "@") && !strings.HasSuffix(s, "@@") {
				c.segs[i].text = s + " "
			}
		}
	}
	if !changed {
		return nil
	}
	return c
}

// periodsAfterExpression describes the text that follows an expression segment: does it begin with a period,
// and with two or more periods followed by a name character?
func periodsAfterExpression(text string) (period, periodsThenName bool) {
	if !strings.HasPrefix(text, ".") {
		return false, false
	}
	rest := strings.TrimLeft(text, ".")
	return true, len(text)-len(rest) >= 2 && rest != "" && isNameRune(firstRune(rest))
}

// continuesIdentifier: would this text, written directly after @reference, be read as part of the identifier?
func continuesIdentifier(text string) bool {
	rs := []rune(text)
	if len(rs) == 0 {
		return false
	}
	if isNameRune(rs[0]) {
		return true
	}
	return rs[0] == '.' && len(rs) > 1 && isNameRune(rs[1])
}

// ---------------------------------------------------------------------------------------------
// An independent scanner of the template syntax (both the legacy and the new one share it):
//   @@            literal @ (kept as written)
//   @( … )        expression up to the matching parenthesis; "…" literals with \ escapes are skipped
//   @name.name    identifier: name characters (letters, numbers, _), a period only when a name character
//                 comes right after it; it is an identifier only if the part before the first period,
//                 lower-cased, is one of the top levels — otherwise it is text
//   anything else text
// It trusts only unicode.IsLetter / IsNumber and strings.ToLower; goflow's scanner is not used.
// ---------------------------------------------------------------------------------------------

func refScan(s string, tops []string) []tok {
	rs := []rune(s)
	var out []tok
	body := func(t string) {
		if t == "" {
			return
		}
		if len(out) > 0 && !out[len(out)-1].expr {
			out[len(out)-1].text += t
		} else {
			out = append(out, tok{text: t})
		}
	}
	isTop := func(name string) bool {
		if tops == nil {
			return true
		}
		name = strings.ToLower(name)
		for _, t := range tops {
			if t == name {
				return true
			}
		}
		return false
	}
	i := 0
	for i < len(rs) {
		c := rs[i]
		if c != '@' {
			body(string(c))
			i++
			continue
		}
		if i+1 >= len(rs) {
			body("@")
			i++
			continue
		}
		nx := rs[i+1]
		switch {
		case nx == '@':
			body("@@")
			i += 2
		case nx == '(':
			depth := 1
			j := i + 2
			for j < len(rs) && depth > 0 {
				switch rs[j] {
				case '"':
					j++
					for j < len(rs) && rs[j] != '"' {
						if rs[j] == '\\' {
							j++
						}
						j++
					}
				case '(':
					depth++
				case ')':
					depth--
				}
				j++
			}
			if j > len(rs) {
				j = len(rs)
			}
			if depth == 0 {
				out = append(out, tok{expr: true, text: string(rs[i+2 : j-1])})
			} else {
				body(string(rs[i:j]))
			}
			i = j
		case isNameRune(nx):
			j := i + 1
			top := ""
			for j < len(rs) {
				if isNameRune(rs[j]) {
					j++
				} else if rs[j] == '.' && j+1 < len(rs) && isNameRune(rs[j+1]) {
					if top == "" {
						top = string(rs[i+1 : j])
					}
					j += 2
				} else {
					break
				}
			}
			id := string(rs[i+1 : j])
			if top == "" {
				top = id
			}
			if isTop(top) {
				out = append(out, tok{expr: true, text: id})
			} else {
				body("@" + id)
			}
			i = j
		default:
			body("@" + string(nx))
			i += 2
		}
	}
	return out
}

func sameToks(a, b []tok) bool {
	if len(a) != len(b) {
		return false
	}
	for i := range a {
		if a[i] != b[i] {
			return false
		}
	}
	return true
}

// ---------------------------------------------------------------------------------------------
// directed cases
// ---------------------------------------------------------------------------------------------

var directedPlaceholderTokens = []string{"$1", "$2", "$3", "a $2", "$3$2$1", "%s", "%[2]s", "{0}"}

// directedPlaceholderLiterals: a placeholder-like literal as (text parameters) or inside (number and date
// parameters, through LEN / DATE) every argument of every catalogued function.
func (p *c17) directedPlaceholderLiterals(cs *caseState) {
	res := cs.res
	n := 0
	for fi := range fnSpecs {
		f := &fnSpecs[fi]
		for j, prm := range f.params {
			if prm.lit || prm.t == tB {
				continue
			}
			for ti, tk := range directedPlaceholderTokens {
				n++
				g := &genr{r: directedRand("placeholder", n)}
				g.b = genBindings(g.r)
				ck := newChecker(res, g.b, nil)
				var inner *node
				switch {
				case prm.t == tT || prm.t == tAny || prm.hint == "branch":
					inner = str(tk)
				case prm.t == tN:
					inner = call("LEN", tN, str(tk))
				case prm.t == tD:
					inner = call("DATE", tD, num("2020"), num("1"), call("LEN", tN, str(tk)))
				}
				if inner == nil {
					continue
				}
				var e *node
				for attempt := 0; attempt < 12; attempt++ {
					c := g.place(inner.clone(), position{kind: "arg", fn: f, idx: j}, 0)
					// a count that shows the whole literal
					for k, a := range c.args {
						if f.variadic == 0 && k != j && k < len(f.params) && (f.params[k].hint == "count" || f.params[k].hint == "count1") && a.k == kNum {
							a.lit = fmt.Sprint(len(tk))
						}
					}
					e = g.toTopLevel(c)
					if _, ok := ck.ref.eval(e); ok {
						break
					}
				}
				o := cs.runTemplate(ck, single(e, ti%2 == 0), "directed")
				if o.compared > 0 && o.clause == "" {
					res.Seen("placeholder_literal_positions_compared", fmt.Sprintf("arg:%s/%d", strings.ToLower(f.name), j))
				}
			}
		}
	}
	// under operators and in templates with text
	for ti, tk := range directedPlaceholderTokens {
		g := &genr{r: directedRand("placeholder-op", ti)}
		g.b = genBindings(g.r)
		age := func() *node { return refNode("contact.age", tN) }
		forms := []*tmpl{
			single(bin("&", str(tk), str("|")), true),
			single(bin("&", call("LEFT", tT, str(tk+" today"), num(fmt.Sprint(len(tk)))), str("!")), true),
			single(call("UPPER", tT, call("LEFT", tT, str(tk+" per sms"), bin("+", bin("-", age(), age()), num(fmt.Sprint(len(tk)))))), false),
			{segs: []seg{{text: "You pay "}, {expr: call("RIGHT", tT, str("USD "+tk), num(fmt.Sprint(len(tk))))}, {text: " only " + tk}}, spaced: true},
			single(call("CONCATENATE", tT, call("LEFT", tT, bin("&", str("x"), str(tk)), num(fmt.Sprint(len(tk)+1))), str(tk)), true),
		}
		for _, t := range forms {
			ck := newChecker(res, g.b, nil)
			cs.runTemplate(ck, t, "directed")
		}
	}
}

// directedIdentifierPeriods: every catalogued reference as @identifier and as @(reference), followed by text that
// begins with periods and is not a continuation of the identifier.
func (p *c17) directedIdentifierPeriods(cs *caseState) {
	res := cs.res
	tails := []string{".", "..", "...", ". ok", ".?", "... ok?", "..thanks", "...and ", "..9", ".._x", "..é!", "....Z", "..a.b"}
	for i, d := range refDefs {
		if d.t == tD {
			continue
		}
		for k, tail := range tails {
			for _, ident := range []bool{true, false} {
				ck := newChecker(res, genBindings(directedRand("periods", i)), nil)
				name := d.legacy
				if k%5 == 4 {
					name = strings.ToUpper(name[:1]) + name[1:]
				}
				cs.runTemplate(ck, &tmpl{segs: []seg{{text: "v="}, {expr: refNode(name, d.t), ident: ident}, {text: tail}}, spaced: true}, "directed")
			}
		}
	}
	// several identifiers in one template
	ck := newChecker(res, genBindings(directedRand("periods", 1000)), nil)
	cs.runTemplate(ck, &tmpl{segs: []seg{
		{text: "You said "}, {expr: refNode("flow.color", tT), ident: true}, {text: "...and you are "},
		{expr: refNode("contact.age", tN), ident: true}, {text: "..right? "}, {expr: refNode("step.value", tT), ident: true}, {text: ".."},
		{expr: refNode("contact", tT)}, {text: "...bye"},
	}, spaced: true}, "directed")
}
