package props

import (
	"fmt"
	"sort"
	"strings"

	"github.com/nyaruka/goflow/flows"

	"verif/internal/drive"
	"verif/internal/fw"
	"verif/internal/gen"
)

// scenBase gives scenario-driven properties their common fw.Property plumbing.
type scenBase struct {
	id     string
	quickN int
	thorN  int
	batchQ int
	batchT int
}

func (b *scenBase) ID() string { return b.id }
func (b *scenBase) NumGenerated(tier string) int {
	if tier == "thorough" {
		return b.thorN
	}
	return b.quickN
}
func (b *scenBase) BatchSize(tier string) int {
	if tier == "thorough" {
		if b.batchT > 0 {
			return b.batchT
		}
		return 2000
	}
	if b.batchQ > 0 {
		return b.batchQ
	}
	return 250
}
func (b *scenBase) CaseTimeoutS() int { return 120 }

// witnessOf packs a scenario and an explanation into a replayable witness.
func witnessOf(scen *gen.Scenario, extra map[string]any) map[string]any {
	w := map[string]any{"scenario": scen}
	for k, v := range extra {
		w[k] = v
	}
	return w
}

// observeCommon records what every scenario-driven monitor wants in its evidence.
func observeCommon(res *fw.Result, rec *drive.CallRecord) {
	res.Count("engine_calls", 1)
	res.Count("engine_calls."+rec.Kind, 1)
	if rec.Kind == "resume" {
		res.Count("resume."+rec.ResumeType, 1)
	}
	switch {
	case rec.Panic != nil:
		res.Count("engine_panics", 1)
		res.Seen("engine_panic_kinds", fw.PanicSignature(rec.Kind, rec.Panic, rec.PanicStack))
	case rec.Budget:
		res.Count("engine_budget_exceeded", 1)
	case rec.Err != nil:
		res.Count("engine_errors", 1)
		res.Seen("engine_error_kinds", errClass(rec.Err.Error()))
	}
	if rec.Sprint != nil {
		for _, e := range rec.Sprint.Events() {
			res.Count("event."+e.Type(), 1)
		}
		res.Count("segments", int64(len(rec.Sprint.Segments())))
	}
	if rec.OK() && rec.Session != nil {
		res.Seen("state_shapes", stateShape(rec.Session))
		// size classes of the session that is handed back
		maxPath, waits := 0, 0
		for _, r := range rec.Session.Runs() {
			if n := len(r.Path()); n > maxPath {
				maxPath = n
			}
			for _, e := range r.Events() {
				if t := e.Type(); t == "msg_wait" || t == "dial_wait" {
					waits++
				}
			}
		}
		for _, b := range []int{10, 100, 250} {
			if maxPath > b {
				res.Count(fmt.Sprintf("size.path_over_%d", b), 1)
			}
		}
		for _, b := range []int{5, 20, 50} {
			if waits > b {
				res.Count(fmt.Sprintf("size.waits_over_%d", b), 1)
			}
		}
		if n := len(rec.Session.Runs()); n > 10 {
			res.Count("size.runs_over_10", 1)
		}
	}
}

// errClass strips the variable parts of an error message.
func errClass(msg string) string {
	msg = reUUID.ReplaceAllString(msg, "<uuid>")
	var b strings.Builder
	skip := false
	for _, r := range msg {
		switch {
		case r == '\'' || r == '"':
			skip = !skip
		case skip:
		case r >= '0' && r <= '9':
		case r >= 'a' && r <= 'f' && false:
		default:
			b.WriteRune(r)
		}
		if b.Len() > 90 {
			break
		}
	}
	s := b.String()
	// drop uuid leftovers (hex runs with dashes)
	for _, h := range []string{"a", "b", "c", "d", "e", "f"} {
		_ = h
	}
	return strings.Join(strings.Fields(s), " ")
}

func stateShape(s flows.Session) string {
	var st []string
	depth := 0
	for _, r := range s.Runs() {
		st = append(st, string(r.Status()))
		d := 0
		for p := r.ParentInSession(); p != nil; p = p.ParentInSession() {
			d++
		}
		if d > depth {
			depth = d
		}
	}
	sort.Strings(st)
	// compress repeated statuses: completed×3
	var parts []string
	for i := 0; i < len(st); {
		j := i
		for j < len(st) && st[j] == st[i] {
			j++
		}
		n := j - i
		switch {
		case n == 1:
			parts = append(parts, st[i])
		case n <= 3:
			parts = append(parts, fmt.Sprintf("%s×%d", st[i], n))
		default:
			parts = append(parts, st[i]+"×many")
		}
		i = j
	}
	if depth > 3 {
		depth = 4
	}
	return fmt.Sprintf("%s|%s|d%d", s.Status(), strings.Join(parts, ","), depth)
}

// graphShape summarises the flow graphs of a scenario (for distinct-shape evidence).
func graphShape(scen *gen.Scenario) string {
	var parts []string
	for _, f := range scen.Flows() {
		nodes, _ := f["nodes"].([]any)
		self, back, wait, enter := 0, 0, 0, 0
		idx := map[string]int{}
		for i, n := range nodes {
			idx[n.(gen.M)["uuid"].(string)] = i
		}
		for i, n := range nodes {
			nm := n.(gen.M)
			for _, e := range nm["exits"].([]any) {
				if d, ok := e.(gen.M)["destination_uuid"].(string); ok {
					if idx[d] == i {
						self++
					} else if idx[d] < i {
						back++
					}
				}
			}
			if rt, ok := nm["router"].(gen.M); ok {
				if _, ok := rt["wait"]; ok {
					wait++
				}
			}
			if acts, ok := nm["actions"].([]any); ok {
				for _, a := range acts {
					if a.(gen.M)["type"] == "enter_flow" {
						enter++
					}
				}
			}
		}
		parts = append(parts, fmt.Sprintf("n%d/s%d/b%d/w%d/e%d", len(nodes), self, back, wait, enter))
	}
	return strings.Join(parts, " ")
}

func scenSample(scen *gen.Scenario, r *drive.Runner) any {
	var calls []string
	for _, c := range r.Log {
		s := c.Kind
		if c.ResumeType != "" {
			s += ":" + c.ResumeType
		}
		if c.Sprint != nil {
			s += fmt.Sprintf("(%d events)", len(c.Sprint.Events()))
		}
		calls = append(calls, s)
	}
	final := ""
	if r.Session != nil {
		final = stateShape(r.Session)
	}
	return map[string]any{"graph": graphShape(scen), "trigger": scen.Trigger["type"], "calls": calls, "final": final, "options": scen.Options}
}
