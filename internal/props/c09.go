package props

import (
	"bytes"
	"crypto/sha256"
	"encoding/hex"
	"encoding/json"
	"fmt"
	"math/rand"
	"os"
	"os/exec"
	"path/filepath"
	"runtime"
	"runtime/debug"
	"sort"
	"strconv"
	"strings"
	"sync"
	"sync/atomic"
	"time"

	"github.com/nyaruka/gocommon/dates"
	"github.com/nyaruka/gocommon/i18n"
	"github.com/nyaruka/gocommon/random"
	"github.com/nyaruka/gocommon/uuids"
	"github.com/nyaruka/goflow/assets"
	"github.com/nyaruka/goflow/assets/static"
	"github.com/nyaruka/goflow/contactql"
	"github.com/nyaruka/goflow/envs"
	"github.com/nyaruka/goflow/excellent/types"
	"github.com/nyaruka/goflow/flows"
	"github.com/nyaruka/goflow/flows/actions"
	"github.com/nyaruka/goflow/flows/engine"
	"github.com/nyaruka/goflow/flows/modifiers"
	"github.com/nyaruka/goflow/flows/resumes"
	"github.com/nyaruka/goflow/flows/routers/cases"
	"github.com/nyaruka/goflow/flows/triggers"

	"verif/internal/drive"
	"verif/internal/fw"
	"verif/internal/gen"
)

// C09 — sessions can run concurrently over shared assets.
// Sanitizer: the Go race detector over rounds of N goroutines driving their own sessions against one freshly built
// (cold) SessionAssets; oracles: zero race reports, each goroutine's transcript equals its solo transcript, process
// globals and shared assets unchanged after every round.

type c09 struct{}

func init() {
	fw.Register(&c09{})
	fw.ExtraCommands["c09child"] = c09child
}

func (p *c09) ID() string { return "C09" }
func (p *c09) Rule() string {
	return "a case is one round: fresh shared SessionAssets (cold flow cache; flows stored at spec 13.0 so that lazy migration runs on first use) + one engine; N goroutines are released from a barrier, each running a seeded script (NewSession on one of the shared flows, marshal, ReadSession, resumes, Inspect, ExtractTemplates/Localizables, ChangeLanguage, template evaluation, ParseQuery + group membership, modifiers on its own contact). Rounds are spread over many short-lived race-detector processes (cold process state) with N in {2..32} and GOMAXPROCS in {1,2,4,8,16}; a jittering per-goroutine lock-free clock injects yields/sleeps at dates.Now() call sites. In 30% of the rounds one flow saves several results under one key with re-spelled (letter case) names and categories, partly those of the result-saving service actions, and the scripts inspect more; before and after every round but a process's first, and across processes, the inspection of a fixed reference flow over fresh assets must be the same. In half of the rounds the after-outage clause follows: shared assets over a source that was failing for a subset of the flows while sessions made their first use, then up to 6 goroutines over the recovered source must each equal their solo transcript. In the first round of every process all scripts, lined up after the session start, try refused resumes (wait_timeout / dial / msg on copies of their session) and call every function and test with boundary arguments (empty, white space, punctuation, zero, null, empty array); later rounds do a share of that. Four directed rounds: same-key results across flows and child flow first used during an outage (in half of the child processes), boundary arguments and refused resumes process-cold (each the only round of extra child processes). Non-trivial = a round in which >= 2 goroutines overlapped in time on the same shared flow; distinct = distinct (scenario, N, script seeds)."
}
func (p *c09) Directed() []string           { return nil }
func (p *c09) NumGenerated(tier string) int { return 0 }
func (p *c09) BatchSize(tier string) int    { return 1 }
func (p *c09) CaseTimeoutS() int            { return 300 }
func (p *c09) Run(c fw.Case) fw.Result      { return fw.Result{} }

// ---------------------------------------------------------------------------------------
// per-goroutine, lock-free sources

type gslot struct {
	gid   atomic.Int64
	ticks int64 // owner goroutine only
	uuidN uint64
	seed  uint64
	jit   bool
	_     [64]byte
}

var gslots [64]gslot
var gbase = time.Date(2018, 7, 6, 12, 30, 0, 123456789, time.UTC)

func curGID() int64 {
	var buf [64]byte
	n := runtime.Stack(buf[:], false)
	// "goroutine 123 ["
	s := buf[10:n]
	var id int64
	for _, c := range s {
		if c < '0' || c > '9' {
			break
		}
		id = id*10 + int64(c-'0')
	}
	return id
}

func mySlot() *gslot {
	g := curGID()
	for i := range gslots {
		if gslots[i].gid.Load() == g {
			return &gslots[i]
		}
	}
	return &gslots[len(gslots)-1] // goroutines not registered (none in the measured region) share the last slot
}

func gNow() time.Time {
	s := mySlot()
	s.ticks++
	if s.jit {
		h := (uint64(s.ticks)*0x9E3779B97F4A7C15 ^ s.seed) >> 58
		switch {
		case h == 0:
			time.Sleep(time.Duration(1+(s.ticks%7)) * time.Microsecond)
		case h < 6:
			runtime.Gosched()
		}
	}
	return gbase.Add(time.Duration(s.ticks) * (time.Second + 1001))
}

type gUUIDs struct{}

func (gUUIDs) next(v byte) uuids.UUID {
	s := mySlot()
	s.uuidN++
	z := s.seed + s.uuidN*0x632BE59BD9B4E019
	mix := func() uint64 {
		z += 0x9E3779B97F4A7C15
		x := z
		x = (x ^ (x >> 30)) * 0xBF58476D1CE4E5B9
		x = (x ^ (x >> 27)) * 0x94D049BB133111EB
		return x ^ (x >> 31)
	}
	a, b := mix(), mix()
	return uuids.UUID(fmt.Sprintf("%08x-%04x-%c%03x-%x%03x-%012x", uint32(a>>32), uint16(a>>16), v, uint16(a)&0xfff, 8+(b>>62), uint16(b>>48)&0xfff, b&0xffffffffffff))
}
func (g gUUIDs) NextV4() uuids.UUID { return g.next('4') }
func (g gUUIDs) NextV7() uuids.UUID { return g.next('7') }

func bindSlot(i int, seed uint64, jitter bool) {
	gslots[i].gid.Store(curGID())
	gslots[i].ticks, gslots[i].uuidN, gslots[i].seed, gslots[i].jit = 0, 0, seed, jitter
}

// ---------------------------------------------------------------------------------------
// scripts

type c09script struct {
	flowIdx int
	trigger gen.M
	resumes []gen.M
	ops     []string
	lang    string
	query   string
	tpl     string
	bsel    int // eval_boundary: 0 = every boundary call, k > 0 = the calls with index%3 == k-1
}

func c09Scripts(r *fw.Rand, scen *gen.Scenario, n int) []c09script {
	flowsN := len(scen.Flows())
	var out []c09script
	for g := 0; g < n; g++ {
		// every goroutine gets its own contact / trigger / resumes over the shared flows
		sub := gen.Scen(r.Fork(fmt.Sprint("script", g)), gen.ScenOpts{NoRandom: true, Deterministic: true, MaxNodes: 1, MaxResumes: 4})
		t := sub.Trigger
		fi := r.Intn(flowsN)
		if r.Chance(0.5) {
			fi = 0 // many goroutines on the same flow
		}
		f := scen.Flows()[fi]
		t["flow"] = gen.M{"uuid": f["uuid"], "name": f["name"]}
		delete(t, "call")
		if f["type"] == "voice" {
			t["call"] = gen.M{"uuid": gen.UUID4(r), "channel": gen.M{"uuid": "57f1078f-88aa-46f4-a59a-948a5739c03d", "name": "x"}, "urn": "tel:+12065551212"}
		}
		if t["type"] != "manual" && t["type"] != "msg" {
			t["type"] = "manual"
			delete(t, "event")
			delete(t, "run_summary")
			delete(t, "history")
		}
		// every script starts its session and then evaluates the same templates over everything that is shared between
		// sessions (globals, fields, groups, flow), so that whatever is built lazily on first use is hit by all goroutines
		// of a round at once — in particular in the first round of a process
		ops := []string{"start", "eval_shared", "eval_functions"}
		for k := 0; k < r.Range(2, 6); k++ {
			ops = append(ops, fw.Pick(r, []string{"resume", "resume", "reread", "reread", "inspect", "templates", "change_language", "eval", "eval_webhook", "query", "modifier", "localizables"}))
		}
		out = append(out, c09script{flowIdx: fi, trigger: t, resumes: sub.Resumes, ops: ops,
			lang:  fw.Pick(r, []string{"eng", "spa", "fra", "kin"}),
			query: fw.Pick(r, []string{`age > 18`, `name ~ "bob" AND language = "eng"`, `gender = "male" OR tickets > 0`, `joined > "2018-01-01"`, `tel != ""`}),
			tpl:   fw.Pick(r, []string{"@contact.name @fields.age", "@(json(contact))", "@(foreach(contact.groups, (g) => g.name))", "@results @run.flow.name", "@(has_any_word(input.text, \"yes no\"))", "@(format_date(contact.created_on))", "@(1/0)", "@urns @(format_urn(contact.urn))"})})
	}
	return out
}

var c09SharedTemplates = []string{"@globals.org_name @globals.limit", "@globals", "@(json(globals))", "@fields", "@(json(contact.fields))", "@contact.groups", "@(json(contact.groups))",
	"@run.flow @run.flow.name", "@(json(run.flow))", "@urns", "@contact.channel", "@(format_location(fields.state))", "@(has_group(contact.groups, \"x\").match)", "@trigger.params @trigger.type", "@(has_text(\"\").match)",
	// lookups in the shared location hierarchy, with and without a parent, for names that several locations answer to
	"@(has_ward(\"Gisozi\", \"Gasabo\", \"Kigali City\").match) @(has_ward(\"Gisozi\", \"Nyarugenge\", \"Kigali City\").match) @(has_district(\"Central\", \"Kigali City\").match) @(has_district(\"Central\").match) @(has_state(\"Capital\").match)",
	"@(title(contact.name)) @(title(\"sA ACORÍS é\")) @(upper(contact.name)) @(lower(contact.name))",
	// expressions whose evaluation collects warnings (deprecated context values), several per template
	"@legacy_extra @(json(legacy_extra)) @legacy_extra", "@(legacy_extra) @(default(legacy_extra.x, 1)) @(legacy_extra)", "@(results) @(legacy_extra)"}

type c09shared struct {
	sa    flows.SessionAssets
	eng   flows.Engine
	flows []assets.FlowUUID
	calls []string // the same for every goroutine of a round (and for its solo reference)
	// the same functions and arities called with boundary values (c09_boundary.go)
	boundary []string
}

func c09Shared(scen *gen.Scenario) (*c09shared, error) { return c09SharedOver(scen, nil) }

// c09SharedOver builds the shared assets over the scenario's static source, or over what wrap makes of it (a source whose
// flow fetches can be made to fail for a while, c09_outage.go).
func c09SharedOver(scen *gen.Scenario, wrap func(*static.StaticSource) assets.Source) (*c09shared, error) {
	static_, err := static.NewSource(scen.AssetsJSON())
	if err != nil {
		return nil, err
	}
	var source assets.Source = static_
	if wrap != nil {
		source = wrap(static_)
	}
	sa, err := engine.NewSessionAssets(envs.NewBuilder().Build(), source, nil)
	if err != nil {
		return nil, err
	}
	sh := &c09shared{sa: sa, eng: drive.NewEngine(scen.Options), calls: gen.CallsOfEveryFunction(fw.NewRand(int64(len(scen.Fingerprint())), "C09calls", 0), 2)}
	sh.boundary = c09BoundaryCalls(sh.calls)
	for _, f := range scen.Flows() {
		sh.flows = append(sh.flows, assets.FlowUUID(f["uuid"].(string)))
	}
	return sh, nil
}

type opStamp struct {
	at   int64
	g    int
	op   string
	flow int
	end  int64
}

// runScript executes one script; returns the transcript and per-op timestamps. No locks, channels or shared writes.
// lineUp, when set, is called by a script after its first operation: in every second round all goroutines wait for each
// other there, so that what comes next — the first evaluation of everything the assets build lazily — is begun by all of
// them at the same moment. (It orders the first operations before the second ones; the other rounds run without it.)
type lineUp struct {
	n     int32
	count int32
	ch    chan struct{}
}

func (l *lineUp) wait() {
	if l == nil {
		return
	}
	if atomic.AddInt32(&l.count, 1) == l.n {
		close(l.ch)
	}
	select {
	case <-l.ch:
	case <-time.After(20 * time.Second): // a goroutine that panicked in its first operation never arrives
	}
}

func runScript(sh *c09shared, sc *c09script, g int) (transcript []string, stamps []opStamp, panicked string) {
	return runScriptL(sh, sc, g, nil)
}

func runScriptL(sh *c09shared, sc *c09script, g int, lu *lineUp) (transcript []string, stamps []opStamp, panicked string) {
	defer func() {
		if r := recover(); r != nil {
			panicked = fmt.Sprint(r) + "\n" + fw.TrimStack(string(debug.Stack()))
			transcript = append(transcript, "PANIC: "+fmt.Sprint(r))
		}
	}()
	missing := func(assets.Reference, error) {}
	var session flows.Session
	resumeIdx := 0
	emit := func(tag string, v any) {
		b, _ := json.Marshal(v)
		transcript = append(transcript, tag+":"+normKnownNondet(string(b)))
	}
	for _, op := range sc.ops {
		st := opStamp{at: time.Now().UnixNano(), g: g, op: op, flow: sc.flowIdx}
		switch op {
		case "start":
			tj, _ := json.Marshal(sc.trigger)
			trig, err := triggers.ReadTrigger(sh.sa, tj, missing)
			if err != nil {
				emit("trigger_error", err.Error())
				break
			}
			s, sprint, err := sh.eng.NewSession(sh.sa, trig)
			if err != nil {
				emit("start_error", err.Error())
				break
			}
			session = s
			emit("events", sprint.Events())
			emit("segments", sprint.Segments())
			emit("session", s)
		case "resume":
			if session == nil || session.Status() != flows.SessionStatusWaiting || resumeIdx >= len(sc.resumes) {
				break
			}
			rj, _ := json.Marshal(sc.resumes[resumeIdx])
			resumeIdx++
			rs, err := resumes.ReadResume(sh.sa, rj, missing)
			if err != nil {
				emit("resume_read_error", err.Error())
				break
			}
			sprint, err := session.Resume(rs)
			if err != nil {
				emit("resume_error", err.Error())
				break
			}
			emit("events", sprint.Events())
			emit("segments", sprint.Segments())
			emit("session", session)
		case "reread":
			if session == nil {
				break
			}
			b, _ := json.Marshal(session)
			s2, err := sh.eng.ReadSession(sh.sa, b, missing)
			if err != nil {
				emit("reread_error", err.Error())
				break
			}
			session = s2
			emit("reread", s2)
		case "inspect", "templates", "localizables", "change_language":
			f, err := sh.sa.Flows().Get(sh.flows[sc.flowIdx])
			if err != nil {
				emit("flow_error", err.Error())
				break
			}
			switch op {
			case "inspect":
				emit("inspect", f.Inspect(sh.sa))
			case "templates":
				emit("templates", f.ExtractTemplates())
			case "localizables":
				emit("localizables", f.ExtractLocalizables())
			case "change_language":
				f2, err := f.ChangeLanguage(i18n.Language(sc.lang))
				if err != nil {
					emit("change_language_error", err.Error())
				} else {
					emit("change_language", f2)
				}
			}
		case "eval_shared":
			if session == nil || len(session.Runs()) == 0 {
				break
			}
			run := session.Runs()[0]
			if len(run.Path()) == 0 {
				break
			}
			for _, t := range c09SharedTemplates {
				out, _ := run.EvaluateTemplate(t, func(flows.Event) {})
				emit("eval_shared", out)
			}
		case "eval_functions":
			// every registered function and router test, called with literal arguments from all goroutines of the round at once
			if session == nil || len(session.Runs()) == 0 {
				break
			}
			run := session.Runs()[0]
			if len(run.Path()) == 0 {
				break
			}
			for _, t := range sh.calls {
				out, _ := run.EvaluateTemplate(t, func(flows.Event) {})
				emit("eval_functions", out)
			}
		case "eval_boundary":
			// the same functions and tests, called with boundary values (empty, white space, punctuation, zero, null, empty array)
			if session == nil || len(session.Runs()) == 0 {
				break
			}
			if run := session.Runs()[0]; len(run.Path()) > 0 {
				for i, t := range sh.boundary {
					if sc.bsel > 0 && i%3 != sc.bsel-1 {
						continue
					}
					emit("eval_boundary", c09EvalGuarded(run, t))
				}
			}
		case "resume_rejected":
			// resumes that the wait (or the state of the session) refuses, each tried on a copy read back from the session's JSON
			if session == nil {
				break
			}
			c09RejectedResumes(sh, session, emit)
		case "eval_webhook":
			if session == nil || len(session.Runs()) == 0 {
				break
			}
			for _, run := range session.Runs() {
				var evs []flows.Event
				out, _ := run.EvaluateTemplate("@webhook @webhook.json @(json(webhook)) @trigger.params @(trigger.params.vip) @(trigger.params.flags[1]) @results", func(e flows.Event) { evs = append(evs, e) })
				emit("eval_webhook", out)
				emit("eval_webhook_events", evs)
			}
		case "eval":
			if session == nil || len(session.Runs()) == 0 {
				break
			}
			run := session.Runs()[len(session.Runs())-1]
			out, _ := run.EvaluateTemplate(sc.tpl, func(flows.Event) {})
			emit("eval", out)
		case "query":
			q, err := contactql.ParseQuery(envs.NewBuilder().Build(), sc.query, sh.sa)
			if err != nil {
				emit("query_error", err.Error())
				break
			}
			emit("query", q.String())
			if session != nil && session.Contact() != nil {
				var in []string
				for _, gr := range sh.sa.Groups().All() {
					if gr.UsesQuery() && gr.CheckQueryBasedMembership(session.Environment(), session.Contact()) {
						in = append(in, gr.Name())
					}
				}
				emit("membership", in)
			}
		case "modifier":
			if session == nil || session.Contact() == nil {
				break
			}
			c := session.Contact().Clone()
			var evs []flows.Event
			log := func(e flows.Event) { evs = append(evs, e) }
			if f := sh.sa.Fields().Get("age"); f != nil {
				modifiers.Apply(sh.eng, session.Environment(), sh.sa, c, modifiers.NewField(f, "33"), log)
			}
			for _, gr := range sh.sa.Groups().All() {
				if !gr.UsesQuery() {
					modifiers.Apply(sh.eng, session.Environment(), sh.sa, c, modifiers.NewGroups([]*flows.Group{gr}, modifiers.GroupsAdd), log)
					break
				}
			}
			modifiers.Apply(sh.eng, session.Environment(), sh.sa, c, modifiers.NewName("Concurrent "+sc.lang), log)
			emit("modifier_events", evs)
			emit("modifier_contact", c)
		}
		st.end = time.Now().UnixNano()
		stamps = append(stamps, st)
		if len(stamps) == 1 {
			lu.wait()
		}
	}
	return
}

func digest(lines []string) string {
	h := sha256.New()
	for _, l := range lines {
		h.Write([]byte(l))
		h.Write([]byte{0})
	}
	return hex.EncodeToString(h.Sum(nil)[:12])
}

// canary snapshots process globals (and, given shared assets, their marshalled form). With lazies=false nothing that is
// lazily initialised is touched, so the snapshot can be taken before the first (cold) concurrent round.
func canary(sh *c09shared, lazies bool) map[string]string {
	m := map[string]string{
		"envs.DefaultNumberFormat": fmt.Sprintf("%q %q", envs.DefaultNumberFormat.DecimalSymbol, envs.DefaultNumberFormat.DigitGroupingSymbol),
		"registry.actions":         fmt.Sprint(len(actions.RegisteredTypes())),
		"registry.tests":           fmt.Sprint(len(cases.XTESTS)),
		"registry.modifiers":       fmt.Sprint(len(modifiers.RegisteredTypes)),
		// the shared singleton values must stay as they were built, including the deprecation note every value can carry
		"types.singletons": fmt.Sprintf("%v|%v|%s|%s|", types.XBooleanTrue.Native(), types.XBooleanFalse.Native(), types.XNumberZero.Native().String(), types.XTextEmpty.Native()) +
			strings.Join([]string{types.XBooleanTrue.Deprecated(), types.XBooleanFalse.Deprecated(), types.XNumberZero.Deprecated(), types.XDateTimeZero.Deprecated(), types.XDateZero.Deprecated(), types.XTimeZero.Deprecated(), types.XTextEmpty.Deprecated()}, "|"),
	}
	if lazies {
		m["types.lazy_singletons.deprecated"] = types.XArrayEmpty.Deprecated() + "|" + types.XObjectEmpty.Deprecated() + "|" + cases.FalseResult.Deprecated()
		m["types.XObjectEmpty"] = fmt.Sprint(types.XObjectEmpty.Count())
		m["types.XArrayEmpty"] = fmt.Sprint(types.XArrayEmpty.Count())
		m["cases.FalseResult"] = string(marshalJSON(cases.FalseResult))
	}
	if sh != nil {
		for i, u := range sh.flows {
			if f, err := sh.sa.Flows().Get(u); err == nil {
				m[fmt.Sprintf("shared.flow[%d]", i)] = digest([]string{string(marshalJSON(f))})
			}
		}
		var gs []string
		for _, g := range sh.sa.Groups().All() {
			gs = append(gs, string(marshalJSON(g.Reference()))+g.Query())
		}
		m["shared.groups"] = digest(gs)
	}
	return m
}

// what the lazily initialised globals must look like whenever they are looked at
var canaryExpected = map[string]string{"envs.DefaultNumberFormat": `"." ","`, "types.XObjectEmpty": "0", "types.XArrayEmpty": "0", "cases.FalseResult": `{"match":""}`,
	"types.singletons": "true|false|0||||||||", "types.lazy_singletons.deprecated": "||"}

type c09roundResult struct {
	Round        int              `json:"round"`
	N            int              `json:"n"`
	Discarded    string           `json:"discarded,omitempty"`
	Fingerprint  string           `json:"fingerprint"`
	Ops          map[string]int   `json:"ops"`
	Mismatches   []map[string]any `json:"mismatches,omitempty"`
	CanaryDiffs  []string         `json:"canary_diffs,omitempty"`
	Overlaps     int              `json:"overlaps"`     // pairs of goroutines overlapping in time on the same flow
	ColdCollide  bool             `json:"cold_collide"` // >= 2 goroutines' first access of one flow overlapped
	Interleaving string           `json:"interleaving"` // hash of the global op-start order
	Panics       []string         `json:"panics,omitempty"`
	Scenario     *gen.Scenario    `json:"scenario,omitempty"`
	Scripts      []map[string]any `json:"scripts,omitempty"`
	Planted      string           `json:"planted,omitempty"`
	ColdLoad     *coldLoadResult  `json:"cold_load,omitempty"`
	LinedUp      bool             `json:"lined_up,omitempty"`
	Directed     string           `json:"directed,omitempty"` // name of the hand-built round (c09_directed.go)
	SameKey      *sameKeyPlant    `json:"same_key,omitempty"`
	Outage       *outageResult    `json:"after_outage,omitempty"`
	// inspection of the fixed reference flow after the round (and before it, when they differ)
	InspectCanary        string `json:"inspect_canary,omitempty"`
	InspectCanaryWas     string `json:"inspect_canary_was,omitempty"`
	InspectCanaryChecked bool   `json:"inspect_canary_checked,omitempty"`
}

// c09child: vcheck-race c09child <seed> <child-index> <rounds> <maxN> <jitter 0|1> <out.json>
func c09child(args []string) int {
	if len(args) < 6 {
		return 4
	}
	seed, _ := strconv.ParseInt(args[0], 10, 64)
	child, _ := strconv.Atoi(args[1])
	rounds, _ := strconv.Atoi(args[2])
	maxN, _ := strconv.Atoi(args[3])
	jitter := args[4] == "1"
	out := args[5]

	dates.SetNowFunc(gNow)
	uuids.SetGenerator(gUUIDs{})
	random.SetGenerator(rand.New(rand.NewSource(1))) // never used by generated scenarios (NoRandom)

	var results []c09roundResult
	// the cold function phase (c09_coldfn.go) comes before everything else in every second child; the other children
	// keep finding function-level state cold in their session rounds
	coldFnCalls, coldFnDiffs := 0, []map[string]any(nil)
	if child%2 == 1 && child < 1000 {
		coldFnCalls, coldFnDiffs = c09ColdFunctionPhase(seed, maxN)
	}
	for round := 0; round < rounds; round++ {
		r := fw.NewRand(seed, "C09", child*1000+round)
		rr := c09roundResult{Round: round, Ops: map[string]int{}}
		if round == 0 && coldFnCalls > 0 {
			rr.Ops["cold_function_phase_calls"] = coldFnCalls
			rr.Mismatches = append(rr.Mismatches, coldFnDiffs...)
		}
		o := gen.ScenOpts{NoRandom: true, Deterministic: true, MaxNodes: r.Range(2, 6), Localized: r.Chance(0.5), QueryGroups: true, NoHostileTpl: false}
		scen := gen.Scen(r, o)
		scen.Resumes = nil
		// flows are stored at spec 13.0 so that lazy migration runs inside the measured region
		for _, f := range scen.Flows() {
			f["spec_version"] = "13.0.0"
			stripForOldSpec(f)
		}
		// in a third of the rounds the first flow begins with a webhook whose body is a bare JSON value, saved as a result:
		// a session that is re-read recreates @webhook from that result, which every later evaluation then touches
		if f0 := scen.Flows()[0]; f0["type"] != "messaging_offline" && len(f0["nodes"].([]any)) > 0 && r.Chance(0.35) {
			nd := f0["nodes"].([]any)[0].(gen.M)
			acts, _ := nd["actions"].([]any)
			wh := gen.M{"type": "call_webhook", "uuid": gen.UUID4(r), "method": "GET", "url": "http://localhost/?cmd=" + fw.Pick(r, []string{"true", "false", "true", "array", "flags", "number", "null", "string"}), "result_name": "webhook"}
			nd["actions"] = append([]any{wh}, acts...)
			rr.Planted = "bare-json-webhook"
		} else if f0["type"] != "messaging_offline" && len(f0["nodes"].([]any)) > 0 && r.Chance(0.3) {
			// … or with a broadcast / session start whose fixed recipient lists (of every small length) are extended by
			// recipients that differ from session to session
			nd := f0["nodes"].([]any)[0].(gen.M)
			acts, _ := nd["actions"].([]any)
			nu, nc := r.Range(0, 7), r.Range(0, 7)
			var us []string
			for i := 0; i < nu; i++ {
				us = append(us, fmt.Sprintf("tel:+1206555%04d", 100+i))
			}
			var cs []gen.M
			for i := 0; i < nc; i++ {
				cs = append(cs, gen.M{"uuid": gen.UUID4(r), "name": fmt.Sprint("Fixed ", i)})
			}
			a := gen.M{"type": fw.Pick(r, []string{"send_broadcast", "start_session"}), "uuid": gen.UUID4(r), "urns": us, "contacts": cs, "legacy_vars": []string{"@contact.uuid", "@(\"tel:+1\" & text(contact.id + 2065550000))"}}
			if a["type"] == "send_broadcast" {
				a["text"] = "to all"
			} else {
				a["flow"] = gen.M{"uuid": f0["uuid"], "name": f0["name"]}
				a["exclusions"] = gen.M{}
			}
			nd["actions"] = append([]any{a}, acts...)
			rr.Planted = "recipient-lists"
		}
		n := []int{2, 3, 4, 8, 16, 32}[r.Intn(6)]
		if n > maxN {
			n = maxN
		}
		if round == 0 {
			n = maxN // the first round of a process: all goroutines hit cold process state together
		}
		rr.N = n
		scripts := c09Scripts(r, scen, n)
		// same-key results whose category spellings differ (c09_samekey.go); its own stream, so that nothing else of the round moves
		c09PlantSameKey(fw.NewRand(seed, "C09samekey", child*1000+round), scen, scripts, &rr)
		// boundary-argument calls and refused resumes (c09_boundary.go), in the first round of the process for everybody
		c09PlantColdOps(fw.NewRand(seed, "C09coldops", child*1000+round), scripts, round == 0)
		rr.Fingerprint = scen.Fingerprint() + fmt.Sprint(n)
		if !c09RunRound(seed, jitter, &rr, scen, scripts, n, round == 0, round%2 == 0) {
			results = append(results, rr)
			continue
		}
		// the cold-load clause (its own assets and one shared counting UUID source; after the session phase of the round)
		rr.ColdLoad = coldLoad(r.Fork("coldload"), seed, n)
		// the after-outage clause (c09_outage.go), in half of the rounds: its own assets over a source that was away for a
		// random non-empty subset of the flows while their first use was made
		if ro := fw.NewRand(seed, "C09outage", child*1000+round); ro.Chance(0.5) {
			var down []int
			for i := range scen.Flows() {
				if ro.Chance(0.5) {
					down = append(down, i)
				}
			}
			if down == nil {
				down = []int{ro.Intn(len(scen.Flows()))}
			}
			rr.Outage = c09AfterOutage(seed, jitter, scen, scripts, n, down)
			if len(rr.Outage.Mismatches) > 0 && rr.Scenario == nil {
				rr.Scenario = scen
			}
		}
		results = append(results, rr)
	}
	// the directed rounds (c09_directed.go), in the children 1, 2 (mod 4)
	if child >= 1000 {
		// a child of its own for one process-cold directed round: the concurrent run is the first thing the process does
		var cold []c09directedRound
		for _, dr := range c09DirectedRounds() {
			if dr.cold {
				cold = append(cold, dr)
			}
		}
		dr := cold[(child-1000)%len(cold)]
		rr := c09roundResult{Round: 0, Ops: map[string]int{}, Directed: dr.name, N: len(dr.scripts), LinedUp: dr.lined, Fingerprint: "directed:" + dr.name}
		c09RunRound(seed, jitter, &rr, dr.scen, dr.scripts, len(dr.scripts), true, dr.lined)
		results = append(results, rr)
	} else if child%4 == 1 || child%4 == 2 {
		for i, dr := range c09DirectedRounds() {
			if dr.cold {
				continue
			}
			rr := c09roundResult{Round: rounds + i, Ops: map[string]int{}, Directed: dr.name, N: len(dr.scripts), LinedUp: dr.lined}
			rr.Fingerprint = "directed:" + dr.name
			if c09RunRound(seed, jitter, &rr, dr.scen, dr.scripts, len(dr.scripts), false, dr.lined) && dr.down != nil {
				rr.Outage = c09AfterOutage(seed, jitter, dr.scen, dr.scripts, len(dr.scripts), dr.down)
				if len(rr.Outage.Mismatches) > 0 {
					rr.Scenario = dr.scen
				}
			}
			results = append(results, rr)
		}
	}
	b, _ := json.Marshal(results)
	os.WriteFile(out, b, 0o644)
	return 0
}

// c09RunRound is the session phase of one round (generated or directed): solo references, the concurrent run from a
// barrier, canaries, comparison. It returns false when the round was discarded (rr.Discarded says why).
func c09RunRound(seed int64, jitter bool, rr *c09roundResult, scen *gen.Scenario, scripts []c09script, n int, concurrentFirst, lined bool) bool {
	// the very first round of a process runs concurrently *first* (cold process state); the solo runs that give the
	// reference transcripts come afterwards. Later rounds do solo first (cold per-assets state is rebuilt anyway).
	solo := func() ([]string, bool) {
		var ds []string
		for g := 0; g < n; g++ {
			sh, err := c09Shared(scen)
			if err != nil {
				rr.Discarded = "unloadable: " + errClass(err.Error())
				return nil, false
			}
			bindSlot(0, uint64(seed)^uint64(g+1)*0x9E3779B97F4A7C15, false)
			tr, _, _ := runScript(sh, &scripts[g], g)
			ds = append(ds, digest(tr))
		}
		return ds, true
	}
	var soloDigests []string
	if !concurrentFirst {
		var ok bool
		if soloDigests, ok = solo(); !ok {
			return false
		}
	}
	sh, err := c09Shared(scen)
	if err != nil {
		rr.Discarded = "unloadable: " + errClass(err.Error())
		return false
	}
	before := canary(nil, false)
	// what inspecting a fixed reference flow over its own fresh assets gives must not depend on what the process did before.
	// Not taken before the first concurrent round of a process (it would warm what that round is meant to find cold).
	inspectBefore := ""
	if !concurrentFirst {
		inspectBefore = c09InspectCanary()
	}
	transcripts := make([][]string, n)
	stamps := make([][]opStamp, n)
	panics := make([]string, n)
	var ready, done sync.WaitGroup
	start := make(chan struct{})
	ready.Add(n)
	done.Add(n)
	var lu *lineUp
	if lined {
		lu = &lineUp{n: int32(n), ch: make(chan struct{})}
		rr.LinedUp = true
	}
	for g := 0; g < n; g++ {
		go func(g int) {
			defer done.Done()
			bindSlot(g+1, uint64(seed)^uint64(g+1)*0x9E3779B97F4A7C15, jitter)
			ready.Done()
			<-start // barrier: everything after this line is the measured region
			transcripts[g], stamps[g], panics[g] = runScriptL(sh, &scripts[g], g, lu)
		}(g)
	}
	ready.Wait()
	close(start)
	done.Wait()
	if concurrentFirst {
		var ok bool
		if soloDigests, ok = solo(); !ok {
			return false
		}
	}
	after := canary(nil, true)
	// shared assets must still marshal as a freshly built copy does
	fresh, _ := c09Shared(scen)
	sharedNow, sharedFresh := canary(sh, false), canary(fresh, false)
	for k, v := range sharedFresh {
		if strings.HasPrefix(k, "shared.") && sharedNow[k] != v {
			rr.CanaryDiffs = append(rr.CanaryDiffs, k)
		}
	}
	for k, v := range before {
		if after[k] != v {
			rr.CanaryDiffs = append(rr.CanaryDiffs, k)
		}
	}
	for k, v := range canaryExpected {
		if after[k] != v {
			rr.CanaryDiffs = append(rr.CanaryDiffs, k)
		}
	}
	rr.InspectCanary = c09InspectCanary()
	if inspectBefore != "" {
		rr.InspectCanaryChecked = true
		if rr.InspectCanary != inspectBefore {
			rr.CanaryDiffs = append(rr.CanaryDiffs, "inspect.reference-flow")
			rr.InspectCanaryWas = inspectBefore
		}
	}
	sort.Strings(rr.CanaryDiffs)
	var all []opStamp
	for g := 0; g < n; g++ {
		if panics[g] != "" {
			rr.Panics = append(rr.Panics, panics[g])
		}
		if d := digest(transcripts[g]); d != soloDigests[g] {
			// find the first differing op output for the witness
			bindSlot(0, uint64(seed)^uint64(g+1)*0x9E3779B97F4A7C15, false)
			sh2, _ := c09Shared(scen)
			soloTr, _, _ := runScript(sh2, &scripts[g], g)
			first, what := -1, ""
			for i := 0; i < len(soloTr) && i < len(transcripts[g]); i++ {
				if soloTr[i] != transcripts[g][i] {
					first = i
					tag, _, _ := strings.Cut(soloTr[i], ":")
					what = tag + stripIndices(firstJSONDiff(strings.SplitN(soloTr[i], ":", 2)[1], strings.SplitN(transcripts[g][i], ":", 2)[1]))
					break
				}
			}
			if first < 0 {
				what = "length"
			}
			rr.Mismatches = append(rr.Mismatches, map[string]any{"goroutine": g, "first_diff_item": first, "what": what, "ops": scripts[g].ops})
		}
		for _, s := range stamps[g] {
			rr.Ops[s.op]++
		}
		all = append(all, stamps[g]...)
	}
	sort.Slice(all, func(i, j int) bool { return all[i].at < all[j].at })
	var order []string
	firstTouch := map[int]opStamp{}
	for _, s := range all {
		order = append(order, fmt.Sprint(s.g))
		if ft, ok := firstTouch[s.flow]; !ok {
			firstTouch[s.flow] = s
		} else if s.g != ft.g && s.at < ft.end {
			rr.ColdCollide = true
		}
	}
	for i := 0; i < len(all); i++ {
		for j := i + 1; j < len(all) && all[j].at < all[i].end; j++ {
			if all[j].g != all[i].g && all[j].flow == all[i].flow {
				rr.Overlaps++
			}
		}
	}
	rr.Interleaving = digest(order)
	if len(rr.Mismatches) > 0 || len(rr.CanaryDiffs) > 0 {
		rr.Scenario = scen
		for g := range scripts {
			rr.Scripts = append(rr.Scripts, map[string]any{"flow": scripts[g].flowIdx, "ops": scripts[g].ops, "trigger": scripts[g].trigger, "resumes": scripts[g].resumes})
		}
	}
	return true
}

// stripForOldSpec removes what a 13.0 definition cannot contain so that the generated flow is valid at 13.0.
func stripForOldSpec(f gen.M) {
	nodes, _ := f["nodes"].([]any)
	for _, n := range nodes {
		nm := n.(gen.M)
		acts, _ := nm["actions"].([]any)
		var keep []any
		for _, a := range acts {
			am := a.(gen.M)
			switch am["type"] {
			case "send_msg":
				delete(am, "template")
				delete(am, "template_variables")
			case "request_optin":
				continue
			case "open_ticket":
				continue
			}
			keep = append(keep, am)
		}
		if keep == nil {
			delete(nm, "actions")
		} else {
			nm["actions"] = keep
		}
	}
	// translations of removed properties are harmless
}

// ---------------------------------------------------------------------------------------
// orchestration

func (p *c09) RunCustom(o *fw.Orchestrator) {
	race := filepath.Join(o.Root, ".build", "vcheck-race"+os.Getenv("VERIF_BIN_SUFFIX"))
	if _, err := os.Stat(race); err != nil {
		o.Inconclusive("race-detector binary missing: " + err.Error())
		return
	}
	children, rounds := 16, 5
	if o.Tier == "thorough" {
		children, rounds = 120, 6
	}
	type job struct {
		idx, maxN, procs int
		jitter           bool
	}
	var jobs []job
	for i := 0; i < children; i++ {
		jobs = append(jobs, job{idx: i, maxN: []int{16, 8, 32, 4, 16, 2}[i%6], procs: []int{16, 4, 8, 2, 1, 16}[i%6], jitter: i%2 == 0})
	}
	// one more child per process-cold directed round (thorough: one per GOMAXPROCS value and jitter setting)
	nCold := 0
	for _, dr := range c09DirectedRounds() {
		if dr.cold {
			nCold++
		}
	}
	coldReps := 1
	if o.Tier == "thorough" {
		coldReps = 6
	}
	for rep := 0; rep < coldReps; rep++ {
		for k := 0; k < nCold; k++ {
			jobs = append(jobs, job{idx: 1000 + rep*nCold + k, maxN: 8, procs: []int{8, 16, 4, 2, 1, 16}[rep%6], jitter: rep%2 == 1})
		}
	}
	par := 4 // race children are heavy and each uses several cores
	var mu sync.Mutex
	raceSigs := map[string]int{}
	raceExample := map[string]string{}
	raceReports := 0
	ops := map[string]int{}
	interleavings := map[string]bool{}
	var nRounds, nGoroutinesMax, overlapRounds, coldCollisions, discarded, panicsSeen, planted, linedUp, coldRounds, coldFlows, coldDistinct, coldReread int
	var coldDraws int64
	var directedRounds, sameKeyRounds, sameKeyRecased, sameKeyInspects, inspectCanaryChecked, outageRounds, outageFlowsDown, outageCompared int
	var outageFailed, outageFailedInSessions int64
	directedSeen := map[string]bool{}
	inspectCanaries := map[string]string{} // value -> where first seen
	panicKinds := map[string]bool{}
	procsSeen := map[int]bool{}
	sem := make(chan struct{}, par)
	var wg sync.WaitGroup
	for _, j := range jobs {
		wg.Add(1)
		sem <- struct{}{}
		go func(j job) {
			defer wg.Done()
			defer func() { <-sem }()
			out := filepath.Join(o.WorkDir, fmt.Sprintf("child%04d.json", j.idx))
			logp := filepath.Join(o.WorkDir, fmt.Sprintf("race%04d.log", j.idx))
			jit := "0"
			if j.jitter {
				jit = "1"
			}
			nr := rounds
			if j.idx >= 1000 {
				nr = 0 // a process-cold directed round only
			}
			cmd := exec.Command(race, "c09child", strconv.FormatInt(o.Seed, 10), strconv.Itoa(j.idx), strconv.Itoa(nr), strconv.Itoa(j.maxN), jit, out)
			cmd.Env = append(os.Environ(), "GORACE=halt_on_error=0 log_path="+logp, "GOMAXPROCS="+strconv.Itoa(j.procs))
			ef, _ := os.Create(filepath.Join(o.WorkDir, fmt.Sprintf("child%04d.stderr", j.idx)))
			cmd.Stderr, cmd.Stdout = ef, ef
			done := make(chan error, 1)
			cmd.Start()
			go func() { done <- cmd.Wait() }()
			var err error
			select {
			case err = <-done:
			case <-time.After(20 * time.Minute):
				cmd.Process.Kill()
				err = fmt.Errorf("timeout")
			}
			ef.Close()
			mu.Lock()
			defer mu.Unlock()
			procsSeen[j.procs] = true
			// race reports
			logs, _ := filepath.Glob(logp + ".*")
			for _, lf := range logs {
				b, _ := os.ReadFile(lf)
				for _, rep := range splitRaceReports(string(b)) {
					raceReports++
					sig := raceSignature(rep)
					raceSigs[sig]++
					if _, ok := raceExample[sig]; !ok {
						raceExample[sig] = trunc(rep, 6000)
					}
				}
			}
			b, rerr := os.ReadFile(out)
			if rerr != nil {
				o.Inconclusive(fmt.Sprintf("race child %d produced no result (%v): %s", j.idx, err, trunc(readTail(filepath.Join(o.WorkDir, fmt.Sprintf("child%04d.stderr", j.idx))), 300)))
				return
			}
			var rs []c09roundResult
			json.Unmarshal(b, &rs)
			for _, rr := range rs {
				if rr.Discarded != "" {
					discarded++
					o.Sum.Discarded++
					o.Sum.DiscardWhy[rr.Discarded]++
					continue
				}
				nRounds++
				o.Sum.Evaluations++
				if rr.N > nGoroutinesMax {
					nGoroutinesMax = rr.N
				}
				for k, v := range rr.Ops {
					ops[k] += v
				}
				interleavings[rr.Interleaving] = true
				if rr.Planted != "" {
					planted++
				}
				if rr.LinedUp {
					linedUp++
				}
				if rr.Directed != "" {
					directedRounds++
					directedSeen[rr.Directed] = true
				}
				if sk := rr.SameKey; sk != nil {
					sameKeyRounds++
					sameKeyRecased += sk.Recased
					sameKeyInspects += sk.Inspect
				}
				if rr.InspectCanaryChecked {
					inspectCanaryChecked++
				}
				if rr.InspectCanary != "" {
					if _, ok := inspectCanaries[rr.InspectCanary]; !ok {
						inspectCanaries[rr.InspectCanary] = fmt.Sprintf("child%d/round%d", j.idx, rr.Round)
					}
				}
				if og := rr.Outage; og != nil && og.Problem == "" {
					outageRounds++
					outageFlowsDown += len(og.FlowsDown)
					outageCompared += og.Compared
					outageFailed += og.FailedFetches
					outageFailedInSessions += og.FailedInSessions
					for _, m := range og.Mismatches {
						o.Violation(fmt.Sprintf("child%d/round%d", j.idx, rr.Round), j.idx*1000+rr.Round, "C09|after-outage-differs-from-solo|"+fmt.Sprint(m["what"]),
							fmt.Sprintf("goroutine %v, started over the shared assets after the asset source had recovered from an outage during which other sessions made the first use of flows %v, produced a different transcript than alone over the healthy source: first difference %v", m["goroutine"], og.FlowsDown, m["what"]),
							map[string]any{"mismatch": m, "after_outage": og, "directed": rr.Directed, "scenario": rr.Scenario})
					}
				}
				if rr.ColdCollide {
					coldCollisions++
				}
				if rr.Overlaps > 0 {
					overlapRounds++
					o.Sum.NonTrivial++
					o.AddFingerprint(rr.Fingerprint)
					if len(o.Sum.Samples) < 3 {
						o.Sum.Samples = append(o.Sum.Samples, map[string]any{"child": j.idx, "round": rr.Round, "goroutines": rr.N, "gomaxprocs": j.procs, "ops": rr.Ops, "overlapping_pairs_on_same_flow": rr.Overlaps, "cold_collision": rr.ColdCollide})
					}
				}
				for _, m := range rr.Mismatches {
					o.Violation(fmt.Sprintf("child%d/round%d", j.idx, rr.Round), j.idx*1000+rr.Round, "C09|concurrent-differs-from-solo|"+fmt.Sprint(m["what"]),
						fmt.Sprintf("goroutine %v produced a different transcript concurrently than alone: first difference %v", m["goroutine"], m["what"]),
						map[string]any{"mismatch": m, "scenario": rr.Scenario, "scripts": rr.Scripts, "goroutines": rr.N, "gomaxprocs": j.procs})
				}
				if cl := rr.ColdLoad; cl != nil {
					coldRounds++
					coldFlows += cl.Flows
					coldDraws += cl.DrawsTogether
					if cl.DistinctObject {
						coldDistinct++
					}
					if cl.AskedTogether != cl.AskedSolo {
						coldReread++
					}
					if cl.DrawsTogether != cl.DrawsSolo {
						o.Violation(fmt.Sprintf("child%d/round%d", j.idx, rr.Round), j.idx*1000+rr.Round, "C09|cold-load|uuid-draws-differ",
							fmt.Sprintf("%d goroutines asking for %d lazily migrated flows at once drew %d values from the shared UUID source; one goroutine draws %d (the source was read %d vs %d times): every later session sees other UUIDs than it sees when run alone", cl.Goroutines, cl.Flows, cl.DrawsTogether, cl.DrawsSolo, cl.AskedTogether, cl.AskedSolo),
							map[string]any{"cold_load": cl})
					}
				}
				for _, cd := range rr.CanaryDiffs {
					o.Violation(fmt.Sprintf("child%d/round%d", j.idx, rr.Round), j.idx*1000+rr.Round, "global-overwrite|"+cd,
						"a process global / shared asset changed during a concurrent round: "+cd, map[string]any{"scenario": rr.Scenario, "scripts": rr.Scripts})
				}
				// a panic that also happens alone is not a concurrency defect (it is in both transcripts); a panic that happens
				// only concurrently shows up as a transcript mismatch. Panics are counted for the evidence.
				panicsSeen += len(rr.Panics)
				for _, pn := range rr.Panics {
					panicKinds[fw.InnermostFrame(pn)+"|"+fw.PanicKind(pn)] = true
				}
			}
		}(j)
	}
	wg.Wait()
	if len(inspectCanaries) > 1 {
		o.Violation("inspect-canary", 0, "global-overwrite|inspect.reference-flow",
			"inspecting the same reference flow over fresh assets gave different results in different processes / rounds: it depends on what the process did before",
			map[string]any{"distinct_results": inspectCanaries})
	}
	var sigs []string
	for s, n := range raceSigs {
		sigs = append(sigs, s)
		o.Violation("race", 0, "race|"+s, fmt.Sprintf("the race detector reported a data race (%d reports with this signature)", n), map[string]any{"report": raceExample[s]})
	}
	sort.Strings(sigs)
	for k, v := range ops {
		o.Sum.Counters["ops."+k] = int64(v)
	}
	o.Sum.Counters["rounds"] = int64(nRounds)
	o.Sum.Counters["rounds_with_planted_bare_json_webhook"] = int64(planted)
	o.Sum.Counters["rounds_lined_up_after_first_operation"] = int64(linedUp)
	o.Sum.Counters["clause.cold_load_rounds"] = int64(coldRounds)
	o.Sum.Counters["cold_load.flows_loaded_concurrently"] = int64(coldFlows)
	o.Sum.Counters["cold_load.uuid_draws"] = coldDraws
	o.Sum.Counters["cold_load.rounds_with_distinct_flow_objects(observation)"] = int64(coldDistinct)
	o.Sum.Counters["cold_load.rounds_with_repeated_source_reads(observation)"] = int64(coldReread)
	o.Sum.Counters["rounds_directed"] = int64(directedRounds)
	o.Sum.Counters["rounds_with_planted_same_key_results"] = int64(sameKeyRounds)
	o.Sum.Counters["same_key.respelled_categories"] = int64(sameKeyRecased)
	o.Sum.Counters["same_key.inspect_ops_added"] = int64(sameKeyInspects)
	o.Sum.Counters["clause.inspect_canary_before_after_rounds"] = int64(inspectCanaryChecked)
	o.Sum.Counters["clause.after_outage_rounds"] = int64(outageRounds)
	o.Sum.Counters["after_outage.flows_away"] = int64(outageFlowsDown)
	o.Sum.Counters["after_outage.failed_fetches"] = outageFailed
	o.Sum.Counters["after_outage.failed_fetches_inside_sessions"] = outageFailedInSessions
	o.Sum.Counters["after_outage.sessions_compared"] = int64(outageCompared)
	o.Extra["inspect_canary_distinct_results"] = len(inspectCanaries)
	var dn []string
	for k := range directedSeen {
		dn = append(dn, k)
	}
	sort.Strings(dn)
	o.Extra["directed_rounds"] = dn
	o.Sum.Counters["rounds_with_overlap_on_shared_flow"] = int64(overlapRounds)
	o.Sum.Counters["cold_first_access_collisions"] = int64(coldCollisions)
	o.Sum.Counters["race_reports"] = int64(raceReports)
	o.Sum.Counters["race_child_processes"] = int64(len(jobs))
	var procs []int
	for p := range procsSeen {
		procs = append(procs, p)
	}
	sort.Ints(procs)
	o.Extra["goroutines_max"] = nGoroutinesMax
	o.Extra["gomaxprocs"] = procs
	o.Extra["interleavings_distinct"] = len(interleavings)
	o.Extra["race_signatures"] = sigs
	o.Sum.Counters["panics_in_scripts_also_alone"] = int64(panicsSeen)
	var pk []string
	for k := range panicKinds {
		pk = append(pk, k)
	}
	sort.Strings(pk)
	o.Extra["panic_kinds_in_scripts"] = pk
	if overlapRounds == 0 {
		o.Inconclusive("no round had two goroutines overlapping on a shared flow")
	}
	if coldCollisions == 0 {
		o.Inconclusive("no cold first-access collision was observed")
	}
	// floors of the directed rounds and the clauses they guarantee
	if len(directedSeen) < len(c09DirectedRounds()) {
		o.Inconclusive("not every directed round was run")
	}
	if inspectCanaryChecked == 0 {
		o.Inconclusive("the inspection canary was never compared before/after a round")
	}
	if outageFailedInSessions == 0 || outageCompared == 0 {
		o.Inconclusive("the after-outage clause never had a first use that failed inside a session, or compared no session")
	}
}

func readTail(path string) string {
	b, _ := os.ReadFile(path)
	if len(b) > 2000 {
		b = b[len(b)-2000:]
	}
	return string(b)
}

func splitRaceReports(log string) []string {
	var out []string
	parts := strings.Split(log, "WARNING: DATA RACE")
	for _, p := range parts[1:] {
		if i := strings.Index(p, "=================="); i >= 0 {
			p = p[:i]
		}
		out = append(out, p)
	}
	return out
}

// raceSignature: unordered pair of, per access, (package+receiver of the innermost goflow frame, first goflow frame
// outside that package) — line numbers and method names of the innermost frame are not part of it.
func raceSignature(rep string) string {
	var frames []string
	blocks := bytes.Split([]byte(rep), []byte("\n\n"))
	for _, b := range blocks {
		s := string(b)
		t := strings.TrimSpace(s)
		if !(strings.HasPrefix(t, "Read at") || strings.HasPrefix(t, "Write at") || strings.HasPrefix(t, "Previous read") || strings.HasPrefix(t, "Previous write") || strings.HasPrefix(t, "Atomic") || strings.HasPrefix(t, "Previous atomic")) {
			continue
		}
		inner, outer := "?", ""
		innerPkg := ""
		for _, l := range strings.Split(s, "\n") {
			l = strings.TrimSpace(l)
			if !strings.HasPrefix(l, "github.com/nyaruka/goflow/") {
				continue
			}
			fr := strings.TrimPrefix(l, "github.com/nyaruka/goflow/")
			if i := strings.LastIndex(fr, "("); i > 0 && strings.HasSuffix(fr, ")") {
				fr = fr[:i]
			}
			pkg := fr
			if i := strings.Index(fr, "."); i > 0 {
				pkg = fr[:i]
			}
			if inner == "?" {
				innerPkg = pkg
				inner = fr
				// drop the method name, keep package + receiver
				if i := strings.LastIndex(fr, ")."); i > 0 {
					inner = fr[:i+1]
				}
				continue
			}
			if pkg != innerPkg {
				outer = fr
				break
			}
		}
		frames = append(frames, inner+" via "+outer)
	}
	sort.Strings(frames)
	return strings.Join(frames, " <-> ")
}
