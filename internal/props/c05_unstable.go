package props

import (
	"fmt"
	"strings"

	"verif/internal/fw"
	"verif/internal/gen"
)

// Length-unstable text: code points whose NUMBER changes under a transformation that text-handling code commonly applies
// (Unicode normalisation to NFC / NFD / NFKC, case mapping). The length limits of C05 are stated on what is stored and
// reported, so a value that is cut first and transformed afterwards (or transformed in between) can pass the limit only
// with such code points; ASCII, CJK, emoji and ordinary accented text keep their length and cannot show it.
//
// The pools are plain data (the oracle never normalises anything: it counts the code points of what the engine hands
// back); each entry is one code point.
var c05UnstablePools = []struct {
	kind  string
	chars []string
}{
	// grows under NFC *and* NFD: composition exclusions and singletons. Precomposed nukta letters of Devanagari (U+0958-095F),
	// Bengali, Gurmukhi, Oriya; Tibetan; Hebrew presentation forms (U+FB2C gives three); U+0344; U+2ADC; musical symbols.
	{"nfc", []string{"\u0958", "\u0959", "\u095a", "\u095b", "\u095c", "\u095d", "\u095e", "\u095f", "\u09dc", "\u09dd", "\u09df",
		"\u0a33", "\u0a36", "\u0a59", "\u0a5a", "\u0a5b", "\u0a5e", "\u0b5c", "\u0b5d", "\u0f43", "\u0f4d", "\u0f73", "\u0f75", "\u0f81",
		"\ufb1d", "\ufb1f", "\ufb2a", "\ufb2b", "\ufb2c", "\ufb2d", "\ufb2e", "\ufb31", "\ufb4b", "\ufb4e", "\u0344", "\u2adc",
		"\U0001d15e", "\U0001d15f", "\U0001d160"}},
	// grows under NFD only: precomposed Latin / Vietnamese / Greek letters, Hangul syllables (two or three jamo), kana
	{"nfd", []string{"\u00e9", "\u00f1", "\u00c5", "\u01d6", "\u1ec7", "\u1e69", "\u0390", "\uac01", "\ud55c", "\uae00", "\u30ac", "\u3071"}},
	// grows under the compatibility forms: ligatures, fractions, squared abbreviations, U+FDFA (eighteen code points)
	{"nfkc", []string{"\ufb01", "\ufb03", "\u00bd", "\u2026", "\u2167", "\u3392", "\u337f", "\u3231", "\u01c6", "\ufdfa", "\u2474"}},
	// grows under upper- / lower- / title-casing
	{"case", []string{"\u00df", "\u0149", "\u01f0", "\u0390", "\ufb01", "\ufb17", "\u1e96", "\u1fb3", "\u0130", "\u1f80"}},
}

// ordinary letters of the scripts above, for name-like texts (they keep their length under every transformation)
var c05StableLetters = []string{"\u0915", "\u093e", "\u0924", "\u093f", "\u092e", "\u0941", "\u0930", "\u05d0", "\u05d1", "\u05dc", "a", "e", "n", "o", "r", "\u03b1", "\u03bd", "\u540d"}

var c05UnstableSet = func() map[rune]string {
	m := map[rune]string{}
	for _, p := range c05UnstablePools {
		for _, c := range p.chars {
			for _, rn := range c {
				if _, ok := m[rn]; !ok {
					m[rn] = p.kind
				}
			}
		}
	}
	return m
}()

// c05UnstableKind reports the pool kind of the first length-unstable code point of s ("" if there is none).
func c05UnstableKind(s string) string {
	for _, rn := range s {
		if rn < 0x80 {
			continue
		}
		if k, ok := c05UnstableSet[rn]; ok {
			return k
		}
	}
	return ""
}

// c05UnstableText returns a text of exactly n code points (n >= 1) of one of four shapes:
//
//	solid   one length-unstable code point repeated
//	mixed   code points of one pool in random order
//	name    words of 2-7 letters: ordinary letters of the same scripts with unstable ones among them, single spaces
//	tail    ASCII letters, then unstable code points from position `at` on (so that they sit just before a cut at `at+k`)
//
// No leading / trailing white space (the field modifier trims), no '@' (the text is also used as a literal template).
func c05UnstableText(r *fw.Rand, n int, at int) (string, string) {
	pool := c05UnstablePools[r.Weighted([]int{5, 2, 2, 2})]
	var out []string
	switch r.Intn(4) {
	case 0:
		c := fw.Pick(r, pool.chars)
		for i := 0; i < n; i++ {
			out = append(out, c)
		}
	case 1:
		for i := 0; i < n; i++ {
			out = append(out, fw.Pick(r, pool.chars))
		}
	case 2:
		word := 0
		for i := 0; i < n; i++ {
			if word >= 2 && i < n-1 && r.Chance(0.25) {
				out = append(out, " ")
				word = 0
				continue
			}
			if r.Chance(0.45) {
				out = append(out, fw.Pick(r, pool.chars))
			} else {
				out = append(out, fw.Pick(r, c05StableLetters))
			}
			word++
		}
		// at least one unstable code point, early enough to survive any cut
		out[0] = fw.Pick(r, pool.chars)
	default:
		if at < 0 {
			at = 0
		}
		if at > n-1 {
			at = n - 1
		}
		for i := 0; i < n; i++ {
			if i < at {
				out = append(out, string(rune('a'+i%26)))
			} else {
				out = append(out, fw.Pick(r, pool.chars))
			}
		}
	}
	return strings.Join(out, ""), pool.kind
}

// c05LenAround draws a length at, just under, just over or far over the limit.
func c05LenAround(r *fw.Rand, limit int) int {
	n := limit + fw.Pick(r, []int{-3, -2, -1, 0, 0, 0, 1, 1, 2, 3, 7, limit, 2*limit + 1})
	if r.Chance(0.05) {
		n = 3000
	}
	if n < 1 {
		n = 1
	}
	return n
}

// c05UnstableScen is the generated family for length-unstable text: one flow in which such texts reach every length-limited
// sink (contact name, text field, run result, message text, quick reply) by every route the flow language offers (a literal
// of the action, the incoming message, a trigger parameter, the contact's present name or field, an earlier result, and
// these passed through a case function), at lengths around the engine's limits, with limits that are defaults or small.
func c05UnstableScen(r *fw.Rand) *gen.Scenario {
	d := dsl
	fieldLimit, resultLimit, tplLimit := 640, 640, 10000
	opts := gen.Options{}
	if r.Chance(0.65) {
		fieldLimit = fw.Pick(r, []int{1, 2, 3, 5, 10, 25, 64, 640})
		resultLimit = fw.Pick(r, []int{1, 2, 3, 5, 10, 25, 64, 640})
		tplLimit = fw.Pick(r, []int{3, 4, 10, 100, 10000, 10000})
		opts = gen.Options{Set: true, MaxSteps: 100, MaxResumes: 500, MaxTemplateChars: tplLimit, MaxFieldChars: fieldLimit, MaxResultChars: resultLimit}
	}
	limitOf := func(sink string) int {
		switch sink {
		case "result":
			return resultLimit
		case "msg":
			return tplLimit
		case "qr":
			return 64
		}
		return fieldLimit
	}
	text := func(sink string) string {
		l := limitOf(sink)
		n := c05LenAround(r, l)
		t, _ := c05UnstableText(r, n, l-r.Range(1, 3))
		return t
	}

	withWait := r.Chance(0.7)
	msgTrigger := r.Chance(0.3)
	sources := []string{"literal", "literal", "@contact.name", "@fields.nick"}
	if withWait || msgTrigger {
		sources = append(sources, "@input.text", "@input.text", "@input.text")
	}
	if !msgTrigger {
		sources = append(sources, "@trigger.params.v", "@trigger.params.v")
	}
	value := func(sink string, later bool) string {
		src := fw.Pick(r, sources)
		if later && r.Chance(0.5) {
			src = fw.Pick(r, []string{"@contact.name", "@fields.nick", "@results.big.value", "@results.big.input", "@contact.first_name"})
		}
		if src == "literal" {
			return text(sink)
		}
		if r.Chance(0.2) {
			fn := fw.Pick(r, []string{"upper", "lower", "title", "clean", "trim"})
			return "@(" + fn + "(" + src[1:] + "))"
		}
		if r.Chance(0.1) {
			return "x " + src + " " + src
		}
		return src
	}
	actions := func(prefix string, later bool) []any {
		var acts []any
		k := r.Range(2, 5)
		for i := 0; i < k; i++ {
			an := fmt.Sprintf("%s:%d", prefix, i)
			switch r.Weighted([]int{5, 3, 3, 2, 1}) {
			case 0:
				acts = append(acts, d.Action(an, "set_contact_name", gen.M{"name": value("name", later)}))
			case 1:
				f := fw.Pick(r, []gen.M{{"key": "nick", "name": "Nick Name"}, {"key": "gender", "name": "Gender"}, {"key": "age", "name": "Age"}})
				acts = append(acts, d.Action(an, "set_contact_field", gen.M{"field": f, "value": value("field", later)}))
			case 2:
				a := gen.M{"name": "Big", "value": value("result", later)}
				if r.Chance(0.5) {
					a["category"] = "Cat" // (a category is validated at load time, not cut)
				}
				acts = append(acts, d.Action(an, "set_run_result", a))
			case 3:
				acts = append(acts, d.SendMsg(an, value("msg", later)))
			default:
				acts = append(acts, d.Action(an, "send_msg", gen.M{"text": "pick " + value("msg", later), "quick_replies": []string{value("qr", later), "ok", text("qr")}}))
			}
		}
		return acts
	}

	var nodes []gen.M
	var resumes []gen.M
	if withWait {
		nodes = append(nodes, d.WaitNode("w", "act", nil))
		resumes = append(resumes, d.MsgResume(0, text(fw.Pick(r, []string{"name", "name", "result", "msg"}))))
	}
	second := r.Chance(0.5)
	if second {
		nodes = append(nodes, d.Node("act", actions("act", false), nil, d.Exit("actx", "w2")))
		nodes = append(nodes, d.WaitNode("w2", "act2", nil))
		nodes = append(nodes, d.Node("act2", actions("act2", true), nil, d.Exit("act2x", "")))
		resumes = append(resumes, d.MsgResume(1, text(fw.Pick(r, []string{"name", "field", "result"}))))
	} else {
		nodes = append(nodes, d.Node("act", actions("act", false), nil, d.Exit("actx", "")))
	}

	contact := d.Contact()
	if r.Chance(0.4) {
		contact["name"] = text("name") // a stored name is not bound by the limit; only what the engine sets is
	}
	if r.Chance(0.3) {
		contact["fields"] = gen.M{"nick": gen.M{"text": text("field")}, "age": gen.M{"text": "23", "number": 23}}
	}
	var trigger gen.M
	if msgTrigger {
		trigger = d.MsgTrigger("A", contact, text("name"))
	} else {
		trigger = d.Manual("A", contact)
		trigger["params"] = gen.M{"v": text(fw.Pick(r, []string{"name", "name", "field", "result"}))}
	}
	return &gen.Scenario{
		Assets:  d.BaseAssets(d.Flow("A", "messaging", nodes...)),
		Trigger: trigger, Resumes: resumes, Options: opts,
		Notes: []string{"length-unstable-text"},
	}
}

// c05PlantUnstable replaces the text of some incoming messages of a generated scenario by length-unstable text, so that the
// class also meets whatever the general generator built (names / fields / results set from the input inside loops, sub-flows,
// translations, webhooks). Lengths are drawn around the limits the scenario's engine will have.
func c05PlantUnstable(r *fw.Rand, s *gen.Scenario) {
	fieldLimit, resultLimit := 640, 640
	if s.Options.Set {
		fieldLimit, resultLimit = s.Options.MaxFieldChars, s.Options.MaxResultChars
	}
	planted := false
	plant := func(msg any) {
		m, ok := msg.(gen.M)
		if !ok || !r.Chance(0.5) {
			return
		}
		l := fieldLimit
		if r.Chance(0.3) {
			l = resultLimit
		}
		if l < 1 {
			l = 1
		}
		t, _ := c05UnstableText(r, c05LenAround(r, l), l-r.Range(1, 3))
		m["text"] = t
		planted = true
	}
	if s.Trigger != nil && s.Trigger["type"] == "msg" {
		plant(s.Trigger["msg"])
	}
	for _, rs := range s.Resumes {
		if rs["type"] == "msg" {
			plant(rs["msg"])
		}
	}
	if planted {
		s.Notes = append(s.Notes, "length-unstable-text")
	}
}

// c05UnstableDirected: every kind of length-unstable code point, as a name / field / result / message / quick reply of
// limit-1, limit and limit+k code points, set from a literal, from the incoming message and from a trigger parameter.
func c05UnstableDirected() []namedScen {
	d := dsl
	var out []namedScen
	for _, pool := range c05UnstablePools {
		c0, c1 := pool.chars[0], pool.chars[len(pool.chars)/2]
		for _, limit := range []int{7, 640} {
			o := gen.Options{}
			if limit != 640 {
				o = gen.Options{Set: true, MaxSteps: 100, MaxResumes: 500, MaxTemplateChars: 10000, MaxFieldChars: limit, MaxResultChars: limit}
			}
			// the incoming message: exactly limit+2 code points, ASCII up to limit-2, unstable from there on
			in := gen.LongString(limit-2, 1<<30) + strings.Repeat(c0, 2) + strings.Repeat(c1, 2)
			// the literal: solid, limit+1 code points
			lit := strings.Repeat(c1, limit+1)
			// the parameter: name-like, shorter than the limit by one
			words := strings.Repeat(c0+"\u093e"+c1+" ", limit)
			param := string([]rune(words)[:limit-1])
			trigger := d.Manual("A", nil)
			trigger["params"] = gen.M{"v": param}
			out = append(out, namedScen{fmt.Sprintf("length-unstable-%s-limit-%d", pool.kind, limit), &gen.Scenario{
				Assets: d.BaseAssets(d.Flow("A", "messaging",
					d.Node("a0", []any{
						d.Action("n0", "set_contact_name", gen.M{"name": lit}),
						d.Action("f0", "set_contact_field", gen.M{"field": gen.M{"key": "nick", "name": "Nick Name"}, "value": lit}),
						d.Action("r0", "set_run_result", gen.M{"name": "Big", "value": lit}),
						d.Action("n1", "set_contact_name", gen.M{"name": "@trigger.params.v"}),
						d.Action("f1", "set_contact_field", gen.M{"field": gen.M{"key": "gender", "name": "Gender"}, "value": "@trigger.params.v"}),
					}, nil, d.Exit("a0x", "a1")),
					d.WaitNode("a1", "a2", nil),
					d.Node("a2", []any{
						d.Action("n2", "set_contact_name", gen.M{"name": "@input.text"}),
						d.Action("f2", "set_contact_field", gen.M{"field": gen.M{"key": "nick", "name": "Nick Name"}, "value": "@input.text"}),
						d.Action("r2", "set_run_result", gen.M{"name": "Big", "value": "@input.text"}),
						d.Action("m2", "send_msg", gen.M{"text": "@input.text", "quick_replies": []string{strings.Repeat(c0, 65), "@contact.name"}}),
						d.Action("n3", "set_contact_name", gen.M{"name": "@(upper(input.text))"}),
					}, nil, d.Exit("a2x", "")))),
				Trigger: trigger, Resumes: []gen.M{d.MsgResume(0, in)}, Options: o,
			}})
		}
	}
	return out
}
