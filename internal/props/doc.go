// Package props holds one file per property (C01 … C20); each registers itself with fw.
package props
