package props

import (
	"fmt"
	"sort"

	"verif/internal/gen"
)

var dsl = gen.D{}

type namedScen struct {
	name string
	scen *gen.Scenario
}

func sp(s string) *string { return &s }

// engineDirected is the directed corpus shared by C01 / C05 / C10 (DESIGN.md appendix C).
func engineDirected() []namedScen {
	d := dsl
	var out []namedScen
	add := func(name string, s *gen.Scenario) { out = append(out, namedScen{name, s}) }
	M := func(kv ...any) gen.M {
		m := gen.M{}
		for i := 0; i+1 < len(kv); i += 2 {
			m[kv[i].(string)] = kv[i+1]
		}
		return m
	}
	_ = M
	opts := func(steps int) gen.Options {
		return gen.Options{Set: true, MaxSteps: steps, MaxResumes: 500, MaxTemplateChars: 10000, MaxFieldChars: 640, MaxResultChars: 640}
	}

	// node self-loop
	add("self-loop", &gen.Scenario{
		Assets:  d.BaseAssets(d.Flow("A", "messaging", d.Node("a1", []any{d.SendMsg("a1m", "loop")}, nil, d.Exit("a1x", "a1")))),
		Trigger: d.Manual("A", nil),
	})
	// router whose default returns to itself (no wait)
	all := d.Cat("All", "r1x")
	add("router-default-self", &gen.Scenario{
		Assets:  d.BaseAssets(d.Flow("A", "messaging", d.Node("r1", nil, d.Switch("@contact.name", []gen.M{all}, all, nil, nil, "Loop"), d.Exit("r1x", "r1")))),
		Trigger: d.Manual("A", nil),
	})
	// A enters B enters A (non terminal and terminal)
	for _, term := range []bool{false, true} {
		name := "a-b-a"
		if term {
			name = "a-b-a-terminal"
		}
		add(name, &gen.Scenario{
			Assets: d.BaseAssets(
				d.Flow("A", "messaging", d.Node("a1", []any{d.SendMsg("a1m", "in A"), d.Enter("a1e", "B", term)}, nil, d.Exit("a1x", ""))),
				d.Flow("B", "messaging", d.Node("b1", []any{d.SendMsg("b1m", "in B"), d.Enter("b1e", "A", term)}, nil, d.Exit("b1x", ""))),
			),
			Trigger: d.Manual("A", nil),
		})
	}
	// terminal enter inside a sub-flow followed by expiration / msg / timeout
	for _, res := range []struct {
		n string
		r []gen.M
	}{{"expire", []gen.M{d.Expiration(0)}}, {"msg", []gen.M{d.MsgResume(0, "hi"), d.MsgResume(1, "again")}}, {"timeout", []gen.M{d.Timeout(0), d.MsgResume(1, "x")}}, {"dial-rejected", []gen.M{d.Dial(0, "answered"), d.MsgResume(1, "x")}}} {
		add("terminal-in-subflow-then-"+res.n, &gen.Scenario{
			Assets: d.BaseAssets(
				d.Flow("A", "messaging", d.Node("a1", []any{d.Enter("a1e", "B", false)}, nil, d.Exit("a1x", "a2")), d.Node("a2", []any{d.SendMsg("a2m", "back in A")}, nil, d.Exit("a2x", ""))),
				d.Flow("B", "messaging", d.Node("b1", []any{d.Enter("b1e", "C", true)}, nil, d.Exit("b1x", "b2")), d.Node("b2", []any{d.SendMsg("b2m", "back in B")}, nil, d.Exit("b2x", ""))),
				d.Flow("C", "messaging", d.WaitNode("c1", "c2", sp("c2")), d.Node("c2", []any{d.SendMsg("c2m", "C done @input.text")}, nil, d.Exit("c2x", ""))),
			),
			Trigger: d.Manual("A", nil), Resumes: res.r,
		})
	}
	// sub-flow waits, parent paused, then continues in parent which waits again
	add("subflow-wait-parent-wait", &gen.Scenario{
		Assets: d.BaseAssets(
			d.Flow("A", "messaging", d.Node("a1", []any{d.Enter("a1e", "B", false)}, nil, d.Exit("a1x", "a2")), d.WaitNode("a2", "a3", nil), d.Node("a3", []any{d.SendMsg("a3m", "bye @child.results")}, nil, d.Exit("a3x", ""))),
			d.Flow("B", "messaging", d.WaitNode("b1", "b2", nil), d.Node("b2", []any{d.Action("b2r", "set_run_result", gen.M{"name": "Color", "value": "@input.text", "category": "Red"})}, nil, d.Exit("b2x", ""))),
		),
		Trigger: d.Manual("A", nil), Resumes: []gen.M{d.MsgResume(0, "red"), d.MsgResume(1, "ok"), d.MsgResume(2, "extra")},
	})
	// empty flow as root and as child
	add("empty-root", &gen.Scenario{Assets: d.BaseAssets(d.Flow("A", "messaging")), Trigger: d.Manual("A", nil)})
	add("empty-child", &gen.Scenario{
		Assets: d.BaseAssets(
			d.Flow("A", "messaging", d.Node("a1", []any{d.Enter("a1e", "E", false)}, nil, d.Exit("a1x", "a2")), d.Node("a2", []any{d.SendMsg("a2m", "after empty")}, nil, d.Exit("a2x", ""))),
			d.Flow("E", "messaging"),
		),
		Trigger: d.Manual("A", nil),
	})
	// child failing under two ancestors (missing flow; type mismatch)
	add("child-fails-missing-flow", &gen.Scenario{
		Assets: d.BaseAssets(
			d.Flow("A", "messaging", d.Node("a1", []any{d.Enter("a1e", "B", false)}, nil, d.Exit("a1x", "a2")), d.Node("a2", []any{d.SendMsg("a2m", "unreachable?")}, nil, d.Exit("a2x", ""))),
			d.Flow("B", "messaging", d.Node("b1", []any{d.Enter("b1e", "Gone", false)}, nil, d.Exit("b1x", ""))),
		),
		Trigger: d.Manual("A", nil),
	})
	add("child-fails-type-mismatch", &gen.Scenario{
		Assets: d.BaseAssets(
			d.Flow("A", "messaging", d.Node("a1", []any{d.Enter("a1e", "B", false)}, nil, d.Exit("a1x", ""))),
			d.Flow("B", "messaging", d.Node("b1", []any{d.Enter("b1e", "V", false)}, nil, d.Exit("b1x", ""))),
			d.Flow("V", "voice", d.Node("v1", nil, nil, d.Exit("v1x", ""))),
		),
		Trigger: d.Manual("A", nil),
	})
	// child fails after a wait (router picks no category) → bubbles to the parent on resume
	cat := d.Cat("Yes", "b1yes")
	add("child-fails-after-wait", &gen.Scenario{
		Assets: d.BaseAssets(
			d.Flow("A", "messaging", d.Node("a1", []any{d.Enter("a1e", "B", false)}, nil, d.Exit("a1x", "a2")), d.Node("a2", []any{d.SendMsg("a2m", "x")}, nil, d.Exit("a2x", ""))),
			d.Flow("B", "messaging", d.Node("b1", nil, d.Switch("@input.text", []gen.M{cat}, nil, []gen.M{{"type": "has_any_word", "arguments": []string{"yes"}, "category_uuid": cat["uuid"]}}, gen.M{"type": "msg"}, "Q1"), d.Exit("b1yes", ""))),
		),
		Trigger: d.Manual("A", nil), Resumes: []gen.M{d.MsgResume(0, "no match here")},
	})
	// step limit exactly on entering a child and exactly on returning to the parent
	for k := 0; k <= 7; k++ {
		add(fmt.Sprintf("step-limit-%d", k), &gen.Scenario{
			Assets: d.BaseAssets(
				d.Flow("A", "messaging",
					d.Node("a1", []any{d.SendMsg("a1m", "1")}, nil, d.Exit("a1x", "a2")),
					d.Node("a2", []any{d.Enter("a2e", "B", false)}, nil, d.Exit("a2x", "a3")),
					d.Node("a3", []any{d.SendMsg("a3m", "3")}, nil, d.Exit("a3x", "a4")),
					d.Node("a4", []any{d.SendMsg("a4m", "4")}, nil, d.Exit("a4x", ""))),
				d.Flow("B", "messaging", d.Node("b1", []any{d.SendMsg("b1m", "b1")}, nil, d.Exit("b1x", "b2")), d.Node("b2", []any{d.SendMsg("b2m", "b2")}, nil, d.Exit("b2x", ""))),
			),
			Trigger: d.Manual("A", nil), Options: opts(k),
		})
	}
	// same, with a wait in between so the limit also trips on a resume sprint
	for k := 1; k <= 4; k++ {
		add(fmt.Sprintf("step-limit-resume-%d", k), &gen.Scenario{
			Assets: d.BaseAssets(
				d.Flow("A", "messaging",
					d.Node("a1", []any{d.Enter("a1e", "B", false)}, nil, d.Exit("a1x", "a2")),
					d.Node("a2", []any{d.SendMsg("a2m", "2")}, nil, d.Exit("a2x", "a3")),
					d.Node("a3", []any{d.SendMsg("a3m", "3")}, nil, d.Exit("a3x", ""))),
				d.Flow("B", "messaging", d.WaitNode("b1", "b2", nil), d.Node("b2", []any{d.SendMsg("b2m", "b2")}, nil, d.Exit("b2x", ""))),
			),
			Trigger: d.Manual("A", nil), Resumes: []gen.M{d.MsgResume(0, "go")}, Options: opts(k),
		})
	}
	// wait on the first node with a msg trigger (skipped wait)
	add("wait-first-node-msg-trigger", &gen.Scenario{
		Assets:  d.BaseAssets(d.Flow("A", "messaging", d.WaitNode("a1", "a2", nil), d.WaitNode("a2", "", nil))),
		Trigger: d.MsgTrigger("A", nil, "hello"), Resumes: []gen.M{d.MsgResume(0, "second"), d.MsgResume(1, "third")},
	})
	// two enter_flow actions in one node
	add("two-enters-one-node", &gen.Scenario{
		Assets: d.BaseAssets(
			d.Flow("A", "messaging", d.Node("a1", []any{d.Enter("a1e1", "B", false), d.Enter("a1e2", "C", false), d.SendMsg("a1m", "after")}, nil, d.Exit("a1x", ""))),
			d.Flow("B", "messaging", d.Node("b1", []any{d.SendMsg("b1m", "B")}, nil, d.Exit("b1x", ""))),
			d.Flow("C", "messaging", d.Node("c1", []any{d.SendMsg("c1m", "C")}, nil, d.Exit("c1x", ""))),
		),
		Trigger: d.Manual("A", nil),
	})
	// a node that enters a flow and then fails on a second (missing) enter_flow, at the top and under ancestors
	add("enter-then-missing-enter-one-node", &gen.Scenario{
		Assets: d.BaseAssets(
			d.Flow("A", "messaging", d.Node("a1", []any{d.Enter("a1e1", "B", false), d.Enter("a1e2", "Gone", false)}, nil, d.Exit("a1x", "a2")), d.Node("a2", []any{d.SendMsg("a2m", "after")}, nil, d.Exit("a2x", ""))),
			d.Flow("B", "messaging", d.Node("b1", []any{d.SendMsg("b1m", "B")}, nil, d.Exit("b1x", ""))),
		),
		Trigger: d.Manual("A", nil),
	})
	add("enter-then-missing-enter-under-grandparent", &gen.Scenario{
		Assets: d.BaseAssets(
			d.Flow("G", "messaging", d.Node("g1", []any{d.Enter("g1e", "A", false)}, nil, d.Exit("g1x", "g2")), d.Node("g2", []any{d.SendMsg("g2m", "back in G")}, nil, d.Exit("g2x", ""))),
			d.Flow("A", "messaging", d.Node("a1", []any{d.Enter("a1e1", "B", false), d.Enter("a1e2", "Gone", false)}, nil, d.Exit("a1x", "a2")), d.Node("a2", []any{d.SendMsg("a2m", "after")}, nil, d.Exit("a2x", ""))),
			d.Flow("B", "messaging", d.WaitNode("b1", "b2", nil), d.Node("b2", []any{d.SendMsg("b2m", "B done")}, nil, d.Exit("b2x", ""))),
		),
		Trigger: d.Manual("G", nil), Resumes: []gen.M{d.MsgResume(0, "hi"), d.MsgResume(1, "again")},
	})
	add("enter-then-type-mismatch-enter-under-grandparent", &gen.Scenario{
		Assets: d.BaseAssets(
			d.Flow("G", "messaging", d.Node("g1", []any{d.Enter("g1e", "A", false)}, nil, d.Exit("g1x", ""))),
			d.Flow("A", "messaging", d.Node("a1", []any{d.Enter("a1e1", "B", false), d.Enter("a1e2", "V", false), d.SendMsg("a1m", "x")}, nil, d.Exit("a1x", ""))),
			d.Flow("B", "messaging", d.Node("b1", []any{d.SendMsg("b1m", "B")}, nil, d.Exit("b1x", ""))),
			d.Flow("V", "voice", d.Node("v1", nil, nil, d.Exit("v1x", ""))),
		),
		Trigger: d.Manual("G", nil),
	})
	// resume limits
	for _, mr := range []int{0, 1, 2} {
		o := opts(100)
		o.MaxResumes = mr
		add(fmt.Sprintf("max-resumes-%d", mr), &gen.Scenario{
			Assets:  d.BaseAssets(d.Flow("A", "messaging", d.WaitNode("a1", "a1", nil))),
			Trigger: d.Manual("A", nil), Resumes: []gen.M{d.MsgResume(0, "1"), d.MsgResume(1, "2"), d.MsgResume(2, "3"), d.MsgResume(3, "4")}, Options: o,
		})
	}
	// voice flow with dial wait
	dc := d.Cat("Answered", "v1ans")
	dn := d.Cat("Other", "v1other")
	add("voice-dial", &gen.Scenario{
		Assets: d.BaseAssets(d.Flow("V", "voice",
			d.Node("v1", []any{d.Action("v1s", "say_msg", gen.M{"text": "dialing"})}, d.Switch("@(default(resume.dial.status, \"\"))", []gen.M{dc, dn}, dn, []gen.M{{"type": "has_only_text", "arguments": []string{"answered"}, "category_uuid": dc["uuid"]}}, gen.M{"type": "dial", "phone": "+12065551212"}, "Dial"), d.Exit("v1ans", "v2"), d.Exit("v1other", "")),
			d.Node("v2", []any{d.Action("v2s", "say_msg", gen.M{"text": "answered"})}, nil, d.Exit("v2x", "")))),
		Trigger: func() gen.M {
			t := d.Manual("V", nil)
			t["call"] = gen.M{"uuid": gen.NamedUUID("call"), "channel": gen.M{"uuid": gen.NamedUUID("chan:android"), "name": "Android"}, "urn": "tel:+12065551212"}
			return t
		}(),
		Resumes: []gen.M{d.MsgResume(0, "rejected"), d.Dial(1, "answered")},
	})
	// dial waits that are skipped (nothing valid to dial) and lead straight to another wait, without an action in between
	for _, ph := range []struct{ n, phone string }{{"blank", "@fields.nick"}, {"invalid", "bogus"}, {"error", "@(1/0)"}} {
		ac := d.Cat("Any", "dv1any")
		t := d.Manual("V", nil)
		t["call"] = gen.M{"uuid": gen.NamedUUID("call"), "channel": gen.M{"uuid": gen.NamedUUID("chan:android"), "name": "Android"}, "urn": "tel:+12065551212"}
		add("voice-dial-skipped-"+ph.n+"-then-wait", &gen.Scenario{
			Assets: d.BaseAssets(d.Flow("V", "voice",
				d.Node("dv1", nil, d.Switch("@(default(resume.dial.status, \"none\"))", []gen.M{ac}, ac, nil, gen.M{"type": "dial", "phone": ph.phone}, "Dial"), d.Exit("dv1any", "dv2")),
				d.WaitNode("dv2", "dv3", sp("dv3")),
				d.Node("dv3", []any{d.Action("dv3s", "say_msg", gen.M{"text": "bye"})}, nil, d.Exit("dv3x", "")))),
			Trigger: t, Resumes: []gen.M{d.MsgResume(0, "hello"), d.MsgResume(1, "again")},
		})
	}
	sort.SliceStable(out, func(i, j int) bool { return false })
	// definitions a loader has to refuse (or, if it takes them, execute without leaving the well-formed states): one per way
	// in which the parts of a node can disagree
	{
		yes, oth := d.Cat("Yes", "r1yes"), d.Cat("Other", "r1oth")
		mk := func(mut func(f gen.M)) *gen.Scenario {
			f := d.Flow("A", "messaging",
				d.Node("r1", nil, d.Switch("@input.text", []gen.M{yes, oth}, oth, []gen.M{{"type": "has_any_word", "arguments": []string{"yes"}, "category_uuid": yes["uuid"]}}, gen.M{"type": "msg"}, "R"), d.Exit("r1yes", "a2"), d.Exit("r1oth", "a3")),
				d.Node("a2", []any{d.SendMsg("m2", "two")}, nil, d.Exit("a2x", "r1")),
				d.Node("a3", []any{d.SendMsg("m3", "three")}, nil, d.Exit("a3x", "")))
			mut(f)
			return &gen.Scenario{Assets: d.BaseAssets(f), Trigger: d.Manual("A", nil), Resumes: []gen.M{d.MsgResume(0, "yes"), d.MsgResume(1, "no"), d.Timeout(2), d.MsgResume(3, "yes")}}
		}
		node := func(f gen.M, i int) gen.M { return f["nodes"].([]any)[i].(gen.M) }
		cats := func(f gen.M) []any { return node(f, 0)["router"].(gen.M)["categories"].([]any) }
		add("invalid-category-exit-of-another-node", mk(func(f gen.M) { cats(f)[0].(gen.M)["exit_uuid"] = gen.NamedUUID("exit:a2x") }))
		add("invalid-category-exit-unknown", mk(func(f gen.M) { cats(f)[1].(gen.M)["exit_uuid"] = gen.NamedUUID("exit:nowhere") }))
		add("invalid-exit-destination-unknown", mk(func(f gen.M) {
			node(f, 0)["exits"].([]any)[0].(gen.M)["destination_uuid"] = gen.NamedUUID("node:nowhere")
		}))
		add("invalid-default-category-unknown", mk(func(f gen.M) { node(f, 0)["router"].(gen.M)["default_category_uuid"] = gen.NamedUUID("cat:nowhere") }))
		add("invalid-timeout-category-unknown", mk(func(f gen.M) {
			node(f, 0)["router"].(gen.M)["wait"] = gen.M{"type": "msg", "timeout": gen.M{"seconds": 60, "category_uuid": gen.NamedUUID("cat:nowhere")}}
		}))
		add("invalid-case-category-unknown", mk(func(f gen.M) {
			node(f, 0)["router"].(gen.M)["cases"].([]any)[0].(gen.M)["category_uuid"] = gen.NamedUUID("cat:nowhere")
		}))
		add("invalid-duplicate-node-uuid", mk(func(f gen.M) { node(f, 2)["uuid"] = node(f, 1)["uuid"] }))
		add("invalid-duplicate-exit-uuid", mk(func(f gen.M) { node(f, 2)["exits"].([]any)[0].(gen.M)["uuid"] = gen.NamedUUID("exit:a2x") }))
	}
	// one action evaluates the same template several times in a row, and the template logs something every time (a warning for a
	// deprecated value, an error): every one of these events is both in the run and in the sprint
	add("repeated-logging-template-in-one-action", &gen.Scenario{
		Assets: d.BaseAssets(d.Flow("A", "messaging", d.Node("a1", []any{
			d.Action("r", "set_run_result", gen.M{"name": "Q1", "value": "yes", "category": "Yes"}),
			d.Action("m", "send_msg", gen.M{"text": "@(results.q1.categories[0])", "quick_replies": []string{"@(results.q1.categories[0])", "@(results.q1.categories[0])", "@(1 / 0)", "@(1 / 0)"}, "attachments": []string{"image/jpeg:http://x.io/@(results.q1.values[0]).jpg", "image/jpeg:http://x.io/@(results.q1.values[0]).jpg"}}),
			d.SendMsg("m2", "@(results.q1.categories[0]) @(results.q1.categories[0])"),
		}, nil, d.Exit("a1x", "a2")), d.WaitNode("a2", "a1", nil))),
		Trigger: d.Manual("A", nil), Resumes: []gen.M{d.MsgResume(0, "x")},
	})
	// a trigger of every type that carries a session-chain history, a wait, and a session start after it
	for _, tt := range []string{"manual", "msg"} {
		t := d.Manual("A", nil)
		if tt == "msg" {
			t = d.MsgTrigger("A", nil, "hi")
		}
		for _, since := range []int{1, 5} {
			t2 := gen.M{}
			for k, v := range t {
				t2[k] = v
			}
			t2["history"] = gen.M{"parent_uuid": gen.NamedUUID("session:parent"), "ancestors": since + 1, "ancestors_since_input": since}
			add(fmt.Sprintf("trigger-history-%s-%d-start-session-after-wait", tt, since), &gen.Scenario{
				Assets: d.BaseAssets(d.Flow("A", "messaging", d.WaitNode("a1", "a2", sp("a2")),
					d.Node("a2", []any{d.Action("ss", "start_session", gen.M{"flow": gen.M{"uuid": gen.NamedUUID("flow:A"), "name": "A"}, "contacts": []gen.M{{"uuid": gen.NamedUUID("contact:eve"), "name": "Eve"}}, "exclusions": gen.M{}})}, nil, d.Exit("a2x", "a1")))),
				Trigger: t2, Resumes: []gen.M{d.Timeout(0), d.MsgResume(1, "x")},
			})
		}
	}
	return out
}

func directedNames(ds []namedScen) []string {
	out := make([]string, len(ds))
	for i, d := range ds {
		out[i] = d.name
	}
	return out
}

func findDirected(ds []namedScen, name string) *gen.Scenario {
	for _, d := range ds {
		if d.name == name {
			return d.scen
		}
	}
	return nil
}
