package props

import (
	"fmt"
	"strconv"
	"strings"

	"verif/internal/fw"
	"verif/internal/gen"
)

// Variants of a generated history (added after the fourth round of seeded changes). They change what the host sends
// and does between waits, not the flows:
//
//   - nouuid:   messages without a uuid (the field is optional), so that nothing read back may be "completed";
//   - nul:      message texts holding U+0000 (valid UTF-8, survives JSON only as an escape);
//   - rejected: before a resume the host first tries one that the wait may refuse (a timeout at a wait without
//     timeout, a dial resume at a message wait), carrying a refreshed contact or environment. A host that keeps the
//     session object alive goes on with that object; a host that restarts has only the JSON it stored after the last
//     successful call - so at such a call the restarting branch is restored from that JSON (RestoreFrom), which is the
//     same thing on a tree where a refused resume leaves the session untouched.
func c02Variant(scen *gen.Scenario, r *fw.Rand, res *fw.Result) {
	if len(scen.Resumes) == 0 {
		return
	}
	if r.Chance(0.25) {
		n := 0
		for _, m := range scen.Resumes {
			if msg, ok := m["msg"].(gen.M); ok && r.Chance(0.6) {
				delete(msg, "uuid")
				n++
			}
		}
		if msg, ok := scen.Trigger["msg"].(gen.M); ok && r.Chance(0.5) {
			delete(msg, "uuid")
			n++
		}
		if n > 0 {
			scen.Notes = append(scen.Notes, "variant:msg-without-uuid")
			res.Count("variant.msg_without_uuid", 1)
		}
	}
	if r.Chance(0.10) {
		n := 0
		for _, m := range scen.Resumes {
			if msg, ok := m["msg"].(gen.M); ok && r.Chance(0.5) {
				t := []rune(fmt.Sprint(msg["text"]))
				k := r.Intn(len(t) + 1)
				msg["text"] = string(t[:k]) + "\x00" + string(t[k:])
				n++
			}
		}
		if n > 0 {
			scen.Notes = append(scen.Notes, "variant:nul-in-text")
			res.Count("variant.nul_in_text", 1)
		}
	}
	if r.Chance(0.25) {
		var out []gen.M
		n := 0
		for _, m := range scen.Resumes {
			if r.Chance(0.4) {
				out = append(out, c02RefusedResume(r, m))
				scen.Notes = append(scen.Notes, "probe-refused:"+strconv.Itoa(len(out)-1))
				n++
			}
			out = append(out, m)
		}
		if n > 0 {
			scen.Resumes = out
			res.Count("variant.refused_resume_before_resume", 1)
		}
	}
}

// c02RefusedResume builds a resume of a type the current wait is likely to refuse, timed like the resume it precedes and
// carrying a refresh of the session's own contact or another environment.
func c02RefusedResume(r *fw.Rand, next gen.M) gen.M {
	m := gen.M{"resumed_on": next["resumed_on"]}
	if r.Chance(0.6) {
		m["type"] = "wait_timeout"
	} else {
		m["type"] = "dial"
		m["dial"] = gen.M{"status": fw.Pick(r, []string{"answered", "no_answer", "busy", "failed"}), "duration": 3}
	}
	switch r.Intn(4) {
	case 0:
		m["environment"] = gen.M{"date_format": "MM-DD-YYYY", "time_format": "tt:mm", "timezone": "Asia/Kolkata", "allowed_languages": []string{"fra", "eng"}, "default_country": "IN", "redaction_policy": "none", "number_format": gen.M{"decimal_symbol": ",", "digit_grouping_symbol": "."}}
	case 1:
	default:
		m["contact"] = gen.M{"__session_contact__": fw.Pick(r, []string{"name", "language", "field-text", "timezone", "urn-reorder", "ticket-close"})}
	}
	return m
}

func c02RefusedProbes(scen *gen.Scenario) map[int]bool {
	out := map[int]bool{}
	for _, n := range scen.Notes {
		if strings.HasPrefix(n, "probe-refused:") {
			if i, err := strconv.Atoi(strings.TrimPrefix(n, "probe-refused:")); err == nil {
				out[i] = true
			}
		}
	}
	return out
}

func (p *c02) directedVariant(name string) *gen.Scenario {
	d := dsl
	act := d.Action
	echo := "@input.text|@(json(input))|@results|@contact.name|@contact.language|@(format_date(\"2020-02-03\"))|@(1/4)"
	loop := func() gen.M {
		return d.Flow("A", "messaging",
			d.Node("a0", []any{d.SendMsg("m0", "hi @contact.name")}, nil, d.Exit("a0x", "a1")),
			d.WaitNode("a1", "a2", nil),
			d.Node("a2", []any{act("r", "set_run_result", gen.M{"name": "Said", "value": "@input.text"}), d.SendMsg("m", echo)}, nil, d.Exit("a2x", "a1")))
	}
	refresh := func(m gen.M, op string) gen.M { m["contact"] = gen.M{"__session_contact__": op}; return m }
	switch name {
	case "msg-without-uuid":
		rs := []gen.M{d.MsgResume(0, "one"), d.MsgResume(1, "two"), d.MsgResume(2, "three")}
		for _, m := range rs {
			delete(m["msg"].(gen.M), "uuid")
		}
		t := d.MsgTrigger("A", nil, "start")
		delete(t["msg"].(gen.M), "uuid")
		return &gen.Scenario{Assets: d.BaseAssets(loop()), Trigger: t, Resumes: rs}
	case "nul-in-text-kept-as-result":
		return &gen.Scenario{Assets: d.BaseAssets(loop()), Trigger: d.Manual("A", nil), Resumes: []gen.M{d.MsgResume(0, "re\x00d"), d.MsgResume(1, "\x00"), d.MsgResume(2, "blue\x00")}}
	case "refused-resume-with-contact-refresh":
		rs := []gen.M{refresh(d.Timeout(0), "name"), refresh(d.MsgResume(0, "one"), "name"), refresh(d.Dial(1, "busy"), "language"), d.MsgResume(1, "two"), refresh(d.Timeout(2), "field-text"), refresh(d.MsgResume(2, "three"), "identical")}
		s := &gen.Scenario{Assets: d.BaseAssets(loop()), Trigger: d.Manual("A", nil), Resumes: rs}
		s.Notes = []string{"probe-refused:0", "probe-refused:2", "probe-refused:4"}
		return s
	case "refused-resume-with-environment":
		env := gen.M{"date_format": "MM-DD-YYYY", "time_format": "tt:mm", "timezone": "Asia/Kolkata", "allowed_languages": []string{"fra", "eng"}, "default_country": "IN", "redaction_policy": "none", "number_format": gen.M{"decimal_symbol": ",", "digit_grouping_symbol": "."}}
		t0 := d.Timeout(0)
		t0["environment"] = env
		m0 := d.MsgResume(0, "one")
		m0["environment"] = env
		s := &gen.Scenario{Assets: d.BaseAssets(loop()), Trigger: d.Manual("A", nil), Resumes: []gen.M{t0, m0, d.Dial(1, "answered"), d.MsgResume(1, "two")}}
		s.Notes = []string{"probe-refused:0", "probe-refused:2"}
		return s
	}
	return nil
}
