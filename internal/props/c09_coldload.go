package props

import (
	"encoding/json"
	"fmt"
	"sync"
	"sync/atomic"

	"github.com/nyaruka/gocommon/uuids"
	"github.com/nyaruka/goflow/assets"
	"github.com/nyaruka/goflow/assets/static"
	"github.com/nyaruka/goflow/envs"
	"github.com/nyaruka/goflow/flows"
	"github.com/nyaruka/goflow/flows/definition/migrations"
	"github.com/nyaruka/goflow/flows/engine"

	"verif/internal/fw"
)

// The cold-load clause of C09: "flows that are loaded and migrated lazily on first use" must load the same way whether
// one goroutine asks for them or many do at once. Loading is not pure — migrating a legacy definition draws from the
// process-wide UUID source — so what a concurrent round of first uses takes from that source must be what a solo round
// takes; otherwise every session that comes afterwards sees other UUIDs than it sees when run alone. The session rounds
// cannot observe this (they give every goroutine its own UUID stream so that transcripts are comparable with solo runs);
// this clause uses ONE shared counting source, as a host process has, and compares counts, which do not depend on the
// interleaving.

// countingUUIDs is a process-wide UUID source that counts what is drawn from it.
type countingUUIDs struct{ n *int64 }

func (c countingUUIDs) next(v byte) uuids.UUID {
	k := atomic.AddInt64(c.n, 1)
	return uuids.UUID(fmt.Sprintf("c09c09c0-0000-%c000-8000-%012x", v, k))
}
func (c countingUUIDs) NextV4() uuids.UUID { return c.next('4') }
func (c countingUUIDs) NextV7() uuids.UUID { return c.next('7') }

// coldSource serves legacy flow definitions and counts how often each is asked for.
type coldSource struct {
	*static.StaticSource
	defs  map[assets.FlowUUID]assets.Flow
	asked sync.Map // uuid or "name:"+name → *int64
}

func (s *coldSource) count(key string) {
	v, _ := s.asked.LoadOrStore(key, new(int64))
	atomic.AddInt64(v.(*int64), 1)
}

func (s *coldSource) FlowByUUID(u assets.FlowUUID) (assets.Flow, error) {
	s.count(string(u))
	if f, ok := s.defs[u]; ok {
		return f, nil
	}
	return nil, fmt.Errorf("no such flow with UUID '%s'", u)
}

func (s *coldSource) FlowByName(name string) (assets.Flow, error) {
	s.count("name:" + name)
	for _, f := range s.defs {
		if f.Name() == name {
			return f, nil
		}
	}
	return nil, fmt.Errorf("no such flow with name '%s'", name)
}

type coldLoadResult struct {
	Flows          int      `json:"flows"`
	Goroutines     int      `json:"goroutines"`
	DrawsSolo      int64    `json:"uuid_draws_solo"`
	DrawsTogether  int64    `json:"uuid_draws_concurrent"`
	AskedSolo      int64    `json:"source_reads_solo"`
	AskedTogether  int64    `json:"source_reads_concurrent"`
	DistinctObject bool     `json:"distinct_flow_objects_for_one_uuid"`
	Unloadable     int      `json:"unloadable"`
	Problems       []string `json:"problems,omitempty"`
}

// coldLoad runs the clause once: k legacy definitions, n goroutines asking for all of them in rotated orders.
func coldLoad(r *fw.Rand, seed int64, n int) *coldLoadResult {
	defs := legacyDefs(seed + int64(r.Intn(1000)))
	if len(defs) == 0 {
		return nil
	}
	type named struct {
		u    assets.FlowUUID
		name string
	}
	var order []named
	skip := map[assets.FlowUUID]bool{} // definitions that do not load: a failed load is not cached, so it is repeated by design
	mk := func() *coldSource {
		base, err := static.NewSource([]byte(`{}`))
		if err != nil {
			return nil
		}
		cs := &coldSource{StaticSource: base, defs: map[assets.FlowUUID]assets.Flow{}}
		order = order[:0]
		for i, d := range defs {
			var m struct {
				Metadata struct {
					UUID string `json:"uuid"`
					Name string `json:"name"`
				} `json:"metadata"`
			}
			json.Unmarshal(d, &m)
			u := assets.FlowUUID(m.Metadata.UUID)
			if u == "" {
				u = assets.FlowUUID(fmt.Sprintf("c09c09c0-aaaa-4000-8000-%012x", i))
			}
			name := m.Metadata.Name
			if name == "" {
				name = fmt.Sprint("Cold ", i)
			}
			if _, dup := cs.defs[u]; dup || skip[u] {
				continue
			}
			cs.defs[u] = static.NewFlow(u, name, d)
			order = append(order, named{u, name})
		}
		return cs
	}
	total := func(cs *coldSource) (t int64) {
		cs.asked.Range(func(_, v any) bool { t += atomic.LoadInt64(v.(*int64)); return true })
		return
	}
	res := &coldLoadResult{Goroutines: n}

	run := func(goroutines int) (draws, asked int64, distinct bool, unloadable int) {
		cs := mk()
		if cs == nil {
			return
		}
		res.Flows = len(order)
		sa, err := engine.NewSessionAssets(envs.NewBuilder().Build(), cs, migrations.DefaultConfig)
		if err != nil {
			res.Problems = append(res.Problems, "assets: "+err.Error())
			return
		}
		var counter int64
		uuids.SetGenerator(countingUUIDs{&counter})
		got := make([][]flows.Flow, goroutines)
		var ready, done sync.WaitGroup
		start := make(chan struct{})
		ready.Add(goroutines)
		done.Add(goroutines)
		ord := append([]named{}, order...)
		for g := 0; g < goroutines; g++ {
			go func(g int) {
				defer done.Done()
				mine := make([]flows.Flow, len(ord))
				ready.Done()
				<-start
				for k := range ord {
					i := (k + g) % len(ord) // every goroutine starts at another flow
					var f flows.Flow
					if (g+k)%3 == 2 {
						f, _ = sa.Flows().FindByName(ord[i].name)
					} else {
						f, _ = sa.Flows().Get(ord[i].u)
					}
					mine[i] = f
				}
				got[g] = mine
			}(g)
		}
		ready.Wait()
		close(start)
		done.Wait()
		draws, asked = atomic.LoadInt64(&counter), total(cs)
		for i := range ord {
			if got[0][i] == nil {
				unloadable++
			}
			for g := 1; g < goroutines; g++ {
				if got[g][i] != got[0][i] {
					distinct = true
				}
			}
		}
		return
	}
	// which definitions load at all
	{
		cs := mk()
		if cs == nil {
			return nil
		}
		var counter int64
		uuids.SetGenerator(countingUUIDs{&counter})
		if sa, err := engine.NewSessionAssets(envs.NewBuilder().Build(), cs, migrations.DefaultConfig); err == nil {
			for _, o := range append([]named{}, order...) {
				// usable: loads, and the definition carries the identity it is filed under (the cache is keyed by the
				// definition's own UUID and searched by its own name)
				if f, err := sa.Flows().Get(o.u); err != nil || f == nil || f.UUID() != o.u || f.Name() != o.name {
					skip[o.u] = true
					res.Unloadable++
				}
			}
		}
	}
	res.DrawsSolo, res.AskedSolo, _, _ = run(1)
	res.DrawsTogether, res.AskedTogether, res.DistinctObject, _ = run(n)
	uuids.SetGenerator(gUUIDs{})
	return res
}
