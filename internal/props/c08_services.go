package props

import (
	"bytes"
	"encoding/json"
	"io"
	"net/http"
	"strings"

	"github.com/nyaruka/gocommon/urns"
	"github.com/nyaruka/goflow/assets/static"
	"github.com/nyaruka/goflow/envs"
	"github.com/nyaruka/goflow/flows"
	"github.com/nyaruka/goflow/services/airtime/dtone"
	"github.com/nyaruka/goflow/services/classification/bothub"
	"github.com/nyaruka/goflow/services/classification/luis"
	"github.com/nyaruka/goflow/services/classification/wit"
	"github.com/shopspring/decimal"
)

// The services a host plugs into the engine are deterministic functions of what the remote side answers. The answers
// below contain what their result is built from by ranging over a map: several roles of one entity (wit), intents with
// equal scores and entities with several spellings (luis), entity labels (bothub), desired amounts in several currencies
// that all have a product (dtone). The classification / transfer they produce is one more output of every C08 case.

type cannedTransport struct{}

func (cannedTransport) RoundTrip(req *http.Request) (*http.Response, error) {
	u := req.URL.String()
	body := `{}`
	switch {
	case strings.Contains(u, "api.wit.ai"):
		body = `{"text":"fly from Kigali to Quito","intents":[{"id":"1","name":"book_flight","confidence":0.9},{"id":"2","name":"book_hotel","confidence":0.9}],
"entities":{"location:from":[{"id":"a","name":"location","role":"from","value":"Kigali","confidence":0.95}],"location:to":[{"id":"b","name":"location","role":"to","value":"Quito","confidence":0.9}],
"location:via":[{"id":"c","name":"location","role":"via","value":"Lagos","confidence":0.5}],"wit$datetime:datetime":[{"id":"d","name":"wit$datetime","role":"datetime","value":"2020-01-01","confidence":0.7}]},"traits":{}}`
	case strings.Contains(u, "luis/prediction"):
		body = `{"query":"fly","prediction":{"topIntent":"Book Flight","intents":{"Book Flight":{"score":0.5},"Book Hotel":{"score":0.5},"Book Car":{"score":0.5},"None":{"score":0.1}},
"entities":{"City":["Kigali","Quito"],"Airline":["X"],"$instance":{"City":[{"type":"City","text":"Kigali","length":6,"score":0.9},{"type":"City","text":"Quito","length":5,"score":0.8}],"Airline":[{"type":"Airline","text":"X","length":1,"score":0.7}],"Date":[{"type":"Date","text":"today","length":5,"score":0.6}]}},
"sentiment":{"label":"positive","score":0.8}}}`
	case strings.Contains(u, "bothub"):
		body = `{"intent":{"name":"book_flight","confidence":0.9},"intent_ranking":[{"name":"book_flight","confidence":0.9},{"name":"book_hotel","confidence":0.9}],"labels_list":["place","time"],
"entities_list":["Kigali","Quito"],"entities":{"place":[{"value":"kigali","entity":"city","confidence":0.9},{"value":"quito","entity":"city","confidence":0.8}],"time":[{"value":"today","entity":"day","confidence":0.7}],"other":[{"value":"x","entity":"x","confidence":0.1}]},
"text":"fly","update_id":1,"language":"en"}`
	case strings.Contains(u, "lookup/mobile-number"):
		body = `[{"id":1596,"name":"MTN Rwanda","country":{"name":"Rwanda","iso_code":"RWA","regions":null},"identified":true}]`
	case strings.Contains(u, "/products"):
		body = `[{"id":1,"name":"500 RWF","type":"FIXED_VALUE_RECHARGE","service":{"id":1,"name":"Mobile"},"operator":{"id":1596,"name":"MTN Rwanda"},"source":{"amount":0.5,"unit":"USD","unit_type":"CURRENCY"},"destination":{"amount":500,"unit":"RWF","unit_type":"CURRENCY"}},
{"id":2,"name":"1 USD","type":"FIXED_VALUE_RECHARGE","service":{"id":1,"name":"Mobile"},"operator":{"id":1596,"name":"MTN Rwanda"},"source":{"amount":1,"unit":"USD","unit_type":"CURRENCY"},"destination":{"amount":1,"unit":"USD","unit_type":"CURRENCY"}},
{"id":3,"name":"1 EUR","type":"FIXED_VALUE_RECHARGE","service":{"id":1,"name":"Mobile"},"operator":{"id":1596,"name":"MTN Rwanda"},"source":{"amount":1,"unit":"EUR","unit_type":"CURRENCY"},"destination":{"amount":1,"unit":"EUR","unit_type":"CURRENCY"}}]`
	case strings.Contains(u, "async/transactions"):
		body = `{"id":2237512891,"external_id":"x","creation_date":"2021-03-24T20:05:06.111631000Z","confirmation_expiration_date":"2021-03-24T21:05:06.111631000Z","status":{"id":20000,"message":"CONFIRMED","class":{"id":2,"message":"CONFIRMED"}}}`
	}
	return &http.Response{Status: "200 OK", StatusCode: 200, Proto: "HTTP/1.1", ProtoMajor: 1, ProtoMinor: 1, Header: http.Header{"Content-Type": []string{"application/json"}},
		Body: io.NopCloser(bytes.NewReader([]byte(body))), Request: req, ContentLength: int64(len(body))}, nil
}

func serviceOutputs(add func(label string, v any)) {
	guard := func(label string, f func() any) {
		defer func() {
			if r := recover(); r != nil {
				add(label, "panic")
			}
		}()
		add(label, f())
	}
	client := &http.Client{Transport: cannedTransport{}}
	env := envs.NewBuilder().Build()
	cl := flows.NewClassifier(static.NewClassifier("1c06c884-39dd-4ce4-ad9f-9a01cbe6c000", "Booking", "wit", []string{"book_flight", "book_hotel"}))
	noLog := func(*flows.HTTPLog) {}
	show := func(c *flows.Classification, err error) any {
		if err != nil {
			return "error: " + err.Error()
		}
		b, _ := json.Marshal(c)
		return string(b)
	}
	guard("service.wit", func() any { return show(wit.NewService(client, nil, cl, "token").Classify(env, "fly", noLog)) })
	guard("service.luis", func() any {
		return show(luis.NewService(client, nil, nil, cl, "http://luis.example.com/", "app", "key", "production").Classify(env, "fly", noLog))
	})
	guard("service.bothub", func() any { return show(bothub.NewService(client, nil, cl, "token").Classify(env, "fly", noLog)) })
	guard("service.dtone", func() any {
		svc := dtone.NewService(client, nil, "key", "secret")
		t, err := svc.Transfer(urns.URN("tel:+593979099111"), urns.URN("tel:+250788123123"), map[string]decimal.Decimal{"RWF": decimal.RequireFromString("500"), "USD": decimal.RequireFromString("1"), "EUR": decimal.RequireFromString("1")}, noLog)
		if err != nil {
			return "error: " + err.Error()
		}
		return t.Currency + " " + t.Amount.String()
	})
}
