package props

import (
	"fmt"
	"strings"

	"github.com/nyaruka/goflow/flows"

	"verif/internal/drive"
	"verif/internal/fw"
	"verif/internal/gen"
)

// C01 — session state machine is well-formed after every sprint.
// Invariant walker over the live session after every NewSession / Resume that returned without error;
// sessions are kept alive or re-read from JSON at random waits (both reach the same walker).

type c01 struct{ scenBase }

func init() {
	fw.Register(&c01{scenBase{id: "C01", quickN: 4000, thorN: 300000}})
}

func (p *c01) Rule() string {
	return "case = one generated scenario (assets+flows of any graph shape incl. cycles, self/mutually entering sub-flows, terminal enters, empty flows; contact; trigger manual/msg/flow_action/other; 0-6 resumes msg/wait_timeout/run_expiration/dial applied while waiting; session re-read from JSON at seeded waits) + directed corpus; the walker checks every clause of the statement after every engine call that returned err==nil. Non-trivial = the scenario reached a wait or created >= 2 runs; distinct = SHA of (assets, trigger, resumes, options)."
}

func (p *c01) Directed() []string { return directedNames(engineDirected()) }

func (p *c01) Floors(tier string) []string {
	return []string{"clause.status_final", "clause.waiting_shape", "clause.path_walk_steps", "clause.exited_on", "clause.event_step", "clause.event_order",
		"seen.terminal_enter", "seen.child_expired", "seen.child_failed_bubbled", "seen.step_limit", "seen.restarts"}
}

func (p *c01) scenario(c fw.Case) (*gen.Scenario, *fw.Rand) {
	r := fw.NewRand(c.Seed, "C01", c.Index)
	if c.Directed != "" {
		return findDirected(engineDirected(), c.Directed), r
	}
	o := gen.ScenOpts{LoopHeavy: r.Chance(0.6), SmallOptions: r.Chance(0.25), MaxNodes: r.Range(2, 8), ContactChanges: r.Chance(0.2), InvalidP: 0.03}
	if r.Chance(0.04) {
		return gen.LoopScen(r), r
	}
	return gen.Scen(r, o), r
}

func (p *c01) Run(c fw.Case) fw.Result {
	res := fw.Result{}
	scen, r := p.scenario(c)
	res.Fingerprint = scen.Fingerprint()
	rn, err := drive.Load(scen, c.Seed)
	if err != nil {
		res.Discarded = "unloadable: " + errClass(err.Error())
		return res
	}
	res.Seen("graph_shapes", graphShape(scen))
	restartP := 0.0
	if c.Directed == "" || true {
		restartP = []float64{0, 0.5, 1}[r.Intn(3)]
	}
	rn.RunAll(func(rec *drive.CallRecord) {
		observeCommon(&res, rec)
		if rec.Kind == "unreadable" {
			return
		}
		if rec.OK() {
			walkC01(&res, scen, rec)
		}
		if rec.OK() && rn.Waiting() && r.Chance(restartP) {
			if err := rn.Restart(); err == nil {
				res.Count("seen.restarts", 1)
			} else {
				res.Count("restart_errors", 1)
			}
		}
	})
	if len(rn.Log) > 0 && rn.Log[0].Kind == "unreadable" {
		res.Discarded = "unreadable trigger: " + errClass(rn.Log[0].Err.Error())
		return res
	}
	if rn.Session != nil {
		waits := res.Counters["event.msg_wait"] + res.Counters["event.dial_wait"]
		res.NonTrivial = waits > 0 || len(rn.Session.Runs()) >= 2
	}
	if res.NonTrivial {
		res.Sample = scenSample(scen, rn)
	}
	return res
}

func isAncestor(anc, run flows.Run) bool {
	for p := run.ParentInSession(); p != nil; p = p.ParentInSession() {
		if p == anc {
			return true
		}
	}
	return false
}

func walkC01(res *fw.Result, scen *gen.Scenario, rec *drive.CallRecord) {
	s := rec.Session
	entry := rec.Kind
	if rec.Kind == "resume" {
		entry += ":" + rec.ResumeType
	}
	viol := func(clause, detail, what string) {
		res.Violate("C01|"+clause+"|"+detail, what, witnessOf(scen, map[string]any{"call_index": rec.Index, "entry": entry, "clause": clause, "session": string(rec.SessionAfter)}))
	}

	// -- clause: final status
	res.Count("clause.status_final", 1)
	st := s.Status()
	if st != flows.SessionStatusWaiting && st != flows.SessionStatusCompleted && st != flows.SessionStatusFailed {
		viol("status-not-final", string(st), fmt.Sprintf("engine call returned without error but session status is %q", st))
	}

	// -- clause: waiting shape
	var waiting []flows.Run
	var active []flows.Run
	for _, r := range s.Runs() {
		switch r.Status() {
		case flows.RunStatusWaiting:
			waiting = append(waiting, r)
		case flows.RunStatusActive:
			active = append(active, r)
		}
	}
	if st == flows.SessionStatusWaiting {
		res.Count("clause.waiting_shape", 1)
		if len(waiting) != 1 {
			viol("waiting-run-count", fmt.Sprint(len(waiting)), fmt.Sprintf("session is waiting but %d runs are waiting", len(waiting)))
		} else {
			w := waiting[0]
			if w.Flow() != nil {
				path := w.Path()
				if len(path) == 0 {
					viol("waiting-run-no-step", "", "waiting run has an empty path")
				} else {
					node := w.Flow().GetNode(path[len(path)-1].NodeUUID())
					if node == nil || node.Router() == nil || node.Router().Wait() == nil {
						viol("waiting-node-without-wait", "", "waiting run sits on a node whose router has no wait")
					}
				}
			}
			for _, a := range active {
				if !isAncestor(a, w) {
					viol("active-run-not-ancestor", "", "a still-active run is not an ancestor of the waiting run")
				}
			}
			if len(active) > 0 {
				res.Count("clause.waiting_with_paused_ancestors", 1)
			}
		}
	} else {
		res.Count("clause.not_waiting_no_live_runs", 1)
		if len(waiting)+len(active) > 0 {
			viol("live-run-in-ended-session", string(st), fmt.Sprintf("session is %s but %d runs are active and %d waiting", st, len(active), len(waiting)))
		}
	}

	// -- clause: path is a walk; exited_on
	for _, r := range s.Runs() {
		res.Count("clause.exited_on", 1)
		ended := r.Status() != flows.RunStatusActive && r.Status() != flows.RunStatusWaiting
		if ended != (r.ExitedOn() != nil) {
			viol("exited-on-mismatch", string(r.Status()), fmt.Sprintf("run status %s but exited_on set=%v", r.Status(), r.ExitedOn() != nil))
		}
		if r.Status() == flows.RunStatusExpired {
			res.Count("seen.child_expired", 1)
		}
		if r.Flow() == nil {
			res.Count("path_check_skipped_missing_flow", 1)
			continue
		}
		path := r.Path()
		for i, step := range path {
			res.Count("clause.path_walk_steps", 1)
			node := r.Flow().GetNode(step.NodeUUID())
			if node == nil {
				viol("path-node-unknown", "", "a step names a node that is not in the run's flow")
				continue
			}
			if step.ExitUUID() == "" {
				if i != len(path)-1 {
					viol("path-nonfinal-step-without-exit", "", "a non-final step has no exit")
				}
				continue
			}
			var exit flows.Exit
			for _, e := range node.Exits() {
				if e.UUID() == step.ExitUUID() {
					exit = e
				}
			}
			if exit == nil {
				viol("path-exit-not-of-node", "", "a step's exit does not belong to the step's node")
				continue
			}
			if i < len(path)-1 && exit.DestinationUUID() != path[i+1].NodeUUID() {
				viol("path-exit-wrong-destination", "", "a step's exit does not lead to the next step's node")
			}
		}
	}

	// -- clause: events of this sprint name a step of their run and keep sprint order
	sprintIdx := map[flows.Event]int{}
	for i, e := range rec.Sprint.Events() {
		sprintIdx[e] = i
	}
	for _, r := range s.Runs() {
		before := 0
		if snap, ok := rec.RunsBefore[r.UUID()]; ok {
			before = snap.EventsLen
		}
		evs := r.Events()
		if before > len(evs) {
			before = len(evs)
		}
		steps := map[flows.StepUUID]bool{}
		for _, st := range r.Path() {
			steps[st.UUID()] = true
		}
		last := -1
		for _, e := range evs[before:] {
			if e.StepUUID() != "" {
				res.Count("clause.event_step", 1)
				if !steps[e.StepUUID()] {
					detail := e.Type()
					if e.Type() == "failure" || e.Type() == "error" {
						detail += ":" + errClass(eventText(e))
					}
					owner := "no run"
					if or, _ := s.FindStep(e.StepUUID()); or != nil {
						owner = "another run of the session"
					}
					viol("event-step-not-in-run", detail, fmt.Sprintf("a %s event recorded by a run names a step of %s", e.Type(), owner))
				}
			} else {
				res.Count("events_without_step", 1)
			}
			res.Count("clause.event_order", 1)
			idx, ok := sprintIdx[e]
			if !ok {
				viol("event-not-in-sprint", e.Type(), "an event recorded by a run during the sprint is not in the sprint's event list")
				continue
			}
			if idx <= last {
				viol("event-order", e.Type(), "a run's events are not in the same relative order as in the sprint's event list")
			}
			last = idx
		}
	}

	// coverage markers
	for _, e := range rec.Sprint.Events() {
		if e.Type() == "failure" {
			t := eventText(e)
			if strings.Contains(t, "maximum number of steps") {
				res.Count("seen.step_limit", 1)
			}
			if strings.Contains(t, "child run for flow") {
				res.Count("seen.child_failed_bubbled", 1)
			}
		}
	}
	for _, f := range scen.Flows() {
		for _, n := range f["nodes"].([]any) {
			if acts, ok := n.(gen.M)["actions"].([]any); ok {
				for _, a := range acts {
					if a.(gen.M)["type"] == "enter_flow" && a.(gen.M)["terminal"] == true {
						for _, e := range rec.Sprint.Events() {
							if e.Type() == "flow_entered" {
								res.Count("seen.terminal_enter", 1)
								return
							}
						}
					}
				}
			}
		}
	}
}

// eventText returns the text of error/failure events.
func eventText(e flows.Event) string {
	type texter interface{ TextOf() string }
	b := marshalJSON(e)
	var m struct {
		Text string `json:"text"`
	}
	jsonUnmarshal(b, &m)
	return m.Text
}
