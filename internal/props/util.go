package props

import "encoding/json"

func marshalJSON(v any) []byte {
	b, _ := json.Marshal(v)
	return b
}

func jsonUnmarshal(b []byte, v any) error { return json.Unmarshal(b, v) }
