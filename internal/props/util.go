package props

import (
	"encoding/json"
	"fmt"
	"regexp"
	"sort"
	"strings"

	"github.com/nyaruka/goflow/assets"
	"github.com/nyaruka/goflow/flows"
	"github.com/nyaruka/goflow/flows/resumes"
)

func marshalJSON(v any) []byte {
	b, _ := json.Marshal(v)
	return b
}

func jsonUnmarshal(b []byte, v any) error { return json.Unmarshal(b, v) }

// firstJSONDiff returns the path of the first difference between two JSON texts (or newline-joined lists of JSON texts).
func firstJSONDiff(a, b string) string {
	la, lb := strings.Split(a, "\n"), strings.Split(b, "\n")
	typeOf := func(doc string) string {
		var m struct {
			Type string `json:"type"`
		}
		json.Unmarshal([]byte(doc), &m)
		return m.Type
	}
	n := len(la)
	if len(lb) < n {
		n = len(lb)
	}
	for i := 0; i < n; i++ {
		if la[i] != lb[i] {
			ta, tb := typeOf(la[i]), typeOf(lb[i])
			if ta != tb {
				return fmt.Sprintf("[%d](%s vs %s)", i, ta, tb)
			}
			var va, vb any
			if json.Unmarshal([]byte(la[i]), &va) != nil || json.Unmarshal([]byte(lb[i]), &vb) != nil {
				return fmt.Sprintf("[%d]<unparseable>", i)
			}
			prefix := ""
			if len(la) > 1 {
				prefix = fmt.Sprintf("[%d]", i)
				if ta != "" {
					prefix += "(" + ta + ")"
				}
			}
			return prefix + diffPath(va, vb, "")
		}
	}
	if len(la) != len(lb) {
		extra := ""
		if len(la) > n {
			extra = typeOf(la[n]) + " vs <none>"
		} else {
			extra = "<none> vs " + typeOf(lb[n])
		}
		return fmt.Sprintf("[%d](%s)", n, extra)
	}
	return ""
}

func diffPath(a, b any, path string) string {
	switch ta := a.(type) {
	case map[string]any:
		tb, ok := b.(map[string]any)
		if !ok {
			return path + "<type>"
		}
		keys := map[string]bool{}
		for k := range ta {
			keys[k] = true
		}
		for k := range tb {
			keys[k] = true
		}
		var ks []string
		for k := range keys {
			ks = append(ks, k)
		}
		sort.Strings(ks)
		for _, k := range ks {
			va, oka := ta[k]
			vb, okb := tb[k]
			if oka != okb {
				return path + "." + k + "<presence>"
			}
			if d := diffPath(va, vb, path+"."+k); d != "" {
				return d
			}
		}
		return ""
	case []any:
		tb, ok := b.([]any)
		if !ok {
			return path + "<type>"
		}
		if len(ta) != len(tb) {
			return path + "<length>"
		}
		for i := range ta {
			if d := diffPath(ta[i], tb[i], fmt.Sprintf("%s[%d]", path, i)); d != "" {
				return d
			}
		}
		return ""
	default:
		if a != b {
			return path
		}
		return ""
	}
}

var reIdx = regexp.MustCompile(`\[\d+\]`)
var reUUID = regexp.MustCompile(`[0-9a-f]{8}-[0-9a-f]{4}-[0-9a-f]{4}-[0-9a-f]{4}-[0-9a-f]{12}`)

// stripIndices removes array indices and UUIDs from a JSON path (for signatures).
func stripIndices(p string) string {
	return reUUID.ReplaceAllString(reIdx.ReplaceAllString(p, "[]"), "<uuid>")
}

func resumesRead(sa flows.SessionAssets, data []byte) (res flows.Resume, err error) {
	defer func() {
		if r := recover(); r != nil {
			err = fmt.Errorf("panic reading resume: %v", r)
		}
	}()
	return resumes.ReadResume(sa, data, func(assets.Reference, error) {})
}

// Known nondeterminism in a dependency (gocommon dates.parseError reverse-maps the Go layout element through a Go map, and
// both "t" and "tt" map to "15"): the error text of parse_datetime / parse_time / format arguments names 't' or 'tt'
// depending on map iteration order. C08 reports it (known finding KF-C08-01); the other differential monitors (C02, C09,
// C10) normalise it away so that they judge only what their own statement is about.
var reKnownNondet = regexp.MustCompile(`(cannot parse '[^']*' as ')tt?(')`)

func normKnownNondet(s string) string {
	if !strings.Contains(s, "cannot parse '") {
		return s
	}
	return reKnownNondet.ReplaceAllString(s, "${1}t|tt${2}")
}
