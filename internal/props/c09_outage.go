package props

import (
	"errors"
	"strings"
	"sync"
	"sync/atomic"

	"github.com/nyaruka/goflow/assets"
	"github.com/nyaruka/goflow/assets/static"

	"verif/internal/gen"
)

// The after-outage clause of C09. "Any number of sessions ... against one shared set of session assets - including flows
// that are loaded and migrated lazily on first use - ... each produces the same result it produces when run alone": what a
// session gets from the shared assets must not depend on what became of *another* session's first use of a flow. History
// shape: the asset source is failing (a database that is away) while some sessions make the first use of some flows through
// the shared assets; whatever becomes of those sessions is not judged. Then the source is healthy again — for the whole
// life of the sessions that are judged: N goroutines are released from a barrier over the same shared assets, and each must
// produce, byte for byte, what it produces alone over its own assets and the healthy source. (A single goroutine running
// the two phases one after the other sees the same thing; the clause is schedule independent, like the canaries.)
//
// The source's health is one atomic flag, stored before the barrier and only loaded inside the measured region.

type flakySource struct {
	*static.StaticSource
	down     atomic.Bool
	downSet  map[assets.FlowUUID]bool // fixed before use
	downName map[string]bool
	failed   atomic.Int64
}

var errSourceAway = errors.New("error fetching flow: connection reset by peer")

func (s *flakySource) FlowByUUID(u assets.FlowUUID) (assets.Flow, error) {
	if s.downSet[u] && s.down.Load() {
		s.failed.Add(1)
		return nil, errSourceAway
	}
	return s.StaticSource.FlowByUUID(u)
}

func (s *flakySource) FlowByName(name string) (assets.Flow, error) {
	if s.downName[name] && s.down.Load() {
		s.failed.Add(1)
		return nil, errSourceAway
	}
	return s.StaticSource.FlowByName(name)
}

type outageResult struct {
	FlowsDown        []int            `json:"flows_down"`
	FailedInSessions int64            `json:"failed_fetches_inside_sessions"`
	FailedFetches    int64            `json:"failed_fetches"`
	Goroutines       int              `json:"goroutines"`
	Compared         int              `json:"sessions_compared"`
	Mismatches       []map[string]any `json:"mismatches,omitempty"`
	Problem          string           `json:"problem,omitempty"`
}

// the operations that evaluate hundreds of templates are left to the session phase of the round
func c09LightScript(sc c09script) c09script {
	var ops []string
	for _, op := range sc.ops {
		if op != "eval_shared" && op != "eval_functions" {
			ops = append(ops, op)
		}
	}
	sc.ops = ops
	return sc
}

// c09FirstDiff: index of the first differing transcript item, the kind of item (the coarse part, for the signature: "events",
// or "events->start_error" when the kinds differ) and the path of the first difference inside it (for the witness).
func c09FirstDiff(solo, got []string) (int, string, string) {
	for i := 0; i < len(solo) && i < len(got); i++ {
		if solo[i] != got[i] {
			st, sv, _ := strings.Cut(solo[i], ":")
			gt, gv, _ := strings.Cut(got[i], ":")
			if st != gt {
				return i, st + "->" + gt, ""
			}
			return i, st, stripIndices(firstJSONDiff(sv, gv))
		}
	}
	return -1, "length", ""
}

// c09AfterOutage runs the clause once over the round's scenario and scripts. down = indices of the flows whose fetches fail
// during the outage.
func c09AfterOutage(seed int64, jitter bool, scen *gen.Scenario, scripts []c09script, n int, down []int) *outageResult {
	res := &outageResult{FlowsDown: down}
	if n > 6 {
		n = 6
	}
	res.Goroutines = n
	light := make([]c09script, len(scripts))
	for g := range scripts {
		light[g] = c09LightScript(scripts[g])
	}
	slotSeed := func(g int) uint64 { return uint64(seed) ^ uint64(g+1)*0x9E3779B97F4A7C15 }

	// alone: own assets, healthy source
	soloDigests := make([]string, n)
	for g := 0; g < n; g++ {
		sh, err := c09Shared(scen)
		if err != nil {
			res.Problem = "unloadable: " + errClass(err.Error())
			return res
		}
		bindSlot(0, slotSeed(g), false)
		tr, _, _ := runScript(sh, &light[g], g)
		soloDigests[g] = digest(tr)
	}

	var src *flakySource
	fl := scen.Flows()
	sh, err := c09SharedOver(scen, func(s *static.StaticSource) assets.Source {
		src = &flakySource{StaticSource: s, downSet: map[assets.FlowUUID]bool{}, downName: map[string]bool{}}
		for _, i := range down {
			src.downSet[assets.FlowUUID(fl[i]["uuid"].(string))] = true
			if nm, ok := fl[i]["name"].(string); ok {
				src.downName[nm] = true
			}
		}
		src.down.Store(true)
		return src
	})
	if err != nil {
		res.Problem = "unloadable: " + errClass(err.Error())
		return res
	}

	// the outage: one session is started on every flow that a script uses (a flow that is away is met by the trigger or,
	// entered from another flow, in the middle of a sprint), then every flow that is away is asked for directly
	for fi := range fl {
		for g := range scripts {
			if scripts[g].flowIdx == fi {
				unlucky := scripts[g]
				unlucky.ops = []string{"start"}
				bindSlot(0, slotSeed(len(scripts)+fi), false)
				runScript(sh, &unlucky, g)
				break
			}
		}
	}
	res.FailedInSessions = src.failed.Load()
	for _, i := range down {
		func() {
			defer func() { recover() }()
			sh.sa.Flows().Get(sh.flows[i])
		}()
	}
	res.FailedFetches = src.failed.Load()
	src.down.Store(false) // ... and the source is back, before anybody that is judged starts

	transcripts := make([][]string, n)
	var ready, done sync.WaitGroup
	start := make(chan struct{})
	ready.Add(n)
	done.Add(n)
	for g := 0; g < n; g++ {
		go func(g int) {
			defer done.Done()
			bindSlot(g+1, slotSeed(g), jitter)
			ready.Done()
			<-start
			transcripts[g], _, _ = runScriptL(sh, &light[g], g, nil)
		}(g)
	}
	ready.Wait()
	close(start)
	done.Wait()

	for g := 0; g < n; g++ {
		res.Compared++
		if digest(transcripts[g]) == soloDigests[g] {
			continue
		}
		bindSlot(0, slotSeed(g), false)
		sh2, _ := c09Shared(scen)
		soloTr, _, _ := runScript(sh2, &light[g], g)
		first, what, path := c09FirstDiff(soloTr, transcripts[g])
		m := map[string]any{"goroutine": g, "first_diff_item": first, "what": what, "path": path, "ops": light[g].ops, "flow": light[g].flowIdx}
		if first >= 0 {
			m["alone"], m["after_outage"] = trunc(soloTr[first], 600), trunc(transcripts[g][first], 600)
		}
		res.Mismatches = append(res.Mismatches, m)
	}
	return res
}
