package props

import (
	"fmt"
	"strings"
	"sync"

	"github.com/nyaruka/goflow/envs"
	"github.com/nyaruka/goflow/excellent"
	"github.com/nyaruka/goflow/excellent/types"
	"verif/internal/fw"
	"verif/internal/gen"
)

// The cold function phase (every second child process, before its first round): for every registered function and
// router test, one call with ordinary and several with boundary arguments, each made by all goroutines at the same
// moment - they are released together for that one call and joined again before the next. Nothing else happens between
// the release and the call (a pure evaluator over a context of the goroutine's own: no engine, no assets, no locks), so
// the first uses of whatever a function keeps in package-level state are unordered among the goroutines and the race
// detector sees them as such however the scheduler runs them. In the session rounds such first uses are usually
// ordered by the locks the engine takes in between (the flow cache mutex), which hides them.
// Value oracle besides: the same call gives the same text in every goroutine.
func c09ColdFunctionPhase(seed int64, n int) (calls int, diffs []map[string]any) {
	if n < 2 {
		n = 2
	}
	ordinary := gen.CallsOfEveryFunction(fw.NewRand(seed, "C09coldfn", 0), 1)
	tpls := append(append([]string{}, c09BoundaryCalls(ordinary)...), ordinary...)
	env := envs.NewBuilder().Build()
	for _, tpl := range tpls {
		// the process-wide random source is the host's to make safe (ours is a plain rand.Rand, as in the session rounds,
		// whose scenarios use no randomness): its two functions are left out
		if fn, _, _ := c09SplitCall(tpl); fn == "rand" || fn == "rand_between" || strings.Contains(tpl, "rand") {
			continue
		}
		outs := make([]string, n)
		start := make(chan struct{})
		var wg sync.WaitGroup
		for g := 0; g < n; g++ {
			wg.Add(1)
			go func(g int) {
				defer wg.Done()
				defer func() {
					if rec := recover(); rec != nil {
						outs[g] = fmt.Sprint("panic: ", rec)
					}
				}()
				bindSlot(g, uint64(seed), false) // its own clock and UUID stream, equal to everybody else's
				ctx := types.NewXObject(map[string]types.XValue{"foo": types.NewXText("bar"), "n": types.NewXNumberFromInt(3)})
				ev := excellent.NewEvaluator()
				<-start
				out, _, err := ev.Template(env, ctx, tpl, nil)
				outs[g] = out + "|" + fmt.Sprint(err)
			}(g)
		}
		close(start)
		wg.Wait()
		calls += n
		for g := 1; g < n; g++ {
			if outs[g] != outs[0] {
				fn, _, _ := c09SplitCall(tpl)
				diffs = append(diffs, map[string]any{"what": "cold-function-call|" + fn, "goroutine": g, "template": tpl, "got": trunc(outs[g], 300), "goroutine_0_got": trunc(outs[0], 300)})
				break
			}
		}
	}
	return calls, diffs
}
