package props

import (
	"encoding/json"
	"strings"

	"github.com/nyaruka/goflow/assets"
	"github.com/nyaruka/goflow/assets/static"
	"github.com/nyaruka/goflow/envs"
	"github.com/nyaruka/goflow/flows/engine"

	"verif/internal/fw"
	"verif/internal/gen"
)

// Input class "several results saved under one key, spelled differently": in a share of the rounds one flow gets an action
// that saves a result (webhook, resthook, classifier, airtime transfer) under the key a router of the same flow saves to, the
// result name and the router's category names being re-spelled (letter case) — partly as the categories such an action saves.
// Inspection merges results by key and categories ignoring case, so this is where whatever the merge does to the lists it
// was handed shows. The scenario generator has same-key results (Q1 / q1) but never two spellings of one category.

type sameKeyPlant struct {
	Flow    int    `json:"flow"`
	Action  string `json:"action"`
	Name    string `json:"result_name"`
	Recased int    `json:"recased_categories"`
	Inspect int    `json:"scripts_inspecting"`
}

// the categories the result-saving actions use (flow spec); only their spellings are varied here
var c09ActionCategories = []string{"Success", "Failure", "Skipped"}

func respell(r *fw.Rand, s string) string {
	if s == "" {
		return s
	}
	for try := 0; try < 4; try++ {
		var t string
		switch r.Intn(4) {
		case 0:
			t = strings.ToLower(s)
		case 1:
			t = strings.ToUpper(s)
		case 2:
			t = strings.ToLower(s[:1]) + strings.ToUpper(s[1:])
		default:
			t = strings.ToUpper(s[:1]) + strings.ToLower(s[1:])
		}
		if t != s {
			return t
		}
	}
	return s
}

// c09ServiceAction builds one of the result-saving service actions with the given result name.
func c09ServiceAction(kind, uuid, resultName string, classifier gen.M) gen.M {
	a := gen.M{"type": kind, "uuid": uuid, "result_name": resultName}
	switch kind {
	case "call_webhook":
		a["method"] = "GET"
		a["url"] = "http://localhost/?cmd=success"
	case "call_resthook":
		a["resthook"] = "new-registration"
	case "transfer_airtime":
		a["amounts"] = gen.M{"USD": 1}
	case "call_classifier":
		a["classifier"] = classifier
		a["input"] = "@input.text"
	}
	return a
}

var c09ServiceKinds = []string{"call_webhook", "call_resthook", "transfer_airtime", "call_classifier"}

func firstClassifierRef(scen *gen.Scenario) gen.M {
	b, _ := json.Marshal(scen.Assets["classifiers"])
	var cs []struct {
		UUID string `json:"uuid"`
		Name string `json:"name"`
	}
	if json.Unmarshal(b, &cs) != nil || len(cs) == 0 {
		return nil
	}
	return gen.M{"uuid": cs[0].UUID, "name": cs[0].Name}
}

func c09PlantSameKey(r *fw.Rand, scen *gen.Scenario, scripts []c09script, rr *c09roundResult) {
	if !r.Chance(0.3) {
		return
	}
	fl := scen.Flows()
	off := r.Intn(len(fl))
	for k := range fl {
		fi := (off + k) % len(fl)
		f := fl[fi]
		if f["type"] == "messaging_offline" {
			continue // the service actions are not allowed there
		}
		nodes, _ := f["nodes"].([]any)
		var routerNodes []int
		for i, n := range nodes {
			if rt, ok := n.(gen.M)["router"].(gen.M); ok {
				if cats, _ := rt["categories"].([]any); len(cats) > 0 {
					routerNodes = append(routerNodes, i)
				}
			}
		}
		if len(routerNodes) == 0 {
			continue
		}
		ri := fw.Pick(r, routerNodes)
		rt := nodes[ri].(gen.M)["router"].(gen.M)
		name, _ := rt["result_name"].(string)
		if name == "" {
			name = fw.Pick(r, []string{"Outcome", "Lookup", "Q1", "webhook"})
			rt["result_name"] = name
		}
		kind := fw.Pick(r, c09ServiceKinds)
		cl := firstClassifierRef(scen)
		if kind == "call_classifier" && cl == nil {
			kind = "call_webhook"
		}
		actName := name
		if r.Chance(0.3) {
			actName = respell(r, name) // another spelling of the name, the same key
		}
		// mostly in or before the router's node (its result is then the first one under the key), sometimes after it
		ai := r.Intn(ri + 1)
		if r.Chance(0.2) {
			ai = r.Intn(len(nodes))
		}
		an := nodes[ai].(gen.M)
		acts, _ := an["actions"].([]any)
		a := c09ServiceAction(kind, gen.UUID4(r), actName, cl)
		if r.Bool() {
			an["actions"] = append([]any{a}, acts...)
		} else {
			an["actions"] = append(append([]any{}, acts...), a)
		}
		p := &sameKeyPlant{Flow: fi, Action: kind, Name: actName}
		for _, c := range rt["categories"].([]any) {
			cm := c.(gen.M)
			old, _ := cm["name"].(string)
			switch {
			case r.Chance(0.5):
				cm["name"] = respell(r, fw.Pick(r, c09ActionCategories))
			case r.Chance(0.5):
				cm["name"] = respell(r, old)
			}
			if cm["name"] != old {
				p.Recased++
			}
		}
		// the planted flow (and the others) are inspected by the scripts, somewhere after their first operation
		for g := range scripts {
			pr := 0.4
			if scripts[g].flowIdx == fi {
				pr = 0.8
			}
			if r.Chance(pr) {
				at := 1 + r.Intn(len(scripts[g].ops))
				ops := append([]string{}, scripts[g].ops[:at]...)
				ops = append(ops, "inspect")
				scripts[g].ops = append(ops, scripts[g].ops[at:]...)
				p.Inspect++
			}
		}
		rr.SameKey = p
		return
	}
}

// ---------------------------------------------------------------------------------------
// inspection canary

var c09CanaryAssets []byte

func c09CanaryFlowUUID() assets.FlowUUID { return assets.FlowUUID(gen.NamedUUID("flow:C09 Reference")) }

// c09InspectCanary inspects a fixed reference flow (every result-saving action under its own key, two routers, templates,
// dependencies) over its own fresh assets and returns the inspection as JSON. It is a pure function of goflow's code: if two
// calls in one process, or calls in two processes, disagree, something a session or inspection did earlier is being seen.
// It states no expected value.
func c09InspectCanary() string {
	if c09CanaryAssets == nil {
		d := dsl
		yes, no, other := d.Cat("Yes", "ref:yes"), d.Cat("No", "ref:no"), d.Cat("Other", "ref:other")
		again, all := d.Cat("Yes", "ref2:yes"), d.Cat("All Responses", "ref2:all")
		cl := gen.M{"uuid": gen.NamedUUID("classifier:booking"), "name": "Booking"}
		f := d.Flow("C09 Reference", "messaging",
			d.Node("ref1", []any{
				c09ServiceAction("call_webhook", gen.NamedUUID("action:ref:webhook"), "Ref Webhook", nil),
				c09ServiceAction("call_resthook", gen.NamedUUID("action:ref:resthook"), "Ref Resthook", nil),
				c09ServiceAction("call_classifier", gen.NamedUUID("action:ref:classifier"), "Ref Intent", cl),
				c09ServiceAction("transfer_airtime", gen.NamedUUID("action:ref:airtime"), "Ref Airtime", nil),
				d.Action("ref:ticket", "open_ticket", gen.M{"body": "Help @contact.name", "topic": gen.M{"uuid": gen.NamedUUID("topic:weather"), "name": "Weather"}, "result_name": "Ref Ticket"}),
				d.SendMsg("ref:msg", "Hi @contact.name, @fields.age @globals.org_name @results.ref_webhook.category?"),
				d.Action("ref:group", "add_contact_groups", gen.M{"groups": []gen.M{{"uuid": gen.NamedUUID("group:testers"), "name": "Testers"}}}),
			}, d.Switch("@input.text", []gen.M{yes, no, other}, other, []gen.M{
				{"type": "has_any_word", "arguments": []string{"yes"}, "category_uuid": yes["uuid"]},
				{"type": "has_any_word", "arguments": []string{"no"}, "category_uuid": no["uuid"]},
			}, gen.M{"type": "msg"}, "Ref Answer"), d.Exit("ref:yes", "ref2"), d.Exit("ref:no", "ref2"), d.Exit("ref:other", "")),
			d.Node("ref2", nil, d.Switch("@results.ref_answer.category", []gen.M{again, all}, all, []gen.M{
				{"type": "has_only_text", "arguments": []string{"Yes"}, "category_uuid": again["uuid"]},
			}, nil, "Ref Answer"), d.Exit("ref2:yes", ""), d.Exit("ref2:all", "")),
		)
		c09CanaryAssets, _ = json.Marshal(d.BaseAssets(f))
	}
	source, err := static.NewSource(c09CanaryAssets)
	if err != nil {
		return "unloadable: " + err.Error()
	}
	sa, err := engine.NewSessionAssets(envs.NewBuilder().Build(), source, nil)
	if err != nil {
		return "unloadable: " + err.Error()
	}
	f, err := sa.Flows().Get(c09CanaryFlowUUID())
	if err != nil {
		return "unloadable: " + err.Error()
	}
	return string(marshalJSON(f.Inspect(sa)))
}
