package props

import (
	"encoding/json"
	"fmt"
	"os"
	"path/filepath"
	"sort"
	"strconv"
	"strings"
	"time"

	"github.com/nyaruka/gocommon/uuids"
	"github.com/nyaruka/goflow/assets"
	"github.com/nyaruka/goflow/contactql"
	"github.com/nyaruka/goflow/envs"
	"github.com/nyaruka/goflow/excellent/types"
	"github.com/nyaruka/goflow/flows"
	"github.com/nyaruka/goflow/flows/definition/migrations"
	"github.com/nyaruka/goflow/flows/routers/cases"

	"verif/internal/drive"
	"verif/internal/fw"
	"verif/internal/gen"
)

// C08 — engine output is a deterministic function of its inputs.
// Differential monitor: every case is executed 8x in one process and in 3 further passes of fresh processes (different
// map hash seeds; ascending order, descending order, and each case in a process of its own); output digests are compared.
// Process-global canaries after every case catch contamination between cases.

type c08 struct {
	scenBase
	// one case at a time per process: the runner of the latest execution and, from the fourth repetition on, the one whose
	// assets are kept
	lastRunner, reuse      *drive.Runner
	lastLoaded, reuseState drive.SourceState
}

func init() {
	fw.Register(&c08{scenBase: scenBase{id: "C08", quickN: 400, thorN: 20000, batchQ: 50, batchT: 250}})
}

func (p *c08) Rule() string {
	return "case = one generated scenario biased to what depends on map order (>=2 translation languages, >=2 webhook headers, several issue types per node, many fields/groups/results, JSON objects with case-variant keys) + pure calls on its flows (Inspect JSON, MigrateToLatest of the flow stored at 13.0, Clone with a fixed dependency mapping and seeded UUID source, ContactQuery.String, template results on the final context). Each case runs 8x in one process from identical sources (in-process clause) and its output digest is compared across 3 passes of fresh processes: ascending order, descending order, one process per case (cross-process + order-independence clauses). Added classes (c08_widen.go): objects of 2-40 properties with keys differing only by case looked up by inexact names (trigger params, parse_json), flows with up to ~40 issues and several of one type on one node, fixed recipient lists of length 0-9 followed by the session's own contact/URN; and one more history: the last execution's events/segments/session are serialised again after a session for another contact ran over the same kept assets (late-serialisation clause). Non-trivial = the case has >= 1 site with >= 2 map keys (counted by the generator); distinct = SHA of the scenario."
}

func (p *c08) Directed() []string {
	return []string{"two-languages-different-refs", "two-webhook-headers", "many-issues-one-node", "case-variant-json-keys", "clone-with-ui-and-localization", "custom-number-format-then-default", "many-results-fields-groups", "number-format-comma-space", "number-format-comma-dot", "number-format-dot-space", "number-format-dot-comma",
		// a session that recreates @webhook from a result's extra after being re-read (the recreated value is marked
		// deprecated), for every kind of bare JSON body, each followed by a session that reads the same kinds of JSON value
		"reread-webhook-true", "json-value-readers-1", "reread-webhook-false", "json-value-readers-2", "reread-webhook-null", "json-value-readers-3", "reread-webhook-number", "reread-webhook-string", "reread-webhook-array", "reread-webhook-empty", "json-value-readers-4", "legacy-extra-created-on-ties", "reread-webhook-hugeexp", "reread-webhook-nested", "reread-webhook-badjson", "reread-webhook-unavailable", "ambiguous-location-names",
		// classes added in c08_widen.go
		"objects-of-many-sizes-case-variant-keys", "many-issues-per-type-and-node", "own-recipients-after-fixed-lists", "own-recipients-after-fixed-lists-reread"}
}

func (p *c08) Floors(tier string) []string {
	return []string{"clause.inprocess_repeat", "outputs.sprints", "outputs.inspect", "outputs.migrate", "outputs.migrate_legacy", "outputs.clone", "outputs.query", "outputs.templates", "sites.translation_languages", "sites.webhook_headers", "sites.case_variant_keys", "clause.canaries",
		"outputs.templates_case", "sites.case_variant_params", "seen.params_over_16_properties", "sites.many_issues", "seen.inspect_over_12_issues_with_ties", "sites.own_recipients", "clause.late_serialisation", "seen.late_serialisation.recipient_events"}
}

func (p *c08) directed(name string) *gen.Scenario {
	d := dsl
	act := d.Action
	loc := func(f gen.M, lang, uuid, prop string, vals ...string) {
		l := f["localization"].(gen.M)
		lm, ok := l[lang].(gen.M)
		if !ok {
			lm = gen.M{}
			l[lang] = lm
		}
		im, ok := lm[uuid].(gen.M)
		if !ok {
			im = gen.M{}
			lm[uuid] = im
		}
		im[prop] = vals
	}
	switch name {
	case "two-languages-different-refs":
		m := d.SendMsg("m", "Hi @contact.name")
		f := d.Flow("A", "messaging", d.Node("a1", []any{m, act("g", "add_contact_groups", gen.M{"groups": []gen.M{{"uuid": gen.NamedUUID("group:testers"), "name": "Testers"}}})}, nil, d.Exit("a1x", "")))
		loc(f, "spa", m["uuid"].(string), "text", "Hola @globals.org_name @fields.age")
		loc(f, "fra", m["uuid"].(string), "text", "Salut @globals.limit @fields.gender @fields.nope")
		loc(f, "kin", m["uuid"].(string), "text", "Muraho @fields.joined @globals.nope")
		return &gen.Scenario{Assets: d.BaseAssets(f), Trigger: d.Manual("A", nil)}
	case "two-webhook-headers":
		return &gen.Scenario{Assets: d.BaseAssets(d.Flow("A", "messaging", d.Node("a1", []any{act("w", "call_webhook", gen.M{"method": "POST", "url": "http://localhost/?cmd=success", "headers": gen.M{"Accept": "@fields.age", "X-Name": "@contact.name", "X-Org": "@globals.org_name", "Authorization": "Token @globals.nope", "X-Bad": "@(1 +", "X-Bad-2": "@(2 *", "X-Div": "@(1 / 0)", "X-Nope": "@contact.nope", "X-Old": "@(results.q1.categories)"}, "body": "@(json(results))", "result_name": "webhook"})}, nil, d.Exit("a1x", "")))), Trigger: d.Manual("A", nil)}
	case "many-issues-one-node":
		c := d.Cat("Other", "r1x")
		return &gen.Scenario{Assets: d.BaseAssets(d.Flow("A", "messaging", d.Node("r1", []any{
			act("g", "add_contact_groups", gen.M{"groups": []gen.M{{"uuid": gen.NamedUUID("group:gone"), "name": "Gone"}}}),
			act("b", "send_broadcast", gen.M{"text": "hi", "legacy_vars": []string{"@contact.uuid"}, "groups": []gen.M{{"uuid": gen.NamedUUID("group:gone2"), "name": "Gone2"}}}),
			act("f", "set_contact_field", gen.M{"field": gen.M{"key": "gone", "name": "Gone"}, "value": "@(1 +"}),
			act("m", "send_msg", gen.M{"text": "@parent.results.x @(bad syntax"}),
		}, d.Switch("@input.text", []gen.M{c}, c, []gen.M{{"type": "has_pattern", "arguments": []string{"(["}, "category_uuid": c["uuid"]}, {"type": "has_pattern", "arguments": []string{"*"}, "category_uuid": c["uuid"]}}, nil, "R"), d.Exit("r1x", "")))), Trigger: d.Manual("A", nil)}
	case "case-variant-json-keys":
		return &gen.Scenario{Assets: d.BaseAssets(d.Flow("A", "messaging", d.Node("a1", []any{
			act("w", "call_webhook", gen.M{"method": "GET", "url": "http://localhost/?cmd=casekeys", "result_name": "webhook"}),
			d.SendMsg("m", "@webhook.json.a @webhook.json.A @webhook.json.b.x @webhook.json.b.X @(parse_json(\"{\\\"k\\\":1,\\\"K\\\":2}\").k) @(json(webhook.json)) @results.webhook.extra.a @(keys(webhook.json))"),
		}, nil, d.Exit("a1x", "")))), Trigger: d.Manual("A", nil)}
	case "clone-with-ui-and-localization":
		m := d.SendMsg("m", "Hi")
		f := d.Flow("A", "messaging", d.Node("a1", []any{m, d.Enter("e", "B", false)}, nil, d.Exit("a1x", "a2")), d.WaitNode("a2", "", sp("")))
		loc(f, "spa", m["uuid"].(string), "text", "Hola")
		loc(f, "fra", m["uuid"].(string), "text", "Salut")
		f["_ui"] = gen.M{"nodes": gen.M{gen.NamedUUID("node:a1"): gen.M{"position": gen.M{"left": 1, "top": 2}, "type": "execute_actions"}, gen.NamedUUID("node:a2"): gen.M{"position": gen.M{"left": 3, "top": 4}, "type": "wait_for_response"}}, "stickies": gen.M{gen.NamedUUID("sticky:1"): gen.M{"title": "x"}, gen.NamedUUID("sticky:2"): gen.M{"title": "y"}}}
		return &gen.Scenario{Assets: d.BaseAssets(f, d.Flow("B", "messaging")), Trigger: d.Manual("A", nil), Resumes: []gen.M{d.MsgResume(0, "x")}}
	case "custom-number-format-then-default":
		t := d.Manual("A", nil)
		t["environment"].(gen.M)["number_format"] = gen.M{"decimal_symbol": ",", "digit_grouping_symbol": "."}
		return &gen.Scenario{Assets: d.BaseAssets(d.Flow("A", "messaging", d.Node("a1", []any{d.SendMsg("m", "@(format_number(1234.5)) @(1234.5)")}, nil, d.Exit("a1x", "a2")), d.WaitNode("a2", "a1", nil))), Trigger: t, Resumes: []gen.M{d.MsgResume(0, "1.234,5")}}
	case "number-format-comma-space", "number-format-comma-dot", "number-format-dot-space", "number-format-dot-comma":
		// the same flow and input under environments that share one symbol and differ in the other: anything cached
		// per process under a key that forgets one of the two symbols shows up as order / process dependence
		nf := map[string]gen.M{"number-format-comma-space": {"decimal_symbol": ",", "digit_grouping_symbol": " "}, "number-format-comma-dot": {"decimal_symbol": ",", "digit_grouping_symbol": "."},
			"number-format-dot-space": {"decimal_symbol": ".", "digit_grouping_symbol": " "}, "number-format-dot-comma": {"decimal_symbol": ".", "digit_grouping_symbol": ","}}[name]
		t := d.Manual("A", nil)
		t["environment"].(gen.M)["number_format"] = nf
		num := d.Cat("Number", "r1num")
		oth := d.Cat("Other", "r1oth")
		return &gen.Scenario{Assets: d.BaseAssets(d.Flow("A", "messaging",
			d.Node("r1", nil, d.Switch("@input.text", []gen.M{num, oth}, oth, []gen.M{{"type": "has_number_gt", "arguments": []string{"100"}, "category_uuid": num["uuid"]}, {"type": "has_number", "category_uuid": num["uuid"]}}, gen.M{"type": "msg"}, "Amount"), d.Exit("r1num", "a2"), d.Exit("r1oth", "a2")),
			d.Node("a2", []any{d.SendMsg("m", "@results.amount.value @(format_number(1234.5)) @(number(results.amount.value) + 1) @(has_number(input.text).match) @(text(1234.5))")}, nil, d.Exit("a2x", "r1")))),
			Trigger: t, Resumes: []gen.M{d.MsgResume(0, "1.234,50"), d.MsgResume(1, "1 234,50"), d.MsgResume(2, "1,234.50"), d.MsgResume(3, "1.234.567")}}
	case "reread-webhook-true", "reread-webhook-false", "reread-webhook-null", "reread-webhook-number", "reread-webhook-string", "reread-webhook-array", "reread-webhook-empty",
		"reread-webhook-hugeexp", "reread-webhook-nested", "reread-webhook-badjson", "reread-webhook-unavailable":
		cmd := strings.TrimPrefix(name, "reread-webhook-")
		return &gen.Scenario{Reread: true, Assets: d.BaseAssets(d.Flow("A", "messaging",
			d.Node("a1", []any{act("w", "call_webhook", gen.M{"method": "GET", "url": "http://localhost/?cmd=" + cmd, "result_name": "webhook"}), d.SendMsg("m1", "before: @webhook @webhook.json @(json(webhook.json))")}, nil, d.Exit("a1x", "a2")),
			d.WaitNode("a2", "a3", nil),
			d.Node("a3", []any{d.SendMsg("m2", "after: @webhook @webhook.json @(json(webhook)) @(webhook.json) @results.webhook.extra @legacy_extra")}, nil, d.Exit("a3x", "")))),
			Trigger: d.Manual("A", nil), Resumes: []gen.M{d.MsgResume(0, "x")}}
	case "json-value-readers-1", "json-value-readers-2", "json-value-readers-3", "json-value-readers-4":
		t := d.Manual("A", nil)
		t["params"] = gen.M{"vip": true, "blocked": false, "ref": nil, "n": 0, "s": "", "list": []any{}, "obj": gen.M{}, "flags": []any{true, false, nil, 0, ""}}
		return &gen.Scenario{Assets: d.BaseAssets(d.Flow("A", "messaging", d.Node("a1", []any{
			act("w", "call_webhook", gen.M{"method": "GET", "url": "http://localhost/?cmd=flags", "result_name": "webhook"}),
			d.SendMsg("m1", "@trigger.params.vip @(trigger.params.blocked) @(trigger.params.ref) @trigger.params.n @(trigger.params.s) @(trigger.params.list) @(trigger.params.obj) @(trigger.params.flags[0]) @(trigger.params.flags[1])"),
			d.SendMsg("m2", "@webhook.json.vip @(webhook.json.blocked) @(webhook.json.ref) @(parse_json(\"true\")) @(parse_json(\"[false, null, 0]\")[0]) @(if(trigger.params.vip, 1, 2)) @(1 = 1) @(1 = 2) @(boolean(\"\"))"),
		}, nil, d.Exit("a1x", "")))), Trigger: t}
	case "legacy-extra-created-on-ties":
		// results created at the same time (a clock of limited resolution) whose extras share keys: @legacy_extra is rebuilt
		// from them, in order of creation, when the session is read back
		var acts []any
		for i, cmd := range []string{"success", "default", "flags", "casekeys", "array"} {
			acts = append(acts, act(fmt.Sprint("w", i), "call_webhook", gen.M{"method": "GET", "url": "http://localhost/?cmd=" + cmd, "result_name": fmt.Sprint("Hook ", i)}))
		}
		return &gen.Scenario{Reread: true, Coarse: 1000, Assets: d.BaseAssets(d.Flow("A", "messaging", d.Node("a1", acts, nil, d.Exit("a1x", "a2")), d.WaitNode("a2", "a3", nil),
			d.Node("a3", []any{d.SendMsg("m", "@legacy_extra.n @legacy_extra.ok @legacy_extra.vip @(json(legacy_extra))")}, nil, d.Exit("a3x", "")))),
			Trigger: d.Manual("A", nil), Resumes: []gen.M{d.MsgResume(0, "x")}}
	case "ambiguous-location-names":
		// names and aliases that several locations of one level answer to: the first in asset order is the one taken
		as := d.BaseAssets(d.Flow("A", "messaging", d.Node("a1", []any{
			act("f1", "set_contact_field", gen.M{"field": gen.M{"key": "state", "name": "State"}, "value": "Capital"}),
			d.SendMsg("m", "@fields.state @(has_state(\"Capital\").match) @(has_state(\"the capital please\").match) @(has_district(\"Central\").match) @(has_district(\"Central\", \"Kigali City\").match) @(has_ward(\"Hill\", \"Gasabo\", \"Kigali City\").match) @(has_state(\"kigali\").match)"),
		}, nil, d.Exit("a1x", ""))))
		as["locations"] = []gen.M{{"name": "Rwanda", "aliases": []string{"Ruanda"}, "children": []gen.M{
			{"name": "Kigali City", "aliases": []string{"Kigali", "Capital"}, "children": []gen.M{
				{"name": "Gasabo", "aliases": []string{"Central"}, "children": []gen.M{{"name": "Gisozi", "aliases": []string{"Hill"}}, {"name": "Ndera", "aliases": []string{"Hill"}}}},
				{"name": "Nyarugenge", "aliases": []string{"Central", "Kigali"}, "children": []gen.M{}}}},
			{"name": "Eastern Province", "aliases": []string{"Capital"}, "children": []gen.M{{"name": "Gatsibo", "aliases": []string{"Central"}, "children": []gen.M{}}}},
			{"name": "Northern Province", "aliases": []string{"Capital", "Kigali"}, "children": []gen.M{}},
			{"name": "Southern Province", "aliases": []string{"capital"}, "children": []gen.M{}},
			{"name": "Western Province", "aliases": []string{"Capital"}, "children": []gen.M{}}}}}
		return &gen.Scenario{Assets: as, Trigger: d.Manual("A", nil)}
	case "many-results-fields-groups":
		var acts []any
		for i, n := range []string{"Zeta", "alpha", "Beta", "gamma", "Delta", "eps", "Eta"} {
			acts = append(acts, act(fmt.Sprint("r", i), "set_run_result", gen.M{"name": n, "value": fmt.Sprint(i), "category": "C"}))
		}
		acts = append(acts, d.SendMsg("m", "@results @fields @(json(results)) @(json(contact.fields)) @contact.groups @(legacy_extra) @run.results"))
		ct := d.Contact()
		ct["fields"] = gen.M{"age": gen.M{"text": "23", "number": 23}, "gender": gen.M{"text": "male"}, "nick": gen.M{"text": "bobby"}, "joined": gen.M{"text": "2018-01-01T00:00:00Z", "datetime": "2018-01-01T00:00:00Z"}, "state": gen.M{"text": "Kigali", "state": "Rwanda > Kigali City"}}
		return &gen.Scenario{Assets: d.BaseAssets(d.Flow("A", "messaging", d.Node("a1", acts, nil, d.Exit("a1x", "")))), Trigger: d.Manual("A", ct)}
	}
	return p.directedWide(name)
}

// mapSites counts the sites of a scenario that iterate a map with >= 2 keys.
func mapSites(scen *gen.Scenario) map[string]int {
	n := map[string]int{}
	for _, f := range scen.Flows() {
		if l, ok := f["localization"].(gen.M); ok && len(l) >= 2 {
			n["translation_languages"]++
		}
		if ui, ok := f["_ui"].(gen.M); ok && len(ui) > 0 {
			n["ui_maps"]++
		}
		for _, nd := range f["nodes"].([]any) {
			if acts, ok := nd.(gen.M)["actions"].([]any); ok {
				for _, a := range acts {
					am := a.(gen.M)
					if h, ok := am["headers"].(gen.M); ok && len(h) >= 2 {
						n["webhook_headers"]++
					}
					if u, _ := am["url"].(string); strings.Contains(u, "casekeys") {
						n["case_variant_keys"]++
					}
					if am["type"] == "transfer_airtime" {
						if am2, ok := am["amounts"].(gen.M); ok && len(am2) >= 2 {
							n["airtime_amounts"]++
						}
					}
				}
			}
		}
	}
	if c, ok := scen.Trigger["contact"].(gen.M); ok {
		if fs, ok := c["fields"].(gen.M); ok && len(fs) >= 2 {
			n["contact_fields"]++
		}
	}
	// the classes of c08_widen.go (noted by what planted them)
	for _, note := range scen.Notes {
		if strings.HasPrefix(note, "c08:") {
			n[strings.ReplaceAll(strings.TrimPrefix(note, "c08:"), "-", "_")]++
		}
	}
	return n
}

// outputs runs the whole case once and returns its labelled outputs.
func (p *c08) outputs(scen *gen.Scenario, seed int64, res *fw.Result, count bool) (out []string, err error) {
	return p.outputsN(scen, seed, 0, res, count)
}

func (p *c08) outputsN(scen *gen.Scenario, seed int64, rot int, res *fw.Result, count bool) (out []string, err error) {
	var rn *drive.Runner
	if p.reuse != nil {
		// the assets and the engine of an earlier execution, kept as a host keeps them
		rn = drive.LoadReusing(p.reuse, seed, p.reuseState)
	} else {
		rn, err = drive.Load(scen, seed)
		if err != nil {
			return nil, err
		}
	}
	p.lastRunner, p.lastLoaded = rn, rn.Src.Snapshot()
	add := func(label string, v any) {
		var b []byte
		switch t := v.(type) {
		case []byte:
			b = t
		case string:
			b = []byte(t)
		default:
			b, _ = json.Marshal(v)
		}
		out = append(out, label+"\x00"+string(b))
		if count {
			res.Count("outputs."+strings.SplitN(label, "[", 2)[0], 1)
		}
	}
	// every second case persists and re-reads its session at every wait (a pure function of the case, so every
	// execution of the case does the same)
	reread := rot%2 == 1 || scen.Reread
	rn.RunAll(func(rec *drive.CallRecord) {
		if count {
			observeCommon(res, rec)
		}
		if reread && rec.OK() && rn.Waiting() {
			if err := rn.Restart(); err == nil && count {
				res.Count("seen.restarts", 1)
			}
		}
		tag := fmt.Sprintf("sprints[%d]", rec.Index)
		switch {
		case rec.Panic != nil:
			add(tag, "panic: "+fmt.Sprint(rec.Panic))
		case rec.Budget:
			add(tag, "budget")
		case rec.Err != nil:
			add(tag, "error: "+rec.Err.Error())
		}
		for i, e := range rec.EventsJSON {
			add(fmt.Sprintf("%s.events[%d]", tag, i), e)
		}
		for i, e := range rec.SegmentsJSON {
			add(fmt.Sprintf("%s.segments[%d]", tag, i), e)
		}
		if rec.SessionAfter != nil {
			add(tag+".session", rec.SessionAfter)
		}
	})
	// pure calls on every flow
	mapping := map[uuids.UUID]uuids.UUID{}
	for _, kind := range []string{"groups", "fields", "labels", "channels", "topics", "classifiers", "optins", "templates"} {
		for _, m := range assetList(scen.Assets, kind) {
			if u, ok := m["uuid"].(string); ok {
				mapping[uuids.UUID(u)] = uuids.UUID(gen.NamedUUID("mapped:" + u))
			}
		}
	}
	for i, f := range scen.Flows() {
		uuid := assets.FlowUUID(f["uuid"].(string))
		mapping[uuids.UUID(uuid)] = uuids.UUID(gen.NamedUUID("mapped:" + string(uuid)))
		func() {
			defer func() {
				if r := recover(); r != nil {
					add(fmt.Sprintf("inspect[%d]", i), "panic: "+fmt.Sprint(r))
				}
			}()
			fl, err := rn.SA.Flows().Get(uuid)
			if err != nil {
				return
			}
			insp := fl.Inspect(rn.SA)
			add(fmt.Sprintf("inspect[%d]", i), insp)
			if count && len(insp.Issues) > 12 {
				// more issues than a small-input sort handles, with several of one type on one node
				ties := map[string]int{}
				for _, is := range insp.Issues {
					k := string(is.NodeUUID()) + "|" + is.Type()
					if ties[k]++; ties[k] == 2 {
						res.Count("seen.inspect_over_12_issues_with_ties", 1)
						break
					}
				}
			}
			add(fmt.Sprintf("extract_templates[%d]", i), fl.ExtractTemplates())
			add(fmt.Sprintf("extract_localizables[%d]", i), fl.ExtractLocalizables())
			add(fmt.Sprintf("marshal[%d]", i), fl)
		}()
		def, _ := json.Marshal(f)
		func() {
			defer func() {
				if r := recover(); r != nil {
					add(fmt.Sprintf("migrate[%d]", i), "panic: "+fmt.Sprint(r))
				}
			}()
			old := deepCopy(f)
			old["spec_version"] = "13.0.0"
			stripForOldSpec13(old)
			ob, _ := json.Marshal(old)
			st := rn.Src.Snapshot()
			mig, err := migrations.MigrateToLatest(ob, migrations.DefaultConfig)
			rn.Src.Restore(st)
			if err != nil {
				add(fmt.Sprintf("migrate[%d]", i), "error: "+err.Error())
			} else {
				add(fmt.Sprintf("migrate[%d]", i), mig)
			}
		}()
		func() {
			defer func() {
				if r := recover(); r != nil {
					add(fmt.Sprintf("clone[%d]", i), "panic: "+fmt.Sprint(r))
				}
			}()
			st := rn.Src.Snapshot()
			cl, err := migrations.Clone(def, mapping)
			rn.Src.Restore(st)
			if err != nil {
				add(fmt.Sprintf("clone[%d]", i), "error: "+err.Error())
			} else {
				add(fmt.Sprintf("clone[%d]", i), cl)
			}
		}()
	}
	// legacy definitions (the repository's own legacy flows, and variants whose texts lack a base-language translation)
	for i, ld := range legacyDefs(int64(rot)) {
		func() {
			defer func() {
				if r := recover(); r != nil {
					add(fmt.Sprintf("migrate_legacy[%d]", i), "panic: "+fmt.Sprint(r))
				}
			}()
			st := rn.Src.Snapshot()
			mig, err := migrations.MigrateToLatest(ld, migrations.DefaultConfig)
			rn.Src.Restore(st)
			if err != nil {
				add(fmt.Sprintf("migrate_legacy[%d]", i), "error: "+err.Error())
			} else {
				add(fmt.Sprintf("migrate_legacy[%d]", i), mig)
			}
		}()
	}
	// query formatting
	env := envs.NewBuilder().Build()
	for i, g := range assetList(scen.Assets, "groups") {
		if q, ok := g["query"].(string); ok {
			if pq, err := contactql.ParseQuery(env, q, rn.SA); err == nil {
				add(fmt.Sprintf("query[%d]", i), pq.String())
				add(fmt.Sprintf("query_inspect[%d]", i), contactql.Inspect(pq))
			}
		}
	}
	// the bundled service implementations over canned remote answers
	serviceOutputs(func(label string, v any) { add(label, v) })
	// queries over what a group definition does not use: group membership, flow, history, several URN schemes, every field at once
	gname := "Testers"
	for _, g := range assetList(scen.Assets, "groups") {
		if _, ok := g["query"]; !ok {
			gname = fmt.Sprint(g["name"])
			break
		}
	}
	for i, q := range []string{`group = ` + strconv.Quote(gname), `group != ` + strconv.Quote(gname) + ` AND age > 1`, `group = "Nobody"`, `tel ~ 1206 OR twitter = "bobby" OR facebook != ""`,
		`age > 1 AND gender = "m" AND joined > 2018-01-01 AND nick ~ "bo" AND state = "Kigali City" AND district != "" AND ward = ""`, `bob 1206 OR jim`, `name ~ "bob" AND (group = ` + strconv.Quote(gname) + ` OR language = "eng")`} {
		if pq, err := contactql.ParseQuery(env, q, rn.SA); err == nil {
			add(fmt.Sprintf("query_extra[%d]", i), pq.String())
			add(fmt.Sprintf("query_extra_inspect[%d]", i), contactql.Inspect(pq))
		} else {
			add(fmt.Sprintf("query_extra[%d]", i), "error: "+err.Error())
		}
	}
	// template results on the final context
	if rn.Session != nil && len(rn.Session.Runs()) > 0 {
		run := rn.Session.Runs()[len(rn.Session.Runs())-1]
		for i, t := range c08Templates {
			func() {
				defer func() {
					if r := recover(); r != nil {
						add(fmt.Sprintf("templates[%d]", i), "panic: "+fmt.Sprint(r))
					}
				}()
				st := rn.Src.Snapshot()
				var errs []string
				v, _ := run.EvaluateTemplate(t, func(e flows.Event) { errs = append(errs, eventText(e)) })
				rn.Src.Restore(st)
				add(fmt.Sprintf("templates[%d]", i), []any{v, errs})
			}()
		}
		// templates built for the case: inexact lookups in objects of several sizes
		for i, t := range c08CaseTemplates(seed, rot, scen) {
			func() {
				defer func() {
					if r := recover(); r != nil {
						add(fmt.Sprintf("templates_case[%d]", i), "panic: "+fmt.Sprint(r))
					}
				}()
				st := rn.Src.Snapshot()
				var errs []string
				v, _ := run.EvaluateTemplate(t, func(e flows.Event) { errs = append(errs, eventText(e)) })
				rn.Src.Restore(st)
				add(fmt.Sprintf("templates_case[%d]", i), []any{v, errs})
			}()
		}
	}
	if count {
		if params, ok := scen.Trigger["params"].(gen.M); ok && len(params) > 16 {
			res.Count("seen.params_over_16_properties", 1)
		}
	}
	return out, nil
}

var legacyCache [][]byte

// legacyDefs returns a seed-dependent handful of legacy definitions: flows from the repository's legacy test data, each
// also as a variant in which every multi-language text has lost its base-language (and "base") entry — as happens when a
// flow's base language was switched after it was translated.
func legacyDefs(seed int64) [][]byte {
	if legacyCache == nil {
		root := os.Getenv("VERIF_REPO")
		if root == "" {
			root = "/repo"
		}
		b, err := os.ReadFile(filepath.Join(root, "flows/definition/legacy/testdata/flows.json"))
		if err != nil {
			legacyCache = [][]byte{}
			return nil
		}
		var items []struct {
			Legacy json.RawMessage `json:"legacy"`
		}
		json.Unmarshal(b, &items)
		for _, it := range items {
			if len(it.Legacy) == 0 {
				continue
			}
			legacyCache = append(legacyCache, it.Legacy)
			var m any
			if json.Unmarshal(it.Legacy, &m) != nil {
				continue
			}
			base := ""
			if mm, ok := m.(map[string]any); ok {
				base, _ = mm["base_language"].(string)
			}
			if base == "" {
				continue
			}
			dropBase(m, base)
			vb, _ := json.Marshal(m)
			legacyCache = append(legacyCache, vb)
		}
	}
	if len(legacyCache) == 0 {
		return nil
	}
	// three per case, rotating with the seed/case so that all are covered over a run
	n := len(legacyCache)
	k := int(uint64(seed) % uint64(n))
	return [][]byte{legacyCache[k%n], legacyCache[(k+1)%n], legacyCache[(k+n/2)%n]}
}

// dropBase rewrites every translation map (all keys are language codes / "base", all values strings) so that it has at
// least two languages and none of them is the flow's base language.
func dropBase(v any, base string) {
	switch t := v.(type) {
	case map[string]any:
		isTr := len(t) > 0
		for k, x := range t {
			if _, ok := x.(string); !ok || !(len(k) == 3 || k == "base") {
				isTr = false
			}
		}
		if isTr {
			var sample string
			for _, x := range t {
				sample, _ = x.(string)
			}
			if b, ok := t[base].(string); ok {
				sample = b
			}
			delete(t, base)
			delete(t, "base")
			for _, l := range []string{"fra", "spa", "kin"} {
				if len(t) >= 2 {
					break
				}
				if _, ok := t[l]; !ok && l != base {
					t[l] = sample + " [" + l + "]"
				}
			}
			return
		}
		for _, x := range t {
			dropBase(x, base)
		}
	case []any:
		for _, x := range t {
			dropBase(x, base)
		}
	}
}

var c08Templates = []string{
	"@results", "@(json(results))", "@fields", "@(json(contact.fields))", "@contact.groups", "@(json(contact))", "@run", "@(json(run.results))", "@trigger.params", "@(json(trigger.params))",
	"@(parse_json(\"{\\\"b\\\":1,\\\"a\\\":2,\\\"c\\\":{\\\"z\\\":1,\\\"y\\\":2}}\"))", "@(json(parse_json(\"{\\\"b\\\":1,\\\"a\\\":2}\")))", "@(parse_json(\"{\\\"k\\\":1,\\\"K\\\":2}\").k)", "@(parse_json(\"{\\\"K\\\":1,\\\"k\\\":2}\").K)",
	"@(keys(parse_json(\"{\\\"b\\\":1,\\\"a\\\":2,\\\"C\\\":3}\")))", "@(object(\"b\", 1, \"a\", 2))", "@(format(object(\"b\", 1, \"a\", 2)))", "@(foreach_value(object(\"b\", 1, \"a\", 2), (k, v) => k & v))", "@(extract_object(contact, \"name\", \"language\"))",
	"@(parse_datetime(\"9999-12-31T23:59:59.999999Z\", \"tt:mm:ss.fffffffff\"))", "@(parse_time(\"x\", \"tt:mm\"))", "@(parse_datetime(\"2020-01-01 ab:30\", \"YYYY-MM-DD t:mm\"))", "@(parse_time(\"25:61\", \"hh:mm aa\"))", "@(parse_datetime(\"x\", \"DD-MM-YYYY\"))",
	// everything random comes from the one seeded random source, whatever the range
	"@(rand())", "@(rand_between(1, 10))", "@(rand_between(0, 99999999999999999999))", "@(rand_between(-9007199254740993, 9007199254740993))", "@(rand_between(1, 100000000000000000000000000000))", "@(rand_between(0.5, 1.5))",
	"@webhook", "@(json(webhook))", "@webhook.headers", "@legacy_extra", "@(json(legacy_extra))", "@urns", "@(json(urns))", "@globals", "@(json(globals))", "@parent", "@child", "@node",
}

func stripForOldSpec13(f map[string]any) {
	nodes, _ := f["nodes"].([]any)
	for _, n := range nodes {
		nm := n.(map[string]any)
		acts, _ := nm["actions"].([]any)
		var keep []any
		for _, a := range acts {
			am := a.(map[string]any)
			switch am["type"] {
			case "send_msg":
				delete(am, "template")
				delete(am, "template_variables")
			case "request_optin", "open_ticket":
				continue
			}
			keep = append(keep, am)
		}
		if keep == nil {
			delete(nm, "actions")
		} else {
			nm["actions"] = keep
		}
	}
}

// globalsSnapshot: the process globals a case could contaminate (see DESIGN.md §2, process-global canaries).
func globalsSnapshot() map[string]string {
	return map[string]string{
		"envs.DefaultNumberFormat": fmt.Sprintf("%q %q", envs.DefaultNumberFormat.DecimalSymbol, envs.DefaultNumberFormat.DigitGroupingSymbol),
		"types.XObjectEmpty":       fmt.Sprint(types.XObjectEmpty.Count()),
		"types.XArrayEmpty":        fmt.Sprint(types.XArrayEmpty.Count()),
		"types.XTextEmpty":         types.XTextEmpty.Native(),
		"cases.FalseResult":        string(marshalJSON(cases.FalseResult)),
		// the shared singleton values: their payload and the deprecation note any value can carry
		"types.singletons":            fmt.Sprintf("%v|%v|%s|%s|%s|%s|%s|%s", types.XBooleanTrue.Native(), types.XBooleanFalse.Native(), types.XNumberZero.Native().String(), types.XDateTimeZero.Native().UTC().Format(time.RFC3339Nano), types.XDateZero.Native().String(), types.XTimeZero.Native().String(), types.XTextEmpty.Native(), marshalJSON(cases.FalseResult)),
		"types.singletons.deprecated": strings.Join([]string{types.XBooleanTrue.Deprecated(), types.XBooleanFalse.Deprecated(), types.XNumberZero.Deprecated(), types.XDateTimeZero.Deprecated(), types.XDateZero.Deprecated(), types.XTimeZero.Deprecated(), types.XTextEmpty.Deprecated(), types.XArrayEmpty.Deprecated(), types.XObjectEmpty.Deprecated(), cases.FalseResult.Deprecated()}, "|"),
		"registry.tests":              fmt.Sprint(len(cases.XTESTS)),
		"migrations.registered":       fmt.Sprint(len(migrations.Registered())),
	}
}

func (p *c08) Run(c fw.Case) fw.Result {
	res := fw.Result{}
	scen := p.scenOf(c)
	res.Fingerprint = scen.Fingerprint()
	return p.runScen(res, scen, c)
}

// scenOf builds the scenario of a case (a pure function of the case).
func (p *c08) scenOf(c fw.Case) *gen.Scenario {
	r := fw.NewRand(c.Seed, "C08", c.Index)
	var scen *gen.Scenario
	if c.Directed != "" {
		scen = p.directed(c.Directed)
	} else {
		o := gen.ScenOpts{Localized: true, Deterministic: true, MaxNodes: r.Range(2, 6), ContactChanges: r.Chance(0.4), QueryGroups: r.Chance(0.5), NoRandom: false}
		scen = gen.Scen(r, o)
		// bias: make sure headers / case-variant keys occur often
		for _, f := range scen.Flows() {
			for _, nd := range f["nodes"].([]any) {
				if acts, ok := nd.(gen.M)["actions"].([]any); ok {
					for _, a := range acts {
						am := a.(gen.M)
						if am["type"] == "call_webhook" {
							if r.Chance(0.7) {
								am["headers"] = gen.M{"Accept": "application/json", "X-Name": "@contact.name", "X-Age": "@fields.age", "X-Org": "@globals.org_name"}
								if r.Chance(0.5) {
									// several header values whose evaluation logs something (errors, warnings): the log has an order
									for _, h := range []string{"X-Bad:@(1 +", "X-Bad-2:@(2 *", "X-Div:@(1 / 0)", "X-Nope:@contact.nope", "X-Old:@(results.q1.categories)"} {
										if r.Chance(0.6) {
											kv := strings.SplitN(h, ":", 2)
											am["headers"].(gen.M)[kv[0]] = kv[1]
										}
									}
								}
							}
							if r.Chance(0.3) {
								am["url"] = "http://localhost/?cmd=casekeys"
								am["result_name"] = "webhook"
							}
						}
						if am["type"] == "send_msg" && r.Chance(0.1) {
							am["text"] = "@webhook.json.a @(json(webhook.json)) @results.webhook.extra.b.x"
						}
					}
				}
			}
		}
	}
	if c.Directed == "" {
		c08Widen(fw.NewRand(c.Seed, "C08/widen", c.Index), scen)
	}
	if c.Directed == "" && c.Index%5 == 2 {
		scen.Coarse = []int{4, 16, 1000}[c.Index/5%3] // a clock of limited resolution: neighbouring events / results carry the same time
	}
	return scen
}

func (p *c08) runScen(res fw.Result, scen *gen.Scenario, c fw.Case) fw.Result {
	before := globalsSnapshot()
	first, err := p.outputsN(scen, c.Seed, c.Index, &res, true)
	if err != nil {
		res.Discarded = "unloadable: " + errClass(err.Error())
		return res
	}
	sites := mapSites(scen)
	total := 0
	for k, v := range sites {
		res.Count("sites."+k, int64(v))
		total += v
	}
	res.NonTrivial = total > 0
	// in-process repetition
	defer func() { p.reuse = nil }()
	for rep := 1; rep < 8; rep++ {
		res.Count("clause.inprocess_repeat", 1)
		if rep == 4 {
			// from here on every execution runs over the session assets and engine of the third one
			p.reuse, p.reuseState = p.lastRunner, p.lastLoaded
		}
		if p.reuse != nil {
			res.Count("clause.inprocess_repeat_over_kept_assets", 1)
		}
		again, err := p.outputsN(scen, c.Seed, c.Index, &res, false)
		if err != nil {
			break
		}
		// differences other than the known nondeterministic error text of a dependency are judged on normalised outputs,
		// so that the known one cannot mask them; the known one is then reported from the raw outputs
		if what, path := diffOutputs(normAll(first), normAll(again)); what != "" {
			res.Violate("nondeterminism|in-process|"+what+"|"+stripIndices(path)+"|value", fmt.Sprintf("two executions of the same case in one process differ: %s at %s", what, path),
				witnessOf(scen, map[string]any{"output": what, "path": path, "repetition": rep, "first": pickOutput(first, what), "again": pickOutput(again, what)}))
			break
		}
		if what, path := diffOutputs(first, again); what == "error-text" {
			res.Violate("nondeterminism|error-text|"+path, "the text of an error differs between two executions of the same case: "+path,
				witnessOf(scen, map[string]any{"repetition": rep, "first": firstDiffPair(first, again)}))
		}
	}
	// what the last execution produced, serialised again after a session for another contact over the same assets
	p.lateSerialisation(scen, c, &res)
	// canaries
	res.Count("clause.canaries", 1)
	after := globalsSnapshot()
	var keys []string
	for k := range before {
		keys = append(keys, k)
	}
	sort.Strings(keys)
	for _, k := range keys {
		if before[k] != after[k] {
			res.Violate("global-overwrite|"+k, fmt.Sprintf("process global %s changed while running a case: %s -> %s", k, before[k], after[k]), witnessOf(scen, map[string]any{"global": k, "before": before[k], "after": after[k]}))
			// repair so that one contaminating case cannot change the verdict of those that follow
			if k == "envs.DefaultNumberFormat" {
				envs.DefaultNumberFormat.DecimalSymbol, envs.DefaultNumberFormat.DigitGroupingSymbol = ".", ","
			}
		}
	}
	res.Digest = digest(normAll(first))
	if res.NonTrivial {
		res.Sample = map[string]any{"graph": graphShape(scen), "outputs": len(first), "map_sites": sites}
	}
	return res
}

// diffOutputs returns the label and JSON path of the first differing output.
func diffOutputs(a, b []string) (string, string) {
	n := len(a)
	if len(b) < n {
		n = len(b)
	}
	for i := 0; i < n; i++ {
		if a[i] != b[i] {
			la, va, _ := strings.Cut(a[i], "\x00")
			lb, vb, _ := strings.Cut(b[i], "\x00")
			if la != lb {
				return "output-sequence", la + " vs " + lb
			}
			if normKnownNondet(va) == normKnownNondet(vb) {
				return "error-text", "gocommon-dates-parseError-layout-sequence"
			}
			path := firstJSONDiff(va, vb)
			// is it a pure reordering?
			if sortedChars(va) == sortedChars(vb) {
				path += "(order)"
			}
			return stripIndices(la), path
		}
	}
	if len(a) != len(b) {
		return "output-sequence", "length"
	}
	return "", ""
}

func normAll(xs []string) []string {
	out := make([]string, len(xs))
	for i, o := range xs {
		out[i] = normKnownNondet(o)
	}
	return out
}

func firstDiffPair(a, b []string) []string {
	for i := 0; i < len(a) && i < len(b); i++ {
		if a[i] != b[i] {
			return []string{trunc(a[i], 1500), trunc(b[i], 1500)}
		}
	}
	return nil
}

func sortedChars(s string) string {
	b := []byte(s)
	sort.Slice(b, func(i, j int) bool { return b[i] < b[j] })
	return string(b)
}

func pickOutput(outs []string, label string) string {
	for _, o := range outs {
		l, v, _ := strings.Cut(o, "\x00")
		if stripIndices(l) == label {
			return trunc(v, 3000)
		}
	}
	return ""
}

// RunCustom: three passes of fresh processes; digests compared per case.
func (p *c08) RunCustom(o *fw.Orchestrator) {
	type pass struct {
		name  string
		env   []string
		batch int
	}
	passes := []pass{{"ascending", nil, 0}, {"descending", []string{"VERIF_ORDER=reverse"}, 0}, {"own-process", nil, 1}}
	if o.Tier == "thorough" {
		passes[2].batch = 7 // one process per case is too slow for 20k cases: use batches of 7 (different predecessors) instead
	}
	var digests []map[int]string
	for _, ps := range passes {
		o.ChildEnv = ps.env
		o.BatchOverride = ps.batch
		o.Digests = map[int]string{}
		o.RunStandard()
		d := o.Digests
		digests = append(digests, d)
		o.Sum.Counters["pass."+ps.name+".cases"] = int64(len(d))
	}
	o.ChildEnv, o.BatchOverride = nil, 0
	cs := fw.Cases(p, o.Tier, o.Seed)
	compared := 0
	for idx, d0 := range digests[0] {
		for pi := 1; pi < len(digests); pi++ {
			d1, ok := digests[pi][idx]
			if !ok {
				continue
			}
			compared++
			if d1 != d0 {
				what := "cross-process"
				if pi == 2 || passes[pi].name == "descending" {
					what = "cross-process-or-order:" + passes[pi].name
				}
				o.Violation(cs[idx].ID(), idx, "nondeterminism|"+what, fmt.Sprintf("case %s produced a different output digest in pass %q than in pass %q (fresh processes, different map hash seeds / predecessors)", cs[idx].ID(), passes[pi].name, passes[0].name),
					map[string]any{"case": cs[idx].ID(), "digest_" + passes[0].name: d0, "digest_" + passes[pi].name: d1, "hint": "replay the case: the in-process clause usually names the differing output; if it is silent the difference depends on process state"})
			}
		}
	}
	o.Sum.Counters["clause.cross_process_digests_compared"] = int64(compared)
	// evaluations were counted three times (three passes)
	o.Extra["passes"] = []string{"ascending", "descending", passes[2].name}
	o.Extra["evaluations_note"] = "evaluations counts every pass; each case additionally runs 8x in-process per pass"
	if compared == 0 {
		o.Inconclusive("no digests were compared across processes")
	}
}
