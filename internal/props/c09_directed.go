package props

import (
	"fmt"

	"verif/internal/fw"
	"verif/internal/gen"
)

// Hand-built rounds of C09: the same at every seed, run (after the generated rounds) by a quarter of the child processes
// each. A directed round is a scenario + one script per goroutine; it goes through the same session phase as a generated
// round (solo references, barrier, canaries, comparison) and, when it names flows that are away during an outage,
// through the after-outage clause.

type c09directedRound struct {
	name    string
	scen    *gen.Scenario
	scripts []c09script
	lined   bool
	down    []int // flows away during the outage (nil: no after-outage clause)
	cold    bool  // run as the only, concurrent-first round of a child process of its own (process-cold state)
}

func c09DirectedContact(g int) gen.M {
	c := dsl.Contact()
	c["uuid"] = gen.NamedUUID(fmt.Sprint("contact:c09:", g))
	c["name"] = fmt.Sprint("Contact ", g)
	c["urns"] = []string{fmt.Sprintf("tel:+1206555%04d", 1000+g)}
	return c
}

func c09DirectedRounds() []c09directedRound {
	d := dsl
	var out []c09directedRound

	// 1. same-key results across flows: for each of the result-saving service actions a flow in which the action saves under
	// the key that a later router saves to under another spelling of the name, the router's categories being other spellings
	// of the categories the action saves; and a plain flow that just uses the four actions, each under its own key. Half of
	// the goroutines inspect the plain flow, the others one of the merging flows, all at the same moment (lined up after
	// the session start) and once more later.
	{
		cl := gen.M{"uuid": gen.NamedUUID("classifier:booking"), "name": "Booking"}
		var fl []gen.M
		for k, kind := range c09ServiceKinds {
			nm := fmt.Sprint("Merge ", kind)
			spell := [][]string{{"SUCCESS", "failure", "Other"}, {"success", "FAILURE"}, {"failure", "sUCCESS", "Skipped"}, {"skipped", "SUCCESS", "fAILURE"}}[k]
			var cats, exits []gen.M
			for _, s := range spell {
				cats = append(cats, d.Cat(s, nm+":"+s))
				exits = append(exits, d.Exit(nm+":"+s, ""))
			}
			f := d.Flow(nm, "messaging",
				d.Node(nm+":1", []any{c09ServiceAction(kind, gen.NamedUUID("action:"+nm), "Outcome", cl), d.SendMsg(nm+":m", "Was that right?")}, nil, d.Exit(nm+":1x", nm+":2")),
				d.Node(nm+":2", nil, d.Switch("@input.text", cats, cats[len(cats)-1], []gen.M{
					{"type": "has_any_word", "arguments": []string{"yes"}, "category_uuid": cats[0]["uuid"]},
				}, gen.M{"type": "msg"}, "outcome"), exits...))
			if k%2 == 0 {
				f["spec_version"] = "13.0.0" // lazily migrated on first use
			}
			fl = append(fl, f)
		}
		plain := d.Flow("Plain", "messaging", d.Node("plain:1", []any{
			c09ServiceAction("call_webhook", gen.NamedUUID("action:plain:webhook"), "Registration", nil),
			c09ServiceAction("call_resthook", gen.NamedUUID("action:plain:resthook"), "Notified", nil),
			c09ServiceAction("call_classifier", gen.NamedUUID("action:plain:classifier"), "Intent", cl),
			c09ServiceAction("transfer_airtime", gen.NamedUUID("action:plain:airtime"), "Topup", nil),
			d.SendMsg("plain:m", "Done @results.registration.category"),
		}, nil, d.Exit("plain:1x", "")))
		fl = append(fl, plain)
		scen := &gen.Scenario{Assets: d.BaseAssets(fl...), Trigger: d.Manual("Plain", nil)}
		var scripts []c09script
		for g := 0; g < 8; g++ {
			fi := len(fl) - 1
			if g%2 == 1 {
				fi = (g / 2) % len(c09ServiceKinds)
			}
			scripts = append(scripts, c09script{flowIdx: fi, trigger: d.Manual(fl[fi]["name"].(string), c09DirectedContact(g)),
				resumes: []gen.M{d.MsgResume(0, "yes")}, ops: []string{"start", "inspect", "templates", "resume", "inspect"}, lang: "eng", query: `age > 18`, tpl: "@results"})
		}
		out = append(out, c09directedRound{name: "same-key-results-across-flows", scen: scen, scripts: scripts, lined: true})
	}

	// 2. a child flow, stored at an old spec version, whose first use through the shared assets falls into an outage of the
	// asset source: the parent is up, so the child is first asked for by an enter_flow action in the middle of a sprint.
	// Afterwards the source is healthy and sessions that go through the child (started on the parent or on the child
	// itself, re-read, resumed) must run as they do alone.
	{
		all := d.Cat("All Responses", "child:all")
		child := d.Flow("Child", "messaging",
			d.Node("child:1", []any{d.SendMsg("child:m", "Hi @contact.name, what do you say?")},
				d.Switch("@input.text", []gen.M{all}, all, nil, gen.M{"type": "msg"}, "Answer"), d.Exit("child:all", "")))
		child["spec_version"] = "13.0.0"
		parent := d.Flow("Parent", "messaging",
			d.Node("parent:1", []any{d.SendMsg("parent:m", "Welcome @contact.name"), d.Enter("parent:e", "Child", false)}, nil, d.Exit("parent:1x", "parent:2")),
			d.Node("parent:2", []any{d.SendMsg("parent:m2", "Thanks, you said @child.results.answer")}, nil, d.Exit("parent:2x", "")))
		scen := &gen.Scenario{Assets: d.BaseAssets(parent, child), Trigger: d.Manual("Parent", nil)}
		var scripts []c09script
		for g := 0; g < 6; g++ {
			fi, name := 0, "Parent"
			if g%3 == 2 {
				fi, name = 1, "Child"
			}
			ops := []string{"start", "reread", "resume", "inspect", "eval"}
			if g%2 == 1 {
				ops = []string{"start", "resume", "reread", "eval", "localizables"}
			}
			scripts = append(scripts, c09script{flowIdx: fi, trigger: d.Manual(name, c09DirectedContact(g)),
				resumes: []gen.M{d.MsgResume(0, "fine"), d.MsgResume(1, "again")}, ops: ops, lang: "eng", query: `age > 18`, tpl: "@results @child.results @run.flow.name"})
		}
		out = append(out, c09directedRound{name: "child-flow-first-used-during-outage", scen: scen, scripts: scripts, lined: false, down: []int{1}})
	}

	// 3. boundary arguments, process-cold: every goroutine starts a small session and then, all at the same moment and as the
	// first thing the process ever evaluates, calls every function and test with boundary values.
	{
		f := d.Flow("Ask", "messaging", d.Node("ask:1", []any{d.SendMsg("ask:m", "Hi @contact.name")}, nil, d.Exit("ask:1x", "ask:2")), d.WaitNode("ask:2", "", nil))
		scen := &gen.Scenario{Assets: d.BaseAssets(f), Trigger: d.Manual("Ask", nil)}
		var scripts []c09script
		for g := 0; g < 8; g++ {
			scripts = append(scripts, c09script{flowIdx: 0, trigger: d.Manual("Ask", c09DirectedContact(g)), resumes: []gen.M{d.MsgResume(0, "yes")},
				ops: []string{"start", "eval_boundary", "resume", "eval_boundary"}, lang: "eng", query: `age > 18`, tpl: "@results"})
		}
		out = append(out, c09directedRound{name: "boundary-arguments-process-cold", scen: scen, scripts: scripts, lined: true, cold: true})
	}

	// 4. refused resumes, process-cold: sessions at a msg wait without timeout, at a msg wait with timeout, at a dial wait and
	// completed ones; all goroutines, at the same moment, try a wait_timeout, a dial and a msg resume on copies of their
	// session — the first refusals of the process — and again after the session was re-read and resumed.
	{
		to := "wt:2"
		fl := []gen.M{
			d.Flow("Wait Plain", "messaging", d.WaitNode("wp:1", "", nil)),
			d.Flow("Wait Timeout", "messaging", d.WaitNode("wt:1", "", &to), d.Node("wt:2", []any{d.SendMsg("wt:m", "too late")}, nil, d.Exit("wt:2x", ""))),
			d.Flow("Done", "messaging", d.Node("dn:1", []any{d.SendMsg("dn:m", "bye")}, nil, d.Exit("dn:1x", ""))),
		}
		{
			ans, other := d.Cat("Answered", "dl:ans"), d.Cat("Other", "dl:other")
			dial := d.Flow("Dial", "voice", d.Node("dl:1", nil, d.Switch("@(default(resume.dial.status, \"\"))", []gen.M{ans, other}, other, []gen.M{
				{"type": "has_only_text", "arguments": []string{"answered"}, "category_uuid": ans["uuid"]},
			}, gen.M{"type": "dial", "phone": "+12065551212"}, "Dialed"), d.Exit("dl:ans", ""), d.Exit("dl:other", "")))
			fl = append(fl, dial)
		}
		scen := &gen.Scenario{Assets: d.BaseAssets(fl...), Trigger: d.Manual("Wait Plain", nil)}
		var scripts []c09script
		for g := 0; g < 8; g++ {
			fi := []int{0, 0, 1, 3, 0, 2, 1, 3}[g]
			t := d.Manual(fl[fi]["name"].(string), c09DirectedContact(g))
			if fl[fi]["type"] == "voice" {
				t["call"] = gen.M{"uuid": gen.NamedUUID(fmt.Sprint("call:", g)), "channel": gen.M{"uuid": gen.NamedUUID("chan:android"), "name": "Android"}, "urn": "tel:+12065551212"}
			}
			scripts = append(scripts, c09script{flowIdx: fi, trigger: t, resumes: []gen.M{d.MsgResume(0, "yes")},
				ops: []string{"start", "resume_rejected", "reread", "resume_rejected", "resume", "resume_rejected"}, lang: "eng", query: `age > 18`, tpl: "@results"})
		}
		out = append(out, c09directedRound{name: "refused-resumes-process-cold", scen: scen, scripts: scripts, lined: true, cold: true})
	}
	return out
}

// c09PlantColdOps adds the two operations to the scripts of a generated round: in the first round of a process to every
// script, directly after the session start (where the goroutines line up); in a share of the other rounds a third of the
// boundary calls to all scripts, and refused resumes to half of the scripts somewhere later.
func c09PlantColdOps(r *fw.Rand, scripts []c09script, first bool) {
	insert := func(sc *c09script, at int, op string) {
		ops := append([]string{}, sc.ops[:at]...)
		ops = append(ops, op)
		sc.ops = append(ops, sc.ops[at:]...)
	}
	if first {
		for g := range scripts {
			if g >= 8 {
				scripts[g].bsel = 1 + g%3 // eight goroutines make every boundary call, the others a third each
			}
			insert(&scripts[g], 1, "eval_boundary")
			insert(&scripts[g], 1, "resume_rejected")
		}
		return
	}
	if r.Chance(0.3) {
		sel := 1 + r.Intn(3)
		for g := range scripts {
			scripts[g].bsel = sel
			insert(&scripts[g], 1, "eval_boundary")
		}
	}
	for g := range scripts {
		if r.Chance(0.5) {
			insert(&scripts[g], 1+r.Intn(len(scripts[g].ops)), "resume_rejected")
		}
	}
}
