package props

import (
	"fmt"
	"github.com/nyaruka/goflow/flows"
	"runtime/debug"
	"sort"
	"strings"
	"unicode/utf8"
	"verif/internal/drive"

	"github.com/nyaruka/goflow/envs"
	"github.com/nyaruka/goflow/excellent"
	"github.com/nyaruka/goflow/excellent/functions"
	"github.com/nyaruka/goflow/excellent/types"
	"github.com/nyaruka/goflow/flows/routers/cases"

	"verif/internal/fw"
	"verif/internal/gen"
)

// C04 — expression and template evaluation is total.
//
// Crash / hang sanitizer over four generators (direct calls, hostile strings, grammar-derived
// templates, webhook-style JSON numbers). A case is one batch of calls to one entry point.

type c04 struct {
	specsQuick    []c04spec
	specsThorough []c04spec
}

type c04spec struct {
	kind   string // direct | directx | string | grammar | json
	fn     string
	arity  int
	first  int // for exhaustive arity-3 chunks: index of the first argument in the pool, else -1
	sample int // number of sampled tuples (0 = exhaustive over the pool)
}

func init() { fw.Register(&c04{}) }

func (p *c04) ID() string { return "C04" }
func (p *c04) Rule() string {
	return "cases = batches of calls: (a) every registered function and router test x arity 0..4 x argument tuples from a 24-value boundary pool (thorough: exhaustive for arity<=3; quick: sampled) plus sampled tuples over 40 further values; (b) hostile UTF-8 strings through Template/TemplateValue/Expression; (c) grammar-derived templates over a random context; (d) JSON numbers with huge exponents in small-result positions. Non-trivial = at least one call of the batch reached a function/operator body (returned a non-parse-error); distinct = distinct (entry, argument-class tuple | template text)."
}
func (p *c04) CaseTimeoutS() int { return 20 }
func (p *c04) BatchSize(tier string) int {
	if tier == "thorough" {
		return 40
	}
	return 25
}

func allFuncs() []*types.XFunction {
	var out []*types.XFunction
	for _, n := range gen.FunctionNames() {
		if f, ok := functions.XFUNCTIONS[n]; ok {
			out = append(out, f)
		} else {
			out = append(out, cases.XTESTS[n])
		}
	}
	return out
}

func (p *c04) specs(tier string) []c04spec {
	if tier == "thorough" && p.specsThorough != nil {
		return p.specsThorough
	}
	if tier != "thorough" && p.specsQuick != nil {
		return p.specsQuick
	}
	var sp []c04spec
	names := gen.FunctionNames()
	npool := len(gen.ValuePool())
	for _, n := range names {
		if tier == "thorough" {
			sp = append(sp, c04spec{kind: "direct", fn: n, arity: 0, first: -1})
			sp = append(sp, c04spec{kind: "direct", fn: n, arity: 1, first: -1})
			sp = append(sp, c04spec{kind: "direct", fn: n, arity: 2, first: -1})
			for f := 0; f < npool; f++ {
				sp = append(sp, c04spec{kind: "direct", fn: n, arity: 3, first: f})
			}
			for a := 1; a <= 5; a++ {
				sp = append(sp, c04spec{kind: "directx", fn: n, arity: a, first: -1, sample: 1500})
			}
		} else {
			sp = append(sp, c04spec{kind: "direct", fn: n, arity: 0, first: -1})
			sp = append(sp, c04spec{kind: "direct", fn: n, arity: 1, first: -1})
			sp = append(sp, c04spec{kind: "directx", fn: n, arity: 2, first: -1, sample: 800})
			sp = append(sp, c04spec{kind: "directx", fn: n, arity: 3, first: -1, sample: 1500})
			sp = append(sp, c04spec{kind: "directx", fn: n, arity: 4, first: -1, sample: 300})
		}
	}
	nStr, nGram, nJSON := 600, 1200, 100
	if tier == "thorough" {
		nStr, nGram, nJSON = 10000, 30000, 1000
	}
	for i := 0; i < nStr; i++ {
		sp = append(sp, c04spec{kind: "string", sample: 200})
	}
	for i := 0; i < nGram; i++ {
		sp = append(sp, c04spec{kind: "grammar", sample: 100})
	}
	for i := 0; i < nJSON; i++ {
		sp = append(sp, c04spec{kind: "json", sample: 60})
	}
	nCtx := 300
	if tier == "thorough" {
		nCtx = 6000
	}
	for i := 0; i < nCtx; i++ {
		sp = append(sp, c04spec{kind: "enginectx", sample: 40})
	}
	// appended last so that the indices of the older families stay what they were
	nRec := 24
	if tier == "thorough" {
		nRec = 400
	}
	for i := 0; i < nRec; i++ {
		sp = append(sp, c04spec{kind: "recursion", sample: 4})
	}
	nEsc := 60
	if tier == "thorough" {
		nEsc = 1500
	}
	for i := 0; i < nEsc; i++ {
		sp = append(sp, c04spec{kind: "escapes", sample: 120})
	}
	if tier == "thorough" {
		p.specsThorough = sp
	} else {
		p.specsQuick = sp
	}
	return sp
}

// escapeLiteralTemplate builds an expression around a string literal made of backslash escapes of every kind the
// lexer can meet - complete, cut short, unknown, and in every position including the very end of the literal.
func escapeLiteralTemplate(r *fw.Rand) string {
	pieces := []string{`\n`, `\t`, `\r`, `\"`, `\\`, `\u`, `\u0`, `\u00`, `\u004`, `\u0041`, `\u00e9`, `\ud83d`, `\ud83d\ude00`, `\udc00`, `\U`, `\U0001`, `\U0001F600`, `\U00110000`,
		`\x`, `\x4`, `\x41`, `\xff`, `\0`, `\00`, `\101`, `\777`, `\a`, `\b`, `\f`, `\v`, `\d`, `\w`, `\s`, `\.`, `\'`, `\ `, `\/`, `\(`, `\@`, `\é`, `\`,
		"a", "C:", "é", " ", "@", "(", ")", "'", "1", "{", "%", "\n", "\t"}
	n := r.Range(1, 5)
	var b strings.Builder
	for i := 0; i < n; i++ {
		b.WriteString(fw.Pick(r, pieces))
	}
	lit := b.String()
	// a lone backslash right before the closing quote escapes the quote: such a literal is unterminated, which is
	// one of the shapes wanted, so nothing is repaired here
	q := `"` + lit + `"`
	switch r.Intn(8) {
	case 0:
		return "@(" + q + ")"
	case 1:
		return "@(upper(" + q + "))"
	case 2:
		return "@(regex_match(contact.name, " + q + "))"
	case 3:
		return "@(" + q + " & " + q + ")"
	case 4:
		return "@(has_pattern(\"abc\", " + q + "))"
	case 5:
		return "hi @(" + q + ") there " + lit
	case 6:
		return "@(array(" + q + ", 1)[0])"
	default:
		return "@(text_length(" + q + "))"
	}
}

// recursionTemplate builds a template in which anonymous functions receive functions (themselves included) as
// arguments and call them: the only way an Excellent expression can recurse. Nothing in the grammar bounds the depth
// or the fan-out of such calls, so whether evaluation returns is up to the evaluator.
func recursionTemplate(r *fw.Rand) string {
	names := []string{"f", "g"}
	var body func(d int) string
	call := func() string {
		a, b := fw.Pick(r, names), fw.Pick(r, names)
		switch r.Intn(4) {
		case 0:
			return a + "(" + b + ", " + a + ")"
		case 1:
			return a + "(" + a + ", " + b + ")"
		default:
			return a + "(" + b + ", " + b + ")"
		}
	}
	body = func(d int) string {
		if d <= 0 {
			return call()
		}
		switch r.Intn(12) {
		case 0:
			return body(d-1) + " & " + body(d-1)
		case 1:
			return body(d-1) + " + " + body(d-1)
		case 2:
			return "if(" + fw.Pick(r, []string{"true", "false", "foo > 1", "contact.name"}) + ", " + body(d-1) + ", " + body(d-1) + ")"
		case 3:
			return "foreach(" + fw.Pick(r, []string{"arr", "array(1, 2, 3)", "split(\"a b c d\", \" \")", "array(f, g)"}) + ", (x) => " + body(d-1) + ")"
		case 4:
			return "array(" + body(d-1) + ", " + body(d-1) + ")"
		case 5:
			return "upper(" + body(d-1) + ")"
		case 6:
			return "default(" + body(d-1) + ", " + body(d-1) + ")"
		case 7:
			return "(" + body(d-1) + ")(f, g)"
		case 8:
			return "((h, g) => " + body(d-1) + ")(" + fw.Pick(r, names) + ", " + fw.Pick(r, names) + ")"
		case 9:
			return "is_error(" + body(d-1) + ") & " + body(d-1)
		case 10:
			return "object(\"a\", " + body(d-1) + ").a"
		default:
			return call()
		}
	}
	fn := func() string { return "(f, g) => " + body(r.Range(0, 2)) }
	switch r.Intn(5) {
	case 0:
		return "@(((f, g) => " + body(r.Range(0, 2)) + ")(" + fn() + ", " + fn() + "))"
	case 1:
		return "@(foreach(array(" + fn() + ", " + fn() + "), (f) => f(f, f)))"
	case 2:
		return "@(((f) => f(f, f))(" + fn() + ")) and @(((f) => f(f, f))(" + fn() + "))"
	case 3:
		return "@(json(((f, g) => " + body(1) + ")(" + fn() + ", " + fn() + ")))"
	default:
		return "@(((f, g) => " + body(1) + ")(" + fn() + ", upper))"
	}
}

func (p *c04) NumGenerated(tier string) int { return len(p.specs(tier)) }

func (p *c04) Directed() []string {
	return []string{"probes", "doc-examples", "self-application", "literal-escapes", "deep-nesting", "known-hang:round-places", "known-hang:json-exponent", "engine-contexts"}
}

func (p *c04) CaseTimeouts(c fw.Case) (int, int) {
	if strings.HasPrefix(c.Directed, "known-hang:") {
		return 6, 10
	}
	// self-applying functions legitimately run until the evaluator's call limit (10^5 calls, each failing one with an
	// error text as long as the nesting): fractions of a second each on an idle machine, seconds on a loaded one
	if c.Directed == "self-application" {
		return 90, 180
	}
	if c.Directed == "" {
		if sp := p.specs(c.Tier); c.Gen < len(sp) && sp[c.Gen].kind == "recursion" {
			return 60, 120
		}
	}
	return 0, 0
}

func (p *c04) Floors(tier string) []string {
	return []string{"calls.direct", "calls.template", "calls.expression", "calls.template_value", "reached_body", "returned_error", "templates.recursion", "templates.escapes"}
}

func (p *c04) ExtraEvidence(tier string, counters map[string]int64) map[string]any {
	m := map[string]any{
		"functions_registered": len(gen.FunctionNames()),
		"pool_size":            len(gen.ValuePool()),
	}
	// functions and tests that were called directly but only ever answered with an error value: their bodies past the
	// argument checks were not exercised by direct calls (templates may still reach them)
	never := []string{}
	nCalled := 0
	for k := range counters {
		if strings.HasPrefix(k, "called.") {
			nCalled++
			if counters["returned_value."+strings.TrimPrefix(k, "called.")] == 0 {
				never = append(never, strings.TrimPrefix(k, "called."))
			}
		}
	}
	sort.Strings(never)
	m["functions_called_directly"] = nCalled
	m["functions_never_returning_a_value_in_direct_calls"] = never
	if tier == "thorough" {
		m["exhaustive_subspace"] = "every registered function/test x arity<=3 x 24-value pool (exhaustive: true applies to this sub-space only)"
	}
	return m
}

func (p *c04) HangSignature(c fw.Case, detail string) (string, string, any) {
	entry := detail
	if i := strings.Index(detail, "("); i > 0 {
		entry = detail[:i]
	}
	for _, k := range []string{"template_value:", "template:", "expression:"} {
		if strings.HasPrefix(detail, k) {
			entry = strings.TrimSuffix(k, ":") // the template text is in the witness, not in the signature
		}
	}
	cls := hangClass(detail)
	return "hang|" + entry + "|" + cls, fmt.Sprintf("evaluation did not return within the stage-2 budget: %s", trunc(detail, 300)), map[string]any{"case": c.ID(), "call": detail}
}

func (p *c04) CrashSignature(c fw.Case, stderr string) (string, string, any) {
	kind := fw.PanicKind(firstNonEmpty(stderr))
	return "fatal|" + fw.InnermostFrame(stderr) + "|" + kind, "child died with a runtime fatal error during evaluation: " + firstNonEmpty(stderr), map[string]any{"case": c.ID(), "stderr": trunc(stderr, 3000)}
}

func firstNonEmpty(s string) string {
	for _, l := range strings.Split(s, "\n") {
		if strings.TrimSpace(l) != "" {
			return trunc(strings.TrimSpace(l), 200)
		}
	}
	return ""
}

func trunc(s string, n int) string {
	if len(s) <= n {
		return s
	}
	for n > 0 && !utf8.RuneStart(s[n]) {
		n--
	}
	return s[:n] + "…"
}

// hangClass names the argument class that carries the amplification.
func hangClass(detail string) string {
	switch {
	case strings.Contains(detail, "e999999999") || strings.Contains(detail, "E999999999") || strings.Contains(detail, "e-999999999") || strings.Contains(detail, "huge-exponent"):
		return "json-number-huge-exponent"
	case strings.HasPrefix(detail, "function:round"):
		return "places-huge"
	}
	return "other"
}

// valueClass is the coarse class of an argument, used for fingerprints and hang/panic witnesses.
func valueClass(v types.XValue) string {
	if types.IsNil(v) {
		return "nil"
	}
	switch t := v.(type) {
	case *types.XError:
		return "error"
	case *types.XText:
		if t.Native() == "" {
			return "text:empty"
		}
		if len(t.Native()) > 100 {
			return "text:long"
		}
		return "text:" + trunc(t.Native(), 16)
	case *types.XNumber:
		return "num:" + trunc(t.Native().String(), 24)
	case *types.XBoolean:
		return "bool"
	case *types.XDateTime:
		return "datetime:" + t.Native().Format("2006")
	case *types.XDate:
		return "date"
	case *types.XTime:
		return "time"
	case *types.XArray:
		return "array"
	case *types.XObject:
		return "object"
	case *types.XFunction:
		return "function"
	}
	return fmt.Sprintf("%T", v)
}

type c04run struct {
	res  *fw.Result
	env  envs.Environment
	eval *excellent.Evaluator
	fps  []string
}

// guard runs f; a panic becomes a violation attributed to entry.
func (cr *c04run) guard(entry, detail string, f func()) {
	fw.SetDetail(detail)
	defer func() {
		if rec := recover(); rec != nil {
			st := string(debug.Stack())
			cr.res.Count("panics", 1)
			cr.res.Violate(fw.PanicSignature(entry, rec, st), fmt.Sprintf("%s panicked: %v", trunc(detail, 200), trunc(fmt.Sprint(rec), 200)),
				map[string]any{"call": detail, "panic": fmt.Sprint(rec), "stack": fw.TrimStack(st)})
		}
	}()
	f()
}

// use exercises a returned value the way template rendering / JSON marshalling would.
func (cr *c04run) use(v types.XValue) {
	if types.IsNil(v) {
		cr.res.Count("returned_nil", 1)
		return
	}
	if types.IsXError(v) {
		cr.res.Count("returned_error", 1)
		_ = v.(*types.XError).Error()
		return
	}
	cr.res.Count("returned_value", 1)
	types.ToXText(cr.env, v)
	types.ToXJSON(v)
	v.Format(cr.env)
	v.Truthy()
	_ = v.Describe()
	_ = v.String()
}

func resultBounded(fn string, args []types.XValue) bool {
	if fn == "repeat" && len(args) == 2 {
		t, _ := args[0].(*types.XText)
		n, _ := args[1].(*types.XNumber)
		if n != nil {
			l := 1
			if t != nil {
				l = len(t.Native()) + 1
			} else {
				l = 64
			}
			f, _ := n.Native().Float64()
			if f*float64(l) > 1e6 {
				return true
			}
		}
	}
	return false
}

// knownHang: inputs matching a *known non-termination finding* are not executed in bulk (each would
// cost a full watchdog cycle); the finding is probed by its own directed case instead.
func knownHang(fn string, args []types.XValue) bool {
	if (fn == "round" || fn == "round_up" || fn == "round_down") && len(args) == 2 {
		if n, ok := args[1].(*types.XNumber); ok {
			f, _ := n.Native().Float64()
			if f > 1e6 || f < -1e6 {
				return true
			}
		}
	}
	return false
}

func (cr *c04run) direct(f *types.XFunction, args []types.XValue) {
	name := f.Name()
	if resultBounded(name, args) {
		cr.res.Count("skipped_result_bounded", 1)
		return
	}
	if knownHangActive && knownHang(name, args) {
		cr.res.Count("skipped_known_hang", 1)
		return
	}
	cls := make([]string, len(args))
	for i, a := range args {
		cls[i] = valueClass(a)
	}
	detail := "function:" + name + "(" + strings.Join(cls, ", ") + ")"
	cr.res.Count("calls.direct", 1)
	cr.guard("function:"+name, detail, func() {
		v := f.Call(cr.env, args)
		if !types.IsXError(v) || !strings.Contains(v.(*types.XError).Error(), "argument(s), got") {
			cr.res.Count("reached_body", 1)
		}
		cr.res.Count("called."+name, 1)
		if !types.IsXError(v) {
			cr.res.Count("returned_value."+name, 1)
		}
		cr.use(v)
	})
}

// set to false once the known hang findings are fixed (no known entries → nothing is skipped)
var knownHangActive = hasKnownHang()

func hasKnownHang() bool {
	for _, k := range fw.LoadKnownFindings(fw.Root()) {
		if k.Property == "C04" && k.Status == "known" && strings.HasPrefix(k.Signature, "hang|function:round") {
			return true
		}
	}
	return false
}

func (p *c04) Run(c fw.Case) fw.Result {
	res := fw.Result{}
	r := fw.NewRand(c.Seed, "C04", c.Index)
	cr := &c04run{res: &res, env: gen.Env(r), eval: excellent.NewEvaluator()}

	if c.Directed != "" {
		p.directed(c, cr, r)
		res.Fingerprint = "directed:" + c.Directed
		res.NonTrivial = true
		res.Sample = map[string]any{"case": c.ID()}
		return res
	}
	sp := p.specs(c.Tier)[c.Gen]
	switch sp.kind {
	case "direct", "directx":
		var f *types.XFunction
		if ff, ok := functions.XFUNCTIONS[sp.fn]; ok {
			f = ff
		} else {
			f = cases.XTESTS[sp.fn]
		}
		res.Fingerprint = fmt.Sprintf("%s:%s/%d/%d", sp.kind, sp.fn, sp.arity, sp.first)
		if sp.kind == "direct" {
			pool := gen.ValuePool()
			idx := make([]int, sp.arity)
			if sp.first >= 0 {
				idx[0] = sp.first
			}
			for {
				args := make([]types.XValue, sp.arity)
				for i, k := range idx {
					args[i] = pool[k]
				}
				cr.direct(f, args)
				// next tuple
				j := sp.arity - 1
				lo := 0
				if sp.first >= 0 {
					lo = 1
				}
				for ; j >= lo; j-- {
					idx[j]++
					if idx[j] < len(pool) {
						break
					}
					idx[j] = 0
				}
				if j < lo {
					break
				}
			}
			res.Count("exhaustive_blocks", 1)
		} else {
			pool := append(gen.ValuePool(), gen.ExtraValues()...)
			for i := 0; i < sp.sample; i++ {
				args := make([]types.XValue, sp.arity)
				for k := range args {
					args[k] = fw.Pick(r, pool)
				}
				// texts of every word count for the tests that look for a location among the words of a text
				if (sp.fn == "has_state" || sp.fn == "has_district" || sp.fn == "has_ward") && i%3 == 0 {
					n := r.Range(1, 100)
					if r.Chance(0.5) {
						n = r.Range(1, 24)
					}
					ws := make([]string, n)
					for k := range ws {
						ws[k] = fw.Pick(r, []string{"hi", "I", "would", "like", "parcel", "is", "where", "my", "Kigali", "Gasabo", "city", "Rwanda", "é", "12", "the", "Hill", "-", "a.b"})
					}
					args[0] = types.NewXText(strings.Join(ws, fw.Pick(r, []string{" ", " ", ", ", "  "})))
					cr.res.Count("calls.direct_word_counts", 1)
				}
				// arguments that only mean something together are generated together for half the calls
				if (sp.fn == "has_intent" || sp.fn == "has_top_intent") && sp.arity == 3 && i%2 == 0 {
					args[0] = gen.ClassificationResult(r)
					if r.Chance(0.9) {
						args[1] = types.NewXText(fw.Pick(r, gen.ClassificationNames))
					}
					if r.Chance(0.9) {
						args[2] = fw.Pick(r, []types.XValue{pool[8], pool[9], pool[10], types.RequireXNumberFromString("0.4"), types.RequireXNumberFromString("0.9")})
					}
					cr.res.Count("calls.direct_cogenerated", 1)
				}
				cr.direct(f, args)
			}
			res.Fingerprint += fmt.Sprintf("/s%d", c.Gen)
		}
		res.NonTrivial = res.Counters["reached_body"] > 0
		if res.NonTrivial {
			res.Sample = map[string]any{"kind": sp.kind, "function": sp.fn, "arity": sp.arity, "calls": res.Counters["calls.direct"]}
		}
	case "string":
		var first string
		for i := 0; i < sp.sample; i++ {
			s := gen.HostileString(r, 14)
			if r.Chance(0.3) {
				s = "@(" + s + ")"
			}
			if i == 0 {
				first = s
			}
			cr.template(r, s)
		}
		res.Fingerprint = "string:" + first
		res.NonTrivial = res.Counters["reached_body"] > 0
		res.Sample = map[string]any{"kind": "string", "first_template": first, "templates": sp.sample}
	case "grammar":
		var first string
		for i := 0; i < sp.sample; i++ {
			t := gen.Template(r, gen.ExprOpts{Hostile: true, MaxDepth: r.Range(1, 4)})
			if i == 0 {
				first = t
			}
			cr.template(r, t)
		}
		res.Fingerprint = "grammar:" + first
		res.NonTrivial = res.Counters["reached_body"] > 0
		res.Sample = map[string]any{"kind": "grammar", "first_template": first, "templates": sp.sample}
	case "recursion":
		var first string
		for i := 0; i < sp.sample; i++ {
			t := recursionTemplate(r)
			if i == 0 {
				first = t
			}
			cr.res.Count("templates.recursion", 1)
			cr.template(r, t)
		}
		res.Fingerprint = "recursion:" + first
		res.NonTrivial = res.Counters["reached_body"] > 0
		res.Sample = map[string]any{"kind": "recursion", "first_template": first, "templates": sp.sample}
	case "escapes":
		var first string
		for i := 0; i < sp.sample; i++ {
			t := escapeLiteralTemplate(r)
			if i == 0 {
				first = t
			}
			cr.res.Count("templates.escapes", 1)
			cr.template(r, t)
		}
		res.Fingerprint = "escapes:" + first
		res.NonTrivial = res.Counters["reached_body"] > 0
		res.Sample = map[string]any{"kind": "escapes", "first_template": first, "templates": sp.sample}
	case "enginectx":
		p.engineContexts(c, cr, r, sp.sample, &res)
	case "json":
		first := ""
		for i := 0; i < sp.sample; i++ {
			t := cr.jsonCase(r)
			if i == 0 {
				first = t
			}
		}
		res.Fingerprint = "json:" + first
		res.NonTrivial = res.Counters["reached_body"] > 0
		res.Sample = map[string]any{"kind": "json", "first_template": first, "templates": sp.sample}
	}
	return res
}

// template runs one template text through the three evaluator entry points.
func (cr *c04run) template(r *fw.Rand, tpl string) {
	if !utf8.ValidString(tpl) {
		return
	}
	ctx := gen.Context(r)
	cr.guard("template", "template:"+tpl, func() {
		cr.res.Count("calls.template", 1)
		out, _, err := cr.eval.Template(cr.env, ctx, tpl, nil)
		if err != nil {
			cr.res.Count("template_errors", 1)
			_ = err.Error()
		} else {
			cr.res.Count("reached_body", 1)
		}
		_ = out
	})
	cr.guard("template_value", "template_value:"+tpl, func() {
		cr.res.Count("calls.template_value", 1)
		v, _, err := cr.eval.TemplateValue(cr.env, ctx, tpl)
		if err == nil {
			cr.use(v)
		}
	})
	if strings.HasPrefix(tpl, "@(") && strings.HasSuffix(tpl, ")") {
		ex := tpl[2 : len(tpl)-1]
		cr.guard("expression", "expression:"+ex, func() {
			cr.res.Count("calls.expression", 1)
			v, _ := cr.eval.Expression(cr.env, ctx, ex)
			if !types.IsXError(v) {
				cr.res.Count("reached_body", 1)
			}
			cr.use(v)
		})
	}
}

var hugeNums = []string{"1e999999999", "1E999999999", "-1e999999999", "1e-999999999", "1.5e999999999", "1e2147483647", "1e-2147483648", "1e100000000", "123e999999999", "1e999999998"}

// jsonCase: numbers as they arrive in webhook bodies, used only where the result is small by construction.
func (cr *c04run) jsonCase(r *fw.Rand) string {
	n1 := fw.Pick(r, append(hugeNums, "1e400", "1e-400", "12345678901234567890", "-0", "1.0", "1e2"))
	n2 := fw.Pick(r, []string{"1", "0", "1e400", "1e999999999", "2.5", "-1"})
	doc := fmt.Sprintf(`{"a": %s, "b": %s, "arr": [%s, %s], "deep": %s}`, n1, n2, n1, n2, strings.Repeat("[", 30)+n2+strings.Repeat("]", 30))
	forms := []string{
		`@(webhook.a < webhook.b)`, `@(webhook.a > 1)`, `@(webhook.a >= webhook.b)`, `@(webhook.a <= 0)`,
		`@(webhook.a = webhook.b)`, `@(webhook.a != 1)`, `@(if(webhook.a > 0, "pos", "neg"))`,
		`@(min(webhook.a, webhook.b) = webhook.b)`, `@(max(webhook.arr[0], webhook.arr[1]) > 0)`,
		`@(mod(webhook.b, 3))`, `@(abs(webhook.b))`, `@(round(webhook.b))`, `@(webhook.b + 1)`, `@(webhook.b * 2)`,
		`@(has_number_gt("5", webhook.b))`, `@(has_number_between("5", webhook.b, 10))`, `@(is_error(webhook.a + 1))`,
		`@(is_error(webhook.a - webhook.b))`, `@(is_error(webhook.a * webhook.b))`, `@(is_error(webhook.a / 3))`, `@(is_error(round(webhook.a)))`,
		`@(is_error(mod(webhook.a, 7)))`, `@(is_error(abs(webhook.a) < 1))`, `@(is_error(mean(webhook.a, 1)))`, `@(is_error(-webhook.a))`,
		`@(count(webhook.deep))`, `@(is_error(sum(webhook.arr)))`, `@(is_error(sort(webhook.arr)))`, `@(is_error(format_number(webhook.b)))`,
		`@(has_number_eq(text(webhook.b), 1))`, `@(is_error(webhook.a ^ 0))`, `@(is_error(rand_between(webhook.b, 10)))`, `@(is_error(char(webhook.a)))`,
		`@(is_error(datetime_from_epoch(webhook.a)))`, `@(is_error(round_up(webhook.a, 2)))`, `@(is_error(percent(webhook.b)))`, `@(is_error(legacy_add(webhook.a, 1)))`,
		`@(is_error(date_from_parts(webhook.a, 1, 1)))`, `@(is_error(word("a b", webhook.a)))`, `@(is_error(datetime_add("2020-01-01", webhook.a, "D")))`,
	}
	tpl := fw.Pick(r, forms)
	huge := strings.Contains(n1, "99999999") || strings.Contains(n1, "2147483") || strings.Contains(n1, "e1000") || strings.Contains(n2, "99999999")
	if huge && jsonHangKnown && (strings.Contains(tpl, "webhook.a") || strings.Contains(n2, "99999999")) {
		cr.res.Count("skipped_known_hang", 1)
		return tpl
	}
	ctx := types.NewXObject(map[string]types.XValue{"webhook": types.JSONToXValue([]byte(doc))})
	tag := ""
	if huge {
		tag = " [huge-exponent a=" + n1 + " b=" + n2 + "]"
	}
	cr.guard("template", "template:"+tpl+tag, func() {
		cr.res.Count("calls.template", 1)
		cr.res.Count("calls.json_number", 1)
		_, _, err := cr.eval.Template(cr.env, ctx, tpl, nil)
		if err == nil {
			cr.res.Count("reached_body", 1)
		}
	})
	return tpl + " on " + trunc(doc, 80)
}

var jsonHangKnown = func() bool {
	for _, k := range fw.LoadKnownFindings(fw.Root()) {
		if k.Property == "C04" && k.Status == "known" && strings.Contains(k.Signature, "json-number-huge-exponent") {
			return true
		}
	}
	return false
}()

func (p *c04) directed(c fw.Case, cr *c04run, r *fw.Rand) {
	switch c.Directed {
	case "engine-contexts":
		// a webhook of every kind of answer saved as a result, the session re-read at the wait (which recreates @webhook from
		// the result), and every context walker evaluated in the run before and after
		c8 := fw.Lookup("C08").(*c08)
		for _, name := range c8.Directed() {
			if !strings.HasPrefix(name, "reread-webhook-") && !strings.HasPrefix(name, "json-value-readers") {
				continue
			}
			scen := c8.directed(name)
			rn, err := drive.Load(scen, c.Seed)
			if err != nil {
				continue
			}
			rn.RunAll(func(rec *drive.CallRecord) {
				if !rec.OK() || rn.Session == nil {
					return
				}
				if rn.Waiting() {
					rn.Restart()
				}
				st := rn.Src.Snapshot()
				for _, run := range rn.Session.Runs() {
					if run.Flow() == nil || len(run.Path()) == 0 {
						continue
					}
					for _, t := range c04ContextWalkers {
						tpl := t
						cr.guard("template-in-run", "template-in-run:"+name+":"+tpl, func() {
							cr.res.Count("calls.template_in_run", 1)
							run.EvaluateTemplate(tpl, func(flows.Event) {})
							v, _ := run.EvaluateTemplateValue(tpl, func(flows.Event) {})
							cr.use(v)
						})
					}
				}
				rn.Src.Restore(st)
			})
		}
	case "probes":
		for _, t := range []string{
			`@(mod(5, 0))`, `@(mod(5.5, 0.0))`, `@(5 / 0)`, `@(0 ^ -1)`, `@(0 ^ 0)`, `@((-8) ^ 0.5)`, `@(1 ^ 2147483647)`, `@(char(-1))`, `@(char(1114112))`,
			`@(text_slice("abc", 5, 2))`, `@(text_slice("abc", -5))`, `@(word("a b", -5))`, `@(word_slice("a b c", 3, 1))`, `@(field("a,b", -1, ","))`, `@(field("a,b", 5, ""))`,
			`@(arr[99999999999])`, `@(arr[-99])`, `@(arr["x"])`, `@(obj[1])`, `@(contact.fields[null])`, `@(repeat("x", -1))`, `@(date_from_parts(0, 0, 0))`,
			`@(date_from_parts(99999, 13, 32))`, `@(time_from_parts(25, 61, 61))`, `@(datetime_add("2020-01-01", 2147483647, "Y"))`, `@(datetime_add("9999-12-31", 1, "D"))`,
			`@(datetime_from_epoch(99999999999999999999))`, `@(datetime_from_epoch(-99999999999999999999))`, `@(format_datetime("0001-01-01T00:00:00Z", "YYYY", "Asia/Kolkata"))`,
			`@(regex_match("abc", "(", 1))`, `@(regex_match("abc", "(a)", 5))`, `@(regex_match("abc", "(a)", -1))`, `@(has_pattern("abc", "["))`, `@(replace("aaa", "", "x", -1))`, `@(replace("aaa", "a", "b", 0))`,
			`@(split("", ""))`, `@(join(1, 2))`, `@(foreach(arr, (x) => x / 0))`, `@(foreach(arr, foreach, arr))`, `@(sort(arr))`, `@(sum(arr))`, `@(unique(arr))`, `@(max(arr))`,
			`@(extract(contact, ""))`, `@(extract_object(contact, "fields.age", ""))`, `@(format_number(1, 10))`, `@(format_number(1, -1))`, `@(percent("x"))`, `@(rand_between(5, 1))`,
			`@(parse_datetime("x", "", "UTC"))`, `@(parse_datetime("2020", "YYYYYYYY"))`, `@(format_date("2020-01-01", "T"))`, `@(parse_time("x", "tt:mm:ss.ffffff aa Z"))`,
			`@(has_phone("+12065551212", "XX"))`, `@(has_group(contact.groups, "", ""))`, `@(has_category(1, "x"))`, `@(has_intent(results.intent, "", 2))`, `@(has_ward("x", 1, 2, 3))`,
			`@(legacy_add("2020-01-01", 99999999999))`, `@(legacy_add(99999999999, "10:30"))`, `@(urn_parts(""))`, `@(attachment_parts(":"))`, `@(format_urn("tel:"))`, `@(format_location(" > "))`,
			`@(upper)`, `@(upper())`, `@(upper(1,2))`, `@(upper.foo)`, `@(fn(1))`, `@((x) => x)`, `@(((x) => x)(1))`, `@(object("a"))`, `@(object(1, 2))`, `@(object("__default__", 1).x)`,
			`@(keys(dflt))`, `@(json(fn))`, `@(json((x) => x))`, `@(text((x) => x))`, `@(-"abc")`, `@(- - - 1)`, `@(1 +)`, `@()`, `@(`, `@((`, `@(")`, `@("\")`, `@("\\")`, "@(\"\n\")",
			`@contact.`, `@contact..name`, `@contact.fields.`, `@CONTACT.NAME`, `@@@@`, `@(@contact)`, `@(contact.name.0)`, `@(arr.0.0)`, `@(results.q1.extra.n.x)`,
			`@(parse_json("[") )`, `@(parse_json("{\"a\":1,\"A\":2}").a)`, `@(parse_json("1e999").x)`, `@(count(parse_json("[1,2")))`, `@(json(parse_json(" [1 , 2] ")))`,
			`@(parse_json("\"\\ud800\""))`, `@(parse_json("{\"a\":\"\\u0000\"}").a)`, `@(json(parse_json("{\"\\u0000\":1}")))`,
			`@(2 ^ 0.5)`, `@(99999999999999999999 ^ 0.5)`, `@(0.5 ^ 0.5)`, `@(1.50 ^ 0.5)`, `@(2 ^ -0.5)`, `@(10 ^ 1.5)`, `@(foo ^ 0.5)`,
			`@5pm`, `see you @5pm`, `3 apples @2.50 each`, `@1`, `@٣`, `@_`, `@é`, `@.`, `@-`, `@(` + strings.Repeat("9", 70) + `)`, `@(1` + strings.Repeat("0", 64) + ` + 1)`, `@(0.` + strings.Repeat("0", 70) + `1 * 2)`,
			`@(has_beginning("Ⱥ", "ⱥ"))`, `@(has_beginning("ȺȾ", "ⱥⱦ"))`, `@(has_phrase("İstanbul", "i"))`, `@(has_only_text("ẞ", "ß"))`, `@(upper("ŉ") & lower("İ") & title("ǆ"))`, `@(has_any_word("ſ K", "s k"))`,
			`@(number("٣"))`, `@(number(" 12 "))`, `@(number(".5"))`, `@(number("5."))`, `@(number("1e5"))`, `@(boolean("x"))`, `@(date("x"))`, `@(time("25:00"))`, `@(array(1)[0][0])`,
		} {
			cr.template(r, t)
		}
	case "doc-examples":
		// every function and test called on the values its own examples use is covered by the pinned
		// suite; here each is called with *no*, one and six nil arguments, and with itself as argument
		for _, f := range allFuncs() {
			for _, n := range []int{0, 1, 6} {
				cr.direct(f, make([]types.XValue, n))
			}
			cr.direct(f, []types.XValue{f, f, f})
		}
	case "literal-escapes":
		// every escape form alone, cut short at every length, as the last thing in the literal
		for _, e := range []string{`n`, `"`, `\`, `u`, `u0`, `u00`, `u004`, `u0041`, `ud800`, `U`, `U0`, `U0001F60`, `U0001F600`, `x`, `x4`, `x41`, `0`, `00`, `101`, `a`, `d`, `w`, `'`, ` `, `é`} {
			for _, pre := range []string{"", "C:", `\d+`, "é"} {
				for _, wrap := range []string{`@("%s")`, `@(upper("%s"))`, `@(regex_match("x", "%s"))`, `@("%s" & "a")`, `x @("%s") y`} {
					cr.res.Count("templates.escapes", 1)
					cr.template(r, fmt.Sprintf(wrap, pre+`\`+e))
				}
			}
		}
	case "self-application":
		// functions handed to themselves: unbounded depth, unbounded fan-out, and both under the iterating built-ins
		for _, t := range []string{
			`@(((f) => f(f))((f) => f(f)))`,
			`@(((f) => f(f) & f(f))((f) => f(f) & f(f)))`,
			`@(((f) => array(f(f), f(f), f(f)))((f) => array(f(f), f(f), f(f))))`,
			`@(((f) => foreach(array(1, 2), (x) => f(f)))((f) => foreach(array(1, 2), (x) => f(f))))`,
			`@(((f, n) => if(n > 12, "x", f(f, n + 1) & f(f, n + 1)))((f, n) => if(n > 12, "x", f(f, n + 1) & f(f, n + 1)), 0))`,
			`@(((f, n) => if(n > 90, n, f(f, n + 1)))((f, n) => if(n > 90, n, f(f, n + 1)), 0))`,
			`@(((f, n) => if(n > 5000, n, f(f, n + 1)))((f, n) => if(n > 5000, n, f(f, n + 1)), 0))`,
			`@(foreach(array((f) => f(f)), (f) => f(f)))`,
			`@(((f) => default(f(f), f(f)))((f) => default(f(f), f(f))))`,
			`@(((f) => is_error(f(f)) & is_error(f(f)))((f) => is_error(f(f)) & is_error(f(f))))`,
			`@(((f) => f(f))(upper))`, `@(((f) => f(f)(f))((f) => f))`,
		} {
			cr.res.Count("templates.recursion", 1)
			cr.template(r, t)
		}
	case "deep-nesting":
		for _, n := range []int{10, 100, 500, 2000} {
			cr.template(r, "@("+strings.Repeat("(", n)+"1"+strings.Repeat(")", n)+")")
			cr.template(r, "@("+strings.Repeat("-", n)+"1)")
			cr.template(r, "@("+strings.Repeat("upper(", n)+"\"x\""+strings.Repeat(")", n)+")")
			cr.template(r, "@(1"+strings.Repeat("+1", n)+")")
			cr.template(r, "@(arr"+strings.Repeat("[0]", n)+")")
			cr.template(r, "@(obj"+strings.Repeat(".a", n)+")")
			doc := strings.Repeat("[", n) + strings.Repeat("]", n)
			ctx := types.NewXObject(map[string]types.XValue{"webhook": types.JSONToXValue([]byte(doc))})
			cr.guard("template", "template:deep-json", func() {
				cr.res.Count("calls.template", 1)
				cr.eval.Template(cr.env, ctx, `@(json(webhook)) @(count(webhook)) @webhook`, nil)
			})
			doc2 := strings.Repeat(`{"a":`, n) + "1" + strings.Repeat("}", n)
			ctx2 := types.NewXObject(map[string]types.XValue{"webhook": types.JSONToXValue([]byte(doc2))})
			cr.guard("template", "template:deep-json-object", func() {
				cr.res.Count("calls.template", 1)
				cr.eval.Template(cr.env, ctx2, `@(json(webhook)) @webhook.a.a.a @(format(webhook))`, nil)
			})
		}
	case "known-hang:round-places":
		// probe of the (formerly) non-terminating round(x, ±2e9): runs in a child of its own budget
		for _, name := range []string{"round", "round_up", "round_down"} {
			for _, pl := range []string{"2000000000", "2147483647", "-2000000000", "-2147483648"} {
				for _, x := range []string{"1.5", "0", "123456.789", "-0.001"} {
					f := functions.XFUNCTIONS[name]
					args := []types.XValue{types.RequireXNumberFromString(x), types.RequireXNumberFromString(pl)}
					cr.res.Count("calls.direct", 1)
					cr.guard("function:"+name, "function:"+name+"("+x+", "+pl+")", func() { cr.use(f.Call(cr.env, args)) })
				}
			}
		}
	case "known-hang:json-exponent":
		for _, n := range hugeNums {
			doc := fmt.Sprintf(`{"a": %s, "b": 1}`, n)
			ctx := types.NewXObject(map[string]types.XValue{"webhook": types.JSONToXValue([]byte(doc))})
			for _, t := range []string{`@(webhook.a > 1)`, `@(webhook.a = webhook.b)`, `@(is_error(webhook.a + 1))`, `@(is_error(webhook.a * 2))`, `@(is_error(round(webhook.a)))`, `@(is_error(mod(webhook.a, 7)))`, `@(min(webhook.a, 1) = 1)`, `@(has_number_gt("5", webhook.a))`, `@(is_error(webhook.a / 3))`, `@(is_error(abs(webhook.a)))`, `@(is_error(-webhook.a))`, `@(is_error(webhook.a - 1))`, `@(is_error(webhook.a ^ 2))`} {
				cr.guard("template", "template:"+t+" [huge-exponent a="+n+"]", func() {
					cr.res.Count("calls.template", 1)
					cr.res.Count("calls.json_number", 1)
					cr.eval.Template(cr.env, ctx, t, nil)
				})
			}
		}
	}
}

// engineContexts: the evaluator is total over the contexts the engine really builds — lazily, from whatever the session
// holds at that moment (a webhook recreated from a result's extra after a re-read, results of every shape, parent and
// child runs, tickets, inputs of every resume type). One generated scenario is run with the session re-read at every
// wait; after every engine call, for every run, context-walking templates and hostile generated templates are evaluated
// through the run.
var c04ContextWalkers = []string{"@webhook", "@webhook.json", "@(json(webhook))", "@(webhook.json)", "@webhook.status @webhook.headers", "@legacy_extra", "@(json(legacy_extra))",
	"@(json(contact))", "@(json(run))", "@(json(parent))", "@(json(child))", "@(json(results))", "@(json(input))", "@(json(trigger))", "@(json(resume))", "@(json(ticket))", "@(json(node))",
	"@(json(urns))", "@(json(fields))", "@(json(globals))", "@contact @run @parent @child @input @trigger @resume @ticket @node @urns @fields @globals @results",
	"@(foreach(keys(results), (k) => results[k].extra))", "@(format(parent.contact)) @(format(child.run))", "@(count(run.path)) @run.path", "@trigger.params @(json(trigger.params))"}

func (p *c04) engineContexts(c fw.Case, cr *c04run, r *fw.Rand, sample int, res *fw.Result) {
	scen := gen.Scen(r, gen.ScenOpts{MaxNodes: r.Range(2, 6), Deterministic: true, ContactChanges: r.Chance(0.3), Localized: r.Chance(0.2)})
	res.Fingerprint = "enginectx:" + scen.Fingerprint()
	rn, err := drive.Load(scen, c.Seed)
	if err != nil {
		res.Discarded = "unloadable: " + errClass(err.Error())
		return
	}
	tpls := append([]string{}, c04ContextWalkers...)
	for i := 0; i < sample; i++ {
		tpls = append(tpls, gen.Template(r, gen.ExprOpts{Hostile: true, MaxDepth: r.Range(1, 3), Deterministic: true}))
	}
	evals := 0
	rn.RunAll(func(rec *drive.CallRecord) {
		if !rec.OK() || rn.Session == nil {
			return
		}
		if rn.Waiting() {
			if rn.Restart() == nil {
				res.Count("enginectx.rereads", 1)
			}
		}
		st := rn.Src.Snapshot()
		for _, run := range rn.Session.Runs() {
			if run.Flow() == nil || len(run.Path()) == 0 {
				continue // (the engine itself never evaluates in such a run)
			}
			for _, t := range tpls {
				tpl := t
				cr.guard("template-in-run", "template-in-run:"+tpl, func() {
					cr.res.Count("calls.template_in_run", 1)
					out, _ := run.EvaluateTemplate(tpl, func(flows.Event) {})
					_ = out
					v, _ := run.EvaluateTemplateValue(tpl, func(flows.Event) {})
					cr.use(v)
					evals++
				})
			}
		}
		rn.Src.Restore(st)
	})
	res.NonTrivial = evals > 0
	if res.NonTrivial {
		res.Count("reached_body", int64(evals))
		res.Sample = map[string]any{"kind": "enginectx", "graph": graphShape(scen), "templates_per_run": len(tpls), "evaluations": evals}
	}
}
