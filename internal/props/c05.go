package props

import (
	"encoding/json"
	"fmt"
	"strings"
	"unicode/utf8"

	"github.com/nyaruka/goflow/flows"
	"github.com/nyaruka/goflow/flows/engine"

	"verif/internal/drive"
	"verif/internal/fw"
	"verif/internal/gen"
)

// C05 — sprints terminate within the configured limits.
// Crash/hang sanitizer (recover + virtual-clock step budget) plus limit monitors over the sprint log.

type c05 struct{ scenBase }

func init() {
	fw.Register(&c05{scenBase{id: "C05", quickN: 4000, thorN: 300000}})
}

func (p *c05) Rule() string {
	return "case = one generated scenario with loop-heavy graphs, long / multi-byte inputs and engine options drawn from boundary values (MaxStepsPerSprint {0,1,2,3,5,10,100}, MaxResumesPerSession {0,1,2,5,500}, MaxTemplateChars {0,1,2,3,4,10,100,10000}, MaxFieldChars/MaxResultChars {0,1,2,5,640}) or defaults, + directed corpus. 6% of the generated cases are of the length-unstable text family (texts of code points whose number grows under NFC / NFD / NFKC / case mapping, at lengths around the limits {1,2,3,5,10,25,64,640}, reaching name / field / result / message / quick reply from a literal, the input, a trigger parameter or the contact); a quarter of the long-text scenarios get such text planted into their incoming messages. Every engine call is guarded by recover() and a virtual-clock budget of 1000*(MaxSteps+10) clock reads. Non-trivial = a limit was reached or a value was cut (step limit / resume limit failure seen, or a checked text length within 3 of its limit); distinct = SHA of the scenario."
}

// CaseTimeoutS: a scenario normally costs milliseconds; the in-batch watchdog is 30 s, the stage-2 budget (alone) 60 s.
func (p *c05) CaseTimeoutS() int { return 30 }

// HangSignature: "every engine call returns normally - no hang" is restated as bounded progress: a scenario of a few KB
// that does not finish within 60 s when run alone (>= 10^4 times the normal cost) is a violation. The virtual-clock budget
// catches loops that keep creating steps; this catches blow-ups between two clock reads (e.g. exponentially growing values).
func (p *c05) HangSignature(c fw.Case, detail string) (string, string, any) {
	scen, _ := p.scenario(c)
	return "C05|engine-call-did-not-return", "scenario did not finish within the 60 s stage-2 wall-clock budget (run alone)", witnessOf(scen, map[string]any{"case": c.ID()})
}

func (p *c05) Directed() []string {
	names := directedNames(engineDirected())
	for _, n := range c05Lengths() {
		names = append(names, n.name)
	}
	for _, n := range c05UnstableDirected() {
		names = append(names, n.name)
	}
	return names
}

func (p *c05) Floors(tier string) []string {
	return []string{"clause.steps_per_sprint", "clause.no_panic_no_hang", "clause.limit_means_failed", "clause.resume_limit", "clause.goerror_not_from_limit", "clause.msg_text_len", "clause.quick_reply_len",
		"clause.attachment_len", "clause.name_len", "clause.field_len", "clause.result_len", "seen.step_limit", "seen.resume_limit", "seen.cut_value", "seen.cut_value_length_unstable"}
}

// c05Lengths: values of limit-1/limit/limit+1 runes with a 4-byte rune on the boundary.
func c05Lengths() []namedScen {
	d := dsl
	var out []namedScen
	for _, n := range []int{639, 640, 641} {
		for _, pos := range []int{638, 639, 640} {
			s := gen.LongString(n, pos)
			out = append(out, namedScen{fmt.Sprintf("len-name-field-result-%d-%d", n, pos), &gen.Scenario{
				Assets: d.BaseAssets(d.Flow("A", "messaging", d.WaitNode("a1", "a2", nil), d.Node("a2", []any{
					d.Action("n", "set_contact_name", gen.M{"name": "@input.text"}),
					d.Action("f", "set_contact_field", gen.M{"field": gen.M{"key": "nick", "name": "Nick Name"}, "value": "@input.text"}),
					d.Action("r", "set_run_result", gen.M{"name": "Big", "value": "@input.text"}),
					d.SendMsg("m", "@input.text"),
				}, nil, d.Exit("a2x", "")))),
				Trigger: d.Manual("A", nil), Resumes: []gen.M{d.MsgResume(0, s)},
			}})
		}
	}
	for _, n := range []int{9999, 10000, 10001} {
		s := gen.LongString(n, 9999)
		out = append(out, namedScen{fmt.Sprintf("len-msg-text-%d", n), &gen.Scenario{
			Assets:  d.BaseAssets(d.Flow("A", "messaging", d.WaitNode("a1", "a2", nil), d.Node("a2", []any{d.SendMsg("m", "@input.text")}, nil, d.Exit("a2x", "")))),
			Trigger: d.Manual("A", nil), Resumes: []gen.M{d.MsgResume(0, s)},
		}})
	}
	for _, n := range []int{63, 64, 65} {
		out = append(out, namedScen{fmt.Sprintf("len-quick-reply-%d", n), &gen.Scenario{
			Assets:  d.BaseAssets(d.Flow("A", "messaging", d.Node("a1", []any{d.Action("m", "send_msg", gen.M{"text": "pick", "quick_replies": []string{gen.LongString(n, 63), "ok"}})}, nil, d.Exit("a1x", "")))),
			Trigger: d.Manual("A", nil),
		}})
	}
	for _, n := range []int{2047, 2048, 2049} {
		att := "image/jpeg:http://x.io/" + gen.LongString(n-len("image/jpeg:http://x.io/")-3, 1<<30) + "é" // é = 2 bytes
		out = append(out, namedScen{fmt.Sprintf("len-attachment-%d", n), &gen.Scenario{
			Assets:  d.BaseAssets(d.Flow("A", "messaging", d.Node("a1", []any{d.Action("m", "send_msg", gen.M{"text": "see", "attachments": []string{att}})}, nil, d.Exit("a1x", "")))),
			Trigger: d.Manual("A", nil),
		}})
	}
	// tiny template limits (ellipsis does not fit)
	for _, tc := range []int{0, 1, 2, 3, 4} {
		out = append(out, namedScen{fmt.Sprintf("tiny-template-chars-%d", tc), &gen.Scenario{
			Assets:  d.BaseAssets(d.Flow("A", "messaging", d.Node("a1", []any{d.SendMsg("m", "hello @contact.name how are you"), d.Action("n", "set_contact_name", gen.M{"name": "Robert"})}, nil, d.Exit("a1x", "")))),
			Trigger: d.Manual("A", nil), Options: gen.Options{Set: true, MaxSteps: 100, MaxResumes: 500, MaxTemplateChars: tc, MaxFieldChars: 640, MaxResultChars: 640},
		}})
	}
	// a looping router that feeds on its own results: nothing stored may grow without bound
	selfCat := d.Cat("All", "x1x")
	for _, operand := range []string{"@(json(run.results))", "@results", "@(json(run))", "@(results.grow.input & results.grow.input)", "@(results.grow.value & results.grow.value & \"x\")"} {
		out = append(out, namedScen{"self-feeding-router:" + operand, &gen.Scenario{
			Assets:  d.BaseAssets(d.Flow("A", "messaging", d.Node("x1", nil, d.Switch(operand, []gen.M{selfCat}, selfCat, nil, nil, "Grow"), d.Exit("x1x", "x1")))),
			Trigger: d.Manual("A", nil),
		}})
	}
	// resume limit with waits that sit in runs which exit before the next resume
	for _, mr := range []int{1, 2, 3} {
		o := gen.Options{Set: true, MaxSteps: 100, MaxResumes: mr, MaxTemplateChars: 10000, MaxFieldChars: 640, MaxResultChars: 640}
		var rs []gen.M
		for i := 0; i < 8; i++ {
			rs = append(rs, d.MsgResume(i, fmt.Sprint("r", i)))
		}
		out = append(out, namedScen{fmt.Sprintf("resume-limit-parent-loops-over-waiting-child-%d", mr), &gen.Scenario{
			Assets: d.BaseAssets(
				d.Flow("A", "messaging", d.Node("a1", []any{d.Enter("a1e", "B", false)}, nil, d.Exit("a1x", "a1"))),
				d.Flow("B", "messaging", d.WaitNode("b1", "", nil))),
			Trigger: d.Manual("A", nil), Resumes: rs, Options: o,
		}})
		out = append(out, namedScen{fmt.Sprintf("resume-limit-terminal-self-enter-%d", mr), &gen.Scenario{
			Assets:  d.BaseAssets(d.Flow("A", "messaging", d.WaitNode("a1", "a2", nil), d.Node("a2", []any{d.Enter("a2e", "A", true)}, nil, d.Exit("a2x", "")))),
			Trigger: d.Manual("A", nil), Resumes: rs, Options: o,
		}})
		out = append(out, namedScen{fmt.Sprintf("resume-limit-timeouts-and-expirations-%d", mr), &gen.Scenario{
			Assets:  d.BaseAssets(d.Flow("A", "messaging", d.Node("a0", []any{d.Enter("a0e", "B", false)}, nil, d.Exit("a0x", "a0"))), d.Flow("B", "messaging", d.WaitNode("b1", "b2", sp("b2")), d.WaitNode("b2", "", sp("")))),
			Trigger: d.Manual("A", nil), Resumes: []gen.M{d.Timeout(0), d.MsgResume(1, "x"), d.Timeout(2), d.Timeout(3), d.MsgResume(4, "y"), d.Expiration(5), d.MsgResume(6, "z")}, Options: o,
		}})
	}
	for _, fc := range []int{0, 1, 2} {
		out = append(out, namedScen{fmt.Sprintf("tiny-field-result-chars-%d", fc), &gen.Scenario{
			Assets: d.BaseAssets(d.Flow("A", "messaging", d.Node("a1", []any{
				d.Action("n", "set_contact_name", gen.M{"name": "Robert 😀"}),
				d.Action("f", "set_contact_field", gen.M{"field": gen.M{"key": "nick", "name": "Nick Name"}, "value": "😀bobby"}),
				d.Action("f2", "set_contact_field", gen.M{"field": gen.M{"key": "age", "name": "Age"}, "value": "123456"}),
				d.Action("r", "set_run_result", gen.M{"name": "Big", "value": "😀value", "category": "Cat"}),
			}, nil, d.Exit("a1x", "")))),
			Trigger: d.Manual("A", nil), Options: gen.Options{Set: true, MaxSteps: 100, MaxResumes: 500, MaxTemplateChars: 10000, MaxFieldChars: fc, MaxResultChars: fc},
		}})
	}
	return out
}

func (p *c05) scenario(c fw.Case) (*gen.Scenario, *fw.Rand) {
	r := fw.NewRand(c.Seed, "C05", c.Index)
	if c.Directed != "" {
		if s := findDirected(engineDirected(), c.Directed); s != nil {
			return s, r
		}
		if s := findDirected(c05Lengths(), c.Directed); s != nil {
			return s, r
		}
		return findDirected(c05UnstableDirected(), c.Directed), r
	}
	o := gen.ScenOpts{LoopHeavy: r.Chance(0.6), SmallOptions: r.Chance(0.7), LongTexts: r.Chance(0.6), MaxNodes: r.Range(2, 8), ContactChanges: r.Chance(0.5)}
	if r.Chance(0.05) {
		return gen.LoopScen(r), r // the long-history family: the resume limit is within reach of the resumes
	}
	if r.Chance(0.06) {
		return c05UnstableScen(r), r // the length-unstable text family (c05_unstable.go)
	}
	s := gen.Scen(r, o)
	if o.LongTexts && r.Chance(0.25) {
		c05PlantUnstable(r, s)
	}
	return s, r
}

// errorGoesAwayWithoutLimit re-runs the history with MaxStepsPerSprint raised to 3x+20 and reports whether engine call
// #index then returns without a Go error.
func (p *c05) errorGoesAwayWithoutLimit(scen *gen.Scenario, seed int64, index int) bool {
	big := *scen
	eng := drive.NewEngine(scen.Options)
	o := gen.Options{Set: true, MaxSteps: eng.Options().MaxStepsPerSprint*3 + 20, MaxResumes: eng.Options().MaxResumesPerSession, MaxTemplateChars: eng.Options().MaxTemplateChars,
		MaxFieldChars: eng.Options().MaxFieldChars, MaxResultChars: eng.Options().MaxResultChars}
	big.Options = o
	rn, err := drive.Load(&big, seed)
	if err != nil {
		return false
	}
	gone := false
	rn.RunAll(func(rec *drive.CallRecord) {
		if rec.Index == index && rec.Err == nil && rec.Panic == nil && !rec.Budget {
			gone = true
		}
	})
	return gone
}

func (p *c05) Run(c fw.Case) fw.Result {
	res := fw.Result{}
	scen, _ := p.scenario(c)
	res.Fingerprint = scen.Fingerprint()
	rn, err := drive.Load(scen, c.Seed)
	if err != nil {
		res.Discarded = "unloadable: " + errClass(err.Error())
		return res
	}
	opts := rn.Eng.Options()
	accepted := 0
	rn.RunAll(func(rec *drive.CallRecord) {
		observeCommon(&res, rec)
		if rec.Kind == "unreadable" {
			return
		}
		entry := rec.Kind
		if rec.Kind == "resume" {
			entry += ":" + rec.ResumeType
		}
		viol := func(sig, what string, extra map[string]any) {
			if extra == nil {
				extra = map[string]any{}
			}
			extra["call_index"] = rec.Index
			extra["entry"] = entry
			res.Violate(sig, what, witnessOf(scen, extra))
		}
		res.Count("clause.no_panic_no_hang", 1)
		if rec.Panic != nil {
			viol(fw.PanicSignature("engine", rec.Panic, rec.PanicStack), fmt.Sprintf("engine call panicked: %v", trunc(fmt.Sprint(rec.Panic), 200)), map[string]any{"panic": fmt.Sprint(rec.Panic), "stack": fw.TrimStack(rec.PanicStack)})
			return
		}
		if rec.Budget {
			viol("C05|sprint-did-not-terminate|"+rec.Kind, fmt.Sprintf("sprint did not terminate within its logical step budget (%d clock reads, MaxStepsPerSprint=%d)", rec.ClockReads, opts.MaxStepsPerSprint), nil)
			return
		}
		if rec.Err != nil {
			if _, isEngErr := rec.Err.(*engine.Error); !isEngErr {
				res.Count("clause.goerror_not_from_limit", 1)
				// differential: the same history under a much larger step limit. If the call then returns without a Go
				// error, it was the step limit that produced the Go error.
				if strings.Contains(rec.Err.Error(), "maximum number") || p.errorGoesAwayWithoutLimit(scen, c.Seed, rec.Index) {
					viol("C05|limit-returned-go-error", "hitting the step limit returned a Go error instead of failing the session: "+trunc(rec.Err.Error(), 200), nil)
				}
			}
			return
		}
		s := rec.Session

		// steps per sprint
		res.Count("clause.steps_per_sprint", 1)
		newSteps := 0
		for _, r := range s.Runs() {
			before := 0
			if snap, ok := rec.RunsBefore[r.UUID()]; ok {
				before = snap.PathLen
			}
			newSteps += len(r.Path()) - before
		}
		if newSteps > opts.MaxStepsPerSprint {
			viol("C05|steps-exceed-limit", fmt.Sprintf("sprint visited %d steps, MaxStepsPerSprint=%d", newSteps, opts.MaxStepsPerSprint), nil)
		}
		stepLimitEvent, resumeLimitEvent, failureEvents := false, false, 0
		for _, e := range rec.Sprint.Events() {
			if e.Type() == "failure" {
				failureEvents++
				t := eventText(e)
				if strings.Contains(t, "maximum number of steps") {
					stepLimitEvent = true
				}
				if strings.Contains(t, "maximum number of resumes") {
					resumeLimitEvent = true
				}
			}
		}
		if stepLimitEvent || resumeLimitEvent {
			res.Count("clause.limit_means_failed", 1)
			if stepLimitEvent {
				res.Count("seen.step_limit", 1)
			}
			if resumeLimitEvent {
				res.Count("seen.resume_limit", 1)
			}
			if s.Status() != flows.SessionStatusFailed {
				viol("C05|limit-hit-but-not-failed", fmt.Sprintf("a limit failure event was emitted but the session is %s", s.Status()), nil)
			}
		}
		if newSteps == opts.MaxStepsPerSprint && s.Status() == flows.SessionStatusFailed && failureEvents == 0 {
			viol("C05|failed-at-limit-without-failure-event", "session failed after exactly MaxStepsPerSprint steps but the sprint has no failure event", nil)
		}

		// resume limit
		if rec.Kind == "resume" {
			res.Count("clause.resume_limit", 1)
			if !resumeLimitEvent {
				accepted++ // the resume was applied (assets never change in this check, so no other pre-resume failure exists)
			}
			if accepted > opts.MaxResumesPerSession {
				viol("C05|resumes-exceed-limit", fmt.Sprintf("%d resumes were accepted, MaxResumesPerSession=%d", accepted, opts.MaxResumesPerSession), nil)
			}
		}

		// lengths
		checkLen := func(clause, what, val string, limit int, bytesNotRunes bool) {
			res.Count("clause."+clause, 1)
			n := utf8.RuneCountInString(val)
			if bytesNotRunes {
				n = len(val)
			}
			if n > limit {
				viol("C05|too-long|"+clause, fmt.Sprintf("%s has length %d > limit %d", what, n, limit), map[string]any{"value": trunc(val, 300)})
			}
			if n >= limit-3 && n <= limit {
				res.Count("seen.cut_value", 1)
			}
			// evidence for the length-unstable class: a checked value at or near its limit that holds code points whose number
			// changes under normalisation / case mapping (per kind of transformation and per clause)
			if n >= limit-3 {
				if k := c05UnstableKind(val); k != "" {
					res.Count("seen.cut_value_length_unstable", 1)
					res.Count("seen.length_unstable."+k+"."+clause, 1)
				}
			}
			if !utf8.ValidString(val) {
				viol("C05|invalid-utf8|"+clause, what+" is not valid UTF-8 after truncation", map[string]any{"value": fmt.Sprintf("%q", trunc(val, 300))})
			}
		}
		for i, e := range rec.Sprint.Events() {
			var m map[string]any
			if json.Unmarshal(rec.EventsJSON[i], &m) != nil {
				continue
			}
			switch e.Type() {
			case "msg_created", "ivr_created":
				msg, _ := m["msg"].(map[string]any)
				if msg == nil {
					continue
				}
				if _, templ := msg["templating"]; !templ {
					if t, ok := msg["text"].(string); ok {
						checkLen("msg_text_len", e.Type()+".msg.text", t, opts.MaxTemplateChars, false)
					}
				}
				if qrs, ok := msg["quick_replies"].([]any); ok {
					for _, q := range qrs {
						if qs, ok := q.(string); ok {
							checkLen("quick_reply_len", "quick reply", qs, flows.MaxQuickReplyLength, false)
						}
					}
				}
				if atts, ok := msg["attachments"].([]any); ok {
					for _, a := range atts {
						if as, ok := a.(string); ok {
							checkLen("attachment_len", "attachment", as, flows.MaxAttachmentLength, true)
						}
					}
				}
			case "contact_name_changed":
				if n, ok := m["name"].(string); ok {
					checkLen("name_len", "contact_name_changed.name", n, opts.MaxFieldChars, false)
				}
			case "contact_field_changed":
				if v, ok := m["value"].(map[string]any); ok {
					if t, ok := v["text"].(string); ok {
						checkLen("field_len", "contact_field_changed.value.text", t, opts.MaxFieldChars, false)
					}
				}
			case "run_result_changed":
				if v, ok := m["value"].(string); ok {
					checkLen("result_len", "run_result_changed.value", v, opts.MaxResultChars, false)
				}
			}
		}
		// stored results changed in this sprint, contact name / fields as handed back
		for _, r := range s.Runs() {
			snap := rec.RunsBefore[r.UUID()]
			for k, v := range r.Results() {
				if snap.Results == nil || snap.Results[k] != string(marshalJSON(v)) {
					checkLen("result_len", "stored result value", v.Value, opts.MaxResultChars, false)
				}
			}
		}
		if s.Contact() != nil && rec.ContactBefore != nil && string(rec.ContactBefore) != string(rec.ContactAfter) {
			var cb, ca struct {
				Name   string                    `json:"name"`
				Fields map[string]map[string]any `json:"fields"`
			}
			json.Unmarshal(rec.ContactBefore, &cb)
			json.Unmarshal(rec.ContactAfter, &ca)
			refreshed := false
			for _, e := range rec.Sprint.Events() {
				if e.Type() == "contact_refreshed" {
					refreshed = true
				}
			}
			if !refreshed {
				if ca.Name != cb.Name {
					checkLen("name_len", "contact name after sprint", ca.Name, opts.MaxFieldChars, false)
				}
				for k, fv := range ca.Fields {
					t, _ := fv["text"].(string)
					var bt string
					if cb.Fields[k] != nil {
						bt, _ = cb.Fields[k]["text"].(string)
					}
					if t != bt {
						checkLen("field_len", "contact field text after sprint", t, opts.MaxFieldChars, false)
					}
				}
			}
		}
	})
	if len(rn.Log) > 0 && rn.Log[0].Kind == "unreadable" {
		res.Discarded = "unreadable trigger: " + errClass(rn.Log[0].Err.Error())
		return res
	}
	res.NonTrivial = res.Counters["seen.step_limit"]+res.Counters["seen.resume_limit"]+res.Counters["seen.cut_value"] > 0
	if res.NonTrivial {
		res.Sample = scenSample(scen, rn)
	}
	return res
}
