package props

import (
	"bytes"
	"encoding/json"
	"fmt"
	"sort"
	"strings"
	"time"

	"github.com/nyaruka/goflow/assets"
	"github.com/nyaruka/goflow/envs"
	"github.com/nyaruka/goflow/flows"
	"github.com/nyaruka/goflow/flows/modifiers"

	"verif/internal/drive"
	"verif/internal/fw"
	"verif/internal/gen"
)

// C06 — query-based group membership always matches the contact.
// Invariant hook evaluated on the live contact whenever the engine hands back a session and after every
// directly applied modifier; the oracle is the real query evaluator (its own correctness is C15).

type c06 struct{ scenBase }

func init() {
	fw.Register(&c06{scenBase{id: "C06", quickN: 4000, thorN: 300000}})
}

func (p *c06) Rule() string {
	return "even cases: generated scenario with 2-6 query-based groups over every queryable property, starting contacts whose stored membership may be wrong, flows/triggers/resumes that change each property by every route; after every engine call that returns a session: for every query group, membership == (contact active && query matches) under the session environment or the merged (contact timezone) environment, a contact that became non-active is in no static group, and the net group delta equals the net effect of the contact_groups_changed events. odd cases: one contact x 12 modifiers through modifiers.Apply with the same checks. Non-trivial = a query group's membership changed or was wrong at the start; distinct = SHA of the scenario / (contact, modifiers)."
}

func (p *c06) Directed() []string {
	return []string{"msg-trigger-last-seen-group", "msg-resume-last-seen-group", "ticket-group", "field-flips-group", "status-clears-static", "wrong-stored-membership", "urn-group", "refresh-changes-groups"}
}

func (p *c06) Floors(tier string) []string {
	return []string{"clause.membership", "clause.membership_in", "clause.membership_out", "clause.nonactive_static", "clause.delta_vs_events", "clause.reference_membership", "seen.membership_changed", "seen.wrong_at_start",
		"route.msg_received", "route.contact_field_changed", "route.contact_status_changed", "route.ticket_opened", "route.contact_urns_changed", "route.contact_name_changed", "route.contact_language_changed", "mods.applied"}
}

// checkMembership evaluates the invariant on a live contact. envsToTry: membership must match under at least one.
func checkMembership(res *fw.Result, sa flows.SessionAssets, contact *flows.Contact, envsToTry []envs.Environment, viol func(sig, what string, extra map[string]any)) {
	for _, g := range sa.Groups().All() {
		if !g.UsesQuery() {
			continue
		}
		in := contact.Groups().FindByUUID(g.UUID()) != nil
		ok := false
		var should []bool
		for _, e := range envsToTry {
			s := g.CheckQueryBasedMembership(e, contact)
			should = append(should, s)
			if s == in {
				ok = true
			}
		}
		res.Count("clause.membership", 1)
		if in {
			res.Count("clause.membership_in", 1)
		} else {
			res.Count("clause.membership_out", 1)
		}
		if !ok {
			dir := "missing-from-group"
			if in {
				dir = "stale-member"
			}
			viol("C06|membership-mismatch|"+dir+"|"+queryProps(g.Query()), fmt.Sprintf("contact in group %q = %v but its query %q matches = %v", g.Name(), in, g.Query(), should),
				map[string]any{"group": g.Name(), "query": g.Query(), "in_group": in, "query_matches": should})
		}
	}
}

// queryProps names the properties a query is about (coarse signature part).
func queryProps(q string) string {
	var ps []string
	for _, p := range []string{"last_seen_on", "created_on", "tickets", "name", "language", "tel", "twitter", "urn", "age", "gender", "joined", "state", "district", "ward", "nick"} {
		if strings.Contains(q, p) {
			ps = append(ps, p)
		}
	}
	sort.Strings(ps)
	return strings.Join(ps, "+")
}

func groupIDs(c contactModel) map[string]bool {
	out := map[string]bool{}
	if l, ok := c["groups"].([]any); ok {
		for _, g := range l {
			out[refUUID(g)] = true
		}
	}
	return out
}

// checkReference compares the membership of every query group with the independent reference evaluator (where it knows
// the answer) under each of the given timezones; membership must agree with the reference under at least one of them.
func checkReference(res *fw.Result, sa flows.SessionAssets, contact *flows.Contact, tzs []*time.Location, viol func(sig, what string, extra map[string]any)) {
	var rc refContact
	d := json.NewDecoder(bytes.NewReader(marshalJSON(contact)))
	d.UseNumber()
	if d.Decode(&rc) != nil {
		return
	}
	active := rc.Status == "" || rc.Status == "active"
	for _, g := range sa.Groups().All() {
		if !g.UsesQuery() {
			continue
		}
		q := parseRefQuery(g.Query())
		if q == nil {
			res.Count("reference.unparsed", 1)
			continue
		}
		in := contact.Groups().FindByUUID(g.UUID()) != nil
		known, agree := false, false
		var refs []bool
		for _, tz := range tzs {
			r, k := q.eval(&rc, tz)
			if !k {
				continue
			}
			known = true
			want := active && r
			refs = append(refs, want)
			if want == in {
				agree = true
			}
		}
		if !known {
			res.Count("reference.unknown", 1)
			continue
		}
		res.Count("clause.reference_membership", 1)
		if !agree {
			viol("C06|reference-mismatch|"+queryProps(g.Query()), fmt.Sprintf("contact in group %q = %v but an independent evaluation of its query %q on the contact JSON gives %v", g.Name(), in, g.Query(), refs),
				map[string]any{"group": g.Name(), "query": g.Query(), "in_group": in, "reference": refs, "contact": string(marshalJSON(contact))})
		}
	}
}

func (p *c06) Run(c fw.Case) fw.Result {
	res := fw.Result{}
	r := fw.NewRand(c.Seed, "C06", c.Index)
	switch {
	case c.Directed != "":
		p.engine(&res, p.directed(c.Directed), c)
	case c.Gen%2 == 0:
		o := gen.ScenOpts{ContactChanges: true, QueryGroups: true, MaxNodes: r.Range(2, 6)}
		p.engine(&res, gen.Scen(r, o), c)
	default:
		p.mods(&res, r, c)
	}
	return res
}

func (p *c06) directed(name string) *gen.Scenario {
	d := dsl
	act := func(n, typ string, kv gen.M) gen.M { return d.Action(n, typ, kv) }
	one := func(actions ...any) gen.M {
		return d.BaseAssets(d.Flow("A", "messaging", d.WaitNode("a1", "a2", nil), d.Node("a2", actions, nil, d.Exit("a2x", "a3")), d.WaitNode("a3", "", nil)))
	}
	switch name {
	case "msg-trigger-last-seen-group":
		return &gen.Scenario{Assets: d.BaseAssets(d.Flow("A", "messaging", d.Node("a0", []any{d.SendMsg("m", "hi")}, nil, d.Exit("a0x", "a1")), d.WaitNode("a1", "", nil))), Trigger: d.MsgTrigger("A", nil, "hello"), Resumes: []gen.M{d.MsgResume(0, "x")}}
	case "msg-resume-last-seen-group":
		return &gen.Scenario{Assets: one(d.SendMsg("m", "hi")), Trigger: d.Manual("A", nil), Resumes: []gen.M{d.MsgResume(0, "x"), d.MsgResume(1, "y")}}
	case "ticket-group":
		return &gen.Scenario{Assets: one(act("o", "open_ticket", gen.M{"topic": gen.M{"uuid": gen.NamedUUID("topic:weather"), "name": "Weather"}, "body": "help", "result_name": "Ticket"})), Trigger: d.Manual("A", nil), Resumes: []gen.M{d.MsgResume(0, "x"), d.MsgResume(1, "y")}}
	case "field-flips-group":
		return &gen.Scenario{Assets: one(act("f", "set_contact_field", gen.M{"field": gen.M{"key": "age", "name": "Age"}, "value": "@input.text"}), act("n", "set_contact_name", gen.M{"name": "Alice"}), act("l", "set_contact_language", gen.M{"language": "spa"})), Trigger: d.Manual("A", nil), Resumes: []gen.M{d.MsgResume(0, "12"), d.MsgResume(1, "y")}}
	case "status-clears-static":
		return &gen.Scenario{Assets: one(act("s", "set_contact_status", gen.M{"status": "blocked"}), act("g", "add_contact_groups", gen.M{"groups": []gen.M{{"uuid": gen.NamedUUID("group:customers"), "name": "Customers"}}})), Trigger: d.Manual("A", nil), Resumes: []gen.M{d.MsgResume(0, "x"), d.MsgResume(1, "y")}}
	case "wrong-stored-membership":
		ct := d.Contact()
		ct["groups"] = []gen.M{{"uuid": gen.NamedUUID("group:ticketed"), "name": "Ticketed"}, {"uuid": gen.NamedUUID("group:testers"), "name": "Testers"}} // in Ticketed without a ticket, not in Adults although 23
		return &gen.Scenario{Assets: one(d.SendMsg("m", "hi")), Trigger: d.Manual("A", ct), Resumes: []gen.M{d.MsgResume(0, "x")}}
	case "urn-group":
		ct := d.Contact()
		ct["urns"] = []string{}
		delete(ct, "urns")
		return &gen.Scenario{Assets: one(act("u", "add_contact_urn", gen.M{"scheme": "tel", "path": "+12065553333"})), Trigger: d.Manual("A", ct), Resumes: []gen.M{d.MsgResume(0, "x"), d.MsgResume(1, "y")}}
	case "refresh-changes-groups":
		nc := d.Contact()
		nc["fields"] = gen.M{"age": gen.M{"text": "12", "number": 12}}
		nc["name"] = "Jim"
		rs := d.MsgResume(0, "hi")
		rs["contact"] = nc
		return &gen.Scenario{Assets: one(d.SendMsg("m", "hi")), Trigger: d.Manual("A", nil), Resumes: []gen.M{rs, d.MsgResume(1, "y")}}
	}
	return nil
}

func (p *c06) engine(res *fw.Result, scen *gen.Scenario, c fw.Case) {
	res.Fingerprint = scen.Fingerprint()
	rn, err := drive.Load(scen, c.Seed)
	if err != nil {
		res.Discarded = "unloadable: " + errClass(err.Error())
		return
	}
	var startContact []byte
	if cj, err := json.Marshal(scen.Trigger["contact"]); err == nil {
		if ct, err := flows.ReadContact(rn.SA, cj, func(assets.Reference, error) {}); err == nil {
			startContact = marshalJSON(ct)
			// was the stored membership wrong?
			env := envs.NewBuilder().Build()
			for _, g := range rn.SA.Groups().All() {
				if g.UsesQuery() && (ct.Groups().FindByUUID(g.UUID()) != nil) != g.CheckQueryBasedMembership(env, ct) {
					res.Count("seen.wrong_at_start", 1)
					res.NonTrivial = true
				}
			}
		}
	}
	rn.RunAll(func(rec *drive.CallRecord) {
		observeCommon(res, rec)
		if !rec.OK() || rec.Kind == "unreadable" || rec.Session == nil || rec.Session.Contact() == nil {
			return
		}
		s := rec.Session
		entry := rec.Kind
		if rec.Kind == "resume" {
			entry += ":" + rec.ResumeType
		} else if rec.Trigger != nil {
			entry += ":" + rec.Trigger.Type()
		}
		viol := func(sig, what string, extra map[string]any) {
			extra["call_index"] = rec.Index
			extra["entry"] = entry
			extra["contact_after"] = string(rec.ContactAfter)
			res.Violate(sig+"|"+entry, what, witnessOf(scen, extra))
		}
		checkMembership(res, rn.SA, s.Contact(), []envs.Environment{s.Environment(), s.MergedEnvironment()}, viol)
		checkReference(res, rn.SA, s.Contact(), []*time.Location{s.Environment().Timezone(), s.MergedEnvironment().Timezone()}, viol)

		before := rec.ContactBefore
		if rec.Kind == "start" {
			before = startContact
		}
		refreshed := false
		for _, e := range rec.Sprint.Events() {
			switch e.Type() {
			case "contact_refreshed":
				refreshed = true
			case "msg_received", "contact_field_changed", "contact_status_changed", "ticket_opened", "contact_urns_changed", "contact_name_changed", "contact_language_changed":
				res.Count("route."+e.Type(), 1)
			}
		}
		if before == nil {
			return
		}
		bm := decodeContact(before)
		am := decodeContact(rec.ContactAfter)
		statusOf := func(m contactModel) string {
			if s, _ := m["status"].(string); s != "" {
				return s
			}
			return "active"
		}
		// non-active ⇒ no static groups (for contacts that became non-active in this sprint)
		if statusOf(am) != "active" && statusOf(bm) == "active" && !refreshed {
			res.Count("clause.nonactive_static", 1)
			for _, g := range s.Contact().Groups().All() {
				if !g.UsesQuery() {
					viol("C06|nonactive-contact-in-static-group", fmt.Sprintf("contact became %s but is still in static group %q", statusOf(am), g.Name()), map[string]any{"group": g.Name()})
				}
			}
		}
		// net delta vs events
		res.Count("clause.delta_vs_events", 1)
		model := bm
		for i, e := range rec.Sprint.Events() {
			if e.Type() == "contact_groups_changed" || e.Type() == "contact_refreshed" {
				var ev map[string]any
				d := json.NewDecoder(bytes.NewReader(rec.EventsJSON[i]))
				d.UseNumber()
				d.Decode(&ev)
				model = model.applyEvent(ev, "", nil)
			}
		}
		want, got := groupIDs(model), groupIDs(am)
		if len(want) != len(got) || func() bool {
			for k := range want {
				if !got[k] {
					return true
				}
			}
			return false
		}() {
			viol("C06|group-delta-not-reported", "net change of group membership in the sprint differs from the net effect of its contact_groups_changed events", map[string]any{"contact_before": string(before)})
		}
		if fmt.Sprint(groupIDs(bm)) != fmt.Sprint(got) {
			res.Count("seen.membership_changed", 1)
			res.NonTrivial = true
		}
	})
	if len(rn.Log) > 0 && rn.Log[0].Kind == "unreadable" {
		res.Discarded = "unreadable trigger: " + errClass(rn.Log[0].Err.Error())
		return
	}
	if res.NonTrivial {
		res.Sample = scenSample(scen, rn)
	}
}

func (p *c06) mods(res *fw.Result, r *fw.Rand, c fw.Case) {
	o := gen.ScenOpts{QueryGroups: true, MaxNodes: 1}
	scen := gen.Scen(r, o)
	scen.Resumes = nil
	rn, err := drive.Load(scen, c.Seed)
	if err != nil {
		res.Discarded = "unloadable: " + errClass(err.Error())
		return
	}
	cj, _ := json.Marshal(scen.Trigger["contact"])
	contact, err := flows.ReadContact(rn.SA, cj, func(assets.Reference, error) {})
	if err != nil {
		res.Discarded = "unreadable contact: " + errClass(err.Error())
		return
	}
	env := gen.Env(r)
	// the statement speaks about the state *after* a modifier; bring the stored membership in line first, as a caller
	// that loads a contact does, so that "wrong at the start" is not blamed on a modifier that changes nothing
	modifiers.ReevaluateGroups(env, contact, func(flows.Event) {})
	c03p := &c03{}
	mods := c03p.genMods(r, rn.SA, scen.Assets, 12, false)
	var descs []string
	for _, m := range mods {
		descs = append(descs, m.desc)
	}
	res.Fingerprint = string(cj) + "|" + strings.Join(descs, ";")
	for i, ms := range mods {
		before := marshalJSON(contact)
		statusBefore := contact.Status()
		var evs []flows.Event
		var pan any
		var modified bool
		func() {
			defer func() { pan = recover() }()
			modified = modifiers.Apply(rn.Eng, env, rn.SA, contact, ms.mod, func(e flows.Event) { evs = append(evs, e) })
		}()
		if pan != nil {
			res.Count("modifier_panics", 1)
			break
		}
		res.Count("mods.applied", 1)
		after := marshalJSON(contact)
		viol := func(sig, what string, extra map[string]any) {
			extra["assets"] = scen.Assets
			extra["start_contact"] = json.RawMessage(cj)
			extra["modifiers_in_order"] = descs[:i+1]
			extra["contact_before"] = string(before)
			extra["contact_after"] = string(after)
			extra["modified"] = modified
			res.Violate(sig+"|modifier:"+ms.kind, what, extra)
		}
		checkMembership(res, rn.SA, contact, []envs.Environment{env}, viol)
		checkReference(res, rn.SA, contact, []*time.Location{env.Timezone()}, viol)
		if contact.Status() != flows.ContactStatusActive && statusBefore == flows.ContactStatusActive {
			res.Count("clause.nonactive_static", 1)
			for _, g := range contact.Groups().All() {
				if !g.UsesQuery() {
					viol("C06|nonactive-contact-in-static-group", fmt.Sprintf("contact became %s but is still in static group %q", contact.Status(), g.Name()), map[string]any{"group": g.Name()})
				}
			}
		}
		res.Count("clause.delta_vs_events", 1)
		model := decodeContact(before)
		for _, e := range evs {
			if e.Type() == "contact_groups_changed" {
				var ev map[string]any
				d := json.NewDecoder(bytes.NewReader(marshalJSON(e)))
				d.UseNumber()
				d.Decode(&ev)
				model = model.applyEvent(ev, "", nil)
			}
			switch e.Type() {
			case "contact_field_changed", "contact_status_changed", "ticket_opened", "contact_urns_changed", "contact_name_changed", "contact_language_changed":
				res.Count("route."+e.Type(), 1)
			}
		}
		if fmt.Sprint(groupIDs(model)) != fmt.Sprint(groupIDs(decodeContact(after))) {
			viol("C06|group-delta-not-reported", "net change of group membership made by modifiers.Apply differs from the net effect of its contact_groups_changed events", map[string]any{})
		}
		if fmt.Sprint(groupIDs(decodeContact(before))) != fmt.Sprint(groupIDs(decodeContact(after))) {
			res.Count("seen.membership_changed", 1)
			res.NonTrivial = true
		}
	}
	if res.NonTrivial {
		res.Sample = map[string]any{"kind": "modifiers", "contact": json.RawMessage(cj), "modifiers": descs}
	}
}
