package props

import (
	"bytes"
	"encoding/json"
	"fmt"
	"sort"
	"strings"
	"time"

	"github.com/nyaruka/goflow/assets"
	"github.com/nyaruka/goflow/envs"
	"github.com/nyaruka/goflow/flows"
	"github.com/nyaruka/goflow/flows/modifiers"

	"verif/internal/drive"
	"verif/internal/fw"
	"verif/internal/gen"
)

// C06 — query-based group membership always matches the contact.
// Invariant hook evaluated on the live contact whenever the engine hands back a session and after every
// directly applied modifier; the oracle is the real query evaluator (its own correctness is C15).

type c06 struct{ scenBase }

func init() {
	fw.Register(&c06{scenBase{id: "C06", quickN: 4000, thorN: 300000}})
}

func (p *c06) Rule() string {
	return "even cases: generated scenario with 2-6 query-based groups over every queryable property, starting contacts whose stored membership may be wrong, flows/triggers/resumes that change each property by every route; after every engine call that returns a session: for every query group, membership == (contact active && query matches) under the session environment or the merged (contact timezone) environment, a contact that became non-active is in no static group, and the net group delta equals the net effect of the contact_groups_changed events. odd cases: one contact x 12 modifiers through modifiers.Apply with the same checks. In addition (own random stream): 30% of the even cases re-use ONE loaded contact for 2-4 operations on copies of it (start the flow again through a trigger built around it, clone + modifiers, modifiers on the contact itself), half of them with stored field values whose typed parts are not what their text parses to; 40% of the odd cases run such a contact through modifiers that set a field to the text it already has; every 50th case lets 4-8 goroutines make their first group re-evaluation (ReevaluateGroups / modifiers.Apply / NewSession) over the same freshly created session assets with 150-400 query groups, 3 rounds. Non-trivial = a query group's membership changed or was wrong at the start; distinct = SHA of the scenario / (contact, modifiers)."
}

func (p *c06) Directed() []string {
	return []string{"msg-trigger-last-seen-group", "msg-resume-last-seen-group", "ticket-group", "field-flips-group", "status-clears-static", "wrong-stored-membership", "urn-group", "refresh-changes-groups",
		"stale-typed-same-text-action", "shared-contact-wrong-stored-membership", "shared-contact-flow-changes-membership", "stale-typed-same-text-modifier", "concurrent-first-use-modifiers", "concurrent-first-use-sessions"}
}

func (p *c06) Floors(tier string) []string {
	return []string{"clause.membership", "clause.membership_in", "clause.membership_out", "clause.nonactive_static", "clause.delta_vs_events", "clause.reference_membership", "seen.membership_changed", "seen.wrong_at_start",
		"route.msg_received", "route.contact_field_changed", "route.contact_status_changed", "route.ticket_opened", "route.contact_urns_changed", "route.contact_name_changed", "route.contact_language_changed", "mods.applied",
		"shared.second_sessions", "shared.clones_modified", "shared.original_modified", "stale_typed.same_text_changed_value", "concurrent.first_evaluations"}
}

// checkMembership evaluates the invariant on a live contact. envsToTry: membership must match under at least one.
func checkMembership(res *fw.Result, sa flows.SessionAssets, contact *flows.Contact, envsToTry []envs.Environment, viol func(sig, what string, extra map[string]any)) {
	for _, g := range sa.Groups().All() {
		if !g.UsesQuery() {
			continue
		}
		// "belongs to" is observed both ways a caller can: by walking the contact's group list (what is marshalled) and by
		// looking the group up; the two are judged separately, so a lookup that answers from something other than the list
		// cannot hide a wrong list (or the other way round)
		held, found := heldInList(contact, g), contact.Groups().FindByUUID(g.UUID()) != nil
		in := held > 0
		ok, okFound := false, false
		var should []bool
		for _, e := range envsToTry {
			s := g.CheckQueryBasedMembership(e, contact)
			should = append(should, s)
			if s == in {
				ok = true
			}
			if s == found {
				okFound = true
			}
		}
		if found != in {
			res.Count("seen.lookup_differs_from_list", 1)
		}
		if ok && !okFound {
			ok, in = false, found
		}
		res.Count("clause.membership", 1)
		if in {
			res.Count("clause.membership_in", 1)
		} else {
			res.Count("clause.membership_out", 1)
		}
		if !ok {
			dir := "missing-from-group"
			if in {
				dir = "stale-member"
			}
			viol("C06|membership-mismatch|"+dir+"|"+queryProps(g.Query()), fmt.Sprintf("contact in group %q = %v but its query %q matches = %v", g.Name(), in, g.Query(), should),
				map[string]any{"group": g.Name(), "query": g.Query(), "in_group": in, "query_matches": should})
		}
	}
}

// queryProps names the properties a query is about (coarse signature part).
func queryProps(q string) string {
	var ps []string
	for _, p := range []string{"last_seen_on", "created_on", "tickets", "name", "language", "tel", "twitter", "urn", "age", "gender", "joined", "state", "district", "ward", "nick"} {
		if strings.Contains(q, p) {
			ps = append(ps, p)
		}
	}
	sort.Strings(ps)
	return strings.Join(ps, "+")
}

func groupIDs(c contactModel) map[string]bool {
	out := map[string]bool{}
	if l, ok := c["groups"].([]any); ok {
		for _, g := range l {
			out[refUUID(g)] = true
		}
	}
	return out
}

// checkReference compares the membership of every query group with the independent reference evaluator (where it knows
// the answer) under each of the given timezones; membership must agree with the reference under at least one of them.
func checkReference(res *fw.Result, sa flows.SessionAssets, contact *flows.Contact, tzs []*time.Location, viol func(sig, what string, extra map[string]any)) {
	var rc refContact
	d := json.NewDecoder(bytes.NewReader(marshalJSON(contact)))
	d.UseNumber()
	if d.Decode(&rc) != nil {
		return
	}
	active := rc.Status == "" || rc.Status == "active"
	for _, g := range sa.Groups().All() {
		if !g.UsesQuery() {
			continue
		}
		q := parseRefQuery(g.Query())
		if q == nil {
			res.Count("reference.unparsed", 1)
			continue
		}
		in := heldInList(contact, g) > 0
		known, agree := false, false
		var refs []bool
		for _, tz := range tzs {
			r, k := q.eval(&rc, tz)
			if !k {
				continue
			}
			known = true
			want := active && r
			refs = append(refs, want)
			if want == in {
				agree = true
			}
		}
		if !known {
			res.Count("reference.unknown", 1)
			continue
		}
		res.Count("clause.reference_membership", 1)
		if !agree {
			viol("C06|reference-mismatch|"+queryProps(g.Query()), fmt.Sprintf("contact in group %q = %v but an independent evaluation of its query %q on the contact JSON gives %v", g.Name(), in, g.Query(), refs),
				map[string]any{"group": g.Name(), "query": g.Query(), "in_group": in, "reference": refs, "contact": string(marshalJSON(contact))})
		}
	}
}

func (p *c06) Run(c fw.Case) fw.Result {
	res := fw.Result{}
	r := fw.NewRand(c.Seed, "C06", c.Index)
	// r2 drives the history shapes that are run in addition to the case's own (shared contact, stale typed parts,
	// concurrent first use): a stream of its own, so that what r generates does not depend on them
	r2 := fw.NewRand(c.Seed, "C06+", c.Index)
	switch {
	case c.Directed != "":
		if !p.directedShape(&res, r2, c) {
			p.engine(&res, p.directed(c.Directed), c)
		}
	case c.Gen%2 == 0:
		o := gen.ScenOpts{ContactChanges: true, QueryGroups: true, MaxNodes: r.Range(2, 6)}
		scen := gen.Scen(r, o)
		rn := p.engine(&res, scen, c)
		if rn == nil || res.Discarded != "" {
			break
		}
		contactM := copyM(asM(scen.Trigger["contact"]))
		if contactM == nil {
			break
		}
		if r2.Chance(0.3) {
			if r2.Chance(0.5) && staleTypedParts(r2, contactM, scen.Assets) > 0 {
				res.Count("shared.contacts_with_stale_typed_parts", 1)
			}
			n := r2.Range(2, 4)
			ops := ""
			for i := 0; i < n; i++ {
				ops += fw.Pick(r2, []string{"s", "s", "m", "c", "o"})
			}
			p.sharedPhase(&res, r2, scen, rn, contactM, ops, r2.Chance(0.5))
		}
		if c.Gen%50 == 8 {
			modes := []string{"reevaluate", "modifier", "session"}
			fw.Shuffle(r2, modes)
			p.concurrentPhase(&res, r2, scen, contactM, r2.Range(4, 8), 3, r2.Range(0, 200), r2.Range(150, 400), modes)
		}
	default:
		scen, rn := p.mods(&res, r, c)
		if rn == nil || res.Discarded != "" {
			break
		}
		if contactM := asM(scen.Trigger["contact"]); contactM != nil && r2.Chance(0.4) {
			p.staleTypedPhase(&res, r2, scen, rn, contactM, r2.Range(3, 5))
		}
	}
	return res
}

// directedShape runs the directed cases of the additional history shapes; false = name is an ordinary engine scenario.
func (p *c06) directedShape(res *fw.Result, r2 *fw.Rand, c fw.Case) bool {
	d := dsl
	flowA := func(actions ...any) gen.M {
		return d.BaseAssets(d.Flow("A", "messaging", d.Node("a0", actions, nil, d.Exit("a0x", "a1")), d.WaitNode("a1", "", nil)))
	}
	load := func(scen *gen.Scenario) *drive.Runner {
		res.Fingerprint = c.Directed + "|" + scen.Fingerprint()
		rn, err := drive.Load(scen, c.Seed)
		if err != nil {
			res.Discarded = "unloadable: " + errClass(err.Error())
			return nil
		}
		return rn
	}
	grp := func(names ...string) []gen.M {
		keys := map[string]string{"Testers": "testers", "Customers": "customers", "Adults": "adults", "Seen": "seen", "Ticketed": "ticketed", "Bobs": "bobs", "With Tel": "tel", "English": "eng"}
		var out []gen.M
		for _, n := range names {
			out = append(out, gen.M{"uuid": gen.NamedUUID("group:" + keys[n]), "name": n})
		}
		return out
	}
	switch c.Directed {
	case "shared-contact-wrong-stored-membership":
		// stored membership is wrong; the flow changes nothing: every start has to put its own copy right
		ct := d.Contact()
		ct["groups"] = grp("Testers", "Ticketed", "Seen")
		scen := &gen.Scenario{Assets: flowA(d.SendMsg("m", "hi")), Trigger: d.Manual("A", ct), Resumes: []gen.M{d.MsgResume(0, "x")}}
		if rn := load(scen); rn != nil {
			p.sharedPhase(res, r2, scen, rn, copyM(ct), "ssmco", true)
		}
	case "shared-contact-flow-changes-membership":
		// stored membership is right; the flow moves the contact out of two query groups and into none
		ct := d.Contact()
		ct["groups"] = grp("Testers", "Adults", "Bobs", "With Tel", "English")
		scen := &gen.Scenario{Assets: flowA(d.Action("l", "set_contact_language", gen.M{"language": "spa"}), d.Action("f", "set_contact_field", gen.M{"field": gen.M{"key": "age", "name": "Age"}, "value": "12"})),
			Trigger: d.Manual("A", ct), Resumes: []gen.M{d.MsgResume(0, "x")}}
		if rn := load(scen); rn != nil {
			p.sharedPhase(res, r2, scen, rn, copyM(ct), "smsoc", true)
		}
	case "stale-typed-same-text-modifier":
		// number / datetime / state fields stored as text only, or with the typed part of another text; each is set again to
		// the text it has
		ct := d.Contact()
		ct["fields"] = gen.M{"age": gen.M{"text": "41"}, "joined": gen.M{"text": "2018-05-05T10:00:00Z", "datetime": "2016-02-29T12:00:00Z"}, "state": gen.M{"text": "Kigali"}, "gender": gen.M{"text": "male"}}
		ct["groups"] = grp("Testers", "Bobs", "With Tel", "English")
		as := flowA(d.SendMsg("m", "hi"))
		as["groups"] = append(as["groups"].([]gen.M), gen.M{"uuid": gen.NamedUUID("group:noage"), "name": "No Age", "query": `age = ""`}, gen.M{"uuid": gen.NamedUUID("group:joined18"), "name": "Joined 2018", "query": `joined > "2018-01-01"`},
			gen.M{"uuid": gen.NamedUUID("group:instate"), "name": "In State", "query": `state != ""`})
		scen := &gen.Scenario{Assets: as, Trigger: d.Manual("A", ct)}
		rn := load(scen)
		if rn == nil {
			break
		}
		cj, _ := json.Marshal(ct)
		contact, err := flows.ReadContact(rn.SA, cj, func(assets.Reference, error) {})
		if err != nil {
			res.Discarded = "unreadable contact: " + errClass(err.Error())
			break
		}
		res.Count("stale_typed.contacts", 1)
		env := scenEnv(scen)
		modifiers.ReevaluateGroups(env, contact, func(flows.Event) {})
		var descs []string
		for _, key := range []string{"age", "joined", "state", "gender", "age"} {
			f := rn.SA.Fields().Get(key)
			text := contact.Fields()[key].Text.Native()
			ms := modSpec{"field", fmt.Sprintf("field %s=%s (same text)", key, text), modifiers.NewField(f, text)}
			descs = append(descs, ms.desc)
			before := marshalJSON(contact)
			res.Count("stale_typed.same_text_mods", 1)
			if !p.applyModChecked(res, rn, env, contact, ms, func(extra map[string]any) {
				extra["assets"] = scen.Assets
				extra["start_contact"] = json.RawMessage(cj)
				extra["modifiers_in_order"] = append([]string{}, descs...)
			}, "") {
				break
			}
			if string(before) != string(marshalJSON(contact)) {
				res.Count("stale_typed.same_text_changed_value", 1)
			}
		}
	case "concurrent-first-use-modifiers", "concurrent-first-use-sessions":
		scen := &gen.Scenario{Assets: flowA(d.SendMsg("m", "hi")), Trigger: d.Manual("A", nil)}
		if load(scen) == nil {
			break
		}
		modes := []string{"reevaluate", "modifier"}
		if c.Directed == "concurrent-first-use-sessions" {
			modes = []string{"session"}
		}
		p.concurrentPhase(res, r2, scen, copyM(d.Contact()), 8, 8, 200, 300, modes)
	default:
		return false
	}
	return true
}

func (p *c06) directed(name string) *gen.Scenario {
	d := dsl
	act := func(n, typ string, kv gen.M) gen.M { return d.Action(n, typ, kv) }
	one := func(actions ...any) gen.M {
		return d.BaseAssets(d.Flow("A", "messaging", d.WaitNode("a1", "a2", nil), d.Node("a2", actions, nil, d.Exit("a2x", "a3")), d.WaitNode("a3", "", nil)))
	}
	switch name {
	case "msg-trigger-last-seen-group":
		return &gen.Scenario{Assets: d.BaseAssets(d.Flow("A", "messaging", d.Node("a0", []any{d.SendMsg("m", "hi")}, nil, d.Exit("a0x", "a1")), d.WaitNode("a1", "", nil))), Trigger: d.MsgTrigger("A", nil, "hello"), Resumes: []gen.M{d.MsgResume(0, "x")}}
	case "msg-resume-last-seen-group":
		return &gen.Scenario{Assets: one(d.SendMsg("m", "hi")), Trigger: d.Manual("A", nil), Resumes: []gen.M{d.MsgResume(0, "x"), d.MsgResume(1, "y")}}
	case "ticket-group":
		return &gen.Scenario{Assets: one(act("o", "open_ticket", gen.M{"topic": gen.M{"uuid": gen.NamedUUID("topic:weather"), "name": "Weather"}, "body": "help", "result_name": "Ticket"})), Trigger: d.Manual("A", nil), Resumes: []gen.M{d.MsgResume(0, "x"), d.MsgResume(1, "y")}}
	case "field-flips-group":
		return &gen.Scenario{Assets: one(act("f", "set_contact_field", gen.M{"field": gen.M{"key": "age", "name": "Age"}, "value": "@input.text"}), act("n", "set_contact_name", gen.M{"name": "Alice"}), act("l", "set_contact_language", gen.M{"language": "spa"})), Trigger: d.Manual("A", nil), Resumes: []gen.M{d.MsgResume(0, "12"), d.MsgResume(1, "y")}}
	case "status-clears-static":
		return &gen.Scenario{Assets: one(act("s", "set_contact_status", gen.M{"status": "blocked"}), act("g", "add_contact_groups", gen.M{"groups": []gen.M{{"uuid": gen.NamedUUID("group:customers"), "name": "Customers"}}})), Trigger: d.Manual("A", nil), Resumes: []gen.M{d.MsgResume(0, "x"), d.MsgResume(1, "y")}}
	case "wrong-stored-membership":
		ct := d.Contact()
		ct["groups"] = []gen.M{{"uuid": gen.NamedUUID("group:ticketed"), "name": "Ticketed"}, {"uuid": gen.NamedUUID("group:testers"), "name": "Testers"}} // in Ticketed without a ticket, not in Adults although 23
		return &gen.Scenario{Assets: one(d.SendMsg("m", "hi")), Trigger: d.Manual("A", ct), Resumes: []gen.M{d.MsgResume(0, "x")}}
	case "urn-group":
		ct := d.Contact()
		ct["urns"] = []string{}
		delete(ct, "urns")
		return &gen.Scenario{Assets: one(act("u", "add_contact_urn", gen.M{"scheme": "tel", "path": "+12065553333"})), Trigger: d.Manual("A", ct), Resumes: []gen.M{d.MsgResume(0, "x"), d.MsgResume(1, "y")}}
	case "stale-typed-same-text-action":
		// the stored number is not what the text parses to; the flow sets the field to the text it already has (at the start
		// and again after a message)
		ct := d.Contact()
		ct["fields"] = gen.M{"age": gen.M{"text": "41", "number": 7}, "joined": gen.M{"text": "2018-05-05T10:00:00Z"}}
		same := func(n string) gen.M {
			return act(n, "set_contact_field", gen.M{"field": gen.M{"key": "age", "name": "Age"}, "value": "41"})
		}
		return &gen.Scenario{Assets: d.BaseAssets(d.Flow("A", "messaging", d.Node("a0", []any{same("f0")}, nil, d.Exit("a0x", "a1")), d.WaitNode("a1", "a2", nil), d.Node("a2", []any{same("f2")}, nil, d.Exit("a2x", "a3")), d.WaitNode("a3", "", nil))),
			Trigger: d.Manual("A", ct), Resumes: []gen.M{d.MsgResume(0, "x"), d.MsgResume(1, "y")}}
	case "refresh-changes-groups":
		nc := d.Contact()
		nc["fields"] = gen.M{"age": gen.M{"text": "12", "number": 12}}
		nc["name"] = "Jim"
		rs := d.MsgResume(0, "hi")
		rs["contact"] = nc
		return &gen.Scenario{Assets: one(d.SendMsg("m", "hi")), Trigger: d.Manual("A", nil), Resumes: []gen.M{rs, d.MsgResume(1, "y")}}
	}
	return nil
}

func (p *c06) engine(res *fw.Result, scen *gen.Scenario, c fw.Case) *drive.Runner {
	res.Fingerprint = scen.Fingerprint()
	rn, err := drive.Load(scen, c.Seed)
	if err != nil {
		res.Discarded = "unloadable: " + errClass(err.Error())
		return nil
	}
	var startContact []byte
	if cj, err := json.Marshal(scen.Trigger["contact"]); err == nil {
		if ct, err := flows.ReadContact(rn.SA, cj, func(assets.Reference, error) {}); err == nil {
			startContact = marshalJSON(ct)
			// was the stored membership wrong?
			env := envs.NewBuilder().Build()
			for _, g := range rn.SA.Groups().All() {
				if g.UsesQuery() && (ct.Groups().FindByUUID(g.UUID()) != nil) != g.CheckQueryBasedMembership(env, ct) {
					res.Count("seen.wrong_at_start", 1)
					res.NonTrivial = true
				}
			}
		}
	}
	rn.RunAll(func(rec *drive.CallRecord) { p.checkRecord(res, scen, rn, rec, startContact, "") })
	if len(rn.Log) > 0 && rn.Log[0].Kind == "unreadable" {
		res.Discarded = "unreadable trigger: " + errClass(rn.Log[0].Err.Error())
		return nil
	}
	if res.NonTrivial {
		res.Sample = scenSample(scen, rn)
	}
	return rn
}

// checkRecord judges one engine call that handed back a session. startContact is the contact JSON the session was started
// from (used as "before" for a start); shape prefixes the engine entry in signatures when the call is part of a history
// shape other than one session over a freshly read contact.
func (p *c06) checkRecord(res *fw.Result, scen *gen.Scenario, rn *drive.Runner, rec *drive.CallRecord, startContact []byte, shape string) {
	observeCommon(res, rec)
	if !rec.OK() || rec.Kind == "unreadable" || rec.Session == nil || rec.Session.Contact() == nil {
		return
	}
	s := rec.Session
	entry := shape + rec.Kind
	if rec.Kind == "resume" {
		entry += ":" + rec.ResumeType
	} else if rec.Trigger != nil {
		entry += ":" + rec.Trigger.Type()
	}
	viol := func(sig, what string, extra map[string]any) {
		extra["call_index"] = rec.Index
		extra["entry"] = entry
		extra["contact_after"] = string(rec.ContactAfter)
		res.Violate(sig+"|"+entry, what, witnessOf(scen, extra))
	}
	checkMembership(res, rn.SA, s.Contact(), []envs.Environment{s.Environment(), s.MergedEnvironment()}, viol)
	checkReference(res, rn.SA, s.Contact(), []*time.Location{s.Environment().Timezone(), s.MergedEnvironment().Timezone()}, viol)

	before := rec.ContactBefore
	if rec.Kind == "start" {
		before = startContact
	}
	refreshed := false
	for _, e := range rec.Sprint.Events() {
		switch e.Type() {
		case "contact_refreshed":
			refreshed = true
		case "msg_received", "contact_field_changed", "contact_status_changed", "ticket_opened", "contact_urns_changed", "contact_name_changed", "contact_language_changed":
			res.Count("route."+e.Type(), 1)
		}
	}
	if before == nil {
		return
	}
	bm := decodeContact(before)
	am := decodeContact(rec.ContactAfter)
	statusOf := func(m contactModel) string {
		if s, _ := m["status"].(string); s != "" {
			return s
		}
		return "active"
	}
	// non-active ⇒ no static groups (for contacts that became non-active in this sprint)
	if statusOf(am) != "active" && statusOf(bm) == "active" && !refreshed {
		res.Count("clause.nonactive_static", 1)
		for _, g := range s.Contact().Groups().All() {
			if !g.UsesQuery() {
				viol("C06|nonactive-contact-in-static-group", fmt.Sprintf("contact became %s but is still in static group %q", statusOf(am), g.Name()), map[string]any{"group": g.Name()})
			}
		}
	}
	// net delta vs events
	res.Count("clause.delta_vs_events", 1)
	model := bm
	for i, e := range rec.Sprint.Events() {
		if e.Type() == "contact_groups_changed" || e.Type() == "contact_refreshed" {
			var ev map[string]any
			d := json.NewDecoder(bytes.NewReader(rec.EventsJSON[i]))
			d.UseNumber()
			d.Decode(&ev)
			model = model.applyEvent(ev, "", nil)
		}
	}
	want, got := groupIDs(model), groupIDs(am)
	if len(want) != len(got) || func() bool {
		for k := range want {
			if !got[k] {
				return true
			}
		}
		return false
	}() {
		viol("C06|group-delta-not-reported", "net change of group membership in the sprint differs from the net effect of its contact_groups_changed events", map[string]any{"contact_before": string(before)})
	}
	if fmt.Sprint(groupIDs(bm)) != fmt.Sprint(got) {
		res.Count("seen.membership_changed", 1)
		res.NonTrivial = true
	}
}

func (p *c06) mods(res *fw.Result, r *fw.Rand, c fw.Case) (*gen.Scenario, *drive.Runner) {
	o := gen.ScenOpts{QueryGroups: true, MaxNodes: 1}
	scen := gen.Scen(r, o)
	scen.Resumes = nil
	rn, err := drive.Load(scen, c.Seed)
	if err != nil {
		res.Discarded = "unloadable: " + errClass(err.Error())
		return nil, nil
	}
	cj, _ := json.Marshal(scen.Trigger["contact"])
	contact, err := flows.ReadContact(rn.SA, cj, func(assets.Reference, error) {})
	if err != nil {
		res.Discarded = "unreadable contact: " + errClass(err.Error())
		return nil, nil
	}
	env := gen.Env(r)
	// the statement speaks about the state *after* a modifier; bring the stored membership in line first, as a caller
	// that loads a contact does, so that "wrong at the start" is not blamed on a modifier that changes nothing
	modifiers.ReevaluateGroups(env, contact, func(flows.Event) {})
	c03p := &c03{}
	mods := c03p.genMods(r, rn.SA, scen.Assets, 12, false)
	var descs []string
	for _, m := range mods {
		descs = append(descs, m.desc)
	}
	res.Fingerprint = string(cj) + "|" + strings.Join(descs, ";")
	for i, ms := range mods {
		if !p.applyModChecked(res, rn, env, contact, ms, func(extra map[string]any) {
			extra["assets"] = scen.Assets
			extra["start_contact"] = json.RawMessage(cj)
			extra["modifiers_in_order"] = descs[:i+1]
		}, "") {
			break
		}
	}
	if res.NonTrivial {
		res.Sample = map[string]any{"kind": "modifiers", "contact": json.RawMessage(cj), "modifiers": descs}
	}
	return scen, rn
}

// applyModChecked applies one modifier through modifiers.Apply and judges the contact afterwards (membership by the library
// evaluator and by the reference, static groups of a contact that became non-active, net group change against the
// contact_groups_changed events). context adds what the witness needs to replay the history; shape prefixes the entry in
// signatures. Returns false when the modifier panicked.
func (p *c06) applyModChecked(res *fw.Result, rn *drive.Runner, env envs.Environment, contact *flows.Contact, ms modSpec, context func(extra map[string]any), shape string) bool {
	before := marshalJSON(contact)
	statusBefore := contact.Status()
	var evs []flows.Event
	var pan any
	var modified bool
	func() {
		defer func() { pan = recover() }()
		modified = modifiers.Apply(rn.Eng, env, rn.SA, contact, ms.mod, func(e flows.Event) { evs = append(evs, e) })
	}()
	if pan != nil {
		res.Count("modifier_panics", 1)
		return false
	}
	res.Count("mods.applied", 1)
	after := marshalJSON(contact)
	viol := func(sig, what string, extra map[string]any) {
		context(extra)
		extra["contact_before"] = string(before)
		extra["contact_after"] = string(after)
		extra["modified"] = modified
		res.Violate(sig+"|"+shape+"modifier:"+ms.kind, what, extra)
	}
	checkMembership(res, rn.SA, contact, []envs.Environment{env}, viol)
	checkReference(res, rn.SA, contact, []*time.Location{env.Timezone()}, viol)
	if contact.Status() != flows.ContactStatusActive && statusBefore == flows.ContactStatusActive {
		res.Count("clause.nonactive_static", 1)
		for _, g := range contact.Groups().All() {
			if !g.UsesQuery() {
				viol("C06|nonactive-contact-in-static-group", fmt.Sprintf("contact became %s but is still in static group %q", contact.Status(), g.Name()), map[string]any{"group": g.Name()})
			}
		}
	}
	res.Count("clause.delta_vs_events", 1)
	model := decodeContact(before)
	for _, e := range evs {
		if e.Type() == "contact_groups_changed" {
			var ev map[string]any
			d := json.NewDecoder(bytes.NewReader(marshalJSON(e)))
			d.UseNumber()
			d.Decode(&ev)
			model = model.applyEvent(ev, "", nil)
		}
		switch e.Type() {
		case "contact_field_changed", "contact_status_changed", "ticket_opened", "contact_urns_changed", "contact_name_changed", "contact_language_changed":
			res.Count("route."+e.Type(), 1)
		}
	}
	if fmt.Sprint(groupIDs(model)) != fmt.Sprint(groupIDs(decodeContact(after))) {
		viol("C06|group-delta-not-reported", "net change of group membership made by modifiers.Apply differs from the net effect of its contact_groups_changed events", map[string]any{})
	}
	if fmt.Sprint(groupIDs(decodeContact(before))) != fmt.Sprint(groupIDs(decodeContact(after))) {
		res.Count("seen.membership_changed", 1)
		res.NonTrivial = true
	}
	return true
}
