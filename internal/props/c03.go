package props

import (
	"bytes"
	"encoding/json"
	"fmt"
	"github.com/nyaruka/goflow/envs"
	"sort"
	"strings"
	"time"

	"github.com/nyaruka/gocommon/i18n"
	"github.com/nyaruka/gocommon/urns"
	"github.com/nyaruka/goflow/assets"
	"github.com/nyaruka/goflow/flows"
	"github.com/nyaruka/goflow/flows/modifiers"

	"verif/internal/drive"
	"verif/internal/fw"
	"verif/internal/gen"
)

// C03 — every contact change is announced by an event that reproduces it.
// Offline checker over the sprint log (replay model) + direct product contacts x modifiers.

type c03 struct {
	scenBase
	modEnv envs.Environment // environment of the modifier clauses of the case being run (one case at a time per process)
}

func init() {
	fw.Register(&c03{scenBase: scenBase{id: "C03", quickN: 4000, thorN: 300000}})
}

func (p *c03) Rule() string {
	return "even cases: one generated scenario biased to contact-changing actions, query groups, location fields; after every sprint the contact JSON before is replayed through the sprint's contact events by an independent ~150-line model and compared with the contact JSON after. odd cases: one generated contact x 12 generated modifiers (every type; multi-URN / multi-group payloads with new+present, duplicates, invalid; values at/beyond MaxFieldChars) each applied twice through modifiers.Apply: modified <=> contact JSON changed <=> change event logged; replay; second application is a no-op. Non-trivial = a sprint/modifier changed the contact or emitted a contact event; distinct = SHA of scenario / (contact, modifier list)."
}

func (p *c03) Directed() []string {
	return []string{"urns-modifiers", "name-truncate", "archived-add-group", "each-modifier-twice", "msg-trigger-last-seen", "refresh-on-resume"}
}

func (p *c03) Floors(tier string) []string {
	return []string{"clause.engine_replay", "clause.engine_replay_changed", "clause.mod_modified_iff_changed", "clause.mod_modified_iff_event", "clause.mod_replay", "clause.mod_second_noop",
		"mod.name", "mod.language", "mod.status", "mod.timezone", "mod.field", "mod.groups", "mod.urns", "mod.channel", "mod.ticket",
		"replayed.contact_name_changed", "replayed.contact_field_changed", "replayed.contact_groups_changed", "replayed.contact_urns_changed", "replayed.ticket_opened", "replayed.msg_received", "replayed.contact_refreshed"}
}

// ---------------------------------------------------------------------------------------
// the replay model: applies contact events to contact JSON (as a caller such as mailroom mirrors them)

type contactModel map[string]any

func decodeContact(b []byte) contactModel {
	var m map[string]any
	d := json.NewDecoder(bytes.NewReader(b))
	d.UseNumber()
	if err := d.Decode(&m); err != nil {
		return nil
	}
	return m
}

func refUUID(v any) string {
	if m, ok := v.(map[string]any); ok {
		if u, ok := m["uuid"].(string); ok {
			return u
		}
	}
	return ""
}

// applyEvent applies one event (as decoded JSON) to the model; receivedOn is the trigger/resume time.
func (c contactModel) applyEvent(ev map[string]any, receivedOn string, res *fw.Result) contactModel {
	typ, _ := ev["type"].(string)
	setOrDelete := func(key string, v any) {
		if s, ok := v.(string); ok && s != "" {
			c[key] = s
		} else {
			delete(c, key)
		}
	}
	switch typ {
	case "contact_name_changed":
		setOrDelete("name", ev["name"])
	case "contact_language_changed":
		setOrDelete("language", ev["language"])
	case "contact_status_changed":
		setOrDelete("status", ev["status"])
	case "contact_timezone_changed":
		setOrDelete("timezone", ev["timezone"])
	case "contact_urns_changed":
		if l, ok := ev["urns"].([]any); ok && len(l) > 0 {
			c["urns"] = l
		} else {
			delete(c, "urns")
		}
	case "contact_field_changed":
		f, _ := ev["field"].(map[string]any)
		key, _ := f["key"].(string)
		fields, _ := c["fields"].(map[string]any)
		if fields == nil {
			fields = map[string]any{}
		}
		if ev["value"] == nil {
			delete(fields, key)
		} else {
			fields[key] = ev["value"]
		}
		c["fields"] = fields
	case "contact_groups_changed":
		cur, _ := c["groups"].([]any)
		rm := map[string]bool{}
		if l, ok := ev["groups_removed"].([]any); ok {
			for _, g := range l {
				rm[refUUID(g)] = true
			}
		}
		var next []any
		have := map[string]bool{}
		for _, g := range cur {
			if !rm[refUUID(g)] {
				next = append(next, g)
				have[refUUID(g)] = true
			}
		}
		if l, ok := ev["groups_added"].([]any); ok {
			for _, g := range l {
				if !have[refUUID(g)] {
					next = append(next, g)
					have[refUUID(g)] = true
				}
			}
		}
		c["groups"] = next
	case "ticket_opened":
		if t, ok := ev["ticket"].(map[string]any); ok {
			nt := map[string]any{"uuid": t["uuid"], "topic": t["topic"]}
			if a, ok := t["assignee"]; ok && a != nil {
				nt["assignee"] = a
			}
			c["ticket"] = nt
		}
	case "contact_refreshed":
		if nc, ok := ev["contact"].(map[string]any); ok {
			if res != nil {
				res.Count("replayed."+typ, 1)
			}
			out := contactModel{}
			for k, v := range nc {
				out[k] = v
			}
			return out
		}
	case "msg_received":
		c["last_seen_on"] = receivedOn
	default:
		return c
	}
	if res != nil {
		res.Count("replayed."+typ, 1)
	}
	return c
}

// diffContacts compares two contact models; returns the first differing attribute ("" = equal).
func diffContacts(a, b contactModel) (string, string) {
	str := func(m contactModel, k string) string { s, _ := m[k].(string); return s }
	for _, k := range []string{"uuid", "name", "language", "timezone"} {
		if str(a, k) != str(b, k) {
			return k, fmt.Sprintf("%q vs %q", str(a, k), str(b, k))
		}
	}
	st := func(m contactModel) string {
		if s := str(m, "status"); s != "" {
			return s
		}
		return "active"
	}
	if st(a) != st(b) {
		return "status", st(a) + " vs " + st(b)
	}
	for _, k := range []string{"created_on", "last_seen_on"} {
		ta, ea := time.Parse(time.RFC3339Nano, str(a, k))
		tb, eb := time.Parse(time.RFC3339Nano, str(b, k))
		if (ea == nil) != (eb == nil) || (ea == nil && !ta.Equal(tb)) {
			return k, str(a, k) + " vs " + str(b, k)
		}
	}
	ua, _ := json.Marshal(a["urns"])
	ub, _ := json.Marshal(b["urns"])
	la, _ := a["urns"].([]any)
	lb, _ := b["urns"].([]any)
	if len(la)+len(lb) > 0 && string(ua) != string(ub) {
		return "urns", string(ua) + " vs " + string(ub)
	}
	gs := func(m contactModel) string {
		var ids []string
		if l, ok := m["groups"].([]any); ok {
			for _, g := range l {
				ids = append(ids, refUUID(g))
			}
		}
		sort.Strings(ids)
		return strings.Join(ids, ",")
	}
	if gs(a) != gs(b) {
		return "groups", gs(a) + " vs " + gs(b)
	}
	fa, _ := a["fields"].(map[string]any)
	fb, _ := b["fields"].(map[string]any)
	keys := map[string]bool{}
	for k := range fa {
		keys[k] = true
	}
	for k := range fb {
		keys[k] = true
	}
	var ks []string
	for k := range keys {
		ks = append(ks, k)
	}
	sort.Strings(ks)
	for _, k := range ks {
		ja, _ := json.Marshal(fa[k])
		jb, _ := json.Marshal(fb[k])
		if !jsonEquivalent(ja, jb) {
			return "fields", k + ": " + string(ja) + " vs " + string(jb)
		}
	}
	ta, _ := a["ticket"].(map[string]any)
	tb, _ := b["ticket"].(map[string]any)
	if (ta == nil) != (tb == nil) {
		return "ticket", "presence differs"
	}
	if ta != nil {
		if ta["uuid"] != tb["uuid"] || refUUID(ta["topic"]) != refUUID(tb["topic"]) {
			return "ticket", "uuid/topic differ"
		}
		ea, _ := ta["assignee"].(map[string]any)
		eb, _ := tb["assignee"].(map[string]any)
		if fmt.Sprint(ea["email"]) != fmt.Sprint(eb["email"]) {
			return "ticket", "assignee differs"
		}
	}
	return "", ""
}

// jsonEquivalent compares two JSON values with numbers as decimals and datetimes as instants.
func jsonEquivalent(a, b []byte) bool {
	var va, vb any
	da := json.NewDecoder(bytes.NewReader(a))
	da.UseNumber()
	db := json.NewDecoder(bytes.NewReader(b))
	db.UseNumber()
	if da.Decode(&va) != nil || db.Decode(&vb) != nil {
		return string(a) == string(b)
	}
	return valEquivalent(va, vb)
}

func valEquivalent(a, b any) bool {
	switch ta := a.(type) {
	case map[string]any:
		tb, ok := b.(map[string]any)
		if !ok || len(ta) != len(tb) {
			return false
		}
		for k, v := range ta {
			w, ok := tb[k]
			if !ok || !valEquivalent(v, w) {
				return false
			}
		}
		return true
	case []any:
		tb, ok := b.([]any)
		if !ok || len(ta) != len(tb) {
			return false
		}
		for i := range ta {
			if !valEquivalent(ta[i], tb[i]) {
				return false
			}
		}
		return true
	case json.Number:
		tb, ok := b.(json.Number)
		if !ok {
			return false
		}
		if ta.String() == tb.String() {
			return true
		}
		fa, e1 := ta.Float64()
		fb, e2 := tb.Float64()
		return e1 == nil && e2 == nil && fa == fb
	case string:
		tb, ok := b.(string)
		if !ok {
			return false
		}
		if ta == tb {
			return true
		}
		t1, e1 := time.Parse(time.RFC3339Nano, ta)
		t2, e2 := time.Parse(time.RFC3339Nano, tb)
		return e1 == nil && e2 == nil && t1.Equal(t2)
	default:
		return a == b
	}
}

func isContactEvent(t string) bool {
	switch t {
	case "contact_name_changed", "contact_language_changed", "contact_status_changed", "contact_timezone_changed", "contact_urns_changed", "contact_field_changed", "contact_groups_changed", "ticket_opened", "contact_refreshed":
		return true
	}
	return false
}

// ---------------------------------------------------------------------------------------

func (p *c03) Run(c fw.Case) fw.Result {
	res := fw.Result{}
	r := fw.NewRand(c.Seed, "C03", c.Index)
	switch {
	case c.Directed == "msg-trigger-last-seen":
		d := dsl
		scen := &gen.Scenario{Assets: d.BaseAssets(d.Flow("A", "messaging", d.WaitNode("a1", "a2", nil), d.WaitNode("a2", "", nil))), Trigger: d.MsgTrigger("A", nil, "hello"), Resumes: []gen.M{d.MsgResume(0, "second")}}
		p.engine(&res, scen, c)
	case c.Directed == "refresh-on-resume":
		d := dsl
		nc := d.Contact()
		nc["name"] = "Robert"
		nc["language"] = "spa"
		nc["fields"] = gen.M{"age": gen.M{"text": "12", "number": 12}}
		nc["urns"] = []string{"tel:+12065559999"}
		nc["groups"] = []gen.M{}
		rs := d.MsgResume(0, "hi")
		rs["contact"] = nc
		scen := &gen.Scenario{Assets: d.BaseAssets(d.Flow("A", "messaging", d.WaitNode("a1", "a2", nil), d.Node("a2", []any{d.Action("o", "open_ticket", gen.M{"topic": gen.M{"uuid": gen.NamedUUID("topic:weather"), "name": "Weather"}, "body": "help", "result_name": "Ticket"})}, nil, d.Exit("a2x", "")))), Trigger: d.Manual("A", nil), Resumes: []gen.M{rs}}
		p.engine(&res, scen, c)
	case c.Directed != "":
		p.directedMods(&res, c)
	case c.Gen%2 == 0:
		o := gen.ScenOpts{ContactChanges: true, QueryGroups: r.Chance(0.7), MaxNodes: r.Range(2, 6), LongTexts: r.Chance(0.3), RefreshP: 0.35}
		p.engine(&res, gen.Scen(r, o), c)
	default:
		p.mods(&res, r, c)
	}
	return res
}

func (p *c03) engine(res *fw.Result, scen *gen.Scenario, c fw.Case) {
	res.Fingerprint = scen.Fingerprint()
	rn, err := drive.Load(scen, c.Seed)
	if err != nil {
		res.Discarded = "unloadable: " + errClass(err.Error())
		return
	}
	// the contact as the caller knows it before the session starts: read through the real reader from the trigger JSON
	var startContact []byte
	if cj, err := json.Marshal(scen.Trigger["contact"]); err == nil {
		if ct, err := flows.ReadContact(rn.SA, cj, func(assets.Reference, error) {}); err == nil {
			startContact = marshalJSON(ct)
		}
	}
	changedAny := false
	rn.RunAll(func(rec *drive.CallRecord) {
		observeCommon(res, rec)
		if !rec.OK() || rec.Kind == "unreadable" || rec.ContactAfter == nil {
			return
		}
		before := rec.ContactBefore
		receivedOn := ""
		if rec.Kind == "start" {
			before = startContact
			if t, ok := scen.Trigger["triggered_on"].(string); ok {
				receivedOn = t
			}
		} else {
			var rm map[string]any
			json.Unmarshal(rec.ResumeJSON, &rm)
			receivedOn, _ = rm["resumed_on"].(string)
		}
		if before == nil {
			return
		}
		model := decodeContact(before)
		nContactEvents := 0
		for i, e := range rec.Sprint.Events() {
			if isContactEvent(e.Type()) || e.Type() == "msg_received" {
				var ev map[string]any
				d := json.NewDecoder(bytes.NewReader(rec.EventsJSON[i]))
				d.UseNumber()
				d.Decode(&ev)
				model = model.applyEvent(ev, receivedOn, res)
				nContactEvents++
			}
		}
		res.Count("clause.engine_replay", 1)
		after := decodeContact(rec.ContactAfter)
		if attr, detail := diffContacts(model, after); attr != "" {
			// which action types ran in this scenario helps to see the route; the signature names the attribute and the event mix
			res.Violate("C03|engine-replay-mismatch|"+attr+"|"+routeHint(rec, attr), fmt.Sprintf("replaying the sprint's events over the contact before does not give the contact after: %s: %s", attr, trunc(detail, 300)),
				witnessOf(scen, map[string]any{"call_index": rec.Index, "contact_before": string(before), "contact_after": string(rec.ContactAfter), "attribute": attr, "detail": detail}))
		}
		if nContactEvents > 0 || string(before) != string(rec.ContactAfter) {
			res.Count("clause.engine_replay_changed", 1)
			changedAny = true
		}
	})
	if len(rn.Log) > 0 && rn.Log[0].Kind == "unreadable" {
		res.Discarded = "unreadable trigger: " + errClass(rn.Log[0].Err.Error())
		return
	}
	res.NonTrivial = changedAny
	if changedAny {
		res.Sample = scenSample(scen, rn)
	}
}

// routeHint names the kind of event (if any) that touched the attribute in this sprint — the coarse "how".
func routeHint(rec *drive.CallRecord, attr string) string {
	want := map[string]string{"name": "contact_name_changed", "language": "contact_language_changed", "status": "contact_status_changed", "timezone": "contact_timezone_changed",
		"urns": "contact_urns_changed", "groups": "contact_groups_changed", "fields": "contact_field_changed", "ticket": "ticket_opened", "last_seen_on": "msg_received"}[attr]
	for _, e := range rec.Sprint.Events() {
		if e.Type() == want {
			return "with-" + want
		}
	}
	hint := "no-event"
	if rec.Kind == "start" && rec.Trigger != nil {
		hint += ":start:" + rec.Trigger.Type()
	} else {
		hint += ":" + rec.ResumeType
	}
	return hint
}

// ---------------------------------------------------------------------------------------
// direct modifiers

type modSpec struct {
	kind string
	desc string
	mod  flows.Modifier
}

func assetList(a gen.M, kind string) []gen.M {
	switch l := a[kind].(type) {
	case []gen.M:
		return l
	case []any:
		var out []gen.M
		for _, x := range l {
			out = append(out, x.(gen.M))
		}
		return out
	}
	return nil
}

func allChannels(sa flows.SessionAssets, a gen.M) []*flows.Channel {
	var out []*flows.Channel
	for _, m := range assetList(a, "channels") {
		if c := sa.Channels().Get(assets.ChannelUUID(m["uuid"].(string))); c != nil {
			out = append(out, c)
		}
	}
	return out
}

func allTopics(sa flows.SessionAssets, a gen.M) []*flows.Topic {
	var out []*flows.Topic
	for _, m := range assetList(a, "topics") {
		if c := sa.Topics().Get(assets.TopicUUID(m["uuid"].(string))); c != nil {
			out = append(out, c)
		}
	}
	return out
}

func allUsers(sa flows.SessionAssets, a gen.M) []*flows.User {
	var out []*flows.User
	for _, m := range assetList(a, "users") {
		if c := sa.Users().Get(m["email"].(string)); c != nil {
			out = append(out, c)
		}
	}
	return out
}

func (p *c03) genMods(r *fw.Rand, sa flows.SessionAssets, am gen.M, n int, long bool) []modSpec {
	var out []modSpec
	urnPool := []urns.URN{"tel:+12065551212", "tel:+250788123123", "twitterid:54784326227#nyaruka", "mailto:foo@bar.com", "facebook:1122334455", "tel:+12065559999", "tel:+1 206 555 1212", "xyz:bogus", "tel:", "twitter:bobby", "tel:+12065551212?channel=" + urns.URN(gen.NamedUUID("chan:android"))}
	for i := 0; i < n; i++ {
		switch r.Intn(9) {
		case 0:
			name := fw.Pick(r, []string{"Bob", "", "Bob Smith", "bob smith", "日本語 😀", " Bob ", " ", "\t"})
			if long {
				name = gen.LongString(fw.Pick(r, []int{5, 639, 640, 641, 700}), fw.Pick(r, []int{4, 639, 640}))
			}
			out = append(out, modSpec{"name", "name=" + trunc(name, 30), modifiers.NewName(name)})
		case 1:
			l := fw.Pick(r, []string{"eng", "spa", "", "fra"})
			out = append(out, modSpec{"language", "language=" + l, modifiers.NewLanguage(i18n.Language(l))})
		case 2:
			s := fw.Pick(r, []flows.ContactStatus{flows.ContactStatusActive, flows.ContactStatusBlocked, flows.ContactStatusStopped, flows.ContactStatusArchived})
			out = append(out, modSpec{"status", "status=" + string(s), modifiers.NewStatus(s)})
		case 3:
			var loc *time.Location
			z := fw.Pick(r, []string{"", "Africa/Kigali", "America/Guayaquil", "UTC"})
			if z != "" {
				loc, _ = time.LoadLocation(z)
			}
			out = append(out, modSpec{"timezone", "timezone=" + z, modifiers.NewTimezone(loc)})
		case 4:
			all := sa.Fields().All()
			if len(all) == 0 {
				continue
			}
			f := fw.Pick(r, all)
			v := fw.Pick(r, []string{"", "23", "17", "male", "bobby", "2018-05-05", "Kigali City", "Gasabo", "Gisozi", "23.0", " 23 ", "abc 23", "2017-12-02T10:00:00Z", "x", " ", "  \t ", "\n", "\u00a0", " x ",
				// instants written with explicit offsets (whole-hour, half-hour, quarter-hour, with seconds), in the environment's own formats, date only
				"2017-12-02T10:00:00+05:30", "2017-12-02T10:00:00.5-03:30", "2017-12-02T10:00:00+05:45", "2017-12-02T10:00:00-05:00", "2017-12-02T10:00:00.123456789+02:00", "02-12-2017 10:00", "12-02-2017 10:00", "2017-12-02 10:00", "2017-12-02"})
			if long && r.Chance(0.5) {
				v = gen.LongString(fw.Pick(r, []int{639, 640, 641, 700}), fw.Pick(r, []int{638, 639, 640})) + fw.Pick(r, []string{"", " 25", " 2019-12-25"})
			}
			out = append(out, modSpec{"field", fmt.Sprintf("field %s=%s", f.Key(), trunc(v, 30)), modifiers.NewField(f, v)})
		case 5:
			all := sa.Groups().All()
			if len(all) == 0 {
				continue
			}
			k := r.Range(1, 3)
			var gs []*flows.Group
			var names []string
			for j := 0; j < k; j++ {
				g := fw.Pick(r, all)
				gs = append(gs, g)
				names = append(names, g.Name())
			}
			m := fw.Pick(r, []modifiers.GroupsModification{modifiers.GroupsAdd, modifiers.GroupsRemove})
			out = append(out, modSpec{"groups", fmt.Sprintf("groups %s %v", m, names), modifiers.NewGroups(gs, m)})
		case 6:
			k := r.Range(0, 3)
			var us []urns.URN
			for j := 0; j < k; j++ {
				us = append(us, fw.Pick(r, urnPool))
			}
			m := fw.Pick(r, []modifiers.URNsModification{modifiers.URNsAppend, modifiers.URNsRemove, modifiers.URNsSet})
			out = append(out, modSpec{"urns", fmt.Sprintf("urns %s %v", m, us), modifiers.NewURNs(us, m)})
		case 7:
			chs := allChannels(sa, am)
			var ch *flows.Channel
			if len(chs) > 0 && r.Chance(0.85) {
				ch = fw.Pick(r, chs)
			}
			desc := "channel=nil"
			if ch != nil {
				desc = "channel=" + ch.Name()
			}
			out = append(out, modSpec{"channel", desc, modifiers.NewChannel(ch)})
		case 8:
			ts := allTopics(sa, am)
			if len(ts) == 0 {
				continue
			}
			var as *flows.User
			if us := allUsers(sa, am); len(us) > 0 && r.Chance(0.5) {
				as = fw.Pick(r, us)
			}
			out = append(out, modSpec{"ticket", "ticket", modifiers.NewTicket(fw.Pick(r, ts), as, "note")})
		}
	}
	return out
}

// applyAndCheck applies one modifier twice and checks every clause.
func (p *c03) applyAndCheck(res *fw.Result, src *drive.Sources, eng flows.Engine, sa flows.SessionAssets, contact *flows.Contact, ms modSpec, witness func(extra map[string]any) any) bool {
	// both applications are made at the same instant (same clock / UUID source state): a date-only text on a datetime
	// field takes its time of day from the clock by design, so idempotence is checked modulo the passing of time
	st := src.Snapshot()
	environment := p.modEnv
	if environment == nil {
		environment = gen.Env(fw.NewRand(1, "c03env", 0))
	}
	changedAny := false
	for round := 1; round <= 2; round++ {
		src.Restore(st)
		before := marshalJSON(contact)
		var evs []flows.Event
		var modified bool
		var pan any
		func() {
			defer func() { pan = recover() }()
			modified = modifiers.Apply(eng, environment, sa, contact, ms.mod, func(e flows.Event) { evs = append(evs, e) })
		}()
		if pan != nil {
			res.Count("modifier_panics", 1)
			return changedAny
		}
		after := marshalJSON(contact)
		changed := string(before) != string(after)
		nChange := 0
		model := decodeContact(before)
		for _, e := range evs {
			if isContactEvent(e.Type()) {
				nChange++
				var ev map[string]any
				d := json.NewDecoder(bytes.NewReader(marshalJSON(e)))
				d.UseNumber()
				d.Decode(&ev)
				model = model.applyEvent(ev, "", res)
			}
		}
		res.Count("mod."+ms.kind, 1)
		x := map[string]any{"modifier": ms.desc, "round": round, "contact_before": string(before), "contact_after": string(after), "modified": modified, "change_events": nChange}
		res.Count("clause.mod_modified_iff_changed", 1)
		if modified != changed {
			res.Violate(fmt.Sprintf("C03|modifier-report-mismatch|%s|modified=%v|changed=%v", ms.kind, modified, changed),
				fmt.Sprintf("%s modifier returned modified=%v but the contact JSON changed=%v (application #%d of %s)", ms.kind, modified, changed, round, ms.desc), witness(x))
		}
		res.Count("clause.mod_modified_iff_event", 1)
		if modified != (nChange > 0) {
			res.Violate(fmt.Sprintf("C03|modifier-event-mismatch|%s|modified=%v|events=%v", ms.kind, modified, nChange > 0),
				fmt.Sprintf("%s modifier returned modified=%v but logged %d change events (application #%d of %s)", ms.kind, modified, nChange, round, ms.desc), witness(x))
		}
		res.Count("clause.mod_replay", 1)
		if attr, detail := diffContacts(model, decodeContact(after)); attr != "" {
			res.Violate("C03|modifier-replay-mismatch|"+ms.kind+"|"+attr, fmt.Sprintf("replaying the events of the %s modifier does not reproduce the contact: %s: %s", ms.kind, attr, trunc(detail, 200)), witness(x))
		}
		if round == 2 {
			res.Count("clause.mod_second_noop", 1)
			if changed || modified || nChange > 0 {
				res.Violate(fmt.Sprintf("C03|modifier-second-application|%s|changed=%v|modified=%v|events=%v", ms.kind, changed, modified, nChange > 0),
					fmt.Sprintf("second application of the same %s modifier changed=%v, modified=%v, change events=%d (%s)", ms.kind, changed, modified, nChange, ms.desc), witness(x))
			}
		}
		if changed || nChange > 0 {
			changedAny = true
		}
	}
	return changedAny
}

func (p *c03) mods(res *fw.Result, r *fw.Rand, c fw.Case) {
	long := r.Chance(0.3)
	o := gen.ScenOpts{QueryGroups: true, MaxNodes: 1}
	scen := gen.Scen(r, o)
	scen.Resumes = nil
	rn, err := drive.Load(scen, c.Seed)
	if err != nil {
		res.Discarded = "unloadable: " + errClass(err.Error())
		return
	}
	cj, _ := json.Marshal(scen.Trigger["contact"])
	contact, err := flows.ReadContact(rn.SA, cj, func(assets.Reference, error) {})
	if err != nil {
		res.Discarded = "unreadable contact: " + errClass(err.Error())
		return
	}
	// the environment the modifiers are applied in varies with the case (time zones with and without whole-hour offsets,
	// date formats, with and without a location resolver)
	p.modEnv = gen.Env(r.Fork("modenv"))
	defer func() { p.modEnv = nil }()
	mods := p.genMods(r, rn.SA, scen.Assets, 12, long)
	var descs []string
	for _, m := range mods {
		descs = append(descs, m.desc)
	}
	res.Fingerprint = string(cj) + "|" + strings.Join(descs, ";")
	for _, ms := range mods {
		if p.applyAndCheck(res, rn.Src, rn.Eng, rn.SA, contact, ms, func(extra map[string]any) any {
			extra["assets"] = scen.Assets
			extra["all_modifiers_in_order"] = descs
			extra["start_contact"] = json.RawMessage(cj)
			return extra
		}) {
			res.NonTrivial = true
		}
	}
	if res.NonTrivial {
		res.Sample = map[string]any{"kind": "modifiers", "contact": json.RawMessage(cj), "modifiers": descs}
	}
}

func (p *c03) directedMods(res *fw.Result, c fw.Case) {
	d := dsl
	scen := &gen.Scenario{Assets: d.BaseAssets(d.Flow("A", "messaging")), Trigger: d.Manual("A", nil)}
	rn, err := drive.Load(scen, c.Seed)
	if err != nil {
		res.Discarded = "unloadable: " + err.Error()
		return
	}
	res.Fingerprint = "directed:" + c.Directed
	sa := rn.SA
	mk := func(mutate func(gen.M)) *flows.Contact {
		cm := d.Contact()
		if mutate != nil {
			mutate(cm)
		}
		cj, _ := json.Marshal(cm)
		ct, err := flows.ReadContact(sa, cj, func(assets.Reference, error) {})
		if err != nil {
			panic("directed contact unreadable: " + err.Error())
		}
		return ct
	}
	wit := func(extra map[string]any) any { extra["case"] = c.Directed; return extra }
	group := func(name string) *flows.Group { return sa.Groups().FindByName(name) }
	var list []struct {
		c *flows.Contact
		m modSpec
	}
	add := func(ct *flows.Contact, kind, desc string, m flows.Modifier) {
		list = append(list, struct {
			c *flows.Contact
			m modSpec
		}{ct, modSpec{kind, desc, m}})
	}
	switch c.Directed {
	case "urns-modifiers":
		add(mk(nil), "urns", "append new+present", modifiers.NewURNs([]urns.URN{"tel:+12065559999", "tel:+12065551212"}, modifiers.URNsAppend))
		add(mk(nil), "urns", "append present+new", modifiers.NewURNs([]urns.URN{"tel:+12065551212", "tel:+12065559999"}, modifiers.URNsAppend))
		add(mk(nil), "urns", "set same list", modifiers.NewURNs([]urns.URN{"tel:+12065551212", "twitterid:54784326227#nyaruka"}, modifiers.URNsSet))
		add(mk(nil), "urns", "set empty", modifiers.NewURNs(nil, modifiers.URNsSet))
		add(mk(nil), "urns", "remove present+absent", modifiers.NewURNs([]urns.URN{"tel:+12065551212", "tel:+12065550000"}, modifiers.URNsRemove))
		add(mk(nil), "urns", "remove absent+present", modifiers.NewURNs([]urns.URN{"tel:+12065550000", "tel:+12065551212"}, modifiers.URNsRemove))
		add(mk(nil), "urns", "append duplicates", modifiers.NewURNs([]urns.URN{"tel:+12065558888", "tel:+12065558888"}, modifiers.URNsAppend))
		add(mk(nil), "urns", "append invalid+valid", modifiers.NewURNs([]urns.URN{"xyz:bogus", "tel:+12065557777"}, modifiers.URNsAppend))
		add(mk(nil), "urns", "append normalisable", modifiers.NewURNs([]urns.URN{"tel:+1 206 555 1212"}, modifiers.URNsAppend))
		add(mk(nil), "urns", "set reordered", modifiers.NewURNs([]urns.URN{"twitterid:54784326227#nyaruka", "tel:+12065551212"}, modifiers.URNsSet))
	case "name-truncate":
		add(mk(nil), "name", "name 700 runes", modifiers.NewName(gen.LongString(700, 639)))
		add(mk(nil), "name", "name same", modifiers.NewName("Bob Smith"))
		add(mk(nil), "name", "name empty", modifiers.NewName(""))
	case "archived-add-group":
		for _, st := range []string{"archived", "blocked", "stopped"} {
			ct := mk(func(m gen.M) { m["status"] = st; m["groups"] = []gen.M{} })
			add(ct, "groups", "add static to "+st, modifiers.NewGroups([]*flows.Group{group("Customers")}, modifiers.GroupsAdd))
		}
		add(mk(nil), "groups", "add present+new", modifiers.NewGroups([]*flows.Group{group("Testers"), group("Customers")}, modifiers.GroupsAdd))
		add(mk(nil), "groups", "add query group", modifiers.NewGroups([]*flows.Group{group("Adults")}, modifiers.GroupsAdd))
		add(mk(nil), "groups", "remove absent", modifiers.NewGroups([]*flows.Group{group("Customers")}, modifiers.GroupsRemove))
		add(mk(nil), "status", "archive contact in groups", modifiers.NewStatus(flows.ContactStatusArchived))
	case "each-modifier-twice":
		kigali, _ := time.LoadLocation("Africa/Kigali")
		add(mk(nil), "name", "name", modifiers.NewName("Robert"))
		add(mk(nil), "language", "language", modifiers.NewLanguage("spa"))
		add(mk(nil), "language", "language clear", modifiers.NewLanguage(""))
		add(mk(nil), "status", "status", modifiers.NewStatus(flows.ContactStatusBlocked))
		add(mk(nil), "timezone", "timezone", modifiers.NewTimezone(kigali))
		add(mk(nil), "timezone", "timezone clear", modifiers.NewTimezone(nil))
		add(mk(nil), "field", "field age flips Adults", modifiers.NewField(sa.Fields().Get("age"), "12"))
		add(mk(nil), "field", "field clear", modifiers.NewField(sa.Fields().Get("age"), ""))
		add(mk(nil), "field", "field same", modifiers.NewField(sa.Fields().Get("age"), "23"))
		add(mk(nil), "field", "field state", modifiers.NewField(sa.Fields().Get("state"), "Kigali"))
		add(mk(nil), "field", "field long", modifiers.NewField(sa.Fields().Get("nick"), gen.LongString(700, 639)))
		add(mk(nil), "field", "field blank on unset text field", modifiers.NewField(sa.Fields().Get("nick"), "  "))
		add(mk(nil), "field", "field blank on set text field", modifiers.NewField(sa.Fields().Get("gender"), " \t "))
		add(mk(nil), "field", "field blank on set number field", modifiers.NewField(sa.Fields().Get("age"), " "))
		add(mk(nil), "name", "name blank", modifiers.NewName("  "))
		add(mk(nil), "channel", "channel", modifiers.NewChannel(allChannels(sa, scen.Assets)[0]))
		add(mk(nil), "channel", "channel nil", modifiers.NewChannel(nil))
		add(mk(nil), "ticket", "ticket", modifiers.NewTicket(allTopics(sa, scen.Assets)[0], allUsers(sa, scen.Assets)[0], "note"))
		add(mk(nil), "groups", "groups add", modifiers.NewGroups([]*flows.Group{group("Customers")}, modifiers.GroupsAdd))
		add(mk(nil), "groups", "groups remove", modifiers.NewGroups([]*flows.Group{group("Testers")}, modifiers.GroupsRemove))
		add(mk(nil), "urns", "urns append", modifiers.NewURNs([]urns.URN{"tel:+12065559999"}, modifiers.URNsAppend))
	}
	for _, it := range list {
		if p.applyAndCheck(res, rn.Src, rn.Eng, sa, it.c, it.m, wit) {
			res.NonTrivial = true
		}
	}
	res.NonTrivial = true
	res.Sample = map[string]any{"kind": "directed modifiers", "case": c.Directed, "n": len(list)}
}
