package props

import (
	"bytes"
	"fmt"
	"strings"

	"verif/internal/drive"
	"verif/internal/fw"
	"verif/internal/gen"
)

// C02 — persisting a session between waits is transparent.
// Differential monitor: the same history is executed under different *restart masks* (at which waits the
// live session object is replaced by ReadSession(marshal(session))) from identical sources; per-sprint
// events, segments and session JSON must be byte-equal. Plus the marshal/read/marshal fixed point.

type c02 struct{ scenBase }

func init() {
	fw.Register(&c02{scenBase{id: "C02", quickN: 4000, thorN: 60000, batchQ: 250, batchT: 500}})
}

func (p *c02) Rule() string {
	return "case = one generated scenario (templates never reference @webhook/@legacy_extra; batch triggers, flow_action triggers with parent summaries, sub-flows, results, inputs, URN channel affinity, custom number formats, nanosecond clock values) executed under restart mask 0..0 (reference), 1..1 and seeded random masks (quick: 3) or all 2^k masks for k<=6 waits (thorough); at every wait and at the end marshal(read(marshal(s)))==marshal(s). Non-trivial = >=1 wait and >=1 restart in some mask; distinct = SHA of the scenario."
}

func (p *c02) Directed() []string {
	return []string{"parent-refs-after-wait", "subflow-waiting-parent-paused", "results-overwritten", "webhook-result-then-wait", "batch-open-ticket-after-wait", "batch-start-session-after-wait", "missing-child-flow-on-reread", "msg-trigger-input-after-wait", "environment-refreshed-on-resume", "contact-refreshed-on-resume", "trigger-params-default-key", "datetime-field-dst-arithmetic", "date-only-field-time-fill", "long-path-visit-count", "dial-waits-resume-limit", "long-localized-category", "stale-references-every-action",
		"trigger-history-manual-1-start-session-after-wait", "trigger-history-manual-5-start-session-after-wait", "trigger-history-msg-1-start-session-after-wait", "trigger-history-msg-5-start-session-after-wait",
		"msg-without-uuid", "nul-in-text-kept-as-result", "refused-resume-with-contact-refresh", "refused-resume-with-environment"}
}

// histories of up to 120 resumes are executed under several restart masks, each call with a marshal / read / marshal round
func (p *c02) CaseTimeoutS() int { return 400 }

func (p *c02) Floors(tier string) []string {
	return []string{"clause.fixed_point", "clause.mask_equal_sprints", "seen.restarts", "seen.subflow_restart", "seen.flow_action_trigger_restart", "seen.results_restart", "seen.batch_restart", "masks_run", "clause.refused_resume_then_continue"}
}

func (p *c02) directed(name string) *gen.Scenario {
	if s := p.directedVariant(name); s != nil {
		return s
	}
	d := dsl
	act := d.Action
	switch name {
	case "parent-refs-after-wait":
		t := d.Manual("A", nil)
		t["type"] = "flow_action"
		pc := d.Contact()
		pc["uuid"] = gen.NamedUUID("contact:parent")
		pc["name"] = "Parent Jim"
		t["run_summary"] = gen.M{"uuid": gen.NamedUUID("run:parent"), "flow": gen.M{"uuid": gen.NamedUUID("flow:P"), "name": "Parent"}, "contact": pc, "status": "active",
			"results": gen.M{"role": gen.M{"name": "Role", "value": "reporter", "category": "Reporter", "node_uuid": gen.NamedUUID("node:p1"), "input": "a reporter", "created_on": "2000-01-01T00:00:00Z"}}}
		return &gen.Scenario{Assets: d.BaseAssets(d.Flow("A", "messaging", d.WaitNode("a1", "a2", nil), d.Node("a2", []any{d.SendMsg("m", "@parent.results.role @parent.contact.name @parent.uuid @(json(parent.results)) @parent.contact.urns @parent.fields")}, nil, d.Exit("a2x", "a3")), d.WaitNode("a3", "a2", nil))),
			Trigger: t, Resumes: []gen.M{d.MsgResume(0, "x"), d.MsgResume(1, "y"), d.MsgResume(2, "z")}}
	case "subflow-waiting-parent-paused":
		return findDirected(engineDirected(), "subflow-wait-parent-wait")
	case "trigger-history-manual-1-start-session-after-wait", "trigger-history-manual-5-start-session-after-wait", "trigger-history-msg-1-start-session-after-wait", "trigger-history-msg-5-start-session-after-wait":
		return findDirected(engineDirected(), name)
	case "results-overwritten":
		return &gen.Scenario{Assets: d.BaseAssets(d.Flow("A", "messaging",
			d.Node("a0", []any{act("r0", "set_run_result", gen.M{"name": "Color", "value": "red", "category": "Red"})}, nil, d.Exit("a0x", "a1")),
			d.WaitNode("a1", "a2", nil),
			d.Node("a2", []any{act("r1", "set_run_result", gen.M{"name": "Color", "value": "@input.text", "category": "Blue"}), d.SendMsg("m", "@results @results.color.category_localized @(json(results.color)) @run.results.color.created_on")}, nil, d.Exit("a2x", "a1")))),
			Trigger: d.Manual("A", nil), Resumes: []gen.M{d.MsgResume(0, "blue"), d.MsgResume(1, "green"), d.MsgResume(2, "blue")}}
	case "webhook-result-then-wait":
		return &gen.Scenario{Assets: d.BaseAssets(d.Flow("A", "messaging",
			d.Node("a0", []any{act("w", "call_webhook", gen.M{"method": "GET", "url": "http://localhost/?cmd=success", "result_name": "webhook"})}, nil, d.Exit("a0x", "a1")),
			d.WaitNode("a1", "a2", nil),
			d.Node("a2", []any{d.SendMsg("m", "@results.webhook.category @results.webhook.extra.results @(json(results.webhook.extra))"), act("w2", "call_webhook", gen.M{"method": "POST", "url": "http://localhost/?cmd=badjson", "result_name": "Other"})}, nil, d.Exit("a2x", "a1")))),
			Trigger: d.Manual("A", nil), Resumes: []gen.M{d.MsgResume(0, "x"), d.MsgResume(1, "y")}}
	case "batch-open-ticket-after-wait", "batch-start-session-after-wait":
		t := d.Manual("A", nil)
		t["batch"] = true
		a := act("o", "open_ticket", gen.M{"topic": gen.M{"uuid": gen.NamedUUID("topic:weather"), "name": "Weather"}, "body": "help", "result_name": "Ticket"})
		if name == "batch-start-session-after-wait" {
			a = act("s", "start_session", gen.M{"flow": gen.M{"uuid": gen.NamedUUID("flow:A"), "name": "A"}, "groups": []gen.M{{"uuid": gen.NamedUUID("group:testers"), "name": "Testers"}}, "exclusions": gen.M{}})
		}
		return &gen.Scenario{Assets: d.BaseAssets(d.Flow("A", "messaging", d.WaitNode("a1", "a2", nil), d.Node("a2", []any{a, d.SendMsg("m", "@results")}, nil, d.Exit("a2x", "a3")), d.WaitNode("a3", "", nil))),
			Trigger: t, Resumes: []gen.M{d.MsgResume(0, "x"), d.MsgResume(1, "y")}}
	case "missing-child-flow-on-reread":
		return &gen.Scenario{Assets: d.BaseAssets(
			d.Flow("A", "messaging", d.Node("a1", []any{d.Enter("e", "Gone", false)}, nil, d.Exit("a1x", "a2")), d.WaitNode("a2", "", nil)),
			d.Flow("B", "messaging", d.WaitNode("b1", "", nil))),
			Trigger: d.Manual("A", nil), Resumes: []gen.M{d.MsgResume(0, "x")}}
	case "environment-refreshed-on-resume", "contact-refreshed-on-resume":
		txt := "@(format_datetime(contact.created_on)) @(format_number(1234.5)) @fields.joined @(format_date(\"2018-03-04T00:00:00Z\")) @contact.name @contact.language @fields.age @contact.groups @urns"
		var rs []gen.M
		envs := []gen.M{
			{"date_format": "DD-MM-YYYY", "time_format": "h:mm aa", "timezone": "America/New_York", "allowed_languages": []string{"spa", "eng"}, "number_format": gen.M{"decimal_symbol": ",", "digit_grouping_symbol": "."}},
			{"date_format": "MM-DD-YYYY", "time_format": "tt:mm:ss", "timezone": "Asia/Kolkata", "allowed_languages": []string{"fra"}},
			{"date_format": "YYYY-MM-DD", "time_format": "tt:mm", "timezone": "UTC"},
		}
		for i := 0; i < 4; i++ {
			m := d.MsgResume(i, fmt.Sprint("m", i))
			if name == "environment-refreshed-on-resume" {
				if i != 2 {
					m["environment"] = envs[i%3]
				}
			} else if i != 1 {
				nc := d.Contact()
				nc["name"] = fmt.Sprint("Refreshed ", i)
				nc["language"] = []string{"spa", "fra", "eng", "kin"}[i]
				nc["fields"] = gen.M{"age": gen.M{"text": fmt.Sprint(10 + i*10), "number": 10 + i*10}, "joined": gen.M{"text": "2018-01-02T03:04:05Z", "datetime": "2018-01-02T03:04:05Z"}}
				nc["urns"] = []string{fmt.Sprintf("tel:+1206555%04d", i)}
				m["contact"] = nc
			}
			rs = append(rs, m)
		}
		ct := d.Contact()
		ct["fields"].(gen.M)["joined"] = gen.M{"text": "2017-12-31T23:30:00Z", "datetime": "2017-12-31T23:30:00Z"}
		return &gen.Scenario{Assets: d.BaseAssets(d.Flow("A", "messaging", d.Node("a0", []any{d.SendMsg("m0", txt)}, nil, d.Exit("a0x", "a1")), d.WaitNode("a1", "a2", nil), d.Node("a2", []any{d.SendMsg("m", txt), act("r", "set_run_result", gen.M{"name": "Snap", "value": txt})}, nil, d.Exit("a2x", "a1")))),
			Trigger: d.Manual("A", ct), Resumes: rs}
	case "trigger-params-default-key":
		t := d.Manual("A", nil)
		t["params"] = gen.M{"__default__": "dflt", "a": 1, "nested": gen.M{"__default__": gen.M{"x": 1}, "b": "two"}, "list": []any{gen.M{"__default__": 5}}}
		txt := "@trigger.params @(json(trigger.params)) @trigger.params.a @trigger.params.nested @(json(trigger.params.nested)) @(trigger.params.list[0]) @(count(trigger.params))"
		return &gen.Scenario{Assets: d.BaseAssets(d.Flow("A", "messaging", d.Node("a0", []any{d.SendMsg("m0", txt)}, nil, d.Exit("a0x", "a1")), d.WaitNode("a1", "a2", nil), d.Node("a2", []any{d.SendMsg("m", txt)}, nil, d.Exit("a2x", "a1")))),
			Trigger: t, Resumes: []gen.M{d.MsgResume(0, "x"), d.MsgResume(1, "y")}}
	case "datetime-field-dst-arithmetic", "date-only-field-time-fill":
		t := d.Manual("A", nil)
		t["environment"].(gen.M)["timezone"] = "America/New_York"
		val := "2018-03-10T23:30:00-05:00"
		if name == "date-only-field-time-fill" {
			val = "2018-03-10"
		}
		txt := "@fields.joined @(datetime_add(fields.joined, 1, \"D\")) @(datetime_add(fields.joined, 1, \"M\")) @(datetime_add(fields.joined, 24, \"h\")) @(format_datetime(fields.joined, \"YYYY-MM-DD tt:mm:ss.fffffffff ZZZ\")) @(epoch(fields.joined)) @(tz(fields.joined)) @(tz_offset(fields.joined)) @(format_datetime(datetime_add(fields.joined, 8, \"M\"))) @(datetime_diff(fields.joined, contact.created_on, \"s\"))"
		return &gen.Scenario{Assets: d.BaseAssets(d.Flow("A", "messaging",
			d.Node("a0", []any{act("f", "set_contact_field", gen.M{"field": gen.M{"key": "joined", "name": "Joined"}, "value": val}), d.SendMsg("m0", txt)}, nil, d.Exit("a0x", "a1")),
			d.WaitNode("a1", "a2", nil), d.Node("a2", []any{d.SendMsg("m", txt), act("r", "set_run_result", gen.M{"name": "When", "value": "@(datetime_add(fields.joined, 1, \"M\"))"})}, nil, d.Exit("a2x", "a1")))),
			Trigger: t, Resumes: []gen.M{d.MsgResume(0, "x"), d.MsgResume(1, "y")}}
	case "long-path-visit-count":
		// a retry loop long enough for a run's path to exceed 100 steps over several sprints
		var rs []gen.M
		for i := 0; i < 60; i++ {
			rs = append(rs, d.MsgResume(i%25, fmt.Sprint("wrong ", i)))
		}
		return &gen.Scenario{Assets: d.BaseAssets(d.Flow("A", "messaging", d.WaitNode("a1", "a2", nil), d.Node("a2", []any{d.SendMsg("m", "Attempt @node.visit_count @(count(run.path)) @run.path")}, nil, d.Exit("a2x", "a1")))),
			Trigger: d.Manual("A", nil), Resumes: rs}
	case "dial-waits-resume-limit":
		dc := d.Cat("Any", "v1any")
		var rs []gen.M
		for i := 0; i < 12; i++ {
			rs = append(rs, d.Dial(i, []string{"answered", "busy", "no_answer", "failed"}[i%4]))
		}
		t := d.Manual("V", nil)
		t["call"] = gen.M{"uuid": gen.NamedUUID("call"), "channel": gen.M{"uuid": gen.NamedUUID("chan:android"), "name": "Android"}, "urn": "tel:+12065551212"}
		return &gen.Scenario{Assets: d.BaseAssets(d.Flow("V", "voice", d.Node("v1", []any{d.Action("v1s", "say_msg", gen.M{"text": "dialing @node.visit_count"})}, d.Switch("@resume.dial.status", []gen.M{dc}, dc, nil, gen.M{"type": "dial", "phone": "+12065551212"}, "Dial"), d.Exit("v1any", "v1")))),
			Trigger: t, Resumes: rs, Options: gen.Options{Set: true, MaxSteps: 100, MaxResumes: 10, MaxTemplateChars: 10000, MaxFieldChars: 640, MaxResultChars: 640}}
	case "long-localized-category":
		cat := d.Cat("Yes", "r1yes")
		f := d.Flow("A", "messaging", d.Node("r1", nil, d.Switch("@input.text", []gen.M{cat}, cat, nil, gen.M{"type": "msg"}, "Join"), d.Exit("r1yes", "a2")), d.Node("a2", []any{act("r", "set_run_result", gen.M{"name": "Other", "value": "x", "category": "Short"}), d.SendMsg("m", "@results")}, nil, d.Exit("a2x", "r1")))
		f["localization"] = gen.M{"spa": gen.M{cat["uuid"].(string): gen.M{"name": []string{"Una categoría con un nombre muy muy largo de verdad, más de treinta y seis"}}, gen.NamedUUID("action:r"): gen.M{"category": []string{"línea uno\nlínea dos"}}}}
		ct := d.Contact()
		ct["language"] = "spa"
		return &gen.Scenario{Assets: d.BaseAssets(f), Trigger: d.Manual("A", ct), Resumes: []gen.M{d.MsgResume(0, "x"), d.MsgResume(1, "y")}}
	case "stale-references-every-action":
		// every action that holds a reference to an asset, each with the name of an existing asset under a UUID the assets do
		// not have (a flow imported from another workspace); whatever they record must survive a re-read
		stale := func(kind, name string) gen.M { return gen.M{"uuid": gen.NamedUUID("stale:" + kind), "name": name} }
		as := d.BaseAssets(d.Flow("A", "messaging", d.Node("a1", []any{
			act("s1", "request_optin", gen.M{"optin": stale("optin", "Jokes")}),
			act("s2", "open_ticket", gen.M{"topic": stale("topic", "Weather"), "body": "help", "result_name": "Ticket"}),
			act("s3", "call_classifier", gen.M{"classifier": stale("classifier", "Booking"), "input": "@input.text", "result_name": "Intent"}),
			act("s4", "set_contact_channel", gen.M{"channel": stale("channel", "Android")}),
			act("s5", "add_contact_groups", gen.M{"groups": []gen.M{stale("group", "Customers")}}),
			act("s6", "remove_contact_groups", gen.M{"groups": []gen.M{stale("group2", "Testers")}}),
			act("s7", "add_input_labels", gen.M{"labels": []gen.M{stale("label", "Spam")}}),
			act("s8", "send_broadcast", gen.M{"text": "hi", "groups": []gen.M{stale("group3", "Testers")}}),
			act("s9", "start_session", gen.M{"flow": stale("flow", "A"), "groups": []gen.M{stale("group4", "Customers")}, "exclusions": gen.M{}}),
			act("s10", "enter_flow", gen.M{"flow": stale("flow2", "A")}),
			d.SendMsg("m", "after @results"),
		}, nil, d.Exit("a1x", "a2")), d.WaitNode("a2", "a1", nil)))
		as["channels"] = append(as["channels"].([]gen.M), gen.M{"uuid": gen.NamedUUID("chan:fb"), "name": "Facebook", "address": "2353263", "schemes": []string{"facebook"}, "roles": []string{"send", "receive"}, "features": []string{"optins"}})
		ct := d.Contact()
		ct["urns"] = []string{"facebook:1122334455", "tel:+12065551212"}
		return &gen.Scenario{Assets: as, Trigger: d.MsgTrigger("A", ct, "hello"), Resumes: []gen.M{d.MsgResume(0, "x"), d.MsgResume(1, "y")}}
	case "msg-trigger-input-after-wait":
		return &gen.Scenario{Assets: d.BaseAssets(d.Flow("A", "messaging", d.Node("a0", []any{d.SendMsg("m0", "@input @input.urn @input.channel")}, nil, d.Exit("a0x", "a1")), d.WaitNode("a1", "a2", sp("a2")), d.Node("a2", []any{d.SendMsg("m", "@input @input.text @input.created_on @(json(input)) @trigger.keyword @resume.type")}, nil, d.Exit("a2x", "a1")))),
			Trigger: d.MsgTrigger("A", nil, "start now"), Resumes: []gen.M{d.MsgResume(0, "x"), d.Timeout(1), d.MsgResume(2, "z")}}
	}
	return nil
}

type c02sprint struct {
	events, segments, session string
	err                       string
}

// execute runs the scenario under one restart mask (bit i set = restart after the i-th engine call if the session is waiting).
func (p *c02) execute(res *fw.Result, scen *gen.Scenario, seed int64, mask uint64, reference bool, viol func(sig, what string, extra map[string]any)) (out []c02sprint, waits int, restarts int, loadErr error) {
	rn, err := drive.Load(scen, seed)
	if err != nil {
		return nil, 0, 0, err
	}
	call := 0
	refused := c02RefusedProbes(scen)
	var lastStored []byte // what a restarting host has: the JSON handed back by the last successful call
	rn.RunAll(func(rec *drive.CallRecord) {
		if reference {
			observeCommon(res, rec)
		}
		if rec.OK() && rec.SessionAfter != nil {
			lastStored = rec.SessionAfter
		} else if rec.Kind == "resume" && rec.Err != nil && rec.Panic == nil && !rec.Budget && refused[call-1] && lastStored != nil && rn.Waiting() {
			// a resume the engine refused: the host that keeps the object alive goes on with it, the restarting host
			// goes on from what it stored
			if reference {
				res.Count("clause.refused_resume_then_continue", 1)
			}
			if mask&(1<<(uint(call)%64)) != 0 {
				if err := rn.RestoreFrom(lastStored); err == nil {
					restarts++
				}
			}
		}
		sp := c02sprint{session: normKnownNondet(string(rec.SessionAfter))}
		sp.events = normKnownNondet(string(bytes.Join(rec.EventsJSON, []byte("\n"))))
		sp.segments = string(bytes.Join(rec.SegmentsJSON, []byte("\n")))
		switch {
		case rec.Kind == "unreadable":
			sp.err = "unreadable trigger/resume"
		case rec.Panic != nil:
			sp.err = "panic: " + fmt.Sprint(rec.Panic)
		case rec.Budget:
			sp.err = "budget"
		case rec.Err != nil:
			sp.err = rec.Err.Error()
		}
		if reference && rec.OK() && rec.SessionAfter != nil {
			// marshal → read → marshal is a fixed point (at every wait and at the end)
			res.Count("clause.fixed_point", 1)
			again, err := rn.Reread(rec.SessionAfter)
			if err != nil {
				viol("C02|reread-fails|"+errClass(err.Error()), "ReadSession of the marshalled session fails: "+trunc(err.Error(), 300), map[string]any{"sprint": call, "session": trunc(string(rec.SessionAfter), 6000)})
			} else if string(again) != string(rec.SessionAfter) {
				path := firstJSONDiff(string(rec.SessionAfter), string(again))
				viol("C02|fixed-point|"+stripIndices(path), "marshal(read(marshal(session))) differs from marshal(session) at "+path, map[string]any{"sprint": call, "session": trunc(string(rec.SessionAfter), 6000), "reread": trunc(string(again), 6000)})
			}
		}
		if rec.OK() && rn.Waiting() {
			if mask&(1<<(uint(call)%64)) != 0 { // histories longer than 64 calls reuse the mask's bits
				if err := rn.Restart(); err != nil {
					sp.err = "restart failed: " + err.Error()
				} else {
					restarts++
				}
			}
			waits++
		}
		out = append(out, sp)
		call++
	})
	return out, waits, restarts, nil
}

func (p *c02) executeFP(res *fw.Result, scen *gen.Scenario, seed int64, viol func(sig, what string, extra map[string]any)) ([]c02sprint, int, int, error) {
	return p.execute(res, scen, seed, 0, true, viol)
}

func (p *c02) Run(c fw.Case) fw.Result {
	res := fw.Result{}
	r := fw.NewRand(c.Seed, "C02", c.Index)
	var scen *gen.Scenario
	if c.Directed != "" {
		scen = p.directed(c.Directed)
	} else {
		o := gen.ScenOpts{NoWebhookCtx: true, Batch: true, MaxNodes: r.Range(2, 7), MaxResumes: 6, LoopHeavy: r.Chance(0.2), ContactChanges: r.Chance(0.4), Localized: r.Chance(0.3), QueryGroups: r.Chance(0.3)}
		if r.Chance(0.4) {
			o.RefreshP, o.EnvSensitive = 0.5, true
		}
		// size classes of what is persisted: small engine limits (so that counted things reach them), texts at and
		// beyond the length limits, and long histories (many resumes through loops: paths of well over 100 steps)
		o.SmallOptions = r.Chance(0.15)
		o.LongTexts = r.Chance(0.12)
		if r.Chance(0.04) {
			o.LoopHeavy, o.MaxResumes, o.Localized, o.History = true, 60, false, true
		}
		if r.Chance(0.08) {
			scen = gen.LoopScen(r) // the long-history family
		} else {
			scen = gen.Scen(r, o)
		}
		c02Variant(scen, r.Fork("variant"), &res)
	}
	res.Fingerprint = scen.Fingerprint()
	return p.runScen(res, scen, c, r)
}

func (p *c02) runScen(res fw.Result, scen *gen.Scenario, c fw.Case, r *fw.Rand) fw.Result {
	viol := func(sig, what string, extra map[string]any) {
		res.Violate(sig, what, witnessOf(scen, extra))
	}
	// reference execution: the session object is kept alive throughout; fixed point checked at every hand-back
	ref, waits, _, err := p.executeFP(&res, scen, c.Seed, viol)
	if err != nil {
		res.Discarded = "unloadable: " + errClass(err.Error())
		return res
	}
	if len(ref) > 0 && strings.HasPrefix(ref[0].err, "unreadable trigger") {
		res.Discarded = "unreadable trigger"
		return res
	}
	if waits == 0 {
		res.Count("scenarios_without_wait", 1)
		return res
	}
	k := waits
	if k > 6 {
		k = 6
	}
	var masks []uint64
	all := ^uint64(0)
	if len(ref) < 64 {
		all = (uint64(1) << uint(len(ref))) - 1
	}
	switch {
	case c.Tier == "thorough" && len(ref) <= 6:
		for m := uint64(1); m <= all; m++ {
			masks = append(masks, m)
		}
	case c.Tier == "thorough":
		// all-ones, one restart only (at each of the first waits), and sampled masks; fewer for long histories (cost ~ calls x masks)
		n := 64
		switch {
		case len(ref) > 60:
			n = 1
		case len(ref) > 24:
			n = 6
		}
		masks = []uint64{all, 1, 2, 4}
		if len(ref) > 60 {
			masks = []uint64{all, 1}
		}
		for i := 0; i < n; i++ {
			masks = append(masks, r.U64()&all)
		}
	default:
		masks = []uint64{all, r.U64() & all, r.U64() & all, 1}
	}
	feat := scenFeatures(scen)
	seen := map[uint64]bool{0: true}
	for _, m := range masks {
		if seen[m] {
			continue
		}
		seen[m] = true
		got, _, restarts, err := p.execute(&res, scen, c.Seed, m, false, viol)
		if err != nil {
			continue
		}
		res.Count("masks_run", 1)
		if restarts == 0 {
			continue
		}
		res.Count("seen.restarts", int64(restarts))
		for f := range feat {
			res.Count("seen."+f+"_restart", 1)
		}
		res.NonTrivial = true
		res.Count("clause.mask_equal_sprints", int64(len(ref)))
		if len(got) != len(ref) {
			viol("C02|mask-differs|number-of-sprints", fmt.Sprintf("restart mask %b: %d engine calls vs %d in the live execution", m, len(got), len(ref)), map[string]any{"mask": m})
			continue
		}
		for i := range ref {
			what, path := "", ""
			switch {
			case got[i].err != ref[i].err:
				what, path = "error", trunc(ref[i].err, 100)+" vs "+trunc(got[i].err, 100)
			case got[i].events != ref[i].events:
				what, path = "events", firstJSONDiff(ref[i].events, got[i].events)
			case got[i].segments != ref[i].segments:
				what, path = "segments", firstJSONDiff(ref[i].segments, got[i].segments)
			case got[i].session != ref[i].session:
				what, path = "session", firstJSONDiff(ref[i].session, got[i].session)
			}
			if what != "" {
				viol("C02|mask-differs|"+what+"|"+stripIndices(path), fmt.Sprintf("restart mask %b: sprint %d %s differ from the live execution at %s", m, i, what, path),
					map[string]any{"mask": m, "sprint": i, "what": what, "live": pick(ref[i], what), "restarted": pick(got[i], what)})
				break
			}
		}
	}
	if res.NonTrivial {
		res.Sample = map[string]any{"graph": graphShape(scen), "trigger": scen.Trigger["type"], "engine_calls": len(ref), "waits": waits, "masks": len(seen) - 1}
	}
	return res
}

func pick(s c02sprint, what string) string {
	switch what {
	case "events":
		return trunc(s.events, 4000)
	case "segments":
		return trunc(s.segments, 2000)
	case "session":
		return trunc(s.session, 6000)
	}
	return s.err
}

// scenFeatures: which hostile details the scenario has (for the coverage floors).
func scenFeatures(scen *gen.Scenario) map[string]bool {
	f := map[string]bool{}
	if scen.Trigger["type"] == "flow_action" {
		f["flow_action_trigger"] = true
	}
	if scen.Trigger["batch"] == true {
		f["batch"] = true
	}
	for _, fl := range scen.Flows() {
		for _, n := range fl["nodes"].([]any) {
			nm := n.(gen.M)
			if acts, ok := nm["actions"].([]any); ok {
				for _, a := range acts {
					switch a.(gen.M)["type"] {
					case "enter_flow":
						f["subflow"] = true
					case "set_run_result":
						f["results"] = true
					}
				}
			}
			if rt, ok := nm["router"].(gen.M); ok {
				if _, ok := rt["result_name"]; ok {
					f["results"] = true
				}
			}
		}
	}
	return f
}
