package props

import (
	"encoding/json"
	"fmt"
	"strings"

	"github.com/nyaruka/goflow/assets"
	"github.com/nyaruka/goflow/flows"
	"github.com/nyaruka/goflow/flows/resumes"

	"verif/internal/fw"
	"verif/internal/gen"
)

// Two input classes for the phase in which all goroutines of a round do the same thing at once, above all in the first,
// process-cold round: (1) every registered function and router test called with *boundary* arguments, not only with
// ordinary ones — what a function returns for "nothing to do" is where a shared, lazily completed value would be handed
// out; (2) resumes that are refused (by the wait, or because the session is not waiting) — the error path of the engine,
// taken by several unrelated sessions at once. The oracle is unchanged: no race report, transcript equal to the solo one.

var c09BoundaryValues = []string{`""`, `"  "`, `"."`, `"?! ,"`, `0`, `null`, `array()`}

// c09SplitCall splits "@(fn(a, b, c))" into the function name and its top-level arguments.
func c09SplitCall(tpl string) (string, []string, bool) {
	if !strings.HasPrefix(tpl, "@(") || !strings.HasSuffix(tpl, "))") {
		return "", nil, false
	}
	body := tpl[2 : len(tpl)-1] // fn(a, b, c)
	open := strings.Index(body, "(")
	if open <= 0 {
		return "", nil, false
	}
	fn, inner := body[:open], body[open+1:len(body)-1]
	var args []string
	depth, inStr, startAt := 0, false, 0
	for i := 0; i < len(inner); i++ {
		c := inner[i]
		switch {
		case inStr:
			if c == '\\' {
				i++
			} else if c == '"' {
				inStr = false
			}
		case c == '"':
			inStr = true
		case c == '(':
			depth++
		case c == ')':
			depth--
		case c == ',' && depth == 0:
			args = append(args, strings.TrimSpace(inner[startAt:i]))
			startAt = i + 1
		}
	}
	if strings.TrimSpace(inner[startAt:]) != "" {
		args = append(args, strings.TrimSpace(inner[startAt:]))
	}
	return fn, args, true
}

// c09BoundaryCalls derives, from the ordinary calls of every function (gen.CallsOfEveryFunction), calls of the same
// functions in the same arities whose arguments are boundary values: every argument the empty text, one mixed tuple, and
// one ordinary first argument followed by boundary values. Functions that take a function keep an ordinary one in that place half of the time.
func c09BoundaryCalls(calls []string) []string {
	r := fw.NewRand(int64(len(calls)), "C09boundary", 0)
	seen := map[string]bool{}
	var out []string
	for _, c := range calls {
		fn, args, ok := c09SplitCall(c)
		if !ok || len(args) == 0 {
			continue
		}
		key := fmt.Sprint(fn, "/", len(args))
		if seen[key] {
			continue
		}
		seen[key] = true
		call := func(pick func(i int) string) {
			as := make([]string, len(args))
			for i := range as {
				as[i] = pick(i)
				if (fn == "foreach" || fn == "foreach_value" || fn == "filter") && i == 1 && r.Bool() {
					as[i] = args[i]
				}
			}
			out = append(out, "@("+fn+"("+strings.Join(as, ", ")+"))")
		}
		call(func(int) string { return `""` })
		call(func(int) string { return fw.Pick(r, c09BoundaryValues) })
		// one ordinary first argument with boundary values after it (a text searched for nothing, a list joined by nothing)
		if len(args) > 1 {
			call(func(i int) string {
				if i == 0 {
					return args[0]
				}
				return fw.Pick(r, c09BoundaryValues)
			})
		}
	}
	return out
}

// c09EvalGuarded evaluates one template; a panic is part of the outcome (it is compared with the solo run like any other).
func c09EvalGuarded(run flows.Run, tpl string) (out []string) {
	defer func() {
		if rec := recover(); rec != nil {
			out = []string{"PANIC", fmt.Sprint(rec)}
		}
	}()
	var evs []flows.Event
	v, ok := run.EvaluateTemplate(tpl, func(e flows.Event) { evs = append(evs, e) })
	return []string{v, fmt.Sprint(ok), string(marshalJSON(evs))}
}

var c09RefusableResumes = func() [][]byte {
	var out [][]byte
	for _, m := range []gen.M{dsl.Timeout(7), dsl.Dial(7, "answered"), dsl.MsgResume(7, "hello")} {
		b, _ := json.Marshal(m)
		out = append(out, b)
	}
	return out
}()

// c09RejectedResumes tries a wait_timeout, a dial and a msg resume, each on its own copy of the session (read back from its
// JSON), and records what became of it: the error (type and text) and the copy's JSON after a refusal, the events when the
// resume was accepted. Which of them are refused depends on the wait the session is at (a msg wait without timeout refuses
// the first two, a dial wait the first and the last, a session that is not waiting all three).
func c09RejectedResumes(sh *c09shared, session flows.Session, emit func(string, any)) {
	missing := func(assets.Reference, error) {}
	b, _ := json.Marshal(session)
	for _, rj := range c09RefusableResumes {
		s2, err := sh.eng.ReadSession(sh.sa, b, missing)
		if err != nil {
			emit("refused_read_error", err.Error())
			return
		}
		rs, err := resumes.ReadResume(sh.sa, rj, missing)
		if err != nil {
			emit("refused_resume_read_error", err.Error())
			continue
		}
		sprint, err := s2.Resume(rs)
		if err != nil {
			emit("refused", fmt.Sprintf("%T %s", err, err.Error()))
			emit("refused_session", s2)
		} else {
			emit("not_refused", sprint.Events())
		}
	}
}
