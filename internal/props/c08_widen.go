package props

import (
	"bytes"
	"fmt"
	"strings"

	"verif/internal/drive"
	"verif/internal/fw"
	"verif/internal/gen"
)

// Input classes and one history shape added to C08 after seeded changes it had missed:
//
//   - objects of every size from 2 to 40 properties (trigger params, parse_json) with groups of keys that differ only by
//     case, looked up by a spelling that is none of the keys (an implementation may treat "big" objects differently);
//   - flows whose inspection reports many issues (up to ~40), several of one type on one node (several missing groups in
//     one action, several missing fields in one text), of all three issue types;
//   - fixed recipient lists of every length from 0 to 9 next to legacy vars that resolve to the session's own contact / URN;
//   - history: the outputs of an execution are serialised a second time after a session for ANOTHER contact has run over
//     the same session assets and engine (a host keeps assets for many contacts and may serialise late). The bytes must
//     be those serialised at once: what an execution produced does not depend on what else the process ran since.

var c08Stems = []string{"status", "reference", "code", "name", "type", "amount", "region", "token"}

// c08Casings: spellings of a stem that differ only by case.
func c08Casings(stem string) []string {
	alt := []byte(stem)
	for i := range alt {
		if i%2 == 1 {
			alt[i] = alt[i] - 'a' + 'A'
		}
	}
	return []string{strings.ToUpper(stem[:1]) + stem[1:], strings.ToUpper(stem), stem, string(alt), stem[:len(stem)-1] + strings.ToUpper(stem[len(stem)-1:])}
}

// c08BigObject builds an object of n properties in which `clusters` groups of 2-3 keys differ only by case, and returns it
// with the names to look up: for every cluster a spelling that is none of its keys, plus one unambiguous key in another case.
func c08BigObject(r *fw.Rand, n, clusters int) (gen.M, []string) {
	obj := gen.M{}
	var lookups []string
	stems := append([]string{}, c08Stems...)
	fw.Shuffle(r, stems)
	for c := 0; c < clusters && c < len(stems)-1 && len(obj)+2 <= n; c++ {
		cs := c08Casings(stems[c])
		fw.Shuffle(r, cs)
		k := 2
		if r.Chance(0.4) && len(obj)+3 <= n {
			k = 3
		}
		for i := 0; i < k; i++ {
			obj[cs[i]] = fmt.Sprintf("%s as %s", stems[c], cs[i])
		}
		lookups = append(lookups, cs[k]) // a spelling that is not a key
	}
	if len(obj) < n {
		last := stems[len(stems)-1]
		obj[strings.ToUpper(last[:1])+last[1:]] = "only " + last
		lookups = append(lookups, last)
	}
	for i := 0; len(obj) < n; i++ {
		obj[fmt.Sprintf("attr_%02d", i)] = fmt.Sprintf("value %d", i)
	}
	return obj, lookups
}

// c08ObjectSize: sizes on both sides of every small power of two and beyond.
func c08ObjectSize(r *fw.Rand) int {
	if r.Chance(0.5) {
		return fw.Pick(r, []int{3, 4, 7, 8, 9, 15, 16, 17, 18, 31, 32, 33, 40})
	}
	return r.Range(2, 40)
}

func c08ExprString(obj gen.M) string {
	return strings.ReplaceAll(string(marshalJSON(obj)), `"`, `\"`)
}

// c08CaseTemplates: templates built for the case (a pure function of seed and index) that are evaluated on the final
// context of every execution: lookups by inexact names in objects of several sizes, and every trigger param looked up by
// its lower- and upper-cased name.
func c08CaseTemplates(seed int64, index int, scen *gen.Scenario) []string {
	r := fw.NewRand(seed, "C08/case-templates", index)
	var out []string
	for i := 0; i < 3; i++ {
		n := c08ObjectSize(r)
		if i == 0 && n <= 16 {
			n += 16
		}
		obj, lookups := c08BigObject(r, n, r.Range(1, 3))
		js := c08ExprString(obj)
		for _, l := range lookups {
			out = append(out, fmt.Sprintf(`@(parse_json("%s").%s)`, js, l))
		}
		if i == 0 {
			out = append(out, fmt.Sprintf(`@(parse_json("%s")["%s"])`, js, strings.ToUpper(lookups[0])), fmt.Sprintf(`@(json(parse_json("%s")))`, js))
		}
	}
	if params, ok := scen.Trigger["params"].(gen.M); ok {
		seen := map[string]bool{}
		for _, k := range sortedKeys(params) {
			for _, l := range []string{strings.ToLower(k), strings.ToUpper(k)} {
				if _, exact := params[l]; !exact && !seen[l] && c08IsName(l) {
					seen[l] = true
					out = append(out, "@trigger.params."+l)
				}
			}
		}
	}
	return out
}

func c08IsName(s string) bool {
	if s == "" || (s[0] >= '0' && s[0] <= '9') {
		return false
	}
	for _, c := range s {
		if !(c >= 'a' && c <= 'z' || c >= 'A' && c <= 'Z' || c >= '0' && c <= '9' || c == '_') {
			return false
		}
	}
	return true
}

func sortedKeys(m gen.M) []string {
	ks := make([]string, 0, len(m))
	for k := range m {
		ks = append(ks, k)
	}
	// insertion sort: tiny inputs, no dependency on anything under test
	for i := 1; i < len(ks); i++ {
		for j := i; j > 0 && ks[j] < ks[j-1]; j-- {
			ks[j], ks[j-1] = ks[j-1], ks[j]
		}
	}
	return ks
}

// c08ManyIssueActions: actions that give their node `groups` + `rmGroups` missing-group issues (several per action),
// `fields` missing-field issues in one text and, if flowRef != nil, a legacy-vars issue with `ssGroups` more missing groups.
func c08ManyIssueActions(tag string, groups, fields, rmGroups, ssGroups int, flowRef gen.M) []any {
	gone := func(kind string, n int) []gen.M {
		var out []gen.M
		for i := 0; i < n; i++ {
			out = append(out, gen.M{"uuid": gen.NamedUUID(fmt.Sprintf("c08:%s:%s:%d", tag, kind, i)), "name": fmt.Sprintf("Gone %s %d", kind, i)})
		}
		return out
	}
	var acts []any
	if groups > 0 {
		acts = append(acts, gen.M{"uuid": gen.NamedUUID("c08:" + tag + ":add"), "type": "add_contact_groups", "groups": gone("add", groups)})
	}
	if fields > 0 {
		var refs []string
		for i := 0; i < fields; i++ {
			refs = append(refs, fmt.Sprintf("@fields.gone_%s_%d", tag, i))
		}
		acts = append(acts, gen.M{"uuid": gen.NamedUUID("c08:" + tag + ":res"), "type": "set_run_result", "name": "Gone " + tag, "value": strings.Join(refs, " "), "category": ""})
	}
	if rmGroups > 0 {
		acts = append(acts, gen.M{"uuid": gen.NamedUUID("c08:" + tag + ":rm"), "type": "remove_contact_groups", "groups": gone("rm", rmGroups), "all_groups": false})
	}
	if flowRef != nil {
		acts = append(acts, gen.M{"uuid": gen.NamedUUID("c08:" + tag + ":ss"), "type": "start_session", "flow": flowRef, "groups": gone("ss", ssGroups), "legacy_vars": []string{"@fields.gone_supervisor_" + tag}, "exclusions": gen.M{}})
	}
	return acts
}

// c08RecipientLists fills an action's fixed recipient lists with nc contacts and nu URNs, and its legacy vars with
// expressions that resolve to the session's own contact and URN.
func c08RecipientLists(a gen.M, tag string, nc, nu int, vars []string) {
	cs := make([]gen.M, nc)
	for i := range cs {
		cs[i] = gen.M{"uuid": gen.NamedUUID(fmt.Sprintf("c08:%s:recipient:%d", tag, i)), "name": fmt.Sprintf("Supervisor %d", i)}
	}
	us := make([]string, nu)
	for i := range us {
		us[i] = fmt.Sprintf("tel:+1206555%04d", 100+i)
	}
	a["contacts"], a["urns"], a["legacy_vars"] = cs, us, vars
}

var c08OwnVars = []string{"@contact.uuid", "@urns.tel", "@(contact.uuid)", "@contact.urn", "@(urns.tel)"}

// c08Widen adds the classes above to a generated scenario.
func c08Widen(r *fw.Rand, scen *gen.Scenario) {
	fl := scen.Flows()
	if len(fl) == 0 {
		return
	}
	entry := fl[0]
	if tf, ok := scen.Trigger["flow"].(gen.M); ok {
		for _, f := range fl {
			if f["uuid"] == tf["uuid"] {
				entry = f
			}
		}
	}
	firstNode := func(f gen.M) gen.M {
		if nodes, ok := f["nodes"].([]any); ok && len(nodes) > 0 {
			return nodes[0].(gen.M)
		}
		return nil
	}
	addActions := func(nd gen.M, front bool, acts ...any) {
		old, _ := nd["actions"].([]any)
		if front {
			nd["actions"] = append(append([]any{}, acts...), old...)
		} else {
			nd["actions"] = append(append([]any{}, old...), acts...)
		}
	}
	// objects of every size with case-variant keys, as trigger params
	if r.Chance(0.3) {
		obj, lookups := c08BigObject(r, c08ObjectSize(r), r.Range(1, 3))
		scen.Trigger["params"] = obj
		if nd := firstNode(entry); nd != nil {
			var refs []string
			for _, l := range lookups {
				refs = append(refs, "@trigger.params."+l)
			}
			addActions(nd, true, gen.M{"uuid": gen.NamedUUID("c08:params:lookup"), "type": "set_run_result", "name": "Param Lookup", "value": strings.Join(refs, " | "), "category": ""})
		}
		scen.Notes = append(scen.Notes, "c08:case-variant-params")
	}
	// many issues, several per type and node
	if r.Chance(0.3) {
		f := fw.Pick(r, fl)
		if nodes, ok := f["nodes"].([]any); ok && len(nodes) > 0 {
			nd := nodes[r.Intn(len(nodes))].(gen.M)
			var ref gen.M
			if r.Chance(0.6) && f["type"] != "messaging_offline" { // start_session needs a flow that runs online
				ref = gen.M{"uuid": f["uuid"], "name": f["name"]}
			}
			addActions(nd, false, c08ManyIssueActions("w", r.Range(2, 9), r.Range(2, 12), r.Range(0, 6), r.Range(0, 4), ref)...)
			if rt, ok := nd["router"].(gen.M); ok && rt["type"] == "switch" && rt["default_category_uuid"] != nil && r.Chance(0.6) {
				cs, _ := rt["cases"].([]any)
				for i, re := range []string{"([", "*x", "(?P<n"}[:r.Range(1, 3)] {
					cs = append(cs, gen.M{"uuid": gen.NamedUUID(fmt.Sprint("c08:w:case:", i)), "type": "has_pattern", "arguments": []string{re}, "category_uuid": rt["default_category_uuid"]})
				}
				rt["cases"] = cs
			}
			scen.Notes = append(scen.Notes, "c08:many-issues")
		}
	}
	// recipient lists of every small length next to legacy vars that resolve to the session's own contact
	n := 0
	for _, f := range fl {
		nodes, _ := f["nodes"].([]any)
		for _, x := range nodes {
			acts, _ := x.(gen.M)["actions"].([]any)
			for _, y := range acts {
				if a := y.(gen.M); (a["type"] == "start_session" || a["type"] == "send_broadcast") && !strings.HasPrefix(fmt.Sprint(a["uuid"]), gen.NamedUUID("c08:w:ss")) && r.Chance(0.5) {
					vars := []string{fw.Pick(r, c08OwnVars)}
					if r.Chance(0.5) {
						vars = append(vars, fw.Pick(r, c08OwnVars))
					}
					c08RecipientLists(a, fmt.Sprint("g", n), r.Range(0, 9), r.Range(0, 9), vars)
					n++
				}
			}
		}
	}
	if nd := firstNode(entry); nd != nil && r.Chance(0.25) && entry["type"] != "messaging_offline" {
		a := gen.M{"uuid": gen.NamedUUID("c08:bc"), "type": "send_broadcast", "text": "Escalated by @contact.name"}
		c08RecipientLists(a, "bc", r.Range(0, 9), r.Range(0, 9), []string{"@contact.uuid", "@urns.tel"})
		addActions(nd, true, a)
		n++
	}
	if n > 0 {
		scen.Notes = append(scen.Notes, "c08:own-recipients")
	}
}

// c08OtherContact: the same scenario for another contact (UUID, name, id, URNs differ).
func c08OtherContact(scen *gen.Scenario) *gen.Scenario {
	if _, ok := scen.Trigger["contact"].(gen.M); !ok {
		return nil
	}
	other := *scen
	other.Trigger = deepCopy(scen.Trigger)
	c := other.Trigger["contact"].(map[string]any)
	c["uuid"], c["name"], c["id"] = gen.NamedUUID("c08:other-contact"), "Olga Other", 987654
	c["urns"] = []string{"tel:+250788383383", "mailto:olga@example.com"}
	return &other
}

// lateSerialisation: clause "what an execution produced is not changed by a later session for another contact over the
// same assets". rnA is the last execution of the case (over the kept assets); its events / segments / session were
// serialised as they were produced. A session for another contact now runs over the same assets and engine, then rnA's
// outputs are serialised again and must give the same bytes.
func (p *c08) lateSerialisation(scen *gen.Scenario, c fw.Case, res *fw.Result) {
	rnA := p.lastRunner
	if rnA == nil || len(rnA.Log) == 0 {
		return
	}
	other := c08OtherContact(scen)
	if other == nil {
		return
	}
	src := drive.NewSources(c.Seed)
	src.Coarse = int64(scen.Coarse)
	src.Install()
	src.Restore(p.lastLoaded)
	rnB := &drive.Runner{Scen: other, Src: src, SA: rnA.SA, Eng: rnA.Eng, Budget: rnA.Budget}
	reread := c.Index%2 == 1 || scen.Reread
	func() {
		defer func() { recover() }()
		fw.SetDetail("C08 session for another contact over the kept assets")
		rnB.RunAll(func(rec *drive.CallRecord) {
			if reread && rec.OK() && rnB.Waiting() {
				rnB.Restart()
			}
		})
	}()
	if len(rnB.Log) == 0 || rnB.Log[0].Sprint == nil {
		return // the other contact's session did not start: nothing ran in between
	}
	res.Count("clause.late_serialisation", 1)
	report := func(kind string, idx int, at, late []byte) {
		path := firstJSONDiff(string(at), string(late))
		res.Violate("nondeterminism|after-other-session-on-same-assets|"+kind+"|"+stripIndices(path), fmt.Sprintf("%s serialised again after a session for another contact ran over the same session assets differ from what was serialised when they were produced (at %s)", kind, path),
			witnessOf(scen, map[string]any{"output": kind, "call": idx, "path": path, "serialised_at_once": trunc(string(at), 3000), "serialised_after_other_session": trunc(string(late), 3000), "other_contact": other.Trigger["contact"]}))
	}
	again := func(v any) (b []byte) {
		defer func() {
			if rec := recover(); rec != nil {
				b = []byte(fmt.Sprintf(`{"marshal_panic":%q}`, fmt.Sprint(rec)))
			}
		}()
		return marshalJSON(v)
	}
	for _, rec := range rnA.Log {
		if rec.Sprint == nil {
			continue
		}
		for i, e := range rec.Sprint.Events() {
			if t := e.Type(); t == "session_triggered" || t == "broadcast_created" {
				res.Count("seen.late_serialisation.recipient_events", 1)
			}
			if i < len(rec.EventsJSON) {
				if late := again(e); !bytes.Equal(late, rec.EventsJSON[i]) {
					report("sprints.events", rec.Index, rec.EventsJSON[i], late)
					return
				}
			}
		}
		for i, s := range rec.Sprint.Segments() {
			if i < len(rec.SegmentsJSON) {
				if late := again(s); !bytes.Equal(late, rec.SegmentsJSON[i]) {
					report("sprints.segments", rec.Index, rec.SegmentsJSON[i], late)
					return
				}
			}
		}
	}
	// the session object of the last call has not been resumed since it was serialised
	if last := rnA.Log[len(rnA.Log)-1]; last.Session != nil && last.SessionAfter != nil {
		if late := again(last.Session); !bytes.Equal(late, last.SessionAfter) {
			report("sprints.session", last.Index, last.SessionAfter, late)
		}
	}
}

// c08DirectedWide: the directed cases of the classes above.
func (p *c08) directedWide(name string) *gen.Scenario {
	d := dsl
	switch name {
	case "objects-of-many-sizes-case-variant-keys":
		// params with more properties than any small-object threshold, three groups of keys differing only by case
		r := fw.NewRand(8, "C08/directed-objects", 0)
		obj, lookups := c08BigObject(r, 29, 3)
		var refs, exprs []string
		for _, l := range lookups {
			refs = append(refs, "@trigger.params."+l)
		}
		for _, n := range []int{2, 8, 16, 17, 18, 32, 33, 40} {
			o, ls := c08BigObject(r, n, 2)
			exprs = append(exprs, fmt.Sprintf(`@(parse_json("%s").%s)`, c08ExprString(o), ls[0]))
		}
		t := d.Manual("A", nil)
		t["params"] = obj
		return &gen.Scenario{Notes: []string{"c08:case-variant-params"}, Assets: d.BaseAssets(d.Flow("A", "messaging", d.Node("a1", []any{
			d.Action("r", "set_run_result", gen.M{"name": "Param Lookup", "value": strings.Join(refs, " | "), "category": ""}),
			d.SendMsg("m1", "Your request: "+strings.Join(refs, ", ")),
			d.SendMsg("m2", strings.Join(exprs[:4], " ")),
			d.SendMsg("m3", strings.Join(exprs[4:], " ")),
		}, nil, d.Exit("a1x", "")))), Trigger: t}
	case "many-issues-per-type-and-node":
		// a flow brought into a workspace that has none of what it uses: > 30 issues, of all three types, up to 8 of one
		// type on one node
		other := d.Cat("Other", "r1x")
		self := gen.M{"uuid": gen.NamedUUID("flow:A"), "name": "A"}
		acts1 := append(c08ManyIssueActions("d1", 6, 8, 4, 3, self), d.SendMsg("m", "Hi @fields.gone_a @fields.gone_b @fields.gone_c @globals.gone_d @globals.gone_e"))
		f := d.Flow("A", "messaging",
			d.Node("r1", acts1, d.Switch("@input.text", []gen.M{other}, other, []gen.M{{"type": "has_pattern", "arguments": []string{"(["}, "category_uuid": other["uuid"]}, {"type": "has_pattern", "arguments": []string{"*"}, "category_uuid": other["uuid"]}, {"type": "has_pattern", "arguments": []string{"[0-9"}, "category_uuid": other["uuid"]}}, nil, "R"), d.Exit("r1x", "a2")),
			d.Node("a2", c08ManyIssueActions("d2", 5, 3, 0, 2, self), nil, d.Exit("a2x", "")))
		return &gen.Scenario{Notes: []string{"c08:many-issues"}, Assets: d.BaseAssets(f), Trigger: d.Manual("A", nil)}
	case "own-recipients-after-fixed-lists", "own-recipients-after-fixed-lists-reread":
		// fixed recipient lists of every length from 0 to 9, each followed by the session's own contact and URN
		var acts1, acts2 []any
		for n := 0; n <= 9; n++ {
			a := d.Action(fmt.Sprint("ss", n), "start_session", gen.M{"flow": gen.M{"uuid": gen.NamedUUID("flow:B"), "name": "B"}, "exclusions": gen.M{}})
			c08RecipientLists(a, fmt.Sprint("d-ss", n), n, 9-n, []string{"@contact.uuid", "@urns.tel"})
			b := d.Action(fmt.Sprint("bc", n), "send_broadcast", gen.M{"text": "Escalated by @contact.name"})
			c08RecipientLists(b, fmt.Sprint("d-bc", n), 9-n, n, []string{"@(contact.uuid)", "@contact.urn"})
			if n%2 == 0 {
				acts1, acts2 = append(acts1, a), append(acts2, b)
			} else {
				acts1, acts2 = append(acts1, b), append(acts2, a)
			}
		}
		return &gen.Scenario{Notes: []string{"c08:own-recipients"}, Reread: strings.HasSuffix(name, "-reread"), Assets: d.BaseAssets(d.Flow("A", "messaging",
			d.Node("a1", acts1, nil, d.Exit("a1x", "a2")), d.WaitNode("a2", "a3", nil), d.Node("a3", acts2, nil, d.Exit("a3x", ""))), d.Flow("B", "messaging")),
			Trigger: d.Manual("A", nil), Resumes: []gen.M{d.MsgResume(0, "x")}}
	}
	return nil
}
