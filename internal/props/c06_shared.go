package props

import (
	"encoding/json"
	"fmt"
	"runtime/debug"
	"strings"
	"sync"
	"time"

	"github.com/nyaruka/gocommon/i18n"
	"github.com/nyaruka/gocommon/urns"
	"github.com/nyaruka/goflow/assets"
	"github.com/nyaruka/goflow/assets/static"
	"github.com/nyaruka/goflow/envs"
	"github.com/nyaruka/goflow/flows"
	"github.com/nyaruka/goflow/flows/engine"
	"github.com/nyaruka/goflow/flows/modifiers"
	"github.com/nyaruka/goflow/flows/triggers"

	"verif/internal/drive"
	"verif/internal/fw"
	"verif/internal/gen"
)

// History shapes of C06 beyond "one session over a freshly read contact" and "one contact, a list of modifiers":
//
//   - shared contact: ONE loaded *flows.Contact seeds several mutable copies — it starts a flow more than once (every
//     trigger clones it), it is cloned by the caller for directly applied modifiers, and it is modified itself in between.
//     Every copy must come back right whatever happened to the others.
//   - stale typed parts: a stored field value whose number / datetime / location parts are not what its text parses to
//     (saved while the field had another type, imported as text, parsed under another format), and modifiers / actions
//     that set the field to the text it already has.
//   - concurrent first use: several goroutines make their first group re-evaluation over the SAME freshly created session
//     assets (a batch of contacts started right after the assets were reloaded), in a workspace with hundreds of groups.
//
// All three are judged by the same oracles as the rest of C06.

// heldInList counts how often a group occurs in the contact's group list, by walking the list.
func heldInList(contact *flows.Contact, g *flows.Group) int {
	n := 0
	for _, cg := range contact.Groups().All() {
		if cg.UUID() == g.UUID() {
			n++
		}
	}
	return n
}

func copyM(m map[string]any) gen.M {
	var out gen.M
	b, _ := json.Marshal(m)
	d := json.NewDecoder(strings.NewReader(string(b)))
	d.UseNumber()
	d.Decode(&out)
	return out
}

func asM(v any) map[string]any {
	if t, ok := v.(map[string]any); ok {
		return t
	}
	return nil
}

func asList(v any) []any {
	switch t := v.(type) {
	case []any:
		return t
	case []gen.M:
		out := make([]any, len(t))
		for i := range t {
			out[i] = t[i]
		}
		return out
	}
	return nil
}

// scenEnv is the environment of the scenario's trigger (the default one when it has none or it does not read).
func scenEnv(scen *gen.Scenario) envs.Environment {
	if e := asM(scen.Trigger["environment"]); e != nil {
		if b, err := json.Marshal(e); err == nil {
			if env, err := envs.ReadEnvironment(b); err == nil {
				return env
			}
		}
	}
	return envs.NewBuilder().Build()
}

// fieldTypes: key → type of the scenario's fields.
func fieldTypes(am gen.M) map[string]string {
	out := map[string]string{}
	for _, f := range asList(am["fields"]) {
		if m := asM(f); m != nil {
			out[fmt.Sprint(m["key"])] = fmt.Sprint(m["type"])
		}
	}
	return out
}

// literalFieldSets: field key → literal values (no expression) that set_contact_field actions of the scenario's flows set.
func literalFieldSets(am gen.M) map[string][]string {
	out := map[string][]string{}
	for _, f := range asList(am["flows"]) {
		for _, n := range asList(asM(f)["nodes"]) {
			for _, a := range asList(asM(n)["actions"]) {
				am := asM(a)
				if am == nil || am["type"] != "set_contact_field" {
					continue
				}
				v, _ := am["value"].(string)
				fm := asM(am["field"])
				if fm == nil || v == "" || strings.Contains(v, "@") {
					continue
				}
				k := fmt.Sprint(fm["key"])
				out[k] = append(out[k], v)
			}
		}
	}
	return out
}

var staleTexts = map[string][]string{
	"number":   {"41", "17", "7", "23", "18.5", "abc 23"},
	"datetime": {"2018-05-05", "2017-12-02T10:00:00Z", "2017-11-30T22:00:00-05:00", "2018-01-01T00:00:00Z"},
	"state":    {"Kigali City", "Kigali", "Eastern Province"},
	"district": {"Gasabo", "Central"},
	"ward":     {"Gisozi", "Hill"},
}

// staleTypedParts rewrites stored field values of a contact JSON so that their typed parts are not what their text parses
// to: the typed part is dropped (value kept as text only), or belongs to another text. Texts come from the stored value
// itself, from what the scenario's flows set the field to, or from a small pool. Returns the number of values rewritten.
func staleTypedParts(r *fw.Rand, contact gen.M, am gen.M) int {
	types := fieldTypes(am)
	lits := literalFieldSets(am)
	fields := asM(contact["fields"])
	if fields == nil {
		fields = gen.M{}
	}
	n := 0
	for _, key := range []string{"age", "joined", "state", "district", "ward"} {
		typ, has := types[key]
		if !has || typ == "text" {
			continue
		}
		cur := asM(fields[key])
		if !r.Chance(0.7) {
			continue
		}
		var text string
		switch {
		case len(lits[key]) > 0 && r.Chance(0.5):
			text = fw.Pick(r, lits[key])
		case cur != nil && r.Chance(0.5):
			text, _ = cur["text"].(string)
		default:
			text = fw.Pick(r, staleTexts[typ])
		}
		if text == "" {
			continue
		}
		nv := gen.M{"text": text}
		if r.Chance(0.45) {
			// typed parts of another text
			switch typ {
			case "number":
				nv["number"] = json.Number(fw.Pick(r, []string{"3", "99", "18", "17.5"}))
			case "datetime":
				nv["datetime"] = fw.Pick(r, []string{"2016-02-29T12:00:00Z", "2019-08-01T00:00:00+02:00"})
			case "state":
				nv["state"] = "Rwanda > Eastern Province"
			case "district":
				nv["district"] = "Rwanda > Eastern Province > Gatsibo"
			case "ward":
				nv["ward"] = "Rwanda > Eastern Province > Gatsibo > Kageyo"
			}
		}
		fields[key] = nv
		n++
	}
	if n > 0 {
		contact["fields"] = fields
	}
	return n
}

// sameTextMod: a field modifier that sets a field to the text the contact holds for it right now.
func sameTextMod(r *fw.Rand, sa flows.SessionAssets, contact *flows.Contact) (modSpec, bool) {
	var cands []*flows.Field
	for _, f := range sa.Fields().All() {
		if v := contact.Fields()[f.Key()]; v != nil && v.Text.Native() != "" {
			cands = append(cands, f)
		}
	}
	if len(cands) == 0 {
		return modSpec{}, false
	}
	// typed fields first: they are the ones whose typed parts can be stale
	var typed []*flows.Field
	for _, f := range cands {
		if f.Type() != assets.FieldTypeText {
			typed = append(typed, f)
		}
	}
	if len(typed) > 0 && r.Chance(0.85) {
		cands = typed
	}
	f := fw.Pick(r, cands)
	text := contact.Fields()[f.Key()].Text.Native()
	return modSpec{"field", fmt.Sprintf("field %s=%s (same text)", f.Key(), trunc(text, 30)), modifiers.NewField(f, text)}, true
}

// staleTypedPhase: one contact with stale typed parts x modifiers, among them re-sets of a field to its own text.
func (p *c06) staleTypedPhase(res *fw.Result, r *fw.Rand, scen *gen.Scenario, rn *drive.Runner, contactM gen.M, nMods int) {
	cm := copyM(contactM)
	if staleTypedParts(r, cm, scen.Assets) == 0 {
		return
	}
	cj, _ := json.Marshal(cm)
	contact, err := flows.ReadContact(rn.SA, cj, func(assets.Reference, error) {})
	if err != nil {
		res.Count("stale_typed.unreadable", 1)
		return
	}
	res.Count("stale_typed.contacts", 1)
	env := gen.Env(r)
	// as in the modifier family: stored membership is brought in line first, as a caller that loads a contact does
	modifiers.ReevaluateGroups(env, contact, func(flows.Event) {})
	c03p := &c03{}
	var descs []string
	for i := 0; i < nMods; i++ {
		var ms modSpec
		ok := false
		if r.Chance(0.65) {
			ms, ok = sameTextMod(r, rn.SA, contact)
			if ok {
				res.Count("stale_typed.same_text_mods", 1)
			}
		}
		if !ok {
			l := c03p.genMods(r, rn.SA, scen.Assets, 1, false)
			if len(l) == 0 {
				continue
			}
			ms = l[0]
		}
		descs = append(descs, ms.desc)
		before := marshalJSON(contact)
		if !p.applyModChecked(res, rn, env, contact, ms, func(extra map[string]any) {
			extra["assets"] = scen.Assets
			extra["start_contact"] = json.RawMessage(cj)
			extra["modifiers_in_order"] = append([]string{}, descs...)
		}, "") {
			return
		}
		if ok && string(before) != string(marshalJSON(contact)) {
			res.Count("stale_typed.same_text_changed_value", 1)
		}
	}
}

// ---------------------------------------------------------------------------------------------------------------------
// shared contact

// startFrom starts a session from a trigger built around an already loaded contact (the trigger clones it).
func (p *c06) startFrom(rn *drive.Runner, trig flows.Trigger) *drive.CallRecord {
	rec := &drive.CallRecord{Index: 0, Kind: "start", Trigger: trig}
	func() {
		rn.Src.BeginCall(rn.Budget)
		defer func() {
			rec.ClockReads = rn.Src.EndCall()
			if pn := recover(); pn != nil {
				if _, ok := pn.(drive.BudgetExceeded); ok {
					rec.Budget = true
					return
				}
				rec.Panic = pn
				rec.PanicStack = string(debug.Stack())
			}
		}()
		rec.Session, rec.Sprint, rec.Err = rn.Eng.NewSession(rn.SA, trig)
	}()
	if rec.OK() && rec.Session != nil {
		rec.SessionAfter = marshalJSON(rec.Session)
		if rec.Session.Contact() != nil {
			rec.ContactAfter = marshalJSON(rec.Session.Contact())
		}
	}
	if rec.Sprint != nil && rec.Panic == nil && !rec.Budget {
		for _, e := range rec.Sprint.Events() {
			rec.EventsJSON = append(rec.EventsJSON, marshalJSON(e))
		}
	}
	return rec
}

// sharedPhase: one loaded contact, several operations each working on its own copy (or on the contact itself).
// ops: 's' start the scenario's flow (manual trigger), 'm' the same with a msg trigger, 'c' clone + modifiers,
// 'o' modifiers on the loaded contact itself.
func (p *c06) sharedPhase(res *fw.Result, r *fw.Rand, scen *gen.Scenario, rn *drive.Runner, contactM gen.M, ops string, resumeAfter bool) {
	cj, _ := json.Marshal(contactM)
	shared, err := flows.ReadContact(rn.SA, cj, func(assets.Reference, error) {})
	if err != nil {
		res.Count("shared.unreadable", 1)
		return
	}
	res.Count("shared.contacts", 1)
	env := scenEnv(scen)
	fr := asM(scen.Trigger["flow"])
	if fr == nil {
		return
	}
	flowRef := assets.NewFlowReference(assets.FlowUUID(fmt.Sprint(fr["uuid"])), fmt.Sprint(fr["name"]))
	c03p := &c03{}
	var history []string
	context := func(extra map[string]any) {
		extra["assets"] = scen.Assets
		extra["shared_contact"] = json.RawMessage(cj)
		extra["operations_on_copies_in_order"] = append([]string{}, history...)
	}
	applyMods := func(target *flows.Contact, n int) {
		// the caller brings the stored membership of its copy in line before it works on it (see the modifier family)
		modifiers.ReevaluateGroups(env, target, func(flows.Event) {})
		for i := 0; i < n; i++ {
			l := c03p.genMods(r, rn.SA, scen.Assets, 1, false)
			if len(l) == 0 {
				continue
			}
			history = append(history, "  "+l[0].desc)
			if !p.applyModChecked(res, rn, env, target, l[0], context, "shared-contact:") {
				return
			}
		}
	}
	sessions := 0
	for i, op := range ops {
		switch op {
		case 's', 'm':
			before := marshalJSON(shared)
			tb := triggers.NewBuilder(env, flowRef, shared)
			var trig flows.Trigger
			if op == 's' {
				trig = tb.Manual().Build()
			} else {
				urn := urns.URN("tel:+12065557777")
				if us := shared.URNs(); len(us) > 0 {
					urn = us[0].URN()
				}
				trig = tb.Msg(flows.NewMsgIn(flows.MsgUUID(gen.NamedUUID(fmt.Sprintf("msg:shared:%d", i))), urn, nil, fw.Pick(r, []string{"hi there", "23", "yes", "41"}), nil)).Build()
			}
			history = append(history, fmt.Sprintf("start %s (%s trigger built around the loaded contact)", flowRef.Name, trig.Type()))
			rec := p.startFrom(rn, trig)
			p.checkRecordShared(res, scen, rn, rec, before, context)
			if rec.OK() {
				sessions++
				res.Count("shared.sessions", 1)
				if sessions > 1 {
					res.Count("shared.second_sessions", 1)
				}
				if resumeAfter && rec.Session != nil && rec.Session.Status() == flows.SessionStatusWaiting && len(scen.Resumes) > 0 {
					rn.Session = rec.Session
					history = append(history, "  resume that session")
					rr := rn.Resume(scen.Resumes[0])
					p.checkRecordShared(res, scen, rn, rr, nil, context)
				}
			}
		case 'c':
			history = append(history, "clone the loaded contact, apply to the clone:")
			res.Count("shared.clones_modified", 1)
			applyMods(shared.Clone(), r.Range(1, 3))
		case 'o':
			history = append(history, "apply to the loaded contact itself:")
			res.Count("shared.original_modified", 1)
			applyMods(shared, r.Range(1, 3))
		}
	}
}

// checkRecordShared is checkRecord for a call of the shared-contact history (witness carries the whole history).
func (p *c06) checkRecordShared(res *fw.Result, scen *gen.Scenario, rn *drive.Runner, rec *drive.CallRecord, before []byte, context func(map[string]any)) {
	sub := fw.Result{}
	p.checkRecord(&sub, scen, rn, rec, before, "shared-contact:")
	// move counters / violations over, adding the history to the witnesses
	mergeResult(res, &sub, context)
}

// mergeResult re-issues what a sub-result collected into res.
func mergeResult(res *fw.Result, sub *fw.Result, context func(map[string]any)) {
	for k, v := range sub.Counters {
		res.Count(k, v)
	}
	for set, vals := range sub.Sets {
		for _, v := range vals {
			res.Seen(set, v)
		}
	}
	for _, v := range sub.Violations {
		w, _ := v.Witness.(map[string]any)
		if w == nil {
			w = map[string]any{"witness": v.Witness}
		}
		context(w)
		res.Violate(v.Signature, v.What, w)
	}
	if sub.NonTrivial {
		res.NonTrivial = true
	}
}

// ---------------------------------------------------------------------------------------------------------------------
// concurrent first use of freshly created session assets

var concQueries = []string{`name != ""`, `language = "fra"`, `language != "eng"`, `age > 18`, `age = ""`, `tel != ""`, `name ~ "bob"`, `gender = "male"`, `created_on > "2018-01-01"`,
	`tickets = 0`, `last_seen_on = ""`, `urn != ""`, `age > 10 AND age < 30`, `language = "eng" OR tickets > 0`, `nick != ""`, `joined != ""`}

// bigWorkspace: the scenario's assets with one flow that does nothing and nq query-based groups (the scenario's own queries
// and a small pool over the fields present, repeated) after ns static ones.
func bigWorkspace(r *fw.Rand, am gen.M, ns, nq int) (gen.M, gen.M) {
	a := copyM(am)
	types := fieldTypes(am)
	var queries []string
	for _, g := range asList(a["groups"]) {
		if q, _ := asM(g)["query"].(string); q != "" {
			queries = append(queries, q)
		}
	}
	for _, q := range concQueries {
		ok := true
		for _, k := range []string{"age", "gender", "nick", "joined"} {
			if strings.Contains(q, k) && types[k] == "" {
				ok = false
			}
		}
		if ok {
			queries = append(queries, q)
		}
	}
	var groups []any
	for i := 0; i < ns; i++ {
		groups = append(groups, gen.M{"uuid": gen.NamedUUID(fmt.Sprintf("group:big-static:%d", i)), "name": fmt.Sprintf("Static %d", i)})
	}
	off := r.Intn(len(queries))
	for i := 0; i < nq; i++ {
		groups = append(groups, gen.M{"uuid": gen.NamedUUID(fmt.Sprintf("group:big-query:%d", i)), "name": fmt.Sprintf("Query %d", i), "query": queries[(off+i)%len(queries)]})
	}
	a["groups"] = groups
	flow := gen.M{"uuid": gen.NamedUUID("flow:does-nothing"), "name": "Does Nothing", "spec_version": "13.6.1", "language": "eng", "type": "messaging", "nodes": []any{}, "localization": gen.M{}}
	a["flows"] = []any{flow}
	return a, flow
}

// concurrentPhase: rounds x (fresh session assets shared by k goroutines whose first group re-evaluation overlaps).
// mode: "reevaluate" (modifiers.ReevaluateGroups), "modifier" (modifiers.Apply of a name / language modifier),
// "session" (NewSession of a flow that does nothing).
func (p *c06) concurrentPhase(res *fw.Result, r *fw.Rand, scen *gen.Scenario, contactM gen.M, k, rounds, ns, nq int, modes []string) {
	big, flow := bigWorkspace(r, scen.Assets, ns, nq)
	bj, _ := json.Marshal(big)
	source, err := static.NewSource(bj)
	if err != nil {
		res.Count("concurrent.unloadable", 1)
		return
	}
	env := scenEnv(scen)
	eng := drive.NewEngine(scen.Options)
	flowRef := assets.NewFlowReference(assets.FlowUUID(fmt.Sprint(flow["uuid"])), "Does Nothing")
	// k contacts: the scenario's contact with name / language / age varied, stored in a few of the groups (right or wrong)
	var cjs [][]byte
	for i := 0; i < k; i++ {
		cm := copyM(contactM)
		cm["uuid"] = gen.NamedUUID(fmt.Sprintf("contact:conc:%d", i))
		cm["status"] = "active"
		if r.Chance(0.7) {
			cm["name"] = fw.Pick(r, []string{"Bob", "Ann Smith", "bob smith", "Zed"})
		} else {
			delete(cm, "name")
		}
		cm["language"] = fw.Pick(r, []string{"eng", "fra", "spa"})
		var gs []any
		for j := 0; j < nq; j++ {
			if r.Chance(0.02) {
				gs = append(gs, gen.M{"uuid": gen.NamedUUID(fmt.Sprintf("group:big-query:%d", j)), "name": fmt.Sprintf("Query %d", j)})
			}
		}
		cm["groups"] = gs
		b, _ := json.Marshal(cm)
		cjs = append(cjs, b)
	}
	for round := 0; round < rounds; round++ {
		mode := modes[round%len(modes)]
		sa, err := engine.NewSessionAssets(envs.NewBuilder().Build(), source, nil)
		if err != nil {
			res.Count("concurrent.unloadable", 1)
			return
		}
		if _, err := sa.Flows().Get(flowRef.UUID); err != nil {
			res.Count("concurrent.unloadable", 1)
			return
		}
		contacts := make([]*flows.Contact, k)
		befores := make([][]byte, k)
		trigs := make([]flows.Trigger, k)
		mods := make([]flows.Modifier, k)
		for i := range contacts {
			c, err := flows.ReadContact(sa, cjs[i], func(assets.Reference, error) {})
			if err != nil {
				res.Count("concurrent.unreadable", 1)
				return
			}
			contacts[i] = c
			befores[i] = marshalJSON(c)
			trigs[i] = triggers.NewBuilder(env, flowRef, c).Manual().Build()
			if i%2 == 0 {
				mods[i] = modifiers.NewName(fmt.Sprintf("Renamed %d", i))
			} else {
				mods[i] = modifiers.NewLanguage(i18n.Language([]string{"kin", "fra", "eng"}[(i/2)%3]))
			}
		}
		logs := make([][]flows.Event, k)
		out := make([]*flows.Contact, k)
		panics := make([]any, k)
		errs := make([]error, k)
		modified := make([]bool, k)
		begin := make(chan struct{})
		var wg sync.WaitGroup
		for i := 0; i < k; i++ {
			wg.Add(1)
			go func(i int) {
				defer wg.Done()
				defer func() { panics[i] = recover() }()
				log := func(e flows.Event) { logs[i] = append(logs[i], e) }
				<-begin
				switch mode {
				case "reevaluate":
					modifiers.ReevaluateGroups(env, contacts[i], log)
					out[i] = contacts[i]
				case "modifier":
					modified[i] = modifiers.Apply(eng, env, sa, contacts[i], mods[i], log)
					out[i] = contacts[i]
				case "session":
					s, sp, err := eng.NewSession(sa, trigs[i])
					errs[i] = err
					if err == nil {
						out[i] = s.Contact()
						logs[i] = sp.Events()
					}
				}
			}(i)
		}
		close(begin)
		wg.Wait()
		res.Count("concurrent.rounds", 1)
		res.Count("concurrent.rounds."+mode, 1)

		for i := 0; i < k; i++ {
			if panics[i] != nil {
				res.Count("concurrent.panics", 1)
				continue
			}
			if out[i] == nil {
				res.Count("concurrent.errors", 1)
				continue
			}
			if mode == "modifier" && !modified[i] {
				// a modifier that changes nothing does not re-evaluate: the statement says nothing about a stored membership
				// that was wrong before it
				res.Count("concurrent.ineffective_modifiers", 1)
				continue
			}
			res.Count("concurrent.first_evaluations", 1)
			p.checkConcurrent(res, scen, sa, env, out[i], befores[i], logs[i], mode, map[string]any{"goroutines": k, "query_groups": nq, "static_groups": ns, "round": round, "goroutine": i, "contact_before": string(befores[i])})
		}
	}
}

// tzEnv is an environment with the timezone replaced (what the engine's merged environment does with a contact's timezone).
type tzEnv struct {
	envs.Environment
	tz *time.Location
}

func (e tzEnv) Timezone() *time.Location { return e.tz }

// checkConcurrent judges one contact handed back by a goroutine: every query group by the library evaluator and by the
// reference (one violation per contact, with the number of wrong groups), and the net change against the events.
func (p *c06) checkConcurrent(res *fw.Result, scen *gen.Scenario, sa flows.SessionAssets, env envs.Environment, contact *flows.Contact, before []byte, evs []flows.Event, mode string, w map[string]any) {
	tzs := []*time.Location{env.Timezone()}
	es := []envs.Environment{env}
	if contact.Timezone() != nil {
		tzs = append(tzs, contact.Timezone())
		es = append(es, tzEnv{env, contact.Timezone()})
	}
	sub := fw.Result{}
	first := map[string]string{}
	collect := func(sig, what string, extra map[string]any) {
		key := strings.SplitN(sig, "|", 3)[1]
		if _, ok := first[key]; !ok {
			first[key] = what
		}
		sub.Count("wrong."+key, 1)
	}
	checkMembership(&sub, sa, contact, es, collect)
	checkReference(&sub, sa, contact, tzs, collect)
	for k, v := range sub.Counters {
		if !strings.HasPrefix(k, "wrong.") {
			res.Count(k, v)
		}
	}
	w["contact_after"] = string(marshalJSON(contact))
	w["assets_built_from"] = "the scenario's assets with its flows replaced by one flow without nodes and its groups replaced by static_groups static + query_groups query-based groups (queries of the scenario and of the C06 pool, repeated)"
	w["scenario"] = scen
	for key, what := range first {
		ww := map[string]any{"groups_wrong": sub.Counters["wrong."+key], "first": what}
		for k, v := range w {
			ww[k] = v
		}
		res.Violate("C06|"+key+"|concurrent-first-use:"+mode, fmt.Sprintf("%d goroutines made their first group re-evaluation over the same fresh session assets; this contact came back with %d query groups wrong, first: %s", w["goroutines"], sub.Counters["wrong."+key], what), ww)
	}
	// net change vs events
	res.Count("clause.delta_vs_events", 1)
	model := decodeContact(before)
	for _, e := range evs {
		if e.Type() == "contact_groups_changed" {
			model = model.applyEvent(decodeContact(marshalJSON(e)), "", nil)
		}
	}
	if fmt.Sprint(groupIDs(model)) != fmt.Sprint(groupIDs(decodeContact(marshalJSON(contact)))) {
		res.Violate("C06|group-delta-not-reported|concurrent-first-use:"+mode, "net change of group membership differs from the net effect of the contact_groups_changed events", w)
	}
	if fmt.Sprint(groupIDs(decodeContact(before))) != fmt.Sprint(groupIDs(decodeContact(marshalJSON(contact)))) {
		res.Count("seen.membership_changed", 1)
		res.NonTrivial = true
	}
}
