package props

import (
	"encoding/json"
	"strings"
	"time"
	"unicode"

	"github.com/shopspring/decimal"
)

// An independent reference evaluator for the small query language of gen's query pool (numbers, dates by calendar day,
// presence, text equality / containment, URN values with any/all semantics, tickets, AND/OR/parentheses). It works on the
// contact's JSON, not through contactql, so that C06 does not have to trust the library's evaluator for these forms
// (a seeded change to the evaluator itself is otherwise invisible to an oracle that calls it). name ~ is modelled for
// names and values made of plain words, location fields by the name of the location of the field's own level; anything
// it does not model makes the whole query "unknown" and is left to the library oracle alone.

type refQ struct {
	op       string // "and" | "or" | "" (leaf)
	children []*refQ
	prop     string
	cmp      string
	value    string
}

type refParser struct {
	toks []string
	pos  int
}

func refTokenize(q string) []string {
	var toks []string
	i := 0
	for i < len(q) {
		c := q[i]
		switch {
		case c == ' ':
			i++
		case c == '(' || c == ')':
			toks = append(toks, string(c))
			i++
		case c == '"':
			j := i + 1
			for j < len(q) && q[j] != '"' {
				j++
			}
			toks = append(toks, q[i:j+1])
			i = j + 1
		default:
			j := i
			for j < len(q) && q[j] != ' ' && q[j] != '(' && q[j] != ')' {
				j++
			}
			toks = append(toks, q[i:j])
			i = j
		}
	}
	return toks
}

func parseRefQuery(q string) *refQ {
	p := &refParser{toks: refTokenize(q)}
	n := p.expr()
	if p.pos != len(p.toks) {
		return nil
	}
	return n
}

func (p *refParser) peek() string {
	if p.pos < len(p.toks) {
		return p.toks[p.pos]
	}
	return ""
}

func (p *refParser) expr() *refQ {
	n := p.term()
	if n == nil {
		return nil
	}
	for strings.EqualFold(p.peek(), "OR") {
		p.pos++
		r := p.term()
		if r == nil {
			return nil
		}
		n = &refQ{op: "or", children: []*refQ{n, r}}
	}
	return n
}

func (p *refParser) term() *refQ {
	n := p.factor()
	if n == nil {
		return nil
	}
	for strings.EqualFold(p.peek(), "AND") {
		p.pos++
		r := p.factor()
		if r == nil {
			return nil
		}
		n = &refQ{op: "and", children: []*refQ{n, r}}
	}
	return n
}

func (p *refParser) factor() *refQ {
	if p.peek() == "(" {
		p.pos++
		n := p.expr()
		if p.peek() != ")" {
			return nil
		}
		p.pos++
		return n
	}
	if p.pos+2 >= len(p.toks)+0 && p.pos+2 > len(p.toks)-1+0 && p.pos+3 > len(p.toks) {
		return nil
	}
	prop, cmp, val := p.toks[p.pos], p.toks[p.pos+1], p.toks[p.pos+2]
	p.pos += 3
	val = strings.Trim(val, `"`)
	return &refQ{prop: strings.ToLower(prop), cmp: cmp, value: val}
}

// refContact is what the reference reads from the contact JSON.
type refContact struct {
	Name       string                    `json:"name"`
	Language   string                    `json:"language"`
	Status     string                    `json:"status"`
	CreatedOn  *time.Time                `json:"created_on"`
	LastSeenOn *time.Time                `json:"last_seen_on"`
	URNs       []string                  `json:"urns"`
	Fields     map[string]map[string]any `json:"fields"`
	Ticket     json.RawMessage           `json:"ticket"`
}

func urnParts(u string) (scheme, path string) {
	i := strings.Index(u, ":")
	if i < 0 {
		return "", u
	}
	scheme, path = u[:i], u[i+1:]
	if j := strings.IndexAny(path, "?#"); j >= 0 {
		path = path[:j]
	}
	return
}

var refNumberFields = map[string]bool{"age": true}
var refTextFields = map[string]bool{"gender": true, "nick": true}
var refDateFields = map[string]bool{"joined": true}
var refLocationFields = map[string]bool{"state": true, "district": true, "ward": true}

// refPlainWords: text made of letters, digits, marks and spaces only — where "words" means the same to everybody.
func refPlainWords(s string) bool {
	for _, r := range s {
		if !unicode.IsLetter(r) && !unicode.IsNumber(r) && !unicode.IsMark(r) && r != ' ' {
			return false
		}
	}
	return true
}
var refSchemes = map[string]bool{"tel": true, "twitter": true, "twitterid": true, "mailto": true, "facebook": true}

// eval returns (result, known).
func (q *refQ) eval(c *refContact, tz *time.Location) (bool, bool) {
	if q.op != "" {
		a, ka := q.children[0].eval(c, tz)
		b, kb := q.children[1].eval(c, tz)
		if q.op == "and" {
			if (ka && !a) || (kb && !b) {
				return false, true
			}
			return a && b, ka && kb
		}
		if (ka && a) || (kb && b) {
			return true, true
		}
		return a || b, ka && kb
	}
	textCmp := func(vals []string) (bool, bool) {
		if q.value == "" {
			if q.cmp == "=" {
				return len(vals) == 0, true
			} else if q.cmp == "!=" {
				return len(vals) > 0, true
			}
		}
		qv := strings.TrimSpace(strings.ToLower(q.value))
		anyTrue, allTrue := false, true
		for _, v := range vals {
			v = strings.TrimSpace(strings.ToLower(v))
			var r bool
			switch q.cmp {
			case "=":
				r = v == qv
			case "!=":
				r = v != qv
			case "~":
				r = strings.Contains(v, qv)
			default:
				return false, false
			}
			if r {
				anyTrue = true
			} else {
				allTrue = false
			}
		}
		if q.cmp == "!=" {
			return allTrue, true
		}
		return anyTrue, true
	}
	numCmp := func(vals []decimal.Decimal) (bool, bool) {
		if q.value == "" {
			if q.cmp == "=" {
				return len(vals) == 0, true
			} else if q.cmp == "!=" {
				return len(vals) > 0, true
			}
		}
		qv, err := decimal.NewFromString(q.value)
		if err != nil {
			return false, false
		}
		anyTrue, allTrue := false, true
		for _, v := range vals {
			var r bool
			switch q.cmp {
			case "=":
				r = v.Cmp(qv) == 0
			case "!=":
				r = v.Cmp(qv) != 0
			case ">":
				r = v.Cmp(qv) > 0
			case ">=":
				r = v.Cmp(qv) >= 0
			case "<":
				r = v.Cmp(qv) < 0
			case "<=":
				r = v.Cmp(qv) <= 0
			default:
				return false, false
			}
			if r {
				anyTrue = true
			} else {
				allTrue = false
			}
		}
		if q.cmp == "!=" {
			return allTrue, true
		}
		return anyTrue, true
	}
	dateCmp := func(vals []time.Time) (bool, bool) {
		if q.value == "" {
			if q.cmp == "=" {
				return len(vals) == 0, true
			} else if q.cmp == "!=" {
				return len(vals) > 0, true
			}
		}
		qd, err := time.Parse("2006-01-02", q.value)
		if err != nil {
			return false, false
		}
		qy, qm, qdd := qd.Date()
		qn := qy*10000 + int(qm)*100 + qdd
		anyTrue, allTrue := false, true
		for _, v := range vals {
			y, m, d := v.In(tz).Date()
			n := y*10000 + int(m)*100 + d
			var r bool
			switch q.cmp {
			case "=":
				r = n == qn
			case "!=":
				r = n != qn
			case ">":
				r = n > qn
			case ">=":
				r = n >= qn
			case "<":
				r = n < qn
			case "<=":
				r = n <= qn
			default:
				return false, false
			}
			if r {
				anyTrue = true
			} else {
				allTrue = false
			}
		}
		if q.cmp == "!=" {
			return allTrue, true
		}
		return anyTrue, true
	}
	switch {
	case q.prop == "language":
		if c.Language == "" {
			return textCmp(nil)
		}
		return textCmp([]string{c.Language})
	case q.prop == "name":
		if q.cmp == "~" {
			// the documented meaning: the name and the queried text are split into words, words of fewer than 2 characters are
			// not used, and a word of the name matches a queried word when it starts with the first 8 characters of it
			words := func(s string) []string {
				var out []string
				for _, w := range strings.FieldsFunc(strings.ToLower(s), func(r rune) bool { return !unicode.IsLetter(r) && !unicode.IsNumber(r) && !unicode.IsMark(r) }) {
					rs := []rune(w)
					if len(rs) < 2 {
						if len(w) >= 2 {
							return nil // one character of several bytes: the library counts bytes here, the documentation characters
						}
						continue
					}
					if len(rs) > 8 {
						rs = rs[:8]
					}
					out = append(out, string(rs))
				}
				return out
			}
			if !refPlainWords(c.Name) || !refPlainWords(q.value) {
				return false, false
			}
			nw, qw := words(c.Name), words(q.value)
			if qw == nil {
				return false, false
			}
			for _, n := range nw {
				for _, w := range qw {
					if strings.HasPrefix(n, w) {
						return true, true
					}
				}
			}
			return false, true
		}
		if c.Name == "" {
			return textCmp(nil)
		}
		return textCmp([]string{c.Name})
	case q.prop == "urn" || refSchemes[q.prop]:
		var vals []string
		for _, u := range c.URNs {
			s, p := urnParts(u)
			if q.prop == "urn" || s == q.prop {
				vals = append(vals, p)
			}
		}
		return textCmp(vals)
	case q.prop == "tickets":
		n := decimal.Zero
		if len(c.Ticket) > 0 && string(c.Ticket) != "null" {
			n = decimal.NewFromInt(1)
		}
		return numCmp([]decimal.Decimal{n})
	case q.prop == "created_on":
		if c.CreatedOn == nil {
			return dateCmp(nil)
		}
		return dateCmp([]time.Time{*c.CreatedOn})
	case q.prop == "last_seen_on":
		if c.LastSeenOn == nil {
			return dateCmp(nil)
		}
		return dateCmp([]time.Time{*c.LastSeenOn})
	case refNumberFields[q.prop]:
		f := c.Fields[q.prop]
		if f == nil || f["number"] == nil {
			return numCmp(nil)
		}
		d, err := decimal.NewFromString(jsonNumberString(f["number"]))
		if err != nil {
			return false, false
		}
		return numCmp([]decimal.Decimal{d})
	case refTextFields[q.prop]:
		f := c.Fields[q.prop]
		if f == nil {
			return textCmp(nil)
		}
		t, _ := f["text"].(string)
		if t == "" {
			return textCmp(nil)
		}
		return textCmp([]string{t})
	case refLocationFields[q.prop]:
		// a location field is queried by the name of the location of its own level (the last step of that level's path)
		f := c.Fields[q.prop]
		if f == nil {
			return textCmp(nil)
		}
		path, _ := f[q.prop].(string) // the field keys of the pool are the names of their types
		if path == "" {
			return textCmp(nil)
		}
		steps := strings.Split(path, ">")
		return textCmp([]string{strings.TrimSpace(steps[len(steps)-1])})
	case refDateFields[q.prop]:
		f := c.Fields[q.prop]
		if f == nil || f["datetime"] == nil {
			return dateCmp(nil)
		}
		s, _ := f["datetime"].(string)
		t, err := time.Parse(time.RFC3339Nano, s)
		if err != nil {
			return false, false
		}
		return dateCmp([]time.Time{t})
	}
	return false, false
}

func jsonNumberString(v any) string {
	switch t := v.(type) {
	case json.Number:
		return t.String()
	case float64:
		return decimal.NewFromFloat(t).String()
	case string:
		return t
	}
	return ""
}
