package props

import (
	"bytes"
	"encoding/json"
	"errors"
	"fmt"
	"strings"

	"github.com/nyaruka/goflow/assets"
	"github.com/nyaruka/goflow/assets/static"
	"github.com/nyaruka/goflow/envs"
	"github.com/nyaruka/goflow/flows"
	"github.com/nyaruka/goflow/flows/engine"

	"verif/internal/drive"
	"verif/internal/fw"
	"verif/internal/gen"
)

// C10 — a rejected resume leaves the session untouched; impossible resumptions fail the session.
// Differential monitor (session JSON before/after a rejected resume; history with injected rejected resumes vs
// clean history) + fault enumeration over the asset store between sprints.

type c10 struct{ scenBase }

func init() {
	fw.Register(&c10{scenBase{id: "C10", quickN: 1500, thorN: 50000, batchQ: 100, batchT: 500}})
}

func (p *c10) Rule() string {
	return "case = one generated scenario. (1) At every state the driver reaches (waiting on msg/dial wait with/without timeout, completed, failed) every resume type (msg, wait_timeout, run_expiration, dial) with/without refreshed contact+environment is tried on the live session: if it is rejected with an *engine.Error the session JSON must be unchanged and no events produced; the history with all rejected probes injected must produce byte-identical sprints to the clean history. (2) Fault enumeration: at every wait the session JSON is restored against assets in which, in turn, the waiting flow is deleted, the waiting node deleted, its router removed, its wait removed, its exits/categories re-keyed, a parent flow deleted, and under MaxResumesPerSession 0/1, plus corrupted JSON (status waiting with no waiting run): never a panic or a Go error; impossible resumption => err==nil, status failed, failure event. Non-trivial = a resume was actually rejected or a fault made resumption impossible; distinct = SHA of the scenario."
}

func (p *c10) Directed() []string {
	names := directedNames(engineDirected())
	return append(names, "dial-wait-cells", "msg-wait-timeout-cells", "two-level-subflow-faults")
}

func (p *c10) Floors(tier string) []string {
	return []string{"clause.rejected_unchanged", "clause.rejected_no_events", "clause.followup_equal", "code.101", "code.102", "code.103",
		"fault.flow-deleted", "fault.node-deleted", "fault.router-removed", "fault.wait-removed", "fault.exits-rekeyed", "fault.parent-flow-deleted", "fault.parent-node-deleted", "fault.resume-limit", "fault.resume-limit-exact", "fault.resume-limit-plus-one", "fault.flow-unloadable", "fault.corrupt-no-waiting-run", "fault.corrupt-waiting-run-active",
		"clause.fault_no_panic_no_goerror", "clause.fault_impossible_fails"}
}

func (p *c10) Level() string { return "exploration" }

func (p *c10) scenario(c fw.Case) (*gen.Scenario, *fw.Rand) {
	r := fw.NewRand(c.Seed, "C10", c.Index)
	d := dsl
	switch c.Directed {
	case "":
		o := gen.ScenOpts{MaxNodes: r.Range(2, 6), MaxResumes: 5, LoopHeavy: r.Chance(0.3), NoRandom: false}
		if r.Chance(0.3) {
			o.FlowType = "voice"
		}
		return gen.Scen(r, o), r
	case "dial-wait-cells":
		return findDirected(engineDirected(), "voice-dial"), r
	case "msg-wait-timeout-cells":
		return &gen.Scenario{Assets: d.BaseAssets(d.Flow("A", "messaging", d.WaitNode("a1", "a2", sp("a2")), d.WaitNode("a2", "a1", nil))), Trigger: d.Manual("A", nil), Resumes: []gen.M{d.Timeout(0), d.MsgResume(1, "x"), d.MsgResume(2, "y"), d.Expiration(3)}}, r
	case "two-level-subflow-faults":
		return &gen.Scenario{Assets: d.BaseAssets(
			d.Flow("A", "messaging", d.Node("a1", []any{d.Enter("a1e", "B", false)}, nil, d.Exit("a1x", "a2")), d.Node("a2", []any{d.SendMsg("a2m", "back in A")}, nil, d.Exit("a2x", ""))),
			d.Flow("B", "messaging", d.Node("b1", []any{d.Enter("b1e", "C", false)}, nil, d.Exit("b1x", "b2")), d.Node("b2", []any{d.SendMsg("b2m", "back in B")}, nil, d.Exit("b2x", ""))),
			d.Flow("C", "messaging", d.WaitNode("c1", "c2", sp("c2")), d.Node("c2", []any{d.SendMsg("c2m", "C done")}, nil, d.Exit("c2x", ""))),
		), Trigger: d.Manual("A", nil), Resumes: []gen.M{d.MsgResume(0, "hi")}}, r
	}
	return findDirected(engineDirected(), c.Directed), r
}

func (p *c10) probes(scen *gen.Scenario) []gen.M {
	d := dsl
	nc := d.Contact()
	nc["uuid"] = scen.Trigger["contact"].(gen.M)["uuid"]
	nc["name"] = "Refreshed Name"
	nc["fields"] = gen.M{}
	delete(nc, "groups")
	env := gen.M{"date_format": "DD-MM-YYYY", "time_format": "tt:mm:ss", "timezone": "Africa/Kigali", "allowed_languages": []string{"fra"}}
	var out []gen.M
	for _, base := range []gen.M{d.MsgResume(20, "probe"), d.Timeout(21), d.Expiration(22), d.Dial(23, "answered"), d.Dial(24, "busy")} {
		out = append(out, base)
		with := gen.M{}
		for k, v := range base {
			with[k] = v
		}
		with["contact"] = nc
		with["environment"] = env
		out = append(out, with)
	}
	return out
}

type c10out struct{ events, segments, session, err string }

func (p *c10) Run(c fw.Case) fw.Result {
	res := fw.Result{}
	scen, _ := p.scenario(c)
	res.Fingerprint = scen.Fingerprint()
	viol := func(sig, what string, extra map[string]any) { res.Violate(sig, what, witnessOf(scen, extra)) }

	// pass 1: clean history
	ref, _, err := p.history(&res, scen, c.Seed, false, viol)
	if err != nil {
		res.Discarded = "unloadable: " + errClass(err.Error())
		return res
	}
	if len(ref) == 0 || ref[0].err == "unreadable" {
		res.Discarded = "unreadable trigger"
		return res
	}
	// pass 2: the same history with every rejected probe injected before each step
	got, rn, _ := p.history(&res, scen, c.Seed, true, viol)
	res.Count("clause.followup_equal", int64(len(ref)))
	if len(got) != len(ref) {
		viol("C10|followup-differs|number-of-sprints", fmt.Sprintf("history with rejected resumes injected made %d engine calls, clean history %d", len(got), len(ref)), nil)
	} else {
		for i := range ref {
			what, path := "", ""
			switch {
			case got[i].err != ref[i].err:
				what, path = "error", trunc(ref[i].err, 80)+" vs "+trunc(got[i].err, 80)
			case got[i].events != ref[i].events:
				what, path = "events", firstJSONDiff(ref[i].events, got[i].events)
			case got[i].segments != ref[i].segments:
				what, path = "segments", firstJSONDiff(ref[i].segments, got[i].segments)
			case got[i].session != ref[i].session:
				what, path = "session", firstJSONDiff(ref[i].session, got[i].session)
			}
			if what != "" {
				viol("C10|followup-differs|"+what+"|"+stripIndices(path), fmt.Sprintf("after rejected resumes, the valid resume #%d behaves differently than in the clean history: %s at %s", i, what, path), map[string]any{"sprint": i})
				break
			}
		}
	}
	if res.NonTrivial && rn != nil {
		res.Sample = scenSample(scen, rn)
	}
	return res
}

// history runs the scenario; with inject=true every probe resume is first tried on the live session.
func (p *c10) history(res *fw.Result, scen *gen.Scenario, seed int64, inject bool, viol func(sig, what string, extra map[string]any)) ([]c10out, *drive.Runner, error) {
	rn, err := drive.Load(scen, seed)
	if err != nil {
		return nil, nil, err
	}
	var out []c10out
	record := func(rec *drive.CallRecord) {
		o := c10out{session: normKnownNondet(string(rec.SessionAfter)), events: normKnownNondet(string(bytes.Join(rec.EventsJSON, []byte("\n")))), segments: string(bytes.Join(rec.SegmentsJSON, []byte("\n")))}
		switch {
		case rec.Kind == "unreadable":
			o.err = "unreadable"
		case rec.Panic != nil:
			o.err = "panic: " + fmt.Sprint(rec.Panic)
		case rec.Budget:
			o.err = "budget"
		case rec.Err != nil:
			o.err = rec.Err.Error()
		}
		out = append(out, o)
		if !inject {
			observeCommon(res, rec)
		}
	}
	probeAll := func() {
		if rn.Session == nil {
			return
		}
		for _, pm := range p.probes(scen) {
			st := rn.Src.Snapshot()
			data, _ := json.Marshal(pm)
			rs, err := rn.ReadResume(data)
			if err != nil {
				rn.Src.Restore(st)
				continue
			}
			// would it be accepted? decide on a twin restored from the JSON so that the live session is only given rejected resumes
			before := marshalJSON(rn.Session)
			twin, terr := rn.Eng.ReadSession(rn.SA, before, func(assets.Reference, error) {})
			if terr != nil {
				rn.Src.Restore(st)
				continue
			}
			var tErr error
			var tPanic any
			func() {
				defer func() { tPanic = recover() }()
				_, tErr = twin.Resume(rs)
			}()
			rn.Src.Restore(st)
			var ee *engine.Error
			if tPanic != nil || tErr == nil || !errors.As(tErr, &ee) {
				continue // accepted (or failed the session) on the twin: not a rejected resume
			}
			// the twin itself must be untouched too
			res.Count("clause.rejected_unchanged", 1)
			if after := marshalJSON(twin); string(after) != string(before) {
				viol("C10|rejected-resume-changed-session|reread|"+fmt.Sprint(ee.Code())+"|"+stripIndices(firstJSONDiff(string(before), string(after))), "a resume rejected with engine error "+fmt.Sprint(ee.Code())+" changed the (re-read) session JSON", map[string]any{"resume": pm, "before": trunc(string(before), 5000), "after": trunc(string(after), 5000)})
			}
			// now the live session
			var sprint flows.Sprint
			var lErr error
			var lPanic any
			func() {
				defer func() { lPanic = recover() }()
				sprint, lErr = rn.Session.Resume(rs)
			}()
			rn.Src.Restore(st)
			after := marshalJSON(rn.Session)
			res.Count(fmt.Sprintf("code.%d", ee.Code()), 1)
			res.Count("probe."+fmt.Sprint(pm["type"])+"."+string(rn.Session.Status()), 1)
			res.NonTrivial = true
			var le *engine.Error
			if lPanic != nil || lErr == nil || !errors.As(lErr, &le) || le.Code() != ee.Code() {
				viol("C10|live-and-reread-disagree-on-rejection|"+fmt.Sprint(ee.Code()), fmt.Sprintf("resume rejected (%d) on the re-read session but on the live session: panic=%v err=%v", ee.Code(), lPanic, lErr), map[string]any{"resume": pm})
				continue
			}
			res.Count("clause.rejected_unchanged", 1)
			if string(after) != string(before) {
				viol("C10|rejected-resume-changed-session|live|"+fmt.Sprint(ee.Code())+"|"+stripIndices(firstJSONDiff(string(before), string(after))), "a resume rejected with engine error "+fmt.Sprint(ee.Code())+" changed the session JSON", map[string]any{"resume": pm, "before": trunc(string(before), 5000), "after": trunc(string(after), 5000)})
			}
			res.Count("clause.rejected_no_events", 1)
			if sprint != nil && (len(sprint.Events()) > 0 || len(sprint.Segments()) > 0) {
				viol("C10|rejected-resume-produced-events|"+fmt.Sprint(ee.Code()), "a rejected resume returned a sprint with events or segments", map[string]any{"resume": pm})
			}
		}
	}

	rec := rn.Start()
	record(rec)
	if !rec.OK() {
		return out, rn, nil
	}
	for _, m := range scen.Resumes {
		if inject {
			probeAll()
			if rn.Waiting() {
				p.faults(res, scen, rn, m, viol)
			}
		}
		if !rn.Waiting() {
			break
		}
		rec := rn.Resume(m)
		record(rec)
		if rec.Panic != nil || rec.Budget {
			break
		}
	}
	if inject {
		probeAll() // final state: waiting, completed or failed
	}
	return out, rn, nil
}

// ---------------------------------------------------------------------------------------
// fault enumeration

func deepCopy(m gen.M) gen.M {
	b, _ := json.Marshal(m)
	var out map[string]any
	json.Unmarshal(b, &out)
	return out
}

type waitingLoc struct {
	flowUUID, nodeUUID string
	parentFlows        []string
	parentNodes        []string // node at which each ancestor run is paused (parallel to the ancestors walked)
	parentNodeFlows    []string
}

func findWaiting(sessionJSON []byte) *waitingLoc {
	var s struct {
		Runs []struct {
			UUID       string `json:"uuid"`
			Status     string `json:"status"`
			ParentUUID string `json:"parent_uuid"`
			Flow       struct {
				UUID string `json:"uuid"`
			} `json:"flow"`
			Path []struct {
				NodeUUID string `json:"node_uuid"`
			} `json:"path"`
		} `json:"runs"`
	}
	if json.Unmarshal(sessionJSON, &s) != nil {
		return nil
	}
	byUUID := map[string]int{}
	for i, r := range s.Runs {
		byUUID[r.UUID] = i
	}
	for _, r := range s.Runs {
		if r.Status == "waiting" && len(r.Path) > 0 {
			w := &waitingLoc{flowUUID: r.Flow.UUID, nodeUUID: r.Path[len(r.Path)-1].NodeUUID}
			for pu := r.ParentUUID; pu != ""; {
				i, ok := byUUID[pu]
				if !ok {
					break
				}
				if s.Runs[i].Flow.UUID != w.flowUUID {
					w.parentFlows = append(w.parentFlows, s.Runs[i].Flow.UUID)
				}
				if n := len(s.Runs[i].Path); n > 0 && !(s.Runs[i].Flow.UUID == w.flowUUID && s.Runs[i].Path[n-1].NodeUUID == w.nodeUUID) {
					w.parentNodes = append(w.parentNodes, s.Runs[i].Path[n-1].NodeUUID)
					w.parentNodeFlows = append(w.parentNodeFlows, s.Runs[i].Flow.UUID)
				}
				pu = s.Runs[i].ParentUUID
			}
			return w
		}
	}
	return nil
}

// faultAssets returns the scenario's assets with one fault applied (nil if the fault does not apply).
func faultAssets(scen *gen.Scenario, kind string, w *waitingLoc, r *fw.Rand) gen.M {
	a := deepCopy(scen.Assets)
	fl, _ := a["flows"].([]any)
	findFlow := func(uuid string) (int, map[string]any) {
		for i, f := range fl {
			if f.(map[string]any)["uuid"] == uuid {
				return i, f.(map[string]any)
			}
		}
		return -1, nil
	}
	fi, flow := findFlow(w.flowUUID)
	if flow == nil {
		return nil
	}
	nodes, _ := flow["nodes"].([]any)
	var node map[string]any
	ni := -1
	for i, n := range nodes {
		if n.(map[string]any)["uuid"] == w.nodeUUID {
			node, ni = n.(map[string]any), i
		}
	}
	switch kind {
	case "flow-deleted":
		a["flows"] = append(append([]any{}, fl[:fi]...), fl[fi+1:]...)
	case "flow-unloadable":
		// the flow is still there but was changed so that it no longer loads (a dangling destination / a newer spec version)
		if r.Bool() && len(nodes) > 0 {
			ex := nodes[r.Intn(len(nodes))].(map[string]any)["exits"].([]any)
			ex[0].(map[string]any)["destination_uuid"] = gen.UUID4(r)
		} else {
			flow["spec_version"] = "99.0.0"
		}
	case "parent-flow-deleted":
		if len(w.parentFlows) == 0 {
			return nil
		}
		pi, _ := findFlow(w.parentFlows[0])
		if pi < 0 {
			return nil
		}
		a["flows"] = append(append([]any{}, fl[:pi]...), fl[pi+1:]...)
	case "parent-node-deleted":
		if len(w.parentNodes) == 0 {
			return nil
		}
		_, pf := findFlow(w.parentNodeFlows[0])
		if pf == nil {
			return nil
		}
		pn, _ := pf["nodes"].([]any)
		var keep []any
		for _, n := range pn {
			if n.(map[string]any)["uuid"] != w.parentNodes[0] {
				keep = append(keep, n)
			}
		}
		if len(keep) == len(pn) {
			return nil
		}
		if keep == nil {
			keep = []any{}
		}
		pf["nodes"] = keep
		for _, n := range keep {
			for _, e := range n.(map[string]any)["exits"].([]any) {
				if e.(map[string]any)["destination_uuid"] == w.parentNodes[0] {
					delete(e.(map[string]any), "destination_uuid")
				}
			}
		}
	case "node-deleted":
		if node == nil {
			return nil
		}
		flow["nodes"] = append(append([]any{}, nodes[:ni]...), nodes[ni+1:]...)
		for _, n := range flow["nodes"].([]any) {
			for _, e := range n.(map[string]any)["exits"].([]any) {
				if e.(map[string]any)["destination_uuid"] == w.nodeUUID {
					delete(e.(map[string]any), "destination_uuid")
				}
			}
		}
	case "router-removed":
		if node == nil {
			return nil
		}
		delete(node, "router")
	case "wait-removed":
		if node == nil {
			return nil
		}
		rt, _ := node["router"].(map[string]any)
		if rt == nil {
			return nil
		}
		delete(rt, "wait")
	case "exits-rekeyed":
		if node == nil {
			return nil
		}
		rt, _ := node["router"].(map[string]any)
		if rt == nil {
			return nil
		}
		re := map[string]string{}
		for _, e := range node["exits"].([]any) {
			em := e.(map[string]any)
			nu := gen.UUID4(r)
			re[em["uuid"].(string)] = nu
			em["uuid"] = nu
		}
		rc := map[string]string{}
		for _, c := range rt["categories"].([]any) {
			cm := c.(map[string]any)
			nu := gen.UUID4(r)
			rc[cm["uuid"].(string)] = nu
			cm["uuid"] = nu
			if eu, ok := cm["exit_uuid"].(string); ok {
				cm["exit_uuid"] = re[eu]
			}
		}
		if d, ok := rt["default_category_uuid"].(string); ok {
			rt["default_category_uuid"] = rc[d]
		}
		if cs, ok := rt["cases"].([]any); ok {
			for _, c := range cs {
				cm := c.(map[string]any)
				cm["category_uuid"] = rc[cm["category_uuid"].(string)]
			}
		}
		if wt, ok := rt["wait"].(map[string]any); ok {
			if to, ok := wt["timeout"].(map[string]any); ok {
				to["category_uuid"] = rc[to["category_uuid"].(string)]
			}
		}
	}
	return a
}

var faultKinds = []string{"flow-deleted", "flow-unloadable", "node-deleted", "router-removed", "wait-removed", "exits-rekeyed", "parent-flow-deleted", "parent-node-deleted", "resume-limit", "resume-limit-exact", "resume-limit-plus-one", "corrupt-no-waiting-run", "corrupt-waiting-run-active"}

// faults restores the waiting session against faulted assets and resumes it with the next valid resume.
func (p *c10) faults(res *fw.Result, scen *gen.Scenario, rn *drive.Runner, next gen.M, viol func(sig, what string, extra map[string]any)) {
	st := rn.Src.Snapshot()
	defer rn.Src.Restore(st)
	sessionJSON := marshalJSON(rn.Session)
	w := findWaiting(sessionJSON)
	if w == nil {
		return
	}
	r := fw.NewRand(1, "C10faults", len(sessionJSON))
	// what the same resume does WITHOUT any fault (on a twin restored against the original assets): a Go error that
	// also occurs there (e.g. a resthook payload that evaluates to invalid JSON) is not caused by the fault
	cleanGoErr := ""
	if twin, err := rn.Eng.ReadSession(rn.SA, sessionJSON, func(assets.Reference, error) {}); err == nil {
		nd, _ := json.Marshal(next)
		if rs, err := resumesRead(rn.SA, nd); err == nil {
			func() {
				defer func() { recover() }()
				if _, e := twin.Resume(rs); e != nil {
					var ee *engine.Error
					if !errors.As(e, &ee) {
						cleanGoErr = errClass(e.Error())
					}
				}
			}()
		}
	}
	for _, kind := range faultKinds {
		rn.Src.Restore(st)
		eng := rn.Eng
		data := sessionJSON
		var sa flows.SessionAssets = rn.SA
		impossible := false
		switch kind {
		case "resume-limit", "resume-limit-exact", "resume-limit-plus-one":
			o := scen.Options
			o.Set = true
			o.MaxSteps, o.MaxTemplateChars, o.MaxFieldChars, o.MaxResultChars = 100, 10000, 640, 640
			// the engine counts the wait events of ALL runs of the session, also of runs that have exited
			nWaits := strings.Count(string(sessionJSON), `_wait","created_on"`) + strings.Count(string(sessionJSON), `_wait", "created_on"`)
			if nWaits == 0 {
				nWaits = strings.Count(string(sessionJSON), `_wait"`)
			}
			switch kind {
			case "resume-limit":
				o.MaxResumes = r.Intn(2)
				impossible = true
			case "resume-limit-exact":
				o.MaxResumes = nWaits // limit reached exactly: resumption is impossible
				impossible = true
			default:
				o.MaxResumes = nWaits + 1 // one below the limit: the limit must not be what stops this resume
			}
			eng = drive.NewEngine(o)
		case "corrupt-waiting-run-active":
			var m map[string]any
			json.Unmarshal(sessionJSON, &m)
			if runs, ok := m["runs"].([]any); ok {
				for _, rr := range runs {
					if rm := rr.(map[string]any); rm["status"] == "waiting" {
						rm["status"] = "active"
					}
				}
			}
			data, _ = json.Marshal(m)
		case "corrupt-no-waiting-run":
			data = []byte(strings.Replace(string(sessionJSON), `"status":"waiting","uuid"`, `"status":"completed","uuid"`, -1))
			// only the run status is changed (run envelopes carry status before uuid); the session stays "waiting"
			var probe struct {
				Status string `json:"status"`
				Runs   []struct {
					Status string `json:"status"`
				} `json:"runs"`
			}
			json.Unmarshal(data, &probe)
			still := false
			for _, rr := range probe.Runs {
				if rr.Status == "waiting" {
					still = true
				}
			}
			if still || probe.Status != "waiting" {
				// fall back to a structural edit
				var m map[string]any
				json.Unmarshal(sessionJSON, &m)
				if runs, ok := m["runs"].([]any); ok {
					for _, rr := range runs {
						if rm := rr.(map[string]any); rm["status"] == "waiting" {
							rm["status"] = "completed"
							rm["exited_on"] = "2018-07-06T12:30:00Z"
						}
					}
				}
				m["status"] = "waiting"
				data, _ = json.Marshal(m)
			}
		default:
			fa := faultAssets(scen, kind, w, r)
			if fa == nil {
				continue
			}
			fb, _ := json.Marshal(fa)
			src, err := static.NewSource(fb)
			if err != nil {
				continue
			}
			sa, err = engine.NewSessionAssets(envs.NewBuilder().Build(), src, nil)
			if err != nil {
				continue
			}
			// the faulted definition must itself still load (a fault that makes the flow invalid is the asset store's problem, not the engine's)
			if kind == "parent-node-deleted" {
				if _, err := sa.Flows().Get(assets.FlowUUID(w.parentNodeFlows[0])); err != nil {
					res.Count("fault_skipped_invalid_definition."+kind, 1)
					continue
				}
			}
			if kind == "flow-unloadable" {
				if _, err := sa.Flows().Get(assets.FlowUUID(w.flowUUID)); err == nil {
					res.Count("fault_skipped_still_loadable."+kind, 1)
					continue
				}
			} else if kind != "flow-deleted" {
				if _, err := sa.Flows().Get(assets.FlowUUID(w.flowUUID)); err != nil {
					res.Count("fault_skipped_invalid_definition."+kind, 1)
					continue
				}
			}
			impossible = kind == "flow-deleted" || kind == "flow-unloadable" || kind == "node-deleted" || kind == "router-removed" || kind == "wait-removed"
		}
		res.Count("fault."+kind, 1)
		x := map[string]any{"fault": kind, "waiting_flow": w.flowUUID, "waiting_node": w.nodeUUID, "resume": next, "session": trunc(string(sessionJSON), 6000)}

		var s flows.Session
		var rerr error
		var pan any
		func() {
			defer func() { pan = recover() }()
			s, rerr = eng.ReadSession(sa, data, func(assets.Reference, error) {})
		}()
		res.Count("clause.fault_no_panic_no_goerror", 1)
		if pan != nil {
			viol("C10|fault|"+kind+"|ReadSession-panic|"+fw.PanicKind(fmt.Sprint(pan)), fmt.Sprintf("ReadSession against faulted assets (%s) panicked: %v", kind, pan), x)
			continue
		}
		if rerr != nil {
			viol("C10|fault|"+kind+"|ReadSession-error|"+errClass(rerr.Error()), fmt.Sprintf("ReadSession against faulted assets (%s) returned a Go error: %s", kind, trunc(rerr.Error(), 200)), x)
			continue
		}
		nd, _ := json.Marshal(next)
		rs, err := resumesRead(sa, nd)
		if err != nil {
			continue
		}
		var sprint flows.Sprint
		var err2 error
		func() {
			defer func() { pan = recover() }()
			sprint, err2 = s.Resume(rs)
		}()
		if pan != nil {
			viol("C10|fault|"+kind+"|Resume-panic|"+fw.PanicKind(fmt.Sprint(pan)), fmt.Sprintf("Resume after fault %s panicked: %v", kind, pan), x)
			continue
		}
		var ee *engine.Error
		isReject := err2 != nil && errors.As(err2, &ee)
		if isReject {
			res.Count(fmt.Sprintf("code.%d", ee.Code()), 1)
		}
		if kind == "corrupt-no-waiting-run" || kind == "corrupt-waiting-run-active" {
			if !isReject || ee.Code() != engine.ErrorResumeNoWaitingRun {
				viol("C10|fault|"+kind+"|not-rejected", fmt.Sprintf("a waiting session without a waiting run was not rejected with ErrorResumeNoWaitingRun: err=%v", err2), x)
			} else {
				res.NonTrivial = true
				res.Count("clause.rejected_unchanged", 1)
				var b1, b2 any
				json.Unmarshal(data, &b1)
				json.Unmarshal(marshalJSON(s), &b2)
				if string(marshalJSON(b1)) != string(marshalJSON(b2)) {
					// compare against a clean re-read (marshal normalises)
					s0, _ := eng.ReadSession(sa, data, func(assets.Reference, error) {})
					if s0 != nil && string(marshalJSON(s0)) != string(marshalJSON(s)) {
						viol("C10|rejected-resume-changed-session|reread|102|"+kind, "a resume rejected with ErrorResumeNoWaitingRun changed the session JSON", x)
					}
				}
			}
			continue
		}
		if err2 != nil && !isReject {
			if cleanGoErr != "" && errClass(err2.Error()) == cleanGoErr {
				res.Count("fault_goerror_also_without_fault", 1)
				continue
			}
			if kind == "exits-rekeyed" {
				res.Count("fault_goerror_changed_but_resumable."+kind, 1) // outside the statement's list: observed, not judged
				continue
			}
			viol("C10|fault|"+kind+"|Resume-go-error|"+errClass(err2.Error()), fmt.Sprintf("Resume after fault %s returned a Go error instead of failing the session: %s", kind, trunc(err2.Error(), 200)), x)
			continue
		}
		if kind == "resume-limit-plus-one" && sprint != nil {
			res.Count("clause.fault_limit_not_reached_yet", 1)
			for _, e := range sprint.Events() {
				if e.Type() == "failure" && strings.Contains(eventText(e), "maximum number of resumes") {
					viol("C10|fault|resume-limit-plus-one|failed-below-limit", "the session was failed for the resume limit although one more resume was allowed", x)
				}
			}
		}
		if impossible {
			res.Count("clause.fault_impossible_fails", 1)
			if isReject {
				// a wait that does not accept this resume type is checked before... no: flow/limit/node/wait checks come first
				if kind == "resume-limit" || kind == "resume-limit-exact" || kind == "flow-deleted" || kind == "flow-unloadable" || kind == "node-deleted" || kind == "router-removed" || kind == "wait-removed" {
					viol("C10|fault|"+kind+"|rejected-instead-of-failed", fmt.Sprintf("resumption is impossible (%s) but the resume was rejected with %d instead of failing the session", kind, ee.Code()), x)
				}
				continue
			}
			failure := false
			if sprint != nil {
				for _, e := range sprint.Events() {
					if e.Type() == "failure" {
						failure = true
					}
				}
			}
			if s.Status() != flows.SessionStatusFailed || !failure {
				viol("C10|fault|"+kind+"|not-failed", fmt.Sprintf("resumption is impossible (%s) but session status=%s, failure event=%v", kind, s.Status(), failure), x)
			} else {
				res.NonTrivial = true
				// the failed session must still be well-formed (C01's clause on live runs)
				for _, run := range s.Runs() {
					if run.Status() == flows.RunStatusActive || run.Status() == flows.RunStatusWaiting {
						viol("C10|fault|"+kind+"|live-run-in-failed-session", "session failed because resumption is impossible but a run is still "+string(run.Status()), x)
					}
				}
			}
		}
	}
}
